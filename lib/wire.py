"""Shared pipeline for the frame-layout properties C01, C02, C03, C05.

TLC evaluates WireShapes.tla (one process per protocol version, in parallel): for every abstract frame of the case
space it prints the abstract frame and the chunk sequence the protocol documents prescribe.  The harness (`wire`)
builds the real frame, encodes / decodes it through every path and reports violations tagged with the property they
contradict.  WireHeader.tla supplies the accept/reject table for all 2^16 (version byte, opcode) headers.
"""
import json
import os
import subprocess
import time
from concurrent.futures import ThreadPoolExecutor

from common import Infra, harness_json, log, marker_json, require_ok, run_tlc, SPECS
import shutil

VERSIONS = [2, 3, 4, 5, 65, 66]


def emit_vectors(scratch, tier):
    for f in os.listdir(SPECS):
        if f.endswith((".tla", ".cfg")):
            shutil.copyfile(os.path.join(SPECS, f), scratch.file(f))

    def one(v):
        cfg = "WireShapes-%d.cfg" % v
        with open(scratch.file(cfg), "w") as f:
            f.write("SPECIFICATION Spec\nCONSTANTS\n  Thorough = %s\n  OnlyVersions = {%d}\nCHECK_DEADLOCK FALSE\n" % (
                "TRUE" if tier == "thorough" else "FALSE", v))
        raw = scratch.file("wire-%d.raw" % v)
        res = run_tlc(scratch, "WireShapes", cfg=cfg, marker='"VEC"', outfile=raw, workers=1, copy=False, timeout=3000)
        return v, res, raw

    out = scratch.file("wire.ndjson")
    n = 0
    wall = 0
    with ThreadPoolExecutor(len(VERSIONS)) as ex, open(out, "w") as g:
        for v, res, raw in ex.map(one, VERSIONS):
            require_ok(res, "WireShapes v=%d" % v)
            wall = max(wall, res.wall)
            with open(raw) as f:
                chunk = []
                for line in f:
                    chunk.append(line)
                    if len(chunk) >= 2000:
                        for j in marker_json(chunk, '"VEC"'):
                            g.write(json.dumps(j) + "\n")
                            n += 1
                        chunk = []
                for j in marker_json(chunk, '"VEC"'):
                    g.write(json.dumps(j) + "\n")
                    n += 1
            os.remove(raw)
    log("TLC WireShapes: %d vectors (abstract frame + prescribed chunks) for %d versions (%.0fs)" % (n, len(VERSIONS), wall))
    return out, n


def header_table(scratch):
    res = require_ok(run_tlc(scratch, "WireHeader", marker='"HDR"', workers=1), "WireHeader")
    rows = marker_json(res.lines, '"HDR"')
    path = scratch.file("hdr.ndjson")
    with open(path, "w") as f:
        for r in rows:
            f.write(json.dumps(r) + "\n")
    return path


def run_wire(scratch, harness, tier, with_headers=False):
    """Returns (report dict of the vector run, report of the header run or None, number of vectors)."""
    vec, n = emit_vectors(scratch, tier)
    rep = harness_json(harness, ["wire", "-vec", vec], timeout=7200)
    hrep = None
    if with_headers:
        hrep = harness_json(harness, ["wire-headers", "-table", header_table(scratch)])
    return rep, hrep, n

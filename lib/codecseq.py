"""Pipeline for CodecSeq.tla: history independence of the codecs (shared by C01, C03, C05, C06, C08).

TLC enumerates every history of calls over the harness's alphabet up to a length bound (successful calls, calls made to
fail half way, results the caller keeps and uses later), checks Independent / Stable in every state, and prints the
maximal histories; `harness codecseq` executes each history on real codec instances and compares every result with that
of the same call made alone. The companion configuration Hidden = TRUE (a scratch buffer that failed calls leave dirty
and held results alias) must violate the invariants (negative control)."""
import json
import os
import subprocess

from common import Infra, harness_json, log, marker_json, run_tlc


def tla_set_of_ops(ops):
    return "{" + ", ".join('[n |-> "%s", k |-> "%s"]' % (o["n"], o["k"]) for o in ops) + "}"


def run_codecseq(scratch, h, tier, prop):
    p = subprocess.run([h, "codecseq", "-list"], stdout=subprocess.PIPE, stderr=subprocess.PIPE, text=True)
    if p.returncode != 0:
        raise Infra("harness codecseq -list failed: " + p.stderr[-2000:])
    ops = json.loads(p.stdout.strip().split("\n")[-1])
    # the operations that concern this property, plus every failing / holding one (the disturbances)
    mine = [o for o in ops if prop in o["props"]]
    others = [o for o in ops if prop not in o["props"] and o["k"] in ("fail", "hold")]
    # (the whole alphabet at length 4 would be 1.7 M histories; the property's own operations and every disturbance are kept)
    alphabet, maxlen = mine + others, (3 if tier == "quick" else 4)
    if any(o["k"] == "use" for o in alphabet) and not any(o["k"] == "hold" for o in alphabet):
        alphabet = [o for o in alphabet if o["k"] != "use"]
    with open(scratch.file("CodecSeqMC.tla"), "w") as f:
        f.write("---- MODULE CodecSeqMC ----\nEXTENDS CodecSeq\nOpsDef == %s\n====\n" % tla_set_of_ops(alphabet))
    for name, hidden in (("CodecSeqMC.cfg", "FALSE"), ("CodecSeqHidden.cfg", "TRUE")):
        with open(scratch.file(name), "w") as f:
            f.write("SPECIFICATION Spec\nCONSTANTS\n  Ops <- OpsDef\n  MaxLen = %d\n  Hidden = %s\nINVARIANTS Independent Stable Emit\nCHECK_DEADLOCK FALSE\n" % (
                maxlen if hidden == "FALSE" else 3, hidden))
    raw = scratch.file("codecseq.raw")
    res = run_tlc(scratch, "CodecSeqMC", cfg="CodecSeqMC.cfg", marker='"HIST"', outfile=raw, timeout=3600, copy=True)
    if not res.ok:
        raise Infra("CodecSeq: TLC reports %s inside the specification\n%s" % (res.violated, res.stdout[-3000:]))
    neg = run_tlc(scratch, "CodecSeqMC", cfg="CodecSeqHidden.cfg", marker='"HIST"', outfile=scratch.file("codecseq.neg.raw"), timeout=3600, copy=False)
    os.remove(scratch.file("codecseq.neg.raw"))
    if neg.violated not in ("Independent", "Stable"):
        raise Infra("CodecSeq negative control: TLC found no violation with the hidden scratch buffer (%s)" % neg.violated)
    hist = scratch.file("codecseq.hist.ndjson")
    n = 0
    seen = set()
    with open(hist, "w") as g, open(raw) as f:
        chunk = []

        def flush():
            nonlocal n
            for j in marker_json(chunk, '"HIST"'):
                k = json.dumps(j, sort_keys=True)
                if k in seen:
                    continue
                seen.add(k)
                g.write(k + "\n")
                n += 1
            del chunk[:]
        for line in f:
            chunk.append(line)
            if len(chunk) >= 5000:
                flush()
        flush()
    os.remove(raw)
    rep = harness_json(h, ["codecseq", "-hist", hist, "-props", prop], timeout=3600)
    os.remove(hist)
    out = dict(violations=[dict(sig=v["sig"], detail=v["detail"], replay=v["replay"]) for v in rep["violations"]],
               states=res.distinct, histories=n, max_len=maxlen, alphabet=[o["n"] for o in alphabet], distinct_prefixes=rep["distinct"],
               negative_control=neg.violated,
               rule="CodecSeq.tla: the codecs have no memory - every history of calls up to the length bound over the alphabet (successful "
                    "calls, calls made to fail half way: broken writer / refused frame / truncated input, raw frames the caller keeps and "
                    "encodes later) is executed on real codec instances; every result equals that of the same call made alone, every failing "
                    "call fails, every held raw frame reads as it was returned after every step")
    log("CodecSeq: %d states, %d histories of length %d over %d operations executed on real codecs, %d distinct prefixes; %d violations for %s (negative control: %s)" % (
        res.distinct, n, maxlen, len(alphabet), rep["distinct"], len(out["violations"]), prop, neg.violated))
    return out

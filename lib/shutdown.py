"""Pipeline for ConnShutdown.tla / ConnShutdownTrace.tla (C16, the windows narrower than a gate).

TLC checks the design of the connection shutdown (closed flag, channel fields, channels, in-flight handler, the loops)
for panics, stuck loops, refused later sends, completion of pending requests and termination of Close - and finds the
panic and the stuck loop in the as-found variant (negative controls). Real client and server connections are then
closed thousands of times under free-running senders, receivers and event traffic (harness/connstress_test.go); a crash
of that process, a call that does not return or a request left open is a violation; the trace points recorded inside
the critical sections are validated by TLC against the guards the design satisfies (ConnShutdownTrace.tla)."""
import json
import os
import re
import subprocess

from common import Infra, log, marker_json, run_tlc, seed


def model_check(scratch):
    res = run_tlc(scratch, "ConnShutdown", cfg="ConnShutdown.cfg", workers=8, timeout=1200)
    if not res.ok:
        raise Infra("ConnShutdown: TLC reports %s in the as-built design\n%s" % (res.violated, res.stdout[-3000:]))
    neg = {}
    for cfg, inv in (("ConnShutdownAsFoundPanic.cfg", "NoPanic"), ("ConnShutdownAsFoundStuck.cfg", "NoStuckLoop"), ("ConnShutdownAsFoundOrphan.cfg", "AllCompleted")):
        r = run_tlc(scratch, "ConnShutdown", cfg=cfg, workers=4, timeout=600, copy=False)
        if r.violated != inv:
            raise Infra("negative control %s: expected a violation of %s in the as-found design, TLC says %s" % (cfg, inv, r.violated))
        neg[cfg] = r.violated
    return res, neg


def stress(scratch, testbin, iterations, traces):
    out = dict(iterations=0, sends=0, accepted=0, events=0, traces=0, violations=[], runs=[])
    for test in ("TestConnCloseStress", "TestServerConnCloseStress", "TestConnCloseDuringDelivery"):
        env = dict(os.environ, VERIF_STRESS=str(iterations if test != "TestConnCloseDuringDelivery" else 60), VERIF_SEED=str(seed()), VERIF_TRACE_OUT=traces)
        p = subprocess.run([testbin, "-test.run", "^%s$" % test, "-test.timeout", "3h"], env=env, stdout=subprocess.PIPE, stderr=subprocess.STDOUT,
                           text=True, errors="replace")
        side = "client" if test == "TestConnCloseStress" else "server"
        rl = [l for l in p.stdout.split("\n") if l.startswith(("STRESS ", "GSTRESS "))]
        if not rl:
            # the process died: a panic in a goroutine of the library is a verdict by itself (the stack says where)
            txt = p.stdout
            m = re.search(r"^(panic: .*|fatal error: .*)$", txt, re.M)
            lib = re.search(r"go-cassandra-native-protocol/client\.\(\*\w+\)\.(\w+)", txt)
            if m and lib:
                out["violations"].append(dict(sig="shutdown|%s|crash|%s|%s" % (side, m.group(1)[:40].replace(" ", "-"), lib.group(1)),
                                              detail="%s connection closed under load: the process died: %s in %s; %s" % (side, m.group(1), lib.group(0), txt[txt.find(m.group(1)):][:1500]),
                                              replay=dict(check="shutdown", test=test, iterations=iterations, seed=seed())))
                continue
            raise Infra("%s: no report and no library panic:\n%s" % (test, txt[-3000:]))
        rep = json.loads(rl[0][rl[0].index(" ") + 1:])
        if test == "TestConnCloseDuringDelivery":
            # the counterexample of ConnShutdownAsFoundOrphan.cfg forced onto a real connection through the gates
            for prob in rep.get("problems") or []:
                out["violations"].append(dict(sig="shutdown|close-during-delivery|%s" % re.sub(r"[^a-zA-Z]+", "-", re.sub(r"iteration \d+: ", "", prob))[:60], detail=prob,
                                              replay=dict(check="shutdown", test=test)))
            out["runs"].append(dict(test=test, iterations=rep["iterations"]))
            continue
        for k in ("iterations", "sends", "accepted", "events", "traces"):
            out[k] += rep[k]
        for prob in rep.get("problems") or []:
            kind = re.sub(r"iteration \d+ \((\S+)\): ", "", prob)
            out["violations"].append(dict(sig="shutdown|%s|%s" % (side, re.sub(r"[^a-zA-Z]+", "-", kind)[:60]), detail=prob,
                                          replay=dict(check="shutdown", test=test, iterations=iterations, seed=seed())))
        out["runs"].append(dict(test=test, **{k: rep[k] for k in ("iterations", "kinds", "sends", "accepted", "events", "traces")}))
    return out


def validate(scratch, traces):
    """TLC judges the recorded trace points; a corrupted copy of the first trace is appended as a control and must be
    the only rejection."""
    lines = open(traces).read().split("\n")
    lines = [l for l in lines if l]
    nums = [json.loads(l)["trace"] for l in lines if '"reset"' in l]
    if not nums:
        raise Infra("no traces recorded")
    # renumber (two test functions append to the same file)
    out, k = [], 0
    first = None
    cur = []
    for l in lines:
        j = json.loads(l)
        if j["a"] == "reset":
            if first is None and cur and any(x["a"].endswith("enqueue") for x in cur) and any(x["a"].endswith("chans.closed") for x in cur):
                first = cur
            k += 1
            j["trace"] = k
            cur = []
        else:
            cur.append(j)
        j.setdefault("id", 0)
        out.append(j)
    control = None
    if first:
        # the control: the same events with an enqueue moved behind the closing of the channels
        enq = next(x for x in first if x["a"].endswith("enqueue"))
        rest = [x for x in first if x is not enq]
        idx = next(i for i, x in enumerate(rest) if x["a"].endswith("chans.closed"))
        bad = rest[:idx + 1] + [enq] + rest[idx + 1:]
        k += 1
        control = k
        out.append(dict(a="reset", trace=k, id=0))
        out += bad
    path = traces + ".numbered"
    with open(path, "w") as f:
        for j in out:
            f.write(json.dumps(j) + "\n")
    with open(scratch.file("ConnShutdownTrace.cfg"), "w") as f:
        f.write("SPECIFICATION TSpec\nINVARIANTS Report\nCHECK_DEADLOCK FALSE\n")
    res = run_tlc(scratch, "ConnShutdownTrace", cfg="ConnShutdownTrace.cfg", workers=1, marker='"REJECTED"', copy=False, env=dict(TRACE=path), timeout=3600)
    if not res.ok:
        raise Infra("ConnShutdownTrace: TLC reported %s\n%s" % (res.violated, res.stdout[-3000:]))
    rj = marker_json(res.lines, '"REJECTED"')
    if not rj:
        raise Infra("ConnShutdownTrace: trace file not consumed to the end\n" + res.stdout[-3000:])
    rejected = {r[0]: r for o in rj for r in o["r"]}
    if control is not None:
        if control not in rejected:
            raise Infra("ConnShutdownTrace: the corrupted control trace was accepted - the validation is vacuous")
        del rejected[control]
    os.remove(path)
    return rejected, k - (1 if control else 0), len(out), control is not None


def run_shutdown(scratch, tier, testbin):
    res, neg = model_check(scratch)
    traces = scratch.file("shutdown.traces.ndjson")
    if os.path.exists(traces):
        os.remove(traces)
    st = stress(scratch, testbin, 6000 if tier == "quick" else 150000, traces)
    viol = list(st["violations"])
    rejected, ntraces, nevents, control = ({}, 0, 0, False)
    if os.path.exists(traces) and os.path.getsize(traces) > 0:
        rejected, ntraces, nevents, control = validate(scratch, traces)
        for t, r in sorted(rejected.items()):
            viol.append(dict(sig="shutdown|trace-rejected|%s" % r[2], detail="trace %d of a real connection being closed: event #%d (%s, id %s) is not allowed by ConnShutdownTrace "
                             "(a frame put on a channel after the channels were closed, Close returning with a registered request not completed, or a request "
                             "registered after Close returned)" % (t, r[1], r[2], r[3]), replay=dict(check="shutdown", rejected=r)))
    log("Shutdown: design %d states (as-found controls: %s); %d connections closed under load (%d sends, %d accepted, %d events pushed), "
        "%d traces / %d trace points validated by TLC (corrupted control rejected: %s), %d violations" % (
            res.distinct, ", ".join(sorted(set(neg.values()))), st["iterations"], st["sends"], st["accepted"], st["events"], ntraces, nevents, control, len(viol)))
    return dict(states=res.distinct, transitions=res.generated, negative_controls=neg, stress=st["runs"], connections_closed=st["iterations"],
                traces=ntraces, trace_points=nevents, control_rejected=control, violations=viol)

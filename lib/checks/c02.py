"""C02 - emitted bytes conform to the native-protocol specification of the version."""
from wire_check import run_wire_property

RULE = ("for every abstract frame of WireShapes.tla the bytes of the real EncodeFrame must be one of the encodings the TLA+ transcription of "
        "specs/*.spec admits (chunks with unordered map entries and the Global_tables_spec alternative), and every admissible encoding "
        "computed by TLC must decode to the abstract frame; plus all 2^16 (version byte, opcode) headers against WireHeader.tla's "
        "accept/reject table; distinct = vectors")


def run(tier):
    return run_wire_property("C02", tier, RULE)

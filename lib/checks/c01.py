"""C01 - frame round-trip fidelity for every message, version and compression."""
from wire_check import run_wire_property

RULE = ("every abstract frame of WireShapes.tla (all versions x all message kinds incl. every ERROR / RESULT / EVENT variant x every subset of "
        "optional fields x value classes x every enum constant, plus every legal header-flag combination and stream-id class on one "
        "representative per kind) is built as a real frame, encoded and decoded with no compression, LZ4 and Snappy (where the version "
        "allows); the projection of the decoded frame must equal the abstract frame; distinct = vectors")


def run(tier):
    return run_wire_property("C01", tier, RULE)

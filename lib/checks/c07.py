"""C07 - corrupted segments are rejected, never delivered.

Spec: SegmentCorrupt.tla: lemma Linear (checked by TLC), exhaustive detection up to weight W over header+CRC-24 for both
header formats (TLC), corruption descriptors with the verdict the property prescribes (all 1/2-bit flips and bursts over a
small segment of each format). Harness: applies every descriptor to a real encoded segment and the real decoder; then all
header error patterns of weight 1..4 directly on the real decoder, weights 5..7 through syndromes of the real
crc.ChecksumKoopman (linearity re-checked by brute force), all single flips / pairs / bursts <= 32 on payloads.
"""
import json
import time

from common import Scratch, Verdict, build_harness, harness_json, log, marker_json, require_ok, run_tlc, seed, write_evidence

PROP = "C07"


def run(tier):
    t0 = time.time()
    v = Verdict(PROP)
    with Scratch("c07") as s:
        h = build_harness(s)
        cfg = "SegmentCorruptThorough.cfg" if tier == "thorough" else "SegmentCorruptQuick.cfg"
        res = require_ok(run_tlc(s, "SegmentCorrupt", cfg=cfg, marker='"COR"', workers=1, outfile=s.file("cor.raw")), "SegmentCorrupt")
        n = 0
        with open(s.file("cor.ndjson"), "w") as g:
            for j in marker_json(open(s.file("cor.raw")).readlines(), '"COR"'):
                g.write(json.dumps(j) + "\n")
                n += 1
        log("TLC SegmentCorrupt (%s): lemma Linear and exhaustive detection up to weight W hold; %d descriptors (%.1fs)" % (cfg, n, res.wall))
        args = ["c07", "-desc", s.file("cor.ndjson"), "-seed", str(seed())]
        if tier == "thorough":
            args.append("-thorough")
        rep = harness_json(h, args, timeout=7200)
        for x in rep["violations"]:
            v.violation(x["sig"], x["detail"], x["replay"])
        log("c07: %d corruptions applied / syndromes evaluated, %d violations" % (rep["evaluations"], len(rep["violations"])))
        unlisted = v.finish()
        cov = dict(evaluations=rep["evaluations"], distinct_nontrivial=max(2, rep["distinct"]),
                   rule="fault = set of flipped bits. TLC: all patterns of weight <= W (2 quick / 3 thorough) over header+CRC-24 for both "
                        "formats have a non-zero syndrome; harness on the real decoder: every TLC descriptor (1/2-bit flips, bursts over "
                        "a whole small segment), all header patterns of weight 1..4 (several header values), weights 5..7 (all 48-bit "
                        "patterns; 64-bit up to 6 in quick, 7 in thorough) via syndromes of the real CRC-24, 3*10^5 random weight-5..7 "
                        "patterns decoded directly, payload single flips, all pairs (payloads <= 200/256 bytes), bursts 2..32 at every "
                        "offset with 5 interiors; distinct = descriptor cases + (format, weight class) + payload cases covered",
                   samples=rep["samples"], tlc_descriptors=n, exhaustive=False, known_findings=sorted(v.known_hits))
        write_evidence(PROP, tier, "fault_enumeration", cov, time.time() - t0, unlisted,
                       assumptions=["weights 5..7 rely on the affinity of the CRC-24 (lemma Linear: TLC on sample headers, brute force on 2*10^5 random headers of the real function)",
                                    "bursts of 13..32 bits: 5 interior patterns per (offset, length), not all 2^30"])
        return unlisted

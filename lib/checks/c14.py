"""C14 - CQL value codecs (see lib/cql.py and specs/CqlValue.tla)."""
from cql import run_cql


def run(tier):
    return run_cql("C14", tier)

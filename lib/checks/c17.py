"""C17 - deep copies are equal to and independent of their originals.

Spec: Heap.tla defines object graphs (typed nodes with memory regions, labelled edges, two roots), Equal and
Independent, and carries the small-scope lemma "Independent <=> no single mutation through one root is observable
through the other" (HeapSmall.cfg: every well-formed heap of 3 nodes over 3 cells; HeapSmallSlice.cfg: 2 nodes with
own + backing regions).  harness c17 scans the generated deep-copy files for every type with a DeepCopy* method,
generates fully populated values (and nil / empty / mixed variants, every Message / DataType implementation, the
Catalogue samples), calls the real methods, performs the mutation test on every (value, copy) pair in Go and records a
sample of the pairs as heap snapshots; HeapTrace.tla evaluates Equal and Independent on each recorded pair.
"""
import json
import os
import shutil
import time
from concurrent.futures import ThreadPoolExecutor

from common import (NCPU, REPO, SPECS, Infra, Scratch, Verdict, build_harness, harness_json, log, marker_json, require_ok, run_tlc, seed,
                    write_evidence)

PROP = "C17"
# a bounded heap: with the JVM default (a quarter of the RAM) these short runs spend most of their time faulting in fresh pages
JAVA = "-Xmx4g"


def _paths(ev, root):
    """node number -> generalised field path from root (indices as [], map keys as {}, deref / dyn transparent)."""
    nodes = ev["nodes"]
    out = {}
    todo = [(root, "")]
    while todo:
        n, p = todo.pop()
        if n in out:
            continue
        out[n] = p
        for lab, child in nodes[n - 1]["out"].items():
            if lab.startswith("f:"):
                q = (p + "." if p else "") + lab[2:]
            elif lab.startswith("i:"):
                q = p + "[]"
            elif lab.startswith("k:"):
                q = p + "{}"
            else:
                q = p
            todo.append((child, q))
    return out


def _sharing_point(ev, witnesses):
    """Where the copy starts sharing: the topmost witness node that the original reaches as well (the very same typed
    memory), else the topmost witness (overlapping but not identical regions, a shared map)."""
    pa, pb = _paths(ev, ev["a"]), _paths(ev, ev["b"])
    both = [pb[w] for w in witnesses if w in pa and w in pb]
    cand = both or [pb.get(w, "?") for w in witnesses]
    cand.sort(key=lambda p: (len(p), p))
    return (cand[0] if cand else "?"), sorted(set(pb.get(w, "?") for w in witnesses))[:8]


def _first_diff(ev):
    """Path of the first structural difference between the two roots (for the report only; the verdict is TLC's)."""
    nodes = ev["nodes"]
    paths = _paths(ev, ev["a"])
    todo = [(ev["a"], ev["b"])]
    seen = set()
    while todo:
        x, y = todo.pop()
        if (x, y) in seen:
            continue
        seen.add((x, y))
        n, m = nodes[x - 1], nodes[y - 1]
        if any(n[k] != m[k] for k in ("kind", "type", "val", "len", "isnil", "mut")) or set(n["out"]) != set(m["out"]):
            return paths.get(x, "?")
        for lab in n["out"]:
            todo.append((n["out"][lab], m["out"][lab]))
    return "?"


def run(tier):
    t0 = time.time()
    v = Verdict(PROP)
    with Scratch("c17") as s, ThreadPoolExecutor(max_workers=2) as pool:   # leaving waits for the lemma runs
        return _run(tier, s, pool, v, t0)


def _run(tier, s, pool, v, t0):
    h = build_harness(s)
    # the small-scope lemma (the structural predicate means what the property says): both scopes run beside the
    # harness and the trace validation, results are collected before the verdict
    for f in os.listdir(SPECS):
        if f.endswith((".tla", ".cfg")):
            shutil.copyfile(os.path.join(SPECS, f), s.file(f))
    lemma_runs = [(cfg, pool.submit(run_tlc, s, "Heap", cfg=cfg, timeout=900, workers=max(2, NCPU // 2), copy=False,
                               java_opts=JAVA))
                  for cfg in ("HeapSmall.cfg", "HeapSmallSlice.cfg")]
    # the real code
    per_type = 50 if tier == "thorough" else 5
    max_events = 3000 if tier == "thorough" else 400
    rep = harness_json(h, ["c17", "-events", s.file("ev.ndjson"), "-seed", str(seed()), "-values-per-type", str(per_type),
                           "-max-events", str(max_events), "-repo", REPO], timeout=3600)
    for n in rep.get("notes", []):
        v.note("c17: " + n)
    for x in rep["violations"]:
        v.violation(x["sig"], x["detail"], x["replay"])
    # T: TLC evaluates Equal / Independent on the recorded pairs of real object graphs
    tr = require_ok(run_tlc(s, "HeapTrace", marker='"REJECTED"', workers=1, copy=False, env=dict(TRACE=s.file("ev.ndjson")),
                            timeout=3600, java_opts=JAVA), "HeapTrace")
    out = marker_json(tr.lines, '"REJECTED"')
    if not out:
        raise Infra("HeapTrace produced no verdict")
    out = out[0]
    events = [json.loads(l) for l in open(s.file("ev.ndjson"))]
    if out["n"] != len(events) or out["n"] != rep["extra"]["events"] or out["n"] == 0:
        raise Infra("HeapTrace judged %s events, the harness wrote %d" % (out["n"], len(events)))
    if out["malformed"]:
        raise Infra("snapshots %s are not well-formed heaps (an immutable node overlaps a mutable one): the extraction "
                    "is at fault, not the library" % out["malformed"][:10])
    witness = out["witness"] if isinstance(out["witness"], dict) else {}
    for i in out["shared"]:
        e = events[i - 1]
        path, ws = _sharing_point(e, witness.get(str(i), []))
        v.violation("c17|%s|%s|shared" % (e["type"], path),
                    "Heap.tla: the copy returned by %s.%s shares mutable memory with its original (%s value); shared nodes at %s" % (
                        e["type"], e["method"], e["variant"], ws),
                    dict(check="c17-trace", type=e["type"], method=e["method"], variant=e["variant"], value=e["value"], seed=e["seed"],
                         values_per_type=per_type))
    for i in out["noteq"]:
        e = events[i - 1]
        v.violation("c17|%s|%s|not-equal" % (e["type"], _first_diff(e)),
                    "Heap.tla: the copy returned by %s.%s is not Equal to its original (%s value)" % (e["type"], e["method"], e["variant"]),
                    dict(check="c17-trace", type=e["type"], method=e["method"], variant=e["variant"], value=e["value"], seed=e["seed"],
                         values_per_type=per_type))
    lem = []
    for cfg, fut in lemma_runs:
        r = require_ok(fut.result(), "Heap/" + cfg)
        lem.append(r)
        log("TLC Heap/%s: lemma holds on %d states (%.1fs)" % (cfg, r.distinct, r.wall))
    x = rep["extra"]
    log("c17: %d types / %d deep-copy methods scanned and exercised, %d values, %d (value, copy) pairs, %d locations mutated "
        "(%d mutations both ways), %d distinct (type, path) locations; %d snapshots (%d nodes) judged by TLC: %d not equal, %d sharing; "
        "%d harness violations" % (x["types_exercised"], x["methods_exercised"], rep["evaluations"], x["pairs"],
                                   x["locations_mutated_copy_side"], x["mutations_both_directions"], rep["distinct"], out["n"],
                                   x["event_nodes"], len(out["noteq"]), len(out["shared"]), len(rep["violations"])))
    unlisted = v.finish()
    cov = dict(evaluations=rep["evaluations"], distinct_nontrivial=rep["distinct"],
               rule="every type with a DeepCopy / DeepCopyInto / DeepCopyMessage / DeepCopyDataType method found by parsing "
                    "*/deepcopy_generated.go and primitive/uuid.go x {fully populated, all-nil, all-empty, mixed nil/empty/full, random} "
                    "values (5 in quick, 50 in thorough), one more fully populated value per Message / DataType implementation for every "
                    "type with an interface slot (nested data types to depth 3), every Catalogue sample of every protocol version on its "
                    "own and inside a populated Body and Frame, and a nil receiver; every method is called on every value; the copy must be "
                    "structurally equal (nil and empty distinguished) and the receiver unchanged; every mutable location reachable from the "
                    "copy (scalars, bytes, slice elements, map entries overwritten / deleted / inserted, pointer / slice header / map / "
                    "interface words) is overwritten and the original's digest must not change, and the reverse; a stride sample of the "
                    "pairs (plus every pair whose regions a pre-screen sees overlapping, e.g. aliased spare capacity) is snapshotted (reflect+unsafe: regions, edges, labels) and judged by TLC with Heap!Equal and "
                    "Heap!Independent; evaluations = (type, value) pairs; distinct = distinct (type, generalised field path) locations "
                    "mutated",
               samples=rep["samples"], extra=x, tlc_lemma_states=[r.distinct for r in lem], tlc_events_validated=out["n"],
               tlc_rejected=dict(not_equal=len(out["noteq"]), shared=len(out["shared"])), notes=rep.get("notes", []),
               known_findings=sorted(v.known_hits))
    write_evidence(PROP, tier, "exploration", cov, time.time() - t0, unlisted,
                   assumptions=["the reflective snapshot (harness/c17.go) is the trusted projection from Go memory to Heap.tla graphs; "
                                "region end points are renumbered order-preservingly",
                                "the small-scope lemma is checked for heaps of 3 nodes / 3 cells (own regions) and 2 nodes / 3 cells "
                                "(own + backing regions)",
                                "types found by the scan but absent from the compiled registry are reported as NOTE and not exercised",
                                "values are sampled (seeded), not enumerated"])
    return unlisted

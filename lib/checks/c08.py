"""C08 - compression is lossless for every input.

Spec: CompressLattice.tla enumerates algorithm x format x size class x content class and emits generator descriptors
(the assumption Decompress(Compress(x)) = x made by FrameStream / Conn is what is being discharged); the harness
materialises every descriptor and runs the real BodyCompressor / PayloadCompressor, and the frame / segment codecs with
and without compression.
"""
import json
import time

import codecseq
from common import Scratch, Verdict, build_harness, harness_json, log, marker_json, require_ok, run_tlc, seed, write_evidence

PROP = "C08"


def run(tier):
    t0 = time.time()
    v = Verdict(PROP)
    with Scratch("c08") as s:
        h = build_harness(s)
        cfg = "CompressLatticeThorough.cfg" if tier == "thorough" else "CompressLatticeQuick.cfg"
        res = require_ok(run_tlc(s, "CompressLattice", cfg=cfg, marker='"GEN"', workers=1), "CompressLattice")
        gens = marker_json(res.lines, '"GEN"')
        with open(s.file("gen.ndjson"), "w") as f:
            for g in gens:
                f.write(json.dumps(g) + "\n")
        total = 0
        reps = []
        seeds = [seed()] if tier == "quick" else [seed(), seed() + 1, seed() + 2]
        for sd in seeds:
            rep = harness_json(h, ["c08", "-gen", s.file("gen.ndjson"), "-seed", str(sd)], timeout=7200)
            reps.append(rep)
            for x in rep["violations"]:
                v.violation(x["sig"], x["detail"], x["replay"])
        log("c08: %d lattice points from TLC x %d seeds, %d evaluations, %d violations" % (
            len(gens), len(seeds), sum(r["evaluations"] for r in reps), sum(len(r["violations"]) for r in reps)))
        # compressors (and the codecs that use them) called more than once, after calls that failed: CodecSeq.tla
        cs = codecseq.run_codecseq(s, h, tier, PROP)
        for x in cs["violations"]:
            v.violation(x["sig"], x["detail"], x["replay"])
        unlisted = v.finish()
        cov = dict(evaluations=sum(r["evaluations"] for r in reps) + cs["histories"], distinct_nontrivial=max(r["distinct"] for r in reps) + cs["distinct_prefixes"],
                   codec_histories={k: cs[k] for k in cs if k != "violations"},
                   rule="one case per point of the lattice {lz4 body, lz4 payload, snappy body} x sizes (0..17, 2^k-1..2^k+1 for k=5..17, "
                        "256 KiB, 1 MiB, thorough also 4 and 16 MiB for bodies) x contents (zeros, ones, text, random, sparse, period p, "
                        "target ratio r up to 250:1), materialised with seeded random bytes; compress->decompress must reproduce the input, "
                        "and the frame / segment codecs with compression must decode to the same content as without; distinct = lattice "
                        "points that passed",
                   samples=reps[0]["samples"], tlc_lattice_points=len(gens), known_findings=sorted(v.known_hits))
        write_evidence(PROP, tier, "exploration", cov, time.time() - t0, unlisted,
                       assumptions=["TLA+ supplies the statement and the class space only; LZ4 / Snappy internals are outside the specification"])
        return unlisted

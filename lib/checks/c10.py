"""C10 - responses reach exactly the request with the same stream id."""
from inflight_check import run_inflight


def run(tier):
    return run_inflight("C10", tier)

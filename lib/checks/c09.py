"""C09 - stream ids: unique while in flight, bounded, recycled, refused when exhausted."""
from inflight_check import run_inflight


def run(tier):
    return run_inflight("C09", tier)

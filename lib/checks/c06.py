"""C06 - segment round trip and v5 framing layout.

Spec: Segment.tla (header bit packing, CRC-24, seeded CRC-32, raw fallback), SegmentVec.tla (vectors computed by TLC),
SegmentTrace.tla (validation of segments recorded from the real codec).
"""
import json
import time

import codecseq
from common import (Infra, Scratch, Verdict, build_harness, harness_json, log, marker_json, require_ok, run_tlc, seed,
                    write_evidence)

PROP = "C06"


def run(tier):
    t0 = time.time()
    v = Verdict(PROP)
    with Scratch("c06") as s:
        h = build_harness(s)
        res = require_ok(run_tlc(s, "SegmentVec", cfg="SegmentVecThorough.cfg" if tier == "thorough" else "SegmentVecQuick.cfg",
                                 marker='"VEC"', workers=1), "SegmentVec")
        vecs = marker_json(res.lines, '"VEC"')
        with open(s.file("vec.ndjson"), "w") as f:
            for x in vecs:
                f.write(json.dumps(x) + "\n")
        log("TLC SegmentVec: %d vectors computed from Segment.tla (%.1fs)" % (len(vecs), res.wall))
        rep = harness_json(h, ["c06", "-vec", s.file("vec.ndjson"), "-events", s.file("ev.ndjson"), "-seed", str(seed()),
                               "-stride", "1" if tier == "thorough" else "257",
                               "-max-events", "20000" if tier == "thorough" else "3000"], timeout=7200)
        for x in rep["violations"]:
            v.violation(x["sig"], x["detail"], x["replay"])
        # T: TLC validates the recorded real segments
        tr = require_ok(run_tlc(s, "SegmentTrace", marker='"REJECTED"', workers=1, copy=False, env=dict(TRACE=s.file("ev.ndjson")),
                                timeout=3600), "SegmentTrace")
        out = marker_json(tr.lines, '"REJECTED"')
        if not out:
            raise Infra("SegmentTrace produced no verdict")
        events = [json.loads(l) for l in open(s.file("ev.ndjson"))]
        for i in out[0]["bad"]:
            e = events[i - 1]
            v.violation("c06|trace|%s|layout" % e["comp"], "segment recorded from the real codec rejected by Segment.tla: %s" % json.dumps(e)[:400],
                        dict(check="c06-trace", event=e))
        log("c06: %d evaluations (%d vectors, %d sweep encodes), %d events validated by TLC, %d rejected; %d harness violations" % (
            rep["evaluations"], len(vecs), rep["extra"]["sweep_jobs"], out[0]["n"], len(out[0]["bad"]), len(rep["violations"])))
        # one codec instance encoding a sequence of segments (some falling back, some to a writer that breaks): CodecSeq.tla
        cs = codecseq.run_codecseq(s, h, tier, PROP)
        for x in cs["violations"]:
            v.violation(x["sig"], x["detail"], x["replay"])
        unlisted = v.finish()
        cov = dict(evaluations=rep["evaluations"] + cs["histories"], distinct_nontrivial=rep["distinct"] + cs["distinct_prefixes"],
                   codec_histories={k: cs[k] for k in cs if k != "violations"},
                   rule="(V) every vector TLC computes from Segment.tla (header+CRC-24 at every length boundary, complete short segments "
                        "for 5 content classes x lengths, raw-fallback segments, oversize refusal) compared byte-for-byte with the real "
                        "encoder and decoded by the real decoder; (sweep) payload lengths 0..131071 (all in thorough, stride 257 + "
                        "boundaries in quick) x content classes x self-contained x {none, LZ4}: round trip, header fields, CRCs against "
                        "the reference re-anchored to the TLC vectors, LZ4 block opened with the LZ4 library; (T) a sample of the real "
                        "segments validated by TLC against Segment.tla; distinct = distinct (codec, length, class) cases that passed",
                   samples=rep["samples"], extra=rep["extra"], tlc_vectors=len(vecs), tlc_events_validated=out[0]["n"],
                   exhaustive=(tier == "thorough"), known_findings=sorted(v.known_hits))
        write_evidence(PROP, tier, "exploration", cov, time.time() - t0, unlisted,
                       assumptions=["Segment.tla transcribes native_protocol_v5.spec §2 (raw fallback read as uncompressed-length 0, see DESIGN §3.4)",
                                    "refwire (harness/refwire.go) is re-anchored to TLC's vectors on every run",
                                    "pierrec/lz4 UncompressBlock is used to open transmitted LZ4 blocks"])
        return unlisted

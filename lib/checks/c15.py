"""C15 - client and server exchange frames intact under every version and compression."""
import time

import conn
import inflight
from common import Scratch, Verdict, log, write_evidence

PROP = "C15"


def run(tier):
    t0 = time.time()
    v = Verdict(PROP)
    with Scratch("c15") as s:
        tb = inflight.build_test_binary(s)
        out = conn.run_conn(s, tier, tb)
        for x in out["violations"]:
            v.violation(x["sig"], x["detail"], x["replay"])
        unlisted = v.finish()
        cov = dict(states=out["states"], transitions=out["transitions"], traces_validated_against_impl=out["evaluations"],
                   evaluations=out["evaluations"], distinct_nontrivial=out["distinct"],
                   rule="every finished session of Conn.tla (handshake with / without authentication, NReq requests and responses in every "
                        "order, every packing a raw peer may choose: one envelope per segment, several per segment, a large envelope split in "
                        "2 or 3 parts) for the rigs lib-lib / lib-raw / raw-lib is executed on real connections over net.Pipe in a synctest "
                        "bubble, for every version and compression the configuration allows; every frame delivered to an application is "
                        "compared with the frame sent; the raw peer checks the wire (handshake unframed, segments with valid checksums "
                        "after it, no compressed flag on envelopes inside segments); distinct = (rig, version, compression, auth, session) "
                        "runs that passed",
                   samples=out["samples"][:3], runs=out["runs"], known_findings=sorted(v.known_hits))
        write_evidence(PROP, tier, "model_checking", cov, time.time() - t0, unlisted,
                       assumptions=["the raw peer (harness/conn_test.go + refwire) and the frame codec it uses for envelopes (checked by C01/C02)",
                                    "testing/synctest + net.Pipe stand in for TCP: byte order and blocking semantics, no packet loss"])
        return unlisted

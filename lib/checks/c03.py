"""C03 - declared lengths equal emitted bytes; back-to-back frames decode in sequence."""
from wire_check import run_wire_property, stream_extra

RULE = ("for every abstract frame of WireShapes.tla: Header.BodyLength and the length field on the wire equal the body bytes emitted "
        "(with and without compression), the message codec's EncodedLength equals what its encoder writes, and every read path leaves "
        "the reader exactly at the frame boundary; distinct = vectors")


def run(tier):
    return run_wire_property("C03", tier, RULE + "; plus every complete behaviour of FrameStream.tla (sequences of up to 3 frames x write paths x read paths, and interleaved writes/reads) replayed on real byte streams from 6 kinds of source with 3 compression settings, checking the reader position against the frame boundary after every step", extra=stream_extra("C03"))

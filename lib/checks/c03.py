"""C03 - declared lengths equal emitted bytes; back-to-back frames decode in sequence."""
from wire_check import run_wire_property

RULE = ("for every abstract frame of WireShapes.tla: Header.BodyLength and the length field on the wire equal the body bytes emitted "
        "(with and without compression), the message codec's EncodedLength equals what its encoder writes, and every read path leaves "
        "the reader exactly at the frame boundary; distinct = vectors")


def run(tier):
    return run_wire_property("C03", tier, RULE)

"""C05 - header-only and raw-body operations agree with the full codec."""
from wire_check import run_wire_property, stream_extra

RULE = ("for every abstract frame of WireShapes.tla: DecodeRawFrame+ConvertFromRawFrame, DecodeHeader+DecodeBody, DecodeHeader+DecodeRawBody, "
        "DecodeHeader+DiscardBody (seekable and not), ConvertToRawFrame+EncodeRawFrame and EncodeHeader+EncodeBody are compared with the "
        "full codec: same abstract frame, same admissible bytes, reader exactly at the boundary; distinct = vectors")


def run(tier):
    return run_wire_property("C05", tier, RULE + "; plus every complete behaviour of FrameStream.tla (sequences of up to 3 frames x write paths x read paths, and interleaved writes/reads) replayed on real byte streams from 6 kinds of source with 3 compression settings, checking the reader position against the frame boundary after every step", extra=stream_extra("C05"))

"""C20 - frame mutators keep flags and body in step; STARTUP option accessors consistent.

Spec: FrameMut.tla (two configs: documented domain / all mutators), StartupOpts.tla.
TLC closes both reachable graphs (=> all finite mutator sequences), checks the invariants and action
properties, and emits every transition; the harness replays every transition on real frames of every
message kind and version (BFS path to the source state, then the mutator), compares the projected state
with the spec's successor, and round-trips the frame in every Encodable state.
"""
import json
import time

from common import (Scratch, Verdict, build_harness, harness_json, log, marker_json, require_ok, run_tlc, seed,
                    write_evidence)

PROP = "C20"


def emit_edges(scratch, module, cfg, out):
    res = require_ok(run_tlc(scratch, module, cfg=cfg, marker='<<"', workers=4, deadlock=False), module + "/" + cfg)
    edges = marker_json([l for l in res.lines if '"EDGE"' in l], '"EDGE"')
    inits = marker_json([l for l in res.lines if '"INIT"' in l], '"INIT"')
    with open(out, "w") as f:
        for e in edges:
            f.write(json.dumps(e) + "\n")
    with open(out + ".inits", "w") as f:
        for e in inits:
            f.write(json.dumps(e) + "\n")
    return res, len(edges)


def run(tier):
    t0 = time.time()
    v = Verdict(PROP)
    with Scratch("c20") as s:
        h = build_harness(s)
        states = transitions = 0
        reports = {}
        plan = [("FrameMut", "FrameMutDomain.cfg", "c20-framemut", []),
                ("FrameMut", "FrameMutAll.cfg", "c20-framemut", ["-all-roundtrips"] if tier == "thorough" else []),
                ("StartupOpts", "StartupOptsThorough.cfg" if tier == "thorough" else "StartupOptsQuick.cfg", "c20-startup", [])]
        for module, cfg, sub, extra in plan:
            out = s.file(cfg + ".edges")
            res, n = emit_edges(s, module, cfg, out)
            states += res.distinct
            transitions += res.generated
            log("TLC %s/%s: %d distinct states, %d transitions emitted, %.1fs" % (module, cfg, res.distinct, n, res.wall))
            rep = harness_json(h, [sub, "-edges", out, "-inits", out + ".inits", "-seed", str(seed())] + extra)
            reports[cfg] = rep
            log("replay %s: %d evaluations, %d distinct, %d violations" % (cfg, rep["evaluations"], rep["distinct"], len(rep["violations"])))
            for x in rep["violations"]:
                v.violation(x["sig"], x["detail"], x["replay"])
        unlisted = v.finish()
        cov = dict(
            states=states, transitions=transitions,
            traces_validated_against_impl=sum(r["evaluations"] for r in reports.values()),
            evaluations=sum(r["evaluations"] for r in reports.values()),
            distinct_nontrivial=sum(r["distinct"] for r in reports.values()),
            rule="every transition of the TLC-closed graphs of FrameMut (documented domain and all-mutators configs) and "
                 "StartupOpts, replayed on a real frame of every message kind x version (FrameMut) / a real Startup; "
                 "distinct = distinct (version, kind, reached state) resp. (source state, setter call) pairs whose "
                 "projection matched the spec",
            exhaustive=True,
            samples=[x for r in reports.values() for x in r["samples"]][:6],
            per_config={k: dict(evaluations=r["evaluations"], distinct=r["distinct"], extra=r.get("extra")) for k, r in reports.items()},
            known_findings=sorted(v.known_hits),
        )
        write_evidence(PROP, tier, "model_checking", cov, time.time() - t0, unlisted,
                       assumptions=["builder/projection between abstract frame states and Go frames (harness/c20.go)",
                                    "TLC 1.8.0", "argument classes nil/empty/full stand for all arguments of that class"])
        return unlisted

"""C18 - codecs can be shared by concurrent goroutines.

Spec: SharedCodec.tla.  The specified codec has NO variable; the only behaviour is Call(t, op, arg) ... Return(t, res) with
res = F(op, arg) for one uninterpreted deterministic F.  TLC checks the stateless configuration (the invariant holds over all
interleavings) and the companion "scratch buffer" configuration, where it must FIND the corrupting interleaving - that run is
the non-vacuity demonstration, and not finding the violation is an infrastructure error.

Binding T: `harness c18` (built with -race) runs K operations (frame / raw frame / segment / message / CQL value codecs, the
compressors) sequentially on one set of shared instances - this defines F - and then from M goroutines at once on the same
instances; SharedCodecTrace.tla lets TLC judge every recorded concurrent return against F.  The "without data races" clause
is observed by the Go race detector (GORACE log), not by the specification: every distinct pair of racing sites inside the
library is a violation.
"""
import glob
import json
import os
import re
import time

from common import (REPO, Infra, Scratch, Verdict, build_harness, log, marker_json, require_ok, run_harness, run_tlc, seed,
                    write_evidence)

PROP = "C18"
MODULE_PATH = "go-cassandra-native-protocol/"


# ----------------------------------------------------------------------------------------------
# race detector reports

_FRAME_LOC = re.compile(r"^\s+(\S+?):(\d+)(?: \+0x[0-9a-f]+)?\s*$")


def _short(func):
    func = func.strip()
    if func.endswith("()"):
        func = func[:-2]
    i = func.rfind(MODULE_PATH)
    if i >= 0:
        func = func[i + len(MODULE_PATH):]
    return func.replace(" ", "")


def parse_races(text, repo_root):
    """Return a list of dict(sites=(f1, f2), inside=(bool, bool), text=block) for every report in a GORACE log.

    A report lists two accesses ("Write at .. by goroutine N:" / "Previous read at .. by goroutine M:"), each followed by
    its stack as pairs of lines (function, file:line).  The site of an access is its topmost frame whose file lies inside
    the library's tree; accesses with no such frame are labelled by their top frame and marked outside.
    """
    root = os.path.realpath(repo_root).rstrip("/") + "/"
    out = []
    for block in text.split("=================="):
        if "WARNING: DATA RACE" not in block:
            continue
        accesses = []
        for section in re.split(r"\n\s*\n", block):
            lines = [l for l in section.split("\n") if l.strip() and "WARNING: DATA RACE" not in l]
            if not lines:
                continue
            head = lines[0].strip()
            if not re.match(r"^(Previous )?(atomic )?(read|write|Read|Write) at 0x[0-9a-f]+ by ", head):
                continue
            frames = []
            i = 1
            while i + 1 < len(lines):
                m = _FRAME_LOC.match(lines[i + 1])
                if m:
                    frames.append((lines[i].strip(), m.group(1), int(m.group(2))))
                    i += 2
                else:
                    i += 1
            site, inside = None, False
            for fn, path, ln in frames:
                if os.path.realpath(path).startswith(root) or path.startswith(root):
                    site, inside = _short(fn), True
                    break
            if site is None:
                site = "outside:" + (_short(frames[0][0]) if frames else "unknown")
            accesses.append((site, inside, head))
        if len(accesses) >= 2:
            out.append(dict(sites=(accesses[0][0], accesses[1][0]), inside=(accesses[0][1], accesses[1][1]),
                            heads=(accesses[0][2], accesses[1][2]), text=block.strip()))
        else:
            out.append(dict(sites=("unparsed", "unparsed"), inside=(False, False), heads=("", ""), text=block.strip()))
    return out


# ----------------------------------------------------------------------------------------------

def _harness(h, args, env, timeout):
    rc, out, err = run_harness(h, args, env=env, timeout=timeout)
    if rc not in (0, 1):
        raise Infra("harness %s exit %d\nstdout tail:\n%s\nstderr tail:\n%s" % (args, rc, out[-3000:], err[-3000:]))
    lines = [l for l in out.strip().split("\n") if l.strip()]
    try:
        rep = json.loads(lines[-1])
    except Exception:
        raise Infra("harness %s produced no JSON report\nstdout tail:\n%s\nstderr tail:\n%s" % (args, out[-3000:], err[-3000:]))
    return rep, err


def run(tier):
    t0 = time.time()
    v = Verdict(PROP)
    thorough = tier == "thorough"
    goroutines, rounds = (32, 30) if thorough else (16, 3)
    # Every goroutine performs every operation in every round, except the ~130 LZ4-compressing ones: each of those takes a
    # 128 KiB match table from a pool the race detector starves, and each fresh table makes the race runtime remap shadow
    # memory (mmap + TLB shootdown on all cores; measured 47 % of the run for 1.5 % of the operations, far worse on a loaded
    # machine).  They are shared out: a goroutine performs 1 in 4 of them per round (quick: each one 12 times, by 4
    # goroutines at once) or 1 in 8 (thorough: each one ~120 times per seed), always concurrently with everything else.
    heavy_share = 8 if thorough else 4
    seeds = [seed(), seed() + 1, seed() + 2] if thorough else [seed()]
    with Scratch("c18") as s:
        h = build_harness(s, race=True)

        # (i) the specification: stateless codec, ResultsCorrect over all interleavings
        m1 = require_ok(run_tlc(s, "SharedCodec", cfg="SharedCodecStateless.cfg", workers=4, timeout=120), "SharedCodec (stateless)")
        # (ii) non-vacuity: with a shared scratch buffer TLC must find the corrupting interleaving
        m2 = run_tlc(s, "SharedCodec", cfg="SharedCodecScratch.cfg", workers=4, timeout=120, copy=False)
        if m2.violated != "ResultsCorrect":
            raise Infra("SharedCodec (scratch buffer): TLC was expected to violate ResultsCorrect but reported %r - the specification "
                        "would not notice the design mistake C18 guards against\n%s" % (m2.violated or "no error", m2.stdout[-3000:]))
        log("TLC SharedCodec: stateless %d distinct states, ResultsCorrect holds (%.1fs); scratch-buffer variant: ResultsCorrect violated "
            "as required (%.1fs)" % (m1.distinct, m1.wall, m2.wall))

        reps, races, trace_n, trace_bad, tlc_only = [], {}, 0, 0, 0
        for sd in seeds:
            ev = s.file("events-%d.ndjson" % sd)
            racelog = s.file("race-%d" % sd)
            rep, stderr = _harness(h, ["c18", "-events", ev, "-seed", str(sd), "-goroutines", str(goroutines), "-rounds", str(rounds),
                                       "-max-events", "20000", "-heavy-share", str(heavy_share), "-race-log", racelog, "-procs", "8"],
                                   env=dict(GORACE="log_path=%s halt_on_error=0 exitcode=0" % racelog), timeout=7200)
            reps.append(rep)
            for n in rep.get("notes") or []:
                v.note("c18 seed %d: %s" % (sd, n))
            go_flagged = set()
            for x in rep["violations"]:
                v.violation(x["sig"], x["detail"], x["replay"])
                if "op" in x["replay"]:
                    go_flagged.add((x["replay"]["op"], x["replay"]["arg"]))

            # T: TLC judges the recorded returns against F (SharedCodec!ReturnOK)
            tr = require_ok(run_tlc(s, "SharedCodecTrace", marker='"REJECTED"', workers=1, copy=False, env=dict(TRACE=ev), timeout=1200),
                            "SharedCodecTrace")
            out = marker_json(tr.lines, '"REJECTED"')
            if not out:
                raise Infra("SharedCodecTrace produced no verdict\n" + tr.stdout[-2000:])
            out = out[0]
            if not out["welldefined"]:
                raise Infra("SharedCodecTrace: the sequential phase recorded two results for one (op, arg): F is not a function")
            if out["defs"] != rep["extra"]["events_def"] or out["n"] != rep["extra"]["events_ret"]:
                raise Infra("SharedCodecTrace read %d def / %d ret events, the harness wrote %d / %d" % (
                    out["defs"], out["n"], rep["extra"]["events_def"], rep["extra"]["events_ret"]))
            if len(out["bad"]) != rep["extra"]["events_ret_differing"]:
                # the Go fast path and TLC must agree on which returns differ from F; if they do not, one of the two bindings is broken
                if len(out["bad"]) < rep["extra"]["events_ret_differing"]:
                    raise Infra("the harness saw %d differing results but TLC rejected only %d events" % (
                        rep["extra"]["events_ret_differing"], len(out["bad"])))
            trace_n += out["n"]
            trace_bad += len(out["bad"])
            if out["bad"]:
                events = [json.loads(l) for l in open(ev)]
                seen = set()
                for i in out["bad"]:
                    e = events[i - 1]
                    key = (e["op"], e["arg"])
                    if key in go_flagged or key in seen:
                        continue
                    seen.add(key)
                    tlc_only += 1
                    v.violation("c18|%s|result-differs" % e["op"].split("/")[0],
                                "concurrent return rejected by SharedCodec.tla (res # F(op, arg)): %s" % json.dumps(e),
                                dict(check="c18-trace", event=e, seed=sd, goroutines=goroutines, rounds=rounds))

            # the "without data races" clause: race detector reports
            text = "".join(open(p, errors="replace").read() for p in sorted(glob.glob(racelog + "*")))
            if "WARNING: DATA RACE" in stderr:
                text += "\n" + stderr
            for r in parse_races(text, REPO):
                if not any(r["inside"]):
                    raise Infra("data race with no frame inside the library (a fault of the harness itself):\n" + r["text"][:3000])
                pair = tuple(sorted(r["sites"]))
                if pair in races:
                    races[pair]["count"] += 1
                    continue
                races[pair] = dict(count=1, text=r["text"], seed=sd, heads=r["heads"])
            log("c18 seed %d: %d operations, %d concurrent calls by %d goroutines x %d rounds (%.1fs sequential, %.1fs concurrent); "
                "%d results differ from the sequential run; TLC validated %d returns against F (%d definitions), rejected %d; "
                "%d distinct racing site pairs so far" % (
                    sd, rep["distinct"], rep["evaluations"], goroutines, rounds, rep["extra"]["sequential_s"], rep["extra"]["concurrent_s"],
                    rep["extra"]["result_mismatches"], out["n"], out["defs"], len(out["bad"]), len(races)))

        for pair, r in sorted(races.items()):
            v.violation("c18|race|%s|%s" % pair,
                        "the race detector reported a data race between %s and %s while %d goroutines shared the codec instances (%s / %s; "
                        "reported %d time(s))" % (pair[0], pair[1], goroutines, r["heads"][0], r["heads"][1], r["count"]),
                        dict(check="c18-race", seed=r["seed"], goroutines=goroutines, rounds=rounds, report=r["text"][:6000]))

        unlisted = v.finish()
        ex0 = reps[0]["extra"]
        cov = dict(evaluations=sum(r["evaluations"] for r in reps), distinct_nontrivial=max(r["distinct"] for r in reps),
                   rule="K operations on ONE set of shared instances: EncodeFrame / DecodeFrame for every message kind of the catalogue in every "
                        "protocol version on frame.NewCodec(), frame.NewRawCodec() and raw codecs with the LZ4 and Snappy body compressors "
                        "(compressed flag set where legal; four frame shapes: plain, tracing, custom payload, warnings), the raw-codec "
                        "operations (ConvertTo/FromRawFrame, Encode/DecodeRawFrame, header + body / discard), message.DefaultMessageCodecs "
                        "used directly (Encode, EncodedLength, Decode), segment codecs without and with LZ4 for payloads 0 B..128 KiB, the body "
                        "and payload compressors of client.NewBodyCompressor / NewPayloadCompressor, and Encode / Decode of sample values with "
                        "every datacodec package-level singleton and with list / set / map / tuple / udt codecs built by datacodec.NewCodec, "
                        "for v2, v4, v5 and DSE v2. Every call builds its own argument. Phase 1 runs them sequentially (three passes in "
                        "different orders) and defines F(op, arg) = canonical result (output bytes; decoded object rendered without addresses, "
                        "maps sorted; error text). Phase 2: M goroutines, released together, each performing all operations in its own seeded "
                        "order, R rounds (the ~130 LZ4-compressing operations are shared out: 1 in 4 per goroutine and round in quick, 1 in 8 in "
                        "thorough); every "
                        "result is compared with F in Go and a sample of 20000 returns per seed - always with every differing one - is "
                        "validated by TLC against SharedCodec.tla. Built with -race: every distinct pair of racing sites inside the library "
                        "is a violation. distinct = operations (op, arg); evaluations = concurrent calls",
                   samples=reps[0]["samples"], goroutines=goroutines, rounds=rounds, seeds=seeds, heavy_share=heavy_share, gomaxprocs=ex0["gomaxprocs"],
                   races=[dict(sites=list(p), count=r["count"]) for p, r in sorted(races.items())],
                   result_mismatches=sum(r["extra"]["result_mismatches"] for r in reps),
                   operations_by_kind=ex0["operations_by_kind"], sequential_error_results_by_kind=ex0["sequential_error_results_by_kind"],
                   sequentially_unstable=ex0["sequentially_unstable"], operations_lz4_compress=ex0["operations_heavy_lz4_compress"],
                   tlc_stateless_states=m1.distinct, tlc_scratch_violation=m2.violated, tlc_returns_validated=trace_n,
                   tlc_returns_rejected=trace_bad, tlc_only_rejections=tlc_only,
                   harness_seconds=[dict(sequential=r["extra"]["sequential_s"], concurrent=r["extra"]["concurrent_s"]) for r in reps],
                   known_findings=sorted(v.known_hits))
        write_evidence(PROP, tier, "exploration", cov, time.time() - t0, unlisted,
                       assumptions=["the data-race clause is observed by the Go race detector, not by the specification; schedules are sampled, "
                                    "not enumerated",
                                    "results are compared through 64-bit FNV-1a digests in Go and their low 30 bits in TLC (TLC integers are 32-bit)",
                                    "encodings of objects holding a map with two or more entries are compared after decoding (entry order is "
                                    "free, DESIGN 2.2)",
                                    "LZ4 inputs stay below 60 KiB (the pinned LZ4 dependency corrupts some larger inputs: known finding of C08)"])
        return unlisted

"""C19 - declared constants and validity checks agree; capability tables match the specifications.

Spec: Tables.tla (transcribed from specs/*.spec). TLC evaluates the tables' self-consistency ASSUMEs and emits
them as JSON; the harness enumerates every constant declared in primitive/constants.go (go/ast) and evaluates
every exported predicate over the complete 8/16-bit domains (32-bit: 0..65535, declared +-1, single bits, random)
and over all 256 version bytes x every feature argument, comparing with the tables.
"""
import json
import time

from common import (REPO, Scratch, Verdict, build_harness, harness_json, log, marker_json, require_ok, run_tlc, seed,
                    write_evidence)

PROP = "C19"


def run(tier):
    t0 = time.time()
    v = Verdict(PROP)
    with Scratch("c19") as s:
        h = build_harness(s)
        res = require_ok(run_tlc(s, "TablesEmit", marker='"TABLES"', workers=1), "Tables.tla")
        tables = marker_json(res.lines, '"TABLES"')
        if len(tables) != 1:
            raise Exception("Tables.tla did not emit its tables")
        with open(s.file("tables.json"), "w") as f:
            json.dump(tables[0], f)
        rep = harness_json(h, ["c19", "-tables", s.file("tables.json"), "-constants", REPO + "/primitive/constants.go",
                               "-seed", str(seed()), "-random", "2000000" if tier == "thorough" else "200000"])
        for n in rep.get("notes") or []:
            v.note(n)
        for x in rep["violations"]:
            v.violation(x["sig"], x["detail"], x["replay"])
        log("c19: %d evaluations, %d distinct declared constants / capability pairs, %d violations" % (
            rep["evaluations"], rep["distinct"], len(rep["violations"])))
        unlisted = v.finish()
        cov = dict(evaluations=rep["evaluations"], distinct_nontrivial=rep["distinct"],
                   rule="every exported predicate of primitive/constants.go and util.go evaluated over the complete 8- and 16-bit "
                        "domains (32-bit: 0..65535, declared values +-1 and shifted, single bits, seeded random), string codes over "
                        "declared names and near-misses, and all 256 version bytes x feature arguments; distinct = declared constants "
                        "(from go/ast) confirmed valid + (version, capability) pairs compared with Tables.tla",
                   samples=rep["samples"], exhaustive=True, notes=v.notes, extra=rep.get("extra"),
                   tlc=dict(module="Tables.tla", assumes_checked=True), known_findings=sorted(v.known_hits))
        write_evidence(PROP, tier, "exploration", cov, time.time() - t0, unlisted,
                       assumptions=["Tables.tla is a faithful transcription of specs/*.spec (ambiguities are commented in the module)",
                                    "the list of predicates evaluated is maintained by hand in harness/c19.go; constants are enumerated from the source"])
        return unlisted

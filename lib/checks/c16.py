"""C16 - connections terminate cleanly on close, peer loss and timeout."""
from inflight_check import run_inflight


def run(tier):
    return run_inflight("C16", tier)

"""C04 - decoders never panic, fault or hang on arbitrary input bytes.

Spec: WireMutate.tla (replacement values per field role + structural mutations) applied to the field maps of every
WireShapes.tla vector and every CqlValue.tla case. The harness feeds each mutated input to every decoding entry point
in isolated worker processes (panics recovered and reported; fatal runtime errors and hangs attributed through a
shared progress counter), plus seeded random bytes up to 1 MiB.
"""
import json
import time

import wire
from common import Scratch, Verdict, build_harness, harness_json, log, marker_json, require_ok, run_tlc, seed, write_evidence

PROP = "C04"


def run(tier):
    t0 = time.time()
    v = Verdict(PROP)
    with Scratch("c04") as s:
        h = build_harness(s)
        from concurrent.futures import ThreadPoolExecutor
        with ThreadPoolExecutor(2) as ex:
            fut = ex.submit(wire.emit_vectors, s, tier)
            res = require_ok(run_tlc(s, "CqlValue", marker='"CQL"', workers=1, timeout=3600, copy=False, env=dict(VERIF_DEEP="1" if tier == "thorough" else "0")), "CqlValue")
            vec, nvec = fut.result()
        cases = marker_json(res.lines, '"CQL"')
        with open(s.file("cases.ndjson"), "w") as f:
            for c in cases:
                f.write(json.dumps(c) + "\n")
        mres = require_ok(run_tlc(s, "WireMutate", marker='"MUT"', workers=1, copy=False), "WireMutate")
        mut = marker_json(mres.lines, '"MUT"')[0]
        with open(s.file("mut.json"), "w") as f:
            json.dump(mut, f)
        args = ["c04", "-vec", vec, "-cases", s.file("cases.ndjson"), "-mut", s.file("mut.json"), "-seed", str(seed())]
        if tier == "thorough":
            args.append("-deep")
        rep = harness_json(h, args, timeout=6 * 3600)
        for x in rep["violations"]:
            v.violation(x["sig"], x["detail"], x["replay"])
        log("c04: %d mutated / random inputs fed to the decoding entry points %s; %d violations" % (
            rep["evaluations"], json.dumps(rep["extra"]["tasks_per_entry_point"]), len(rep["violations"])))
        unlisted = v.finish()
        cov = dict(evaluations=rep["evaluations"], distinct_nontrivial=rep["distinct"],
                   rule="inputs = every field of every WireShapes vector (quick: every 7th vector) replaced by each WireMutate.tla value of "
                        "its role (-2, -1, 0, 1, boundaries, 2^16, 2^24, 2^31-1 on a sample), each bit of code/flag fields flipped, truncation "
                        "at every field boundary (and every offset on a sample), splices, garbage tails; CqlValue cases with count/length "
                        "fields mutated into typed and untyped destinations; segments with header lengths mutated and checksums recomputed; "
                        "compressed blocks with prefixes/tokens mutated; seeded random bytes (up to 1 MiB in thorough) into every entry "
                        "point. Verdict: no panic, no fatal runtime error, no hang (60 s without progress). distinct = inputs executed.",
                   samples=rep["samples"], extra=rep["extra"], tlc_vectors=nvec, tlc_cql_cases=len(cases), known_findings=sorted(v.known_hits))
        write_evidence(PROP, tier, "fault_enumeration", cov, time.time() - t0, unlisted,
                       assumptions=["'all byte strings' is sampled: TLA+ contributes the systematic part (every count/length/code/flag field of every layout)",
                                    "allocations of up to 2 GiB driven by a declared [bytes]/body length are not counted as faults"])
        return unlisted

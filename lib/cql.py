"""Shared pipeline for the CQL value properties C11, C12, C13, C14: one TLC run of CqlValue.tla, one harness run."""
import json
import time

import codecseq

from common import Infra, Scratch, Verdict, seed, build_harness, harness_json, log, marker_json, require_ok, run_tlc, write_evidence

RULES = {
    "C11": "every case of CqlValue.tla: integer CQL types x accepted Go representations x boundary values (0, +-1, +-2, +-2^e +- 1 for "
           "e in {7,8,15,16,31,32,63,64,100}) encoded and decoded back into the same representation and into *interface{} (documented "
           "preferred type), duration / decimal / simple scalar tables, collections / tuples / UDTs with nulls at every position",
    "C12": "the bytes of every case are computed by TLC from the TLA+ transcription of native_protocol_v5.spec section 6 (exact bit-list integer "
           "arithmetic: fixed-width two's complement, minimal varint with the document's example table as ASSUMEs, date offset 2^31, "
           "zig-zag vints, decimal = scale + varint, 4-byte (v3+) and 2-byte (v2) collection framing, null element = -1, tuple/UDT as "
           "successive [bytes]); the real Encode must produce them and the real Decode of them must give the value",
    "C13": "for every (CQL integer type, Go representation, boundary value) in both directions the TLA+ range predicates give the verdict "
           "ok / error; the real conversion must deliver exactly the value or fail; TLC checks the predicates are intervals (so a value "
           "between two boundaries has the verdict of its interval); float narrowing table; duration component overflow",
    "C14": "NullReps (TLA+ transcription of the accepted-representation table of datacodec/doc.go): for every CQL scalar type and every "
           "accepted representation: Encode(untyped nil) and Encode(typed nil pointer / slice) give NULL without error; Decode(NULL) "
           "into a pre-filled destination reports wasNull, zeroes it, no error; null elements at every position of list/set/map/"
           "tuple/UDT survive; protocol v2 collections refuse them",
}


# which property a clause of CqlValueTrace!Verdict belongs to
CLAUSE_PROPS = {"enc-silent": {"C13"}, "enc-refused": {"C11"}, "enc-bytes": {"C12", "C13"},
                "dec-silent": {"C13"}, "dec-refused": {"C11"}, "dec-value": {"C11", "C12", "C13"}}


def random_leg(s, h, v, prop, tier):
    """Binding T: conversions of random integers by the real codecs, judged line by line by TLC (CqlValueTrace.tla)."""
    n = 2500 if tier == "quick" else 20000
    trace = s.file("cqlrand.ndjson")
    rep = harness_json(h, ["cqlrand", "-n", str(n), "-seed", str(seed()), "-out", trace], timeout=3600)
    for x in rep["violations"]:
        p, sig = x["sig"].split("|", 1)
        if p == prop:
            v.violation(sig, x["detail"], x["replay"])
    lines = [json.loads(l) for l in open(trace)]
    # control: a line that is wrong must be rejected (the binding is not vacuous)
    with open(trace, "a") as f:
        f.write(json.dumps(dict(d="enc", cql="tinyint", rep="int64", neg=False, mag=[0, 0, 0, 1, 0, 0, 1, 1], ok=True, bytes=[200])) + "\n")
    with open(s.file("CqlValueTraceRun.cfg"), "w") as f:
        f.write("SPECIFICATION TSpec\nCHECK_DEADLOCK FALSE\n")
    res = require_ok(run_tlc(s, "CqlValueTrace", cfg="CqlValueTraceRun.cfg", workers=1, marker='"REJECTED"', copy=False, env=dict(TRACE=trace, VERIF_DEEP="0"), timeout=3600),
                     "CqlValueTrace")
    out = marker_json(res.lines, '"REJECTED"')
    if not out or out[0]["n"] != len(lines) + 1:
        raise Infra("CqlValueTrace did not read the whole trace")
    bad = {int(b[0]): b[1] for b in out[0]["bad"]}
    if bad.pop(len(lines) + 1, None) != "enc-silent":
        raise Infra("CqlValueTrace accepted the control line (tinyint 200 encoded without error)")
    mine = 0
    for i, clause in sorted(bad.items()):
        e = lines[i - 1]
        if prop in CLAUSE_PROPS.get(clause, ()):
            mag = e.get("mag") or []
            val = sum(b << k for k, b in enumerate(mag)) * (-1 if e.get("neg") else 1)
            v.violation("cqlrand|%s|%s|%s" % (clause, e["cql"], e["rep"]),
                        "random conversion rejected by CqlValueTrace (%s): %s %s %s, value %s, bytes %s, ok=%s" % (
                            clause, e["d"], e["cql"], e["rep"], val if (e["d"] == "enc" or e["ok"]) else "-", bytes(e["bytes"]).hex(), e["ok"]),
                        dict(check="cqlrand", line=e, clause=clause))
            mine += 1
    log("CqlValueTrace: %d random conversions of the real codecs judged by TLC, %d rejected (%d for %s); control line rejected" % (len(lines), len(bad), mine, prop))
    return dict(conversions=len(lines), rejected=len(bad), distinct=rep["distinct"],
                rule="random integers (random sign, bit length up to 70 / 130 for varint, random bits) encoded from a random accepted Go representation, "
                     "and random byte strings of the type's width decoded into a random representation, by the real codecs; every conversion is one "
                     "trace line judged by TLC with the operators of CqlValue.tla (range verdict, prescribed bytes, denoted value); a deliberately "
                     "wrong control line must be rejected")


def run_cql(prop, tier):
    t0 = time.time()
    v = Verdict(prop)
    with Scratch(prop.lower()) as s:
        h = build_harness(s)
        res = require_ok(run_tlc(s, "CqlValue", marker='"CQL"', workers=1, timeout=3600, env=dict(VERIF_DEEP="1" if tier == "thorough" else "0")), "CqlValue")
        cases = marker_json(res.lines, '"CQL"')
        with open(s.file("cases.ndjson"), "w") as f:
            for c in cases:
                f.write(json.dumps(c) + "\n")
        log("TLC CqlValue: %d cases with prescribed bytes and verdicts; ASSUMEs (varint example table, fixed-width examples, interval property) hold (%.0fs)" % (len(cases), res.wall))
        rep = harness_json(h, ["cql", "-cases", s.file("cases.ndjson")], timeout=3600)
        mine = 0
        others = set()
        for x in rep["violations"]:
            p, sig = x["sig"].split("|", 1)
            if p == prop:
                v.violation(sig, x["detail"], x["replay"])
                mine += 1
            else:
                others.add(p)
        if others:
            log("NOTE this run also found violations of %s (reported by their own checks)" % ",".join(sorted(others)))
        log("%s: %d evaluations on the real codecs, %d violations attributed to %s" % (prop, rep["evaluations"], mine, prop))
        rand = None
        if prop in ("C11", "C12", "C13"):
            rand = random_leg(s, h, v, prop, tier)
        cs = None
        if prop in ("C11", "C12"):
            # the value codecs called more than once: encoded bytes the caller keeps, calls after failed calls (CodecSeq.tla)
            cs = codecseq.run_codecseq(s, h, tier, prop)
            for x in cs["violations"]:
                v.violation(x["sig"], x["detail"], x["replay"])
        unlisted = v.finish()
        cov = dict(evaluations=rep["evaluations"] + (rand["conversions"] if rand else 0), distinct_nontrivial=rep["distinct"] + (rand["distinct"] if rand else 0),
                   rule=RULES[prop], samples=rep["samples"], tlc_cases=len(cases), extra=rep.get("extra"), random_leg=rand, codec_histories=({k: cs[k] for k in cs if k != "violations"} if cs else None), known_findings=sorted(v.known_hits))
        if rand:
            cov["traces_validated_against_impl"] = rand["conversions"]
        write_evidence(prop, tier, "exploration", cov, time.time() - t0, unlisted,
                       assumptions=["CqlValue.tla transcribes native_protocol_v5.spec section 6 / v2 section 6 and datacodec/doc.go",
                                    "the harness only materialises values (math/big) and compares; verdicts and bytes come from TLC"])
        return unlisted

"""Shared pipeline for the CQL value properties C11, C12, C13, C14: one TLC run of CqlValue.tla, one harness run."""
import json
import time

from common import Scratch, Verdict, build_harness, harness_json, log, marker_json, require_ok, run_tlc, write_evidence

RULES = {
    "C11": "every case of CqlValue.tla: integer CQL types x accepted Go representations x boundary values (0, +-1, +-2, +-2^e +- 1 for "
           "e in {7,8,15,16,31,32,63,64,100}) encoded and decoded back into the same representation and into *interface{} (documented "
           "preferred type), duration / decimal / simple scalar tables, collections / tuples / UDTs with nulls at every position",
    "C12": "the bytes of every case are computed by TLC from the TLA+ transcription of native_protocol_v5.spec section 6 (exact bit-list integer "
           "arithmetic: fixed-width two's complement, minimal varint with the document's example table as ASSUMEs, date offset 2^31, "
           "zig-zag vints, decimal = scale + varint, 4-byte (v3+) and 2-byte (v2) collection framing, null element = -1, tuple/UDT as "
           "successive [bytes]); the real Encode must produce them and the real Decode of them must give the value",
    "C13": "for every (CQL integer type, Go representation, boundary value) in both directions the TLA+ range predicates give the verdict "
           "ok / error; the real conversion must deliver exactly the value or fail; TLC checks the predicates are intervals (so a value "
           "between two boundaries has the verdict of its interval); float narrowing table; duration component overflow",
    "C14": "NullReps (TLA+ transcription of the accepted-representation table of datacodec/doc.go): for every CQL scalar type and every "
           "accepted representation: Encode(untyped nil) and Encode(typed nil pointer / slice) give NULL without error; Decode(NULL) "
           "into a pre-filled destination reports wasNull, zeroes it, no error; null elements at every position of list/set/map/"
           "tuple/UDT survive; protocol v2 collections refuse them",
}


def run_cql(prop, tier):
    t0 = time.time()
    v = Verdict(prop)
    with Scratch(prop.lower()) as s:
        h = build_harness(s)
        res = require_ok(run_tlc(s, "CqlValue", marker='"CQL"', workers=1, timeout=3600, env=dict(VERIF_DEEP="1" if tier == "thorough" else "0")), "CqlValue")
        cases = marker_json(res.lines, '"CQL"')
        with open(s.file("cases.ndjson"), "w") as f:
            for c in cases:
                f.write(json.dumps(c) + "\n")
        log("TLC CqlValue: %d cases with prescribed bytes and verdicts; ASSUMEs (varint example table, fixed-width examples, interval property) hold (%.0fs)" % (len(cases), res.wall))
        rep = harness_json(h, ["cql", "-cases", s.file("cases.ndjson")], timeout=3600)
        mine = 0
        others = set()
        for x in rep["violations"]:
            p, sig = x["sig"].split("|", 1)
            if p == prop:
                v.violation(sig, x["detail"], x["replay"])
                mine += 1
            else:
                others.add(p)
        if others:
            log("NOTE this run also found violations of %s (reported by their own checks)" % ",".join(sorted(others)))
        log("%s: %d evaluations on the real codecs, %d violations attributed to %s" % (prop, rep["evaluations"], mine, prop))
        unlisted = v.finish()
        cov = dict(evaluations=rep["evaluations"], distinct_nontrivial=rep["distinct"], rule=RULES[prop], samples=rep["samples"],
                   tlc_cases=len(cases), extra=rep.get("extra"), known_findings=sorted(v.known_hits))
        write_evidence(prop, tier, "exploration", cov, time.time() - t0, unlisted,
                       assumptions=["CqlValue.tla transcribes native_protocol_v5.spec section 6 / v2 section 6 and datacodec/doc.go",
                                    "the harness only materialises values (math/big) and compares; verdicts and bytes come from TLC"])
        return unlisted

"""Pipeline for InFlightConc.tla / InFlightLin.tla (the "schedules" quantifier of C09, C10, C16).

For each thread-program configuration: TLC explores every interleaving of the gate-to-gate steps of client/inflight.go,
checks the invariants of the three properties in every state and prints the transition graph; the harness forces the
walks of that graph onto real goroutines (binding R) and records the call/return history of each execution; TLC then
judges every distinct history against the property-level specification InFlightAbs (linearizability, InFlightLin.tla;
binding T). Only a history InFlightLin rejects, a panic or a reproduced deadlock is a violation; a difference between
model and code that InFlightLin accepts is model drift (reported, not a verdict)."""
import json
import os
import re

from common import Infra, harness_json, log, marker_json, run_tlc, seed

INVARIANTS = ["TypeOK", "UniqueAccepted", "InRange", "Bounded", "NoOrphan", "Conserved", "ClosedCompletes", "RoutedById", "OnceOnly", "Delivered", "RecycledWhenSeen", "NoPanic"]

# the tree as it stands: addInFlight re-checks duplicate / capacity under the write lock; a final frame whose id cannot
# be released because the handler was closed meanwhile completes its request with an error
# a frame is handed to its request under the request's read lock (close takes the write lock)
AS_BUILT = dict(CheckUnderLock=True, CloseOnReleaseFail=True, SendUnderLock=True)

M = dict(op="send", id=0)


def E(k):
    return dict(op="send", id=k)


def D(k, last=True):
    return dict(op="deliver", id=k, last=last)


C = dict(op="close")


def R(k):
    """poll the request the caller's k-th operation (a send) returned"""
    return dict(op="recv", id=k)


def X(owner, k):
    """a timer goroutine of the request that the k-th operation of thread `owner` returned goes on and fails it with a timeout"""
    return dict(op="expire", owner=owner, id=k)


def configs(tier):
    """name -> N, MaxPending, setup thread, programs. Thread 'r' is the connection's single receive loop."""
    out = [
        # C09: two callers choose the same id while a response for it may arrive
        dict(name="dup-explicit", N=2, MaxPending=1, setup="none", progs=dict(a=[E(3)], b=[E(3)], r=[D(3)])),
        # C09: capacity with caller-chosen ids: N-1 unanswered, two more sends race
        dict(name="capacity-explicit", N=2, MaxPending=1, setup="s", progs=dict(s=[E(3)], a=[E(4)], b=[M], r=[D(3)])),
        # C09 / C10: managed senders against the receive loop answering out of order; ids recycled
        dict(name="managed-recycle", N=2, MaxPending=1, setup="s", progs=dict(s=[M, M], a=[M], b=[M], r=[D(2), D(1)])),
        # C10: pages and a final page while the id is being reused; an unknown id in between
        dict(name="pages", N=1, MaxPending=2, setup="s", progs=dict(s=[M], a=[M], r=[D(1, False), D(2), D(1), D(1, False)])),
        # C10: overflow of the per-request buffer (MaxPending = 1)
        dict(name="overflow", N=2, MaxPending=1, setup="s", progs=dict(s=[M, M], a=[M], r=[D(1, False), D(1, False), D(2), D(1)])),
        # C09: the caller sees its response and sends again at once: the id must be assignable by then (N = 1)
        dict(name="recv-resend", N=1, MaxPending=2, setup="none", progs=dict(a=[M, R(1), M, R(1)], r=[D(1), D(1)])),
        # C10: pages come out of the request in arrival order while more arrive
        dict(name="recv-pages", N=1, MaxPending=2, setup="none", progs=dict(a=[M, R(1), R(1), R(1)], r=[D(1, False), D(1, False), D(1)])),
        # C16: close against the receive loop delivering a final frame, and a sender
        dict(name="close-deliver", N=2, MaxPending=1, setup="s", progs=dict(s=[M, M], r=[D(1), D(2, False)], c=[C], a=[M])),
        # C16: close against two senders and a second close
        dict(name="close-send", N=2, MaxPending=1, setup="none", progs=dict(a=[M], b=[E(3)], c=[C], d=[C])),
        # C16: a timeout against the receive loop delivering a page and the final frame; the caller polls; the page re-arms
        dict(name="timer-deliver", N=1, MaxPending=2, setup="none", progs=dict(a=[M, R(1), R(1)], r=[D(1, False), D(1)], x=[X("a", 1), X("a", 1)])),
        # C16 / C09: a timeout against close and a further sender (a timed-out request keeps its id until it is answered)
        dict(name="timer-close", N=2, MaxPending=1, setup="s", progs=dict(s=[M, M], x=[X("s", 1)], c=[C], r=[D(1), D(2)], a=[M])),
    ]
    if tier == "thorough":
        out += [
            dict(name="three-senders", N=2, MaxPending=1, setup="none", progs=dict(a=[M], b=[M], c=[M], r=[D(1), D(2)])),
            dict(name="dup-explicit-3", N=3, MaxPending=1, setup="none", progs=dict(a=[E(4)], b=[E(4)], c=[E(4)], r=[D(4)])),
            dict(name="close-all", N=2, MaxPending=2, setup="s", progs=dict(s=[M, E(3)], r=[D(1, False), D(3), D(1)], c=[C], a=[M, E(3)], b=[M])),
            dict(name="recycle-long", N=2, MaxPending=1, setup="none", progs=dict(a=[M, M], b=[M, M], r=[D(1), D(2), D(1)])),
            dict(name="timer-overflow", N=1, MaxPending=1, setup="s", progs=dict(s=[M], r=[D(1, False), D(1, False), D(1)], x=[X("s", 1), X("s", 1)], a=[M, M])),
            dict(name="timer-two", N=2, MaxPending=2, setup="s", progs=dict(s=[M, E(3)], r=[D(1, False), D(3), D(1)], x=[X("s", 1)], y=[X("s", 2)], c=[C])),
            dict(name="mixed", N=3, MaxPending=2, setup="s", progs=dict(s=[M], a=[E(1), M], b=[E(4), E(4)], r=[D(1, False), D(4), D(1)], c=[C])),
        ]
    return out


def tla_value(x):
    if isinstance(x, bool):
        return "TRUE" if x else "FALSE"
    if isinstance(x, int):
        return str(x)
    if isinstance(x, str):
        return '"%s"' % x
    if isinstance(x, list):
        return "<<" + ", ".join(tla_value(y) for y in x) + ">>"
    if isinstance(x, dict):
        return "[" + ", ".join("%s |-> %s" % (k, tla_value(v)) for k, v in x.items()) + "]"
    raise ValueError(x)


def prog_value(progs):
    def op(o):
        d = dict(op=o["op"], id=o.get("id", 0), last=o.get("last", False), owner=o.get("owner", ""))
        return tla_value(d)
    return "[" + ", ".join("%s |-> <<%s>>" % (t, ", ".join(op(o) for o in ops)) for t, ops in progs.items()) + "]"


def explore(scratch, cfg, variant=AS_BUILT, want_graph=True, expect_violation=False):
    name = "ConcMC_" + cfg["name"].replace("-", "_") + ("" if variant is AS_BUILT else "_asfound")
    with open(scratch.file(name + ".tla"), "w") as f:
        f.write("---- MODULE %s ----\nEXTENDS InFlightConc\nProgsDef == %s\n====\n" % (name, prog_value(cfg["progs"])))
    with open(scratch.file(name + ".cfg"), "w") as f:
        f.write("SPECIFICATION Spec\nCONSTANTS\n  N = %d\n  MaxPending = %d\n  Progs <- ProgsDef\n  Setup = \"%s\"\n  CheckUnderLock = %s\n  CloseOnReleaseFail = %s\n  SendUnderLock = %s\n"
                "INVARIANTS %s\nCHECK_DEADLOCK FALSE\n" % (cfg["N"], cfg["MaxPending"], cfg["setup"], tla_value(variant["CheckUnderLock"]),
                                                          tla_value(variant["CloseOnReleaseFail"]), tla_value(variant["SendUnderLock"]), " ".join(INVARIANTS)))
    raw = scratch.file(name + ".raw")
    res = run_tlc(scratch, name, cfg=name + ".cfg", workers=1, marker='", "', outfile=raw, timeout=1800, copy=True)
    if expect_violation:
        os.remove(raw)
        return None, res
    if not res.ok:
        raise Infra("InFlightConc %s: TLC reports %s inside the model\n%s" % (cfg["name"], res.violated, res.stdout[-3000:]))
    path = scratch.file(name + ".graph.ndjson")
    n = 0
    with open(path, "w") as g, open(raw) as f:
        chunk = []

        def flush():
            nonlocal n
            for l in chunk:
                m = re.match(r'^<<"(INIT|EDGE)", "(.*)">>\s*$', l)
                if not m:
                    continue
                payload = json.loads(m.group(2).replace('\\\\', '\x00').replace('\\"', '"').replace('\x00', '\\'))
                if m.group(1) == "INIT":
                    g.write(json.dumps(dict(init=payload)) + "\n")
                else:
                    g.write(json.dumps(payload) + "\n")
                    n += 1
            del chunk[:]
        for line in f:
            chunk.append(line)
            if len(chunk) >= 5000:
                flush()
        flush()
    os.remove(raw)
    return path, res


def validate(scratch, cfg, traces, name):
    """TLC judges the recorded histories: returns (accepted trace numbers, number of traces)."""
    nums = set()
    with open(traces) as f:
        for line in f:
            j = json.loads(line)
            if j["a"] == "reset":
                nums.add(j["trace"])
    if not nums:
        return set(), 0, None
    maxid = max([cfg["N"]] + [o.get("id", 0) for ops in cfg["progs"].values() for o in ops])
    explicit = list(range(cfg["N"] + 1, maxid + 1))
    with open(scratch.file(name + ".lin.cfg"), "w") as f:
        f.write("SPECIFICATION LSpec\nCONSTANTS\n  N = %d\n  MaxPending = %d\n  ExplicitIds = {%s}\n  UnknownId = %d\n  TimeoutQ = 99\nINVARIANTS LinInv\nCHECK_DEADLOCK FALSE\n" % (
            cfg["N"], cfg["MaxPending"], ", ".join(map(str, explicit)), maxid + 1))
    # TLC builds the set of trace starts explicitly: at most 200k lines per run; the chunks run in parallel
    chunks = []
    cur, n = [], 0
    with open(traces) as f:
        for line in f:
            if '"reset"' in line and n >= 200000:
                chunks.append(cur)
                cur, n = [], 0
            cur.append(line)
            n += 1
    if cur:
        chunks.append(cur)

    class Total:
        distinct = 0
    tot = Total()
    acc = set()

    def one(i):
        path = traces if len(chunks) == 1 else "%s.part%d" % (traces, i)
        if len(chunks) > 1:
            with open(path, "w") as f:
                f.writelines(chunks[i])
        res = run_tlc(scratch, "InFlightLin", cfg=name + ".lin.cfg", workers=1, marker='"ACCEPTED"', copy=False, env=dict(TRACE=path), timeout=3600)
        if len(chunks) > 1:
            os.remove(path)
        if not res.ok:
            raise Infra("InFlightLin: TLC reported %s\n%s" % (res.violated, res.stdout[-3000:]))
        return res

    from concurrent.futures import ThreadPoolExecutor
    with ThreadPoolExecutor(min(6, len(chunks))) as ex:
        for res in ex.map(one, range(len(chunks))):
            tot.distinct += res.distinct
            for l in res.lines:
                m = re.search(r'"ACCEPTED",\s*(\d+)', l)
                if m:
                    acc.add(int(m.group(1)))
    return acc, len(nums), tot


def attribute(history):
    """Which property's statement a rejected history contradicts (by the kinds of operation that overlap in it)."""
    ops = {l.get("op") for l in history if l["a"] == "call"}
    props = set()
    if "C" in ops or "X" in ops:
        props.add("C16")
    if ops & {"D", "R"} and not ops & {"C", "X"}:
        props.add("C10")
    if ops & {"M", "E"} and not ops & {"C", "X"}:
        props.add("C09")
    return props or {"C09"}


def run_conc(scratch, h, tier, prop):
    out = dict(states=0, transitions=0, walks=0, schedules_in_model=0, edges=0, edges_replayed=0, histories=0, accepted=0, drifted=0,
               violations=[], notes=[], runs=[], samples=[])
    only = os.environ.get("VERIF_CONC_ONLY")      # (development) a prefix of configuration names
    for cfg in configs(tier):
        if only and not cfg["name"].startswith(only):
            continue
        graph, res = explore(scratch, cfg)
        params = dict(N=cfg["N"], MaxPending=cfg["MaxPending"], progs={t: [dict(op=o["op"], id=o.get("id", 0), last=o.get("last", False), owner=o.get("owner", "")) for o in ops] for t, ops in cfg["progs"].items()})
        traces = scratch.file("conc-%s.traces.ndjson" % cfg["name"])
        rep = harness_json(h, ["conc", "-graph", graph, "-params", json.dumps(params), "-traces-out", traces, "-seed", str(seed()),
                               "-max-walks", "20000" if tier == "quick" else "60000"], timeout=3 * 3600)
        x = rep["extra"]
        acc, ntr, lres = validate(scratch, cfg, traces, "conc-" + cfg["name"])
        nv = 0
        for v in rep["violations"]:
            # panics and reproduced deadlocks: C16's "nothing panics or deadlocks"
            if prop == "C16":
                out["violations"].append(dict(sig="%s|%s" % (v["sig"], cfg["name"]), detail="[%s] %s" % (cfg["name"], v["detail"]), replay=v["replay"]))
                nv += 1
        for t in x.get("trace_index") or []:
            if t["trace"] in acc:
                continue
            props = attribute(t["history"])
            if prop in props:
                calls = ["%s:%s%s" % (l["t"], l["op"], l["k"] if l["op"] in "ED" else "") for l in t["history"] if l["a"] == "call"]
                out["violations"].append(dict(
                    sig="conc|not-linearizable|%s|%s" % (cfg["name"], "+".join(sorted(set(l["op"] for l in t["history"] if l["a"] == "call")))),
                    detail="[%s] a history recorded from real goroutines (%d schedules produce it) is not explained by InFlightAbs under any placement of the "
                           "operations' effects between their calls and returns: calls %s; schedule %s; history %s" % (
                               cfg["name"], t["walks"], calls, t["schedule"], json.dumps(t["history"])),
                    replay=dict(check="conc", config=cfg, schedule=t["schedule"], history=t["history"])))
                nv += 1
        if x["drifted_walks"]:
            out["notes"].append("model drift in %s: %d of %d walks differ from InFlightConc (%s)" % (cfg["name"], x["drifted_walks"], x["walks"], "; ".join(x["drift_samples"][:2])))
        out["states"] += res.distinct
        out["transitions"] += res.generated
        out["walks"] += x["walks"]
        out["schedules_in_model"] += x["schedules_in_model"]
        out["edges"] += x["edges"]
        out["edges_replayed"] += x["edges_replayed"]
        out["histories"] += ntr
        out["accepted"] += len(acc)
        out["drifted"] += x["drifted_walks"]
        out["samples"] += rep["samples"][:1]
        out["runs"].append(dict(config=cfg["name"], states=res.distinct, edges=x["edges"], edges_replayed=x["edges_replayed"], schedules_in_model=x["schedules_in_model"],
                                exhaustive=x["exhaustive"], walks=x["walks"], histories=ntr, accepted=len(acc), drifted=x["drifted_walks"], violations=nv,
                                lin_states=lres.distinct if lres else 0))
        log("Conc %s: %d states / %d edges, %s schedules in the model, %d forced onto real goroutines (%s), %d/%d edges replayed, %d drifted; "
            "%d distinct histories, %d linearizable w.r.t. InFlightAbs; %d violations for %s" % (
                cfg["name"], res.distinct, x["edges"], int(x["schedules_in_model"]), x["walks"], "all" if x["exhaustive"] else "sampled + every edge",
                x["edges_replayed"], x["edges"], x["drifted_walks"], ntr, len(acc), nv, prop))
        os.remove(graph)
    return out


def negative_controls(scratch):
    """The invariants are not vacuous: with the check-then-act of the tree as first found TLC must find the violation."""
    found = {}
    byname = {c["name"]: c for c in configs("quick")}
    for cfg, variant, inv in ((byname["dup-explicit"], dict(CheckUnderLock=False, CloseOnReleaseFail=True, SendUnderLock=True), "UniqueAccepted"),
                              (byname["close-deliver"], dict(CheckUnderLock=True, CloseOnReleaseFail=False, SendUnderLock=True), "NoOrphan"),
                              (byname["timer-deliver"], dict(CheckUnderLock=True, CloseOnReleaseFail=True, SendUnderLock=False), "NoPanic")):
        _, res = explore(scratch, cfg, variant=variant, expect_violation=True)
        found[cfg["name"]] = res.violated
        if res.violated is None:
            raise Infra("negative control %s: TLC found no violation in the as-found model (expected %s)" % (cfg["name"], inv))
    return found

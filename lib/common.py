"""Shared machinery for /verif/bin/check: scratch dirs, TLC runs, harness build, evidence, verdicts.

Exit codes (DESIGN 2.2): 0 held on everything explored (maybe with KNOWN-FINDING lines),
1 with a VIOLATION line for a real-code violation not in known_findings.txt,
2 for infrastructure trouble (never reported as a violation).
"""
import json
import os
import re
import shutil
import subprocess
import sys
import tempfile
import time

VERIF = os.path.dirname(os.path.dirname(os.path.abspath(__file__)))
REPO = os.environ.get("VERIF_REPO", "/repo")
SPECS = os.path.join(VERIF, "specs")
HARNESS = os.path.join(VERIF, "harness")
# a run against a scratch tree (VERIF_REPO: seeded changes) must not overwrite the evidence of the real tree
EVIDENCE = os.path.join(VERIF, "evidence") if "VERIF_REPO" not in os.environ else os.path.join(VERIF, "out", "seeded-evidence")
OUT = os.path.join(VERIF, "out")
KNOWN = os.path.join(VERIF, "known_findings.txt")
NCPU = os.cpu_count() or 4

GOENV = dict(GOFLAGS="-mod=mod", GOPROXY="off", GOSUMDB="off", GOTOOLCHAIN="local")


class Infra(Exception):
    """Machinery fault: exit 2, never a violation."""


def seed():
    try:
        return int(os.environ.get("VERIF_SEED", "1"))
    except ValueError:
        return 1


def log(*a):
    print(*a, flush=True)


class Scratch:
    """A scratch directory outside /repo and /verif, removed on exit."""

    def __init__(self, tag):
        base = os.environ.get("VERIF_SCRATCH", tempfile.gettempdir())
        self.path = tempfile.mkdtemp(prefix="verif-%s-" % tag, dir=base)

    def __enter__(self):
        return self

    def __exit__(self, *exc):
        if os.environ.get("VERIF_KEEP"):
            log("NOTE scratch kept at", self.path)
        else:
            shutil.rmtree(self.path, ignore_errors=True)

    def file(self, name):
        return os.path.join(self.path, name)


# ----------------------------------------------------------------------------------------------
# harness build

def harness_dir(scratch):
    """The harness module to build: /verif/harness itself for /repo, or (VERIF_REPO set, used to try seeded changes in
    a scratch worktree without touching /repo) a scratch copy whose go.mod points at that tree."""
    if os.path.realpath(REPO) == "/repo":
        shutil.copyfile(os.path.join(REPO, "go.sum"), os.path.join(HARNESS, "go.sum"))
        return HARNESS
    dst = scratch.file("harness-src")
    if not os.path.exists(dst):
        shutil.copytree(HARNESS, dst)
        gm = open(os.path.join(dst, "go.mod")).read().replace("=> /repo", "=> " + os.path.realpath(REPO))
        open(os.path.join(dst, "go.mod"), "w").write(gm)
        shutil.copyfile(os.path.join(REPO, "go.sum"), os.path.join(dst, "go.sum"))
    return dst


def build_harness(scratch, race=False):
    """Rebuild the Go harness against /repo's current working tree with hooks on."""
    out = scratch.file("harness-race" if race else "harness")
    env = dict(os.environ, **GOENV)
    HARNESS = harness_dir(scratch)
    cmd = ["go1.26.8", "build", "-tags", "verif"]
    if race:
        cmd.append("-race")
    cmd += ["-o", out, "./"]
    p = subprocess.run(cmd, cwd=HARNESS, env=env, stdout=subprocess.PIPE, stderr=subprocess.STDOUT, text=True)
    if p.returncode != 0:
        raise Infra("harness build failed:\n" + p.stdout[-4000:])
    return out


def run_harness(binary, args, stdin_path=None, timeout=3600, env=None, cwd=None):
    """Run a harness subcommand; returns (returncode, stdout, stderr)."""
    e = dict(os.environ)
    e["VERIF_SEED"] = str(seed())
    if env:
        e.update(env)
    stdin = open(stdin_path, "rb") if stdin_path else subprocess.DEVNULL
    try:
        p = subprocess.run([binary] + args, stdin=stdin, stdout=subprocess.PIPE, stderr=subprocess.PIPE,
                           timeout=timeout, env=e, cwd=cwd)
    except subprocess.TimeoutExpired:
        raise Infra("harness %s timed out after %ss" % (args[:1], timeout))
    finally:
        if stdin_path:
            stdin.close()
    return p.returncode, p.stdout.decode("utf-8", "replace"), p.stderr.decode("utf-8", "replace")


def harness_json(binary, args, **kw):
    """Run a harness subcommand whose stdout's last line is a JSON report."""
    rc, out, err = run_harness(binary, args, **kw)
    if rc not in (0, 1):
        raise Infra("harness %s exit %d\nstdout tail:\n%s\nstderr tail:\n%s" % (args, rc, out[-3000:], err[-3000:]))
    lines = [l for l in out.strip().split("\n") if l.strip()]
    try:
        rep = json.loads(lines[-1])
    except Exception:
        raise Infra("harness %s produced no JSON report\nstdout tail:\n%s\nstderr tail:\n%s" % (args, out[-3000:], err[-3000:]))
    return rep


# ----------------------------------------------------------------------------------------------
# TLC

class TlcResult:
    def __init__(self):
        self.generated = 0
        self.distinct = 0
        self.depth = 0
        self.ok = False
        self.violated = None      # name of violated invariant/property, or "deadlock", "assume", ...
        self.stdout = ""
        self.wall = 0.0
        self.lines = []           # lines printed by the spec with the marker
        self.coverage = {}


_GEN = re.compile(r"(\d+) states generated, (\d+) distinct states found")
_DEPTH = re.compile(r"The depth of the complete state graph search is (\d+)")


def run_tlc(scratch, module, cfg=None, workers=None, timeout=1800, extra=(), marker=None, env=None,
            simulate=None, depth=None, deadlock=True, outfile=None, java_opts=None, copy=True):
    """Run TLC on specs/<module>.tla with specs/<cfg> inside the scratch dir.

    marker: if given, stdout lines containing it are collected (for PrintT-emitted JSON) into
    result.lines; with outfile they are streamed there instead of kept in memory.
    """
    if copy:
        for f in os.listdir(SPECS):
            if f.endswith((".tla", ".cfg")):
                shutil.copyfile(os.path.join(SPECS, f), scratch.file(f))
    cfg = cfg or (module + ".cfg")
    meta = tempfile.mkdtemp(prefix="meta-", dir=scratch.path)
    cmd = ["timeout", str(timeout), "tlc", "-workers", str(workers or NCPU), "-metadir", meta,
           "-config", cfg, "-seed", str(seed())]
    if not deadlock:
        cmd.append("-deadlock")
    if simulate:
        cmd += ["-simulate", simulate]
    if depth:
        cmd += ["-depth", str(depth)]
    cmd += list(extra)
    cmd.append(module + ".tla")
    e = dict(os.environ)
    if java_opts:
        e["JAVA_TOOL_OPTIONS"] = java_opts
    if env:
        e.update(env)
    t0 = time.time()
    res = TlcResult()
    sink = open(outfile, "w") if outfile else None
    tail = []
    p = subprocess.Popen(cmd, cwd=scratch.path, env=e, stdout=subprocess.PIPE, stderr=subprocess.STDOUT, text=True,
                         errors="replace")
    for line in p.stdout:
        if marker and marker in line:
            if sink:
                sink.write(line)
            else:
                res.lines.append(line)
            continue
        tail.append(line)
        if len(tail) > 4000:
            del tail[:2000]
    p.wait()
    if sink:
        sink.close()
    res.wall = time.time() - t0
    res.stdout = "".join(tail)
    shutil.rmtree(meta, ignore_errors=True)
    for m in _GEN.finditer(res.stdout):
        res.generated, res.distinct = int(m.group(1)), int(m.group(2))
    m = _DEPTH.search(res.stdout)
    if m:
        res.depth = int(m.group(1))
    so = res.stdout
    if p.returncode == 124:
        raise Infra("TLC timed out after %ss on %s/%s" % (timeout, module, cfg))
    if "Invariant " in so and " is violated" in so:
        res.violated = re.search(r"Invariant (\S+) is violated", so).group(1)
    elif re.search(r"Temporal property (\S+) was violated", so):
        res.violated = re.search(r"Temporal property (\S+) was violated", so).group(1)
    elif "Temporal properties were violated" in so or "Action property" in so and "is violated" in so:
        m = re.search(r"Action property (\S+) is violated", so)
        res.violated = m.group(1) if m else "temporal"
    elif "Deadlock reached" in so:
        res.violated = "deadlock"
    elif "Assumption" in so and "is false" in so:
        res.violated = "assume"
    elif p.returncode != 0 or "Error:" in so:
        raise Infra("TLC failed (rc=%d) on %s/%s:\n%s" % (p.returncode, module, cfg, so[-5000:]))
    else:
        res.ok = True
    return res


def require_ok(res, what):
    """A counterexample inside a model is a machinery fault unless reproduced on real code (DESIGN 2.2)."""
    if not res.ok:
        raise Infra("%s: TLC reported %s (model-level; not a real-code verdict)\n%s" % (what, res.violated, res.stdout[-4000:]))
    return res


def marker_json(lines, marker):
    """Extract JSON payloads from PrintT lines of the form  <<"MARK", "{...}">>  or  "MARK{...}"."""
    out = []
    for l in lines:
        i = l.find(marker)
        j = l.find("{", i)
        k = l.rfind("}")
        if j < 0 or k < 0:
            continue
        s = l[j:k + 1]
        # PrintT of a TLA+ string escapes quotes as \" ; undo one level.
        if '\\"' in s:
            s = s.replace('\\\\', '\x00').replace('\\"', '"').replace('\x00', '\\')
        out.append(json.loads(s))
    return out


# ----------------------------------------------------------------------------------------------
# known findings / verdicts

def load_known():
    known, fixed = [], []
    if os.path.exists(KNOWN):
        for line in open(KNOWN):
            line = line.strip()
            if not line or line.startswith("#"):
                continue
            m = re.match(r"known:\s+property=(\S+)\s+sig=(\S+)\s*(.*)", line)
            if m:
                known.append(dict(prop=m.group(1), sig=m.group(2), text=m.group(3)))
                continue
            m = re.match(r"fixed:\s+property=(\S+)\s+(\S+)\s*(.*)", line)
            if m:
                fixed.append(dict(prop=m.group(1), commit=m.group(2), text=m.group(3)))
    return known, fixed


class Verdict:
    """Collects violations (real-code only), matches them against known findings, prints the lines."""

    def __init__(self, prop):
        self.prop = prop
        self.violations = []   # dict(sig, detail, replay)
        self.known_hits = {}
        self.notes = []

    def violation(self, sig, detail, replay_obj=None):
        self.violations.append(dict(sig=sig, detail=detail, replay=replay_obj))

    def note(self, text):
        self.notes.append(text)
        log("NOTE", text)

    def finish(self):
        """Print KNOWN-FINDING / VIOLATION lines; return number of unlisted violations."""
        known, _ = load_known()
        mine = {k["sig"]: k for k in known if k["prop"] == self.prop}
        os.makedirs(os.path.join(OUT, "replay"), exist_ok=True)
        unlisted = 0
        seen_known = set()
        nrep = 0
        seen_sig = set()
        for v in self.violations:
            if v["sig"] in mine:
                if v["sig"] not in seen_known:
                    seen_known.add(v["sig"])
                    log("KNOWN-FINDING: property=%s %s %s" % (self.prop, v["sig"], mine[v["sig"]]["text"]))
                continue
            unlisted += 1
            if v["sig"] in seen_sig:
                continue
            seen_sig.add(v["sig"])
            if nrep < 10:
                nrep += 1
                path = os.path.join(OUT, "replay", "%s-%d.json" % (self.prop, nrep))
                with open(path, "w") as f:
                    json.dump(dict(property=self.prop, sig=v["sig"], detail=v["detail"], seed=seed(),
                                   replay=v["replay"]), f, indent=1, default=str)
                log("VIOLATION property=%s replay=%s" % (self.prop, path))
                log("  sig=%s detail=%s" % (v["sig"], str(v["detail"])[:400]))
        self.known_hits = seen_known
        return unlisted


def write_evidence(prop, tier, level, coverage, wall, violations, assumptions=()):
    os.makedirs(EVIDENCE, exist_ok=True)
    ev = dict(property_id=prop, tier=tier, seed=seed(), level=level, coverage=coverage,
              assumptions=list(assumptions), wall_s=round(wall, 2), violations=violations)
    with open(os.path.join(EVIDENCE, prop + ".json"), "w") as f:
        json.dump(ev, f, indent=1, default=str)
        f.write("\n")
    if tier == "thorough" and "VERIF_REPO" not in os.environ:
        # kept next to the quick-tier evidence (which is what a fresh run of the registered quick command rewrites)
        os.makedirs(os.path.join(VERIF, "evidence-thorough"), exist_ok=True)
        with open(os.path.join(VERIF, "evidence-thorough", prop + ".json"), "w") as f:
            json.dump(ev, f, indent=1, default=str)
            f.write("\n")


def main_wrapper(prop, fn):
    """fn(tier) -> (unlisted_violation_count); handles infra errors."""
    tier = sys.argv[2] if len(sys.argv) > 2 else os.environ.get("VERIF_TIER", "quick")
    if tier not in ("quick", "thorough"):
        tier = "quick"
    try:
        n = fn(tier)
    except Infra as e:
        log("INFRA-ERROR property=%s: %s" % (prop, e))
        sys.exit(2)
    except SystemExit:
        raise
    except BaseException:  # a bug in the machinery is never a violation
        import traceback
        traceback.print_exc()
        log("INFRA-ERROR property=%s: unexpected exception in the check driver" % prop)
        sys.exit(2)
    sys.exit(1 if n else 0)

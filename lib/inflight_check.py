"""Driver shared by C09 / C10 / C16: runs the in-flight pipelines and reports the findings attributed to one property."""
import time

import conc
import conn
import hstress
import inflight
import serverlife
import shutdown
from common import Infra, Scratch, Verdict, build_harness, log, run_tlc, write_evidence


def run_inflight(prop, tier):
    t0 = time.time()
    v = Verdict(prop)
    with Scratch(prop.lower()) as s:
        tb = inflight.build_test_binary(s)
        seq = inflight.seq_pipeline(s, tier, tb)
        others = 0
        for f in seq["findings"]:
            if prop in f["props"]:
                v.violation(f["sig"], f["detail"], f["replay"])
            else:
                others += 1
        if others:
            log("NOTE %d finding(s) of this run belong to other properties (%s) and are reported by their checks" % (
                others, ",".join(sorted({p for f in seq["findings"] for p in f["props"]} - {prop}))))
        # concurrent layer: every interleaving of the gate-to-gate steps of small thread programs (InFlightConc.tla) forced
        # onto real goroutines; the histories they produce judged by InFlightLin.tla against InFlightAbs
        h = build_harness(s)
        neg = conc.negative_controls(s)
        cc = conc.run_conc(s, h, tier, prop)
        for x in cc["violations"]:
            v.violation(x["sig"], x["detail"], x["replay"])
        for n in cc["notes"]:
            log("NOTE " + n[:800])
        # free-running executions of the handler (no gates), judged by TLC: histories by InFlightLin, lock-level traces by InFlightHook
        hs = hstress.run_hstress(s, tb, tier, prop)
        for x in hs["violations"]:
            v.violation(x["sig"], x["detail"], x["replay"])
        connres = None
        sd = None
        sl = None
        if prop == "C10":
            # connection level: events, responses for unknown ids and a refused duplicate send mixed into Conn.tla sessions
            connres = conn.run_conn(s, tier, tb, c10=True)
            for x in connres["violations"]:
                v.violation(x["sig"], x["detail"], x["replay"])
        live = None
        if prop == "C16":
            # liveness of the handler design (TLC, under weak fairness of the clock): every accepted request is eventually
            # completed - by its response, by close, or by the read timeout; without fairness (time need not pass) the
            # property must fail, which is the non-vacuity control
            cfg = "InFlightSeqLive.cfg" if tier == "thorough" else "InFlightSeqLiveQuick.cfg"
            lres = run_tlc(s, "InFlightSeq", cfg=cfg, timeout=3600, copy=True)
            if not lres.ok:
                raise Infra("InFlightSeq %s: TLC reports %s (design-level liveness; not a verdict about the code)\n%s" % (cfg, lres.violated, lres.stdout[-3000:]))
            with open(s.file("InFlightSeqLiveUnfair.cfg"), "w") as f:
                f.write(open(s.file("InFlightSeqLiveQuick.cfg")).read().replace("SPECIFICATION FairSpec", "SPECIFICATION Spec"))
            nres = run_tlc(s, "InFlightSeq", cfg="InFlightSeqLiveUnfair.cfg", timeout=3600, copy=False)
            if nres.violated is None:
                raise Infra("InFlightSeq liveness control: EventuallyCompleted holds even if time never passes")
            live = dict(config=cfg, states=lres.distinct, property="EventuallyCompleted under WF(Tick)", control_without_fairness=nres.violated)
            log("TLC InFlightSeq %s: EventuallyCompleted holds under WF(Tick) on %d states; fails without fairness (%s) as required" % (cfg, lres.distinct, nres.violated))
        if prop == "C16":
            # connection level: a fault (close of either side, context cancel, loss of the peer) at every step of every
            # Conn.tla session, on the three rigs
            connres = conn.run_conn(s, tier, tb, faults=True)
            for x in connres["violations"]:
                v.violation(x["sig"], x["detail"], x["replay"])
            # the windows narrower than a step: design check + free-running stress + trace validation
            sd = shutdown.run_shutdown(s, tier, tb)
            for x in sd["violations"]:
                v.violation(x["sig"], x["detail"], x["replay"])
            # the server and its registry of connections
            sl = serverlife.run_serverlife(s, h, tb, tier)
            for x in sl["violations"]:
                v.violation(x["sig"], x["detail"], x["replay"])
        if seq["drift"]:
            log("NOTE model drift: %d real traces differ from InFlightSeq but are accepted by InFlightAbs" % seq["drift"])
        unlisted = v.finish()
        extra_states = connres["states"] if connres else 0
        extra_runs = connres["evaluations"] if connres else 0
        cov = dict(states=seq["states"] + extra_states + cc["states"], transitions=seq["transitions"] + (connres["transitions"] if connres else 0) + cc["transitions"],
                   traces_validated_against_impl=seq["traces"] + extra_runs + cc["histories"],
                   evaluations=seq["evaluations"] + extra_runs + cc["walks"], distinct_nontrivial=seq["distinct"] + (connres["distinct"] if connres else 0) + cc["histories"],
                   concurrent_layer=dict(
                       rule="InFlightConc.tla: one process per calling goroutine, one step per stretch of client/inflight.go between two gate "
                            "points; TLC checks UniqueAccepted, Bounded, NoOrphan, Conserved, ClosedCompletes, RoutedById, OnceOnly, Delivered in "
                            "every state of every interleaving and prints the transition graph; every walk of the graph (or a uniform sample "
                            "plus a walk through every edge) is forced onto real goroutines through client.VerifGate, comparing gate / result / "
                            "free ids / registered ids / closed flag after every step and every request at the end; the call/return history of "
                            "every execution is validated by TLC against InFlightAbs (InFlightLin.tla: linearizable with the recorded results "
                            "and the final observation). Verdicts: histories InFlightLin rejects, panics, reproduced stalls.",
                       states=cc["states"], edges=cc["edges"], edges_replayed=cc["edges_replayed"], schedules_in_model=cc["schedules_in_model"],
                       schedules_forced=cc["walks"], distinct_histories=cc["histories"], histories_accepted=cc["accepted"], drifted_walks=cc["drifted"],
                       negative_controls=neg, runs=cc["runs"]),
                   rule="sequential layer: every history of API calls up to the depth bound (TLC keeps the history in the state) and "
                        "random walks (-simulate) of InFlightSeq.tla are executed on the real handler inside synctest bubbles; after "
                        "every call the projection (free-id queue, table, per-request id/managed/pending/done/error class, call "
                        "result) is compared with the spec state; distinct = distinct history prefixes whose projection was compared; "
                        "runs that differ anywhere are judged by TLC against InFlightAbs (trace validation)",
                   samples=seq["samples"][:3] + (connres["samples"][:1] if connres else []), runs=seq["runs"], model_drift=seq["drift"],
                   connection_level=(dict(states=connres["states"], sessions=connres["sessions"], replays=connres["evaluations"],
                                          runs=connres["runs"],
                                          rule="C10: Conn.tla sessions with server-pushed events, responses for stream ids no request carries and one "
                                               "refused duplicate send, replayed on real connections (library client against a raw server and against the "
                                               "library server) for every version and compression: each response reaches the request with its stream id, "
                                               "each event the event channel, nothing else anything" if prop == "C10" else
                                               "every prefix of every Conn.tla session followed by one fault (close-client, close-server, "
                                               "cancel, drop) replayed on real connections for every version and compression: pending requests "
                                               "closed with an error, blocked receivers return, later sends refused, Close returns (twice), "
                                               "no goroutine survives") if connres else None),
                   free_running=dict({k: hs[k] for k in hs if k != "violations"},
                                     rule="harness/handlerstress_test.go: senders and the receive loop run unsynchronised on the real handler; small rounds: "
                                          "call/return history stamped from one atomic counter, validated by InFlightLin.tla against InFlightAbs; big rounds "
                                          "(N >= 64, table filled and drained in bursts): inflight.add / inflight.remove trace points (emitted under the "
                                          "handler's lock, with the table size) validated by InFlightHook.tla"),
                   server_level=(dict({k: sl[k] for k in sl if k != "violations"},
                                      rule="ServerLife.tla: start (or a Start that cannot listen), clients connecting, Accept / AcceptAny, Accept for a "
                                           "connection made elsewhere, peers going away, Close - every session of two small configurations replayed on a "
                                           "real CqlServer over loopback TCP: call results and registrations as the model says, Close returns, nothing "
                                           "panics, accepted connections closed, later calls refused, no goroutine left; plus servers closed while their "
                                           "peers drop (free-running)") if sl else None),
                   shutdown_level=({k: sd[k] for k in sd if k != "violations"} if sd else None),
                   handler_liveness=live,
                   known_findings=sorted(v.known_hits))
        write_evidence(prop, tier, "model_checking", cov, time.time() - t0, unlisted,
                       assumptions=["TLC 1.8.0", "Go runtime testing/synctest fake clock (go1.26.8)",
                                    "export shim client/verif_hooks.go and the projection in harness/inflight_seq_test.go",
                                    "error classes are recognised by message substring in the fast path only; the verdict path "
                                    "(InFlightAbs) sees only error / no error"])
        return unlisted

"""Driver shared by C09 / C10 / C16: runs the in-flight pipelines and reports the findings attributed to one property."""
import time

import conn
import inflight
from common import Scratch, Verdict, log, write_evidence


def run_inflight(prop, tier):
    t0 = time.time()
    v = Verdict(prop)
    with Scratch(prop.lower()) as s:
        tb = inflight.build_test_binary(s)
        seq = inflight.seq_pipeline(s, tier, tb)
        others = 0
        for f in seq["findings"]:
            if prop in f["props"]:
                v.violation(f["sig"], f["detail"], f["replay"])
            else:
                others += 1
        if others:
            log("NOTE %d finding(s) of this run belong to other properties (%s) and are reported by their checks" % (
                others, ",".join(sorted({p for f in seq["findings"] for p in f["props"]} - {prop}))))
        connres = None
        if prop == "C16":
            # connection level: a fault (close of either side, context cancel, loss of the peer) at every step of every
            # Conn.tla session, on the three rigs
            connres = conn.run_conn(s, tier, tb, faults=True)
            for x in connres["violations"]:
                v.violation(x["sig"], x["detail"], x["replay"])
        if seq["drift"]:
            log("NOTE model drift: %d real traces differ from InFlightSeq but are accepted by InFlightAbs" % seq["drift"])
        unlisted = v.finish()
        extra_states = connres["states"] if connres else 0
        extra_runs = connres["evaluations"] if connres else 0
        cov = dict(states=seq["states"] + extra_states, transitions=seq["transitions"] + (connres["transitions"] if connres else 0),
                   traces_validated_against_impl=seq["traces"] + extra_runs,
                   evaluations=seq["evaluations"] + extra_runs, distinct_nontrivial=seq["distinct"] + (connres["distinct"] if connres else 0),
                   rule="sequential layer: every history of API calls up to the depth bound (TLC keeps the history in the state) and "
                        "random walks (-simulate) of InFlightSeq.tla are executed on the real handler inside synctest bubbles; after "
                        "every call the projection (free-id queue, table, per-request id/managed/pending/done/error class, call "
                        "result) is compared with the spec state; distinct = distinct history prefixes whose projection was compared; "
                        "runs that differ anywhere are judged by TLC against InFlightAbs (trace validation)",
                   samples=seq["samples"][:3] + (connres["samples"][:1] if connres else []), runs=seq["runs"], model_drift=seq["drift"],
                   connection_level=(dict(states=connres["states"], sessions=connres["sessions"], replays=connres["evaluations"],
                                          runs=connres["runs"],
                                          rule="every prefix of every Conn.tla session followed by one fault (close-client, close-server, "
                                               "cancel, drop) replayed on real connections for every version and compression: pending requests "
                                               "closed with an error, blocked receivers return, later sends refused, Close returns (twice), "
                                               "no goroutine survives") if connres else None),
                   known_findings=sorted(v.known_hits))
        write_evidence(prop, tier, "model_checking", cov, time.time() - t0, unlisted,
                       assumptions=["TLC 1.8.0", "Go runtime testing/synctest fake clock (go1.26.8)",
                                    "export shim client/verif_hooks.go and the projection in harness/inflight_seq_test.go",
                                    "error classes are recognised by message substring in the fast path only; the verdict path "
                                    "(InFlightAbs) sees only error / no error"])
        return unlisted

"""Pipeline for Conn.tla (C15; transport part of C10 / C16): TLC explores every session of the model for a rig /
framing / authentication configuration, checks the C15 invariants, and prints every finished session; the harness
(test binary, synctest + net.Pipe) replays each session on real connections for every version and compression."""
import json
import os
import subprocess
from concurrent.futures import ThreadPoolExecutor

import inflight
from common import Infra, NCPU, log, marker_json, require_ok, run_tlc, seed

INVARIANTS = ["RequestsInOrder", "ResponsesInOrder", "WireOK", "ModesAgree", "AllArrive", "EventsInOrder", "OnlyOwnResponses", "Emit"]


def fault_configs(tier):
    out = []
    kinds = ["close-client", "close-server", "cancel", "drop"]
    for rig in ("lib-lib", "lib-raw", "raw-lib"):
        for modern in (True, False):
            for auth in ((False,) if tier == "quick" else (False, True)):
                out.append(dict(rig=rig, modern=modern, auth=auth, nreq=2, big=[], faults=kinds))
    return out


def c10_configs(tier):
    """C10 at the connection level: events, responses for unknown ids and a refused duplicate send mixed into the sessions
    (one feature per configuration in the quick tier: their interleavings multiply)"""
    out = []
    feats = [dict(events=1), dict(spurious=1), dict(dup=True)] if tier == "quick" else [dict(events=2, spurious=1), dict(events=1, dup=True), dict(spurious=2, dup=True)]
    for rig in ("lib-raw", "lib-lib"):
        for modern in (True, False):
            for f in feats:
                out.append(dict(rig=rig, modern=modern, auth=False, nreq=2, big=[], spread=not modern, **f))
    return out


def configs(tier):
    out = []
    for rig in ("lib-lib", "lib-raw", "raw-lib"):
        for modern in (True, False):
            for auth in (False, True):
                nreq = 2 if tier == "quick" else 3
                if tier == "quick" and auth and not modern and rig != "lib-lib":
                    continue
                out.append(dict(rig=rig, modern=modern, auth=auth, nreq=nreq, big=[2]))
    # what only a raw peer does: every envelope split (two reassemblies on one connection), and envelopes that would fit
    # a segment split anyway, cut inside / at the end of the envelope header
    for rig in ("lib-raw", "raw-lib"):
        out.append(dict(rig=rig, modern=True, auth=False, nreq=2, big=[1, 2]))
        out.append(dict(rig=rig, modern=True, auth=tier != "quick", nreq=2 if tier == "quick" else 3, big=[], small=[1, 2] if tier == "quick" else [1, 2, 3]))
    return out


def explore(scratch, cfg, name):
    with open(scratch.file(name + ".cfg"), "w") as f:
        f.write("SPECIFICATION Spec\nCONSTANTS\n  Modern = %s\n  Auth = %s\n  Rig = \"%s\"\n  NReq = %d\n  BigFrames = {%s}\n  SplitSmall = {%s}\n  NEvents = %d\n  NSpurious = %d\n  Dup = %s\n  Faults = {%s}\nINVARIANTS %s\nCHECK_DEADLOCK FALSE\n" % (
            "TRUE" if cfg["modern"] else "FALSE", "TRUE" if cfg["auth"] else "FALSE", cfg["rig"], cfg["nreq"],
            ", ".join(str(b) for b in cfg["big"]), ", ".join(str(b) for b in cfg.get("small", [])), cfg.get("events", 0), cfg.get("spurious", 0), "TRUE" if cfg.get("dup") else "FALSE", ", ".join('"%s"' % k for k in cfg.get("faults", [])), " ".join(INVARIANTS)))
    raw = scratch.file(name + ".raw")
    res = require_ok(run_tlc(scratch, "Conn", cfg=name + ".cfg", marker='"SESSION"', outfile=raw, timeout=3000, workers=4), "Conn " + name)
    path = scratch.file(name + ".ndjson")
    n = 0
    with open(path, "w") as g, open(raw) as f:
        chunk = []
        for line in f:
            chunk.append(line)
            if len(chunk) >= 5000:
                for j in marker_json(chunk, '"SESSION"'):
                    g.write(json.dumps(j) + "\n")
                    n += 1
                chunk = []
        for j in marker_json(chunk, '"SESSION"'):
            g.write(json.dumps(j) + "\n")
            n += 1
    os.remove(raw)
    return path, res, n


def replay(scratch, testbin, cfg, sessions, shards=8):
    conn = dict(rig=cfg["rig"], modern=cfg["modern"], auth=cfg["auth"], big=cfg["big"], spread=bool(cfg.get("spread")))

    def one(i):
        env = dict(os.environ, VERIF_SESSIONS=sessions, VERIF_CONN=json.dumps(conn), VERIF_SHARD=str(i), VERIF_NSHARDS=str(shards),
                   VERIF_SEED=str(seed()))
        p = subprocess.run([testbin, "-test.run", "^TestConnReplay$", "-test.timeout", "2h"], env=env, stdout=subprocess.PIPE,
                           stderr=subprocess.STDOUT, text=True, errors="replace")
        return i, p

    reps = []
    crashes = []
    with ThreadPoolExecutor(shards) as ex:
        for i, p in ex.map(one, range(shards)):
            rl = [l for l in p.stdout.split("\n") if l.startswith("REPORT ")]
            if not rl:
                crashes.append(dict(shard=i, output=p.stdout[-5000:]))
                continue
            reps.append(json.loads(rl[0][7:]))
    return reps, crashes


def run_conn(scratch, tier, testbin, faults=False, c10=False):
    out = dict(states=0, transitions=0, sessions=0, evaluations=0, distinct=0, violations=[], samples=[], runs=[])
    for cfg in (fault_configs(tier) if faults else c10_configs(tier) if c10 else configs(tier)):
        name = "conn-%s-%s-%s%s%s%s" % (cfg["rig"], "modern" if cfg["modern"] else "legacy", "auth" if cfg["auth"] else "noauth", "-faults" if faults else "",
                                        "-big" + "".join(map(str, cfg["big"])) if cfg["big"] not in ([2], []) else "", "-small" + "".join(map(str, cfg["small"])) if cfg.get("small") else "") + ("-c10-ev%d-sp%d-dup%d" % (cfg.get("events", 0), cfg.get("spurious", 0), 1 if cfg.get("dup") else 0) if c10 else "")
        path, res, n = explore(scratch, cfg, name)
        out["states"] += res.distinct
        out["transitions"] += res.generated
        out["sessions"] += n
        reps, crashes = replay(scratch, testbin, cfg, path)
        ev = sum(r["evaluations"] for r in reps)
        nv = 0
        for r in reps:
            out["evaluations"] += r["evaluations"]
            out["distinct"] += r["distinct"]
            out["samples"] += (r.get("samples") or [])[:1]
            for x in r.get("violations") or []:
                out["violations"].append(x)
                nv += 1
        for c in crashes:
            first = [l for l in c["output"].split("\n") if l.startswith(("panic:", "fatal error:")) or "blocked goroutines remain" in l or "deadlock" in l]
            if not first:
                # killed, out of memory, a failure of the harness itself: says nothing about the code
                raise Infra("replay worker of %s died without a panic or deadlock of its own:\n%s" % (name, c["output"][-2000:]))
            out["violations"].append(dict(sig="conn|%s|crash|%s" % (cfg["rig"], (first[0][:50] if first else "worker-died").replace(" ", "-")),
                                          detail="replay worker died (%s): %s" % (name, c["output"][-1500:]),
                                          replay=dict(check="conn", config=cfg)))
            nv += 1
        out["runs"].append(dict(config=cfg, states=res.distinct, sessions=n, replays=ev, violations=nv))
        log("Conn %s: %d states, %d sessions, %d replays on real connections (versions x compressions), %d violations" % (
            name, res.distinct, n, ev, nv))
        os.remove(path)
    return out

"""Free-running executions of the real in-flight handler (harness/handlerstress_test.go), judged by TLC:
call/return histories of small rounds against InFlightAbs (InFlightLin.tla), trace points emitted under the handler's
lock in big rounds (N >= 64, the table filled and drained in bursts) against InFlightHook.tla."""
import json
import os
import re
import subprocess

import conc
from common import Infra, log, marker_json, run_tlc, seed


def run_hstress(scratch, testbin, tier, prop):
    rounds = 6000 if tier == "quick" else 30000
    procs = 4 if tier == "quick" else 8
    out = dict(violations=[], rounds=rounds * procs)

    def one(i):
        hist, hook = scratch.file("hstress.hist.%d.ndjson" % i), scratch.file("hstress.hook.%d.ndjson" % i)
        env = dict(os.environ, VERIF_STRESS=str(rounds), VERIF_SEED=str(seed() * 100 + i), VERIF_HIST_OUT=hist, VERIF_HOOK_OUT=hook)
        p = subprocess.run([testbin, "-test.run", "^TestHandlerStress$", "-test.timeout", "3h"], env=env, stdout=subprocess.PIPE, stderr=subprocess.STDOUT,
                           text=True, errors="replace")
        return p, hist, hook

    from concurrent.futures import ThreadPoolExecutor
    with ThreadPoolExecutor(procs) as ex:
        runs = list(ex.map(one, range(procs)))
    rep = dict(problems=[], ops=0, accepted=0, refused=0, distinct_histories=0, hook_traces=0, hook_events=0, handoff_rounds=0)
    hist, hook = scratch.file("hstress.hist.ndjson"), scratch.file("hstress.hook.ndjson")
    seen_hist = set()
    ntrace = 0
    with open(hist, "w") as hf, open(hook, "w") as kf:
        for p, h1, k1 in runs:
            rl = [l for l in p.stdout.split("\n") if l.startswith("HSTRESS ")]
            if not rl:
                m = re.search(r"^(panic: .*|fatal error: .*)$", p.stdout, re.M)
                lib = re.search(r"go-cassandra-native-protocol/client\.\(\*\w+\)\.(\w+)", p.stdout)
                if m and lib:
                    if prop == "C16":
                        out["violations"].append(dict(sig="hstress|crash|%s|%s" % (m.group(1)[:40].replace(" ", "-"), lib.group(1)),
                                                      detail="the in-flight handler under free-running senders and a responder: the process died: %s in %s; %s" % (
                                                          m.group(1), lib.group(0), p.stdout[p.stdout.find(m.group(1)):][:1500]),
                                                      replay=dict(check="hstress", rounds=rounds, seed=seed())))
                    continue
                raise Infra("TestHandlerStress: no report and no library panic:\n" + p.stdout[-3000:])
            r = json.loads(rl[0][8:])
            rep["problems"] += r["problems"]
            for k in ("ops", "accepted", "refused", "hook_traces", "hook_events", "handoff_rounds"):
                rep[k] += r[k]
            # merge the histories (distinct across processes) and the hook traces (renumbered)
            block, key = [], None
            def flush():
                nonlocal ntrace
                if block:
                    k = "\n".join(block[1:]) + "|%d" % json.loads(block[0])["n"]
                    if k not in seen_hist:
                        seen_hist.add(k)
                        ntrace += 1
                        j = json.loads(block[0])
                        j["trace"] = ntrace
                        hf.write(json.dumps(j) + "\n" + "\n".join(block[1:]) + "\n")
            with open(h1) as f:
                for line in f:
                    if '"reset"' in line:
                        flush()
                        block = [line.strip()]
                    else:
                        block.append(line.strip())
                flush()
                block = []
            with open(k1) as f:
                for line in f:
                    if '"reset"' in line:
                        j = json.loads(line)
                        out.setdefault("_hk", 0)
                        out["_hk"] += 1
                        j["trace"] = out["_hk"]
                        kf.write(json.dumps(j) + "\n")
                    else:
                        kf.write(line)
            os.remove(h1)
            os.remove(k1)
    out.pop("_hk", None)
    rep["distinct_histories"] = ntrace
    for prob in rep["problems"][:20]:
        if (prop == "C16") if prob.startswith("hand-off") else (prop in ("C09", "C10")):
            out["violations"].append(dict(sig="hstress|%s" % re.sub(r"[^a-zA-Z]+", "-", re.sub(r"big round \d+ \(N=\d+\): |hand-off round \d+: |round \d+: ", "hand-off " if prob.startswith("hand-off") else "", prob))[:60], detail=prob,
                                          replay=dict(check="hstress", rounds=rounds, seed=seed())))
    if ntrace == 0:
        out.update(ops=rep["ops"], histories=0, hook_events=0, hook_traces=0, accepted_histories=0)
        return out
    # histories, grouped by N
    groups = {}
    index = {}
    cur = None
    with open(hist) as f:
        for line in f:
            j = json.loads(line)
            if j["a"] == "reset":
                cur = j["n"]
                index[j["trace"]] = dict(n=cur, walks=j["walks"], history=[])
                groups.setdefault(cur, []).append(json.dumps(dict(a="reset", trace=j["trace"])))
                last = j["trace"]
            else:
                groups[cur].append(line.strip())
                index[last]["history"].append(j)
    accepted = 0
    lin_states = 0
    for n, lines in sorted(groups.items()):
        path = scratch.file("hstress.hist.%d.ndjson" % n)
        with open(path, "w") as f:
            f.write("\n".join(lines) + "\n")
        cfg = dict(name="hstress-n%d" % n, N=n, MaxPending=2, progs={})
        acc, ntr, res = conc.validate(scratch, cfg, path, "hstress-n%d" % n)
        accepted += len(acc)
        lin_states += res.distinct if res else 0
        for t, info in index.items():
            if info["n"] != n or t in acc:
                continue
            props = conc.attribute(info["history"])
            if prop in props:
                out["violations"].append(dict(
                    sig="hstress|not-linearizable|N%d|%s" % (n, "+".join(sorted(set(l["op"] for l in info["history"] if l["a"] == "call")))),
                    detail="a history of a free-running execution of the real handler (N=%d; %d rounds produced it) is not explained by InFlightAbs under any "
                           "placement of the operations' effects between their calls and returns: %s" % (n, info["walks"], json.dumps(info["history"])),
                    replay=dict(check="hstress", n=n, history=info["history"])))
        os.remove(path)
    # trace points under the lock
    with open(scratch.file("InFlightHookRun.cfg"), "w") as f:
        f.write("SPECIFICATION HSpec\nINVARIANTS Report\nCHECK_DEADLOCK FALSE\n")
    res = run_tlc(scratch, "InFlightHook", cfg="InFlightHookRun.cfg", workers=1, marker='"REJECTED"', copy=True, env=dict(TRACE=hook), timeout=3600)
    if not res.ok:
        raise Infra("InFlightHook: TLC reported %s\n%s" % (res.violated, res.stdout[-3000:]))
    rj = marker_json(res.lines, '"REJECTED"')
    if not rj:
        raise Infra("InFlightHook: trace file not consumed to the end\n" + res.stdout[-3000:])
    for o in rj:
        for r in o["r"]:
            if prop in ("C09", "C10"):
                out["violations"].append(dict(
                    sig="hstress|hook-trace|%s" % r[2],
                    detail="free-running execution, trace %d: trace point #%d %s(id=%s) reports a table of %s entries, the specification has %s before it: a registration "
                           "under an id still carried by an unanswered request, more than N registered, or an entry that appeared / disappeared outside the "
                           "handler's critical sections" % (r[0], r[1], r[2], r[3], r[4], r[5]),
                    replay=dict(check="hstress", rejected=r)))
    out.update(ops=rep["ops"], sends_accepted=rep["accepted"], sends_refused=rep["refused"], histories=rep["distinct_histories"], accepted_histories=accepted,
               hook_traces=rep["hook_traces"], hook_events=rep["hook_events"], lin_states=lin_states, handoff_rounds=rep["handoff_rounds"])
    rounds = out["rounds"]
    log("HandlerStress: %d rounds free-running (%d operations): %d distinct histories, %d linearizable w.r.t. InFlightAbs; %d lock-level traces / %d trace points "
        "validated by InFlightHook; %d violations for %s" % (rounds, rep["ops"], rep["distinct_histories"], accepted, rep["hook_traces"], rep["hook_events"],
                                                             len(out["violations"]), prop))
    os.remove(hist)
    os.remove(hook)
    return out

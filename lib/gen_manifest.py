#!/usr/bin/env python3
"""Regenerates /verif/MANIFEST.json from the table below (single source of truth for the interface)."""
import json
import os

VERIF = os.path.dirname(os.path.dirname(os.path.abspath(__file__)))

SETUP = ("cd /verif/harness && cp /repo/go.sum . && GOTOOLCHAIN=local GOFLAGS=-mod=mod GOPROXY=off GOSUMDB=off "
         "go1.26.8 build -tags verif -o /dev/null ./ && cd /verif/specs && for f in *.tla; do tla-sany $f >/dev/null || exit 1; done")

HOOK_COMMITS = ["6a98493"]

# property -> dict(level, text, note, technique, design_ref)
CHECKS = {
    "C20": dict(
        level="model_checking",
        text="TLC closes the reachable graphs of FrameMut.tla (all finite mutator sequences, both the documented domain and "
             "every mutator on every frame) and StartupOpts.tla and checks the flag/body-part invariants and the setter/getter "
             "action properties; every transition of those graphs is then replayed on real frames of every message kind and "
             "version (and on a real Startup), the projected real state compared with the spec's successor state, and the frame "
             "encoded, length-checked and round-tripped in every Encodable state. Exhaustive over the abstract argument classes.",
        note="Trusted: TLC; the builder/projection between abstract states and Go frames; argument classes nil/empty/full "
             "(strings: empty / arbitrary non-empty) stand for all arguments of the class.",
        technique="TLA+ state graph closed by TLC + transition-coverage replay into the real mutators",
        design_ref="DESIGN.md §3.7, §4 C20"),
}

NOT_YET = {}


def main():
    props = [json.loads(l) for l in open(os.path.join(VERIF, "properties.jsonl"))]
    checks = []
    na = []
    for p in props:
        pid = p["id"]
        if pid in CHECKS:
            c = CHECKS[pid]
            checks.append(dict(
                property_id=pid,
                quick_cmd="bin/check %s quick" % pid,
                thorough_cmd="bin/check %s thorough" % pid,
                evidence_file="/verif/evidence/%s.json" % pid,
                replay_cmd_template="bin/replay {path}",
                engine="tlc+harness",
                level_claimed=dict(category=c["level"], text=c["text"], design_ref=c["design_ref"]),
                level_note=c["note"],
                technique=c["technique"],
            ))
        else:
            na.append(dict(property_id=pid, reason=NOT_YET.get(pid, "check not built yet in this session; planned per DESIGN.md §4 " + pid)))
    m = dict(
        version=1,
        setup_cmd=SETUP,
        hooks=dict(guard="verif", enable="go build -tags verif (harness module /verif/harness replaces the library with /repo)",
                   baseline_off_cmd="cd /repo && go test -vet=off -count=1 ./...",
                   source_commits=HOOK_COMMITS, add_only=True),
        engines=[dict(name="tlc+harness", path="/verif/bin/check", serves_properties=sorted(CHECKS),
                      kind_free_text="TLA+ specs in /verif/specs checked by TLC; Go harness (/verif/harness, built against /repo with "
                                     "-tags verif) replays TLC-generated behaviours/vectors into the real code and records traces that "
                                     "TLC validates")],
        checks=checks,
        notes="See DESIGN.md. known_findings.txt lists repaired (fixed:) and recorded (known:) defects.",
        not_applicable=na,
    )
    with open(os.path.join(VERIF, "MANIFEST.json"), "w") as f:
        json.dump(m, f, indent=1)
        f.write("\n")


main()

#!/usr/bin/env python3
"""Regenerates /verif/MANIFEST.json from the table below (single source of truth for the interface)."""
import json
import os

VERIF = os.path.dirname(os.path.dirname(os.path.abspath(__file__)))

SETUP = ("cd /verif/harness && cp /repo/go.sum . && GOTOOLCHAIN=local GOFLAGS=-mod=mod GOPROXY=off GOSUMDB=off "
         "go1.26.8 build -tags verif -o /dev/null ./ && cd /verif/specs && for f in *.tla; do tla-sany $f >/dev/null || exit 1; done")

HOOK_COMMITS = ["6a98493"]

# property -> dict(level, text, note, technique, design_ref)
CHECKS = {
    "C20": dict(
        level="model_checking",
        text="TLC closes the reachable graphs of FrameMut.tla (all finite mutator sequences, both the documented domain and "
             "every mutator on every frame) and StartupOpts.tla and checks the flag/body-part invariants and the setter/getter "
             "action properties; every transition of those graphs is then replayed on real frames of every message kind and "
             "version (and on a real Startup), the projected real state compared with the spec's successor state, and the frame "
             "encoded, length-checked and round-tripped in every Encodable state. Exhaustive over the abstract argument classes.",
        note="Trusted: TLC; the builder/projection between abstract states and Go frames; argument classes nil/empty/full "
             "(strings: empty / arbitrary non-empty) stand for all arguments of the class.",
        technique="TLA+ state graph closed by TLC + transition-coverage replay into the real mutators",
        design_ref="DESIGN.md §3.7, §4 C20"),
}

_IF_NOTE = ("Trusted: TLC; testing/synctest fake clock; the export shim (client/verif_hooks.go) and the projection of the real "
            "handler; bounds N<=3 (all histories to depth 5/6) and N<=4 (random walks).")
CHECKS["C09"] = dict(
    level="model_checking",
    text="InFlightSeq.tla (code-shaped, one action per API call) is model-checked exhaustively for small N with the C09 invariants "
         "(Unique, InRange, Conserve, Bounded) and action properties (RefuseWhenFull, AcceptWhenRoom), and TLC checks that it refines "
         "the property-level InFlightAbs.tla. Every history of {send managed, send explicit, deliver final/non-final/unknown, receive, "
         "close, tick} up to depth 5 (quick) / 6 (thorough) and random walks for larger N are executed on the real handler; every "
         "step's projection is compared with the spec state and differing runs are judged by TLC against InFlightAbs.",
    note=_IF_NOTE, technique="TLA+ model checking + exhaustive bounded-history replay + TLC trace validation",
    design_ref="DESIGN.md §3.5, §4 C09")
CHECKS["C10"] = dict(
    level="model_checking",
    text="Same specification and pipeline as C09, for the routing clauses: invariants Ordered, Exclusive and action properties "
         "UnknownNoEffect, OnlyTarget, CompleteOnLast of InFlightSeq.tla; in InFlightAbs a response may only be appended to the request "
         "registered under its id (or dropped if that request is done); frames are numbered and AppReceive must return the head. "
         "Replayed on the real handler for every bounded history; rejected traces are violations.",
    note=_IF_NOTE, technique="TLA+ model checking + exhaustive bounded-history replay + TLC trace validation",
    design_ref="DESIGN.md §3.5, §4 C10")
CHECKS["C16"] = dict(
    level="model_checking",
    text="Handler-level part: close and timeout steps of InFlightSeq.tla/InFlightAbs.tla (CloseCompletes, DoneConsistent, "
         "TimeoutOnlyAfterSilence; ATick makes exactly the requests silent for the whole timeout fail) replayed on the real handler under "
         "a fake clock; panics of the library and goroutines surviving handler close (confirmed 3/3) are violations.",
    note=_IF_NOTE, technique="TLA+ model checking + exhaustive bounded-history replay under synctest + TLC trace validation",
    design_ref="DESIGN.md §3.5, §4 C16")

NOT_YET = {}


def main():
    props = [json.loads(l) for l in open(os.path.join(VERIF, "properties.jsonl"))]
    checks = []
    na = []
    for p in props:
        pid = p["id"]
        if pid in CHECKS:
            c = CHECKS[pid]
            checks.append(dict(
                property_id=pid,
                quick_cmd="bin/check %s quick" % pid,
                thorough_cmd="bin/check %s thorough" % pid,
                evidence_file="/verif/evidence/%s.json" % pid,
                replay_cmd_template="bin/replay {path}",
                engine="tlc+harness",
                level_claimed=dict(category=c["level"], text=c["text"], design_ref=c["design_ref"]),
                level_note=c["note"],
                technique=c["technique"],
            ))
        else:
            na.append(dict(property_id=pid, reason=NOT_YET.get(pid, "check not built yet in this session; planned per DESIGN.md §4 " + pid)))
    m = dict(
        version=1,
        setup_cmd=SETUP,
        hooks=dict(guard="verif", enable="go build -tags verif (harness module /verif/harness replaces the library with /repo)",
                   baseline_off_cmd="cd /repo && go test -vet=off -count=1 ./...",
                   source_commits=HOOK_COMMITS, add_only=True),
        engines=[dict(name="tlc+harness", path="/verif/bin/check", serves_properties=sorted(CHECKS),
                      kind_free_text="TLA+ specs in /verif/specs checked by TLC; Go harness (/verif/harness, built against /repo with "
                                     "-tags verif) replays TLC-generated behaviours/vectors into the real code and records traces that "
                                     "TLC validates")],
        checks=checks,
        notes="See DESIGN.md. known_findings.txt lists repaired (fixed:) and recorded (known:) defects.",
        not_applicable=na,
    )
    with open(os.path.join(VERIF, "MANIFEST.json"), "w") as f:
        json.dump(m, f, indent=1)
        f.write("\n")


main()

#!/usr/bin/env python3
"""Regenerates /verif/MANIFEST.json from the table below (single source of truth for the interface)."""
import json
import os

VERIF = os.path.dirname(os.path.dirname(os.path.abspath(__file__)))

SETUP = ("cd /verif/harness && cp /repo/go.sum . && GOTOOLCHAIN=local GOFLAGS=-mod=mod GOPROXY=off GOSUMDB=off "
         "go1.26.8 build -tags verif -o /dev/null ./ && cd /verif/specs && for f in *.tla; do tla-sany $f >/dev/null || exit 1; done")

HOOK_COMMITS = ["6a98493", "56af79a", "d192d5e", "0a4b608", "54206e2"]

# property -> dict(level, text, note, technique, design_ref)
CHECKS = {
    "C20": dict(
        level="model_checking",
        text="TLC closes the reachable graphs of FrameMut.tla (all finite mutator sequences, both the documented domain and "
             "every mutator on every frame) and StartupOpts.tla and checks the flag/body-part invariants and the setter/getter "
             "action properties; every transition of those graphs is then replayed on real frames of every message kind and "
             "version (and on a real Startup), the projected real state compared with the spec's successor state, and the frame "
             "encoded, length-checked and round-tripped in every Encodable state. Exhaustive over the abstract argument classes.",
        note="Trusted: TLC; the builder/projection between abstract states and Go frames; argument classes nil/empty/full "
             "(strings: empty / arbitrary non-empty) stand for all arguments of the class.",
        technique="TLA+ state graph closed by TLC + transition-coverage replay into the real mutators",
        design_ref="DESIGN.md §3.7, §4 C20"),
}

_CS = ' The codec is also used more than once: CodecSeq.tla (the specified codec has no memory; history of calls with calls made to fail half way and results the caller keeps) is model-checked and every history it prints is executed on real codec instances, each result compared with that of the same call made alone.'
_IF_NOTE = ("Trusted: TLC; testing/synctest fake clock; the export shim, gates and trace points of client/verif_hooks.go and the "
            "projection of the real handler; bounds: N<=3 (all sequential histories to depth 5/6), N<=4 (random walks), thread programs of "
            "2-4 goroutines with 1-4 operations each (all interleavings at gate granularity), free-running rounds bounded by count.")
_LAYERS = (" Four layers, each with an explicit TLA+ spec checked by TLC and bound to the code: (1) sequential: InFlightSeq.tla (code-shaped, one "
           "action per API call; invariants and action properties; refinement to the property-level InFlightAbs.tla checked by TLC) - every "
           "history up to depth 5 (quick) / 6 (thorough) and random walks executed on the real handler, projections compared, differing runs "
           "judged by TLC against InFlightAbs; (2) concurrent, forced schedules: InFlightConc.tla (one process per goroutine, one step per "
           "stretch of client/inflight.go between two gate points) model-checked for every interleaving of small thread programs, its "
           "transition graph walked and every walk forced onto real goroutines through client.VerifGate, state compared after every step; "
           "the call/return histories of those executions validated against InFlightAbs by InFlightLin.tla (linearizability with the "
           "recorded results and the final observation); (3) free-running: senders and the receive loop unsynchronised on the real handler; "
           "histories validated by InFlightLin.tla, trace points emitted under the handler's lock validated by InFlightHook.tla; "
           "(4) connection level: Conn.tla sessions on real connections.")
CHECKS["C09"] = dict(
    level="model_checking",
    text="Stream-id clauses: Unique / InRange / Conserve / Bounded / RefuseWhenFull / AcceptWhenRoom (InFlightSeq), UniqueAccepted / Bounded / "
         "NoOrphan / Conserved / RecycledWhenSeen (InFlightConc, every interleaving), AcceptManaged / ASendExplicit / pool conservation "
         "(InFlightAbs: the acceptance criterion for every recorded trace and history), table size and id freshness at every registration "
         "(InFlightHook)." + _LAYERS,
    note=_IF_NOTE, technique="TLA+ model checking (TLC) + exhaustive bounded-history and forced-schedule replay + TLC trace validation (sequential, linearizability, lock-level)",
    design_ref="DESIGN.md §0.4, §3.5, §4 C09")
CHECKS["C10"] = dict(
    level="model_checking",
    text="Routing clauses: Ordered / Exclusive / UnknownNoEffect / OnlyTarget / CompleteOnLast (InFlightSeq), RoutedById / OnceOnly / Delivered "
         "(InFlightConc, every interleaving), ADeliver / AReceive (InFlightAbs: a frame goes to the request registered under its id, comes out "
         "in arrival order, once), and at the connection level EventsInOrder / OnlyOwnResponses / AllArrive (Conn.tla with server-pushed events, "
         "responses for ids nobody carries and a refused duplicate send; library client against a raw server and against the library server, "
         "every version and compression)." + _LAYERS,
    note=_IF_NOTE, technique="TLA+ model checking (TLC) + exhaustive bounded-history, forced-schedule and session replay + TLC trace validation",
    design_ref="DESIGN.md §0.4, §3.5, §4 C10")
CHECKS["C16"] = dict(
    level="model_checking",
    text="Termination clauses at five levels: handler (CloseCompletes, DoneConsistent, TimeoutOnlyAfterSilence in InFlightSeq under a fake "
         "clock; ClosedCompletes / NoOrphan in InFlightConc for close racing senders and the receive loop; AClose / ATick in InFlightAbs); "
         "connection sessions (Conn.tla Fault action: close-client, close-server, context cancel, loss of the peer after every prefix of "
         "every session, on three rigs, transports whose Close fails included: pending requests completed with an error, blocked receivers "
         "return, later sends refused, Close returns twice, handshake calls return, no goroutine survives); the windows narrower than a step "
         "(ConnShutdown.tla: closed flag, channel fields, channels, loops - NoPanic, NoStuckLoop, LaterSendsRefused, CompletedAtClose, Close "
         "terminates under fairness; thousands of real client and server connections closed under free-running senders, receivers, events "
         "and millisecond read timeouts; trace points validated by ConnShutdownTrace.tla); the server (ServerLife.tla: Start that fails, "
         "Accept / AcceptAny, Accept for a client that never connects, peers going away, Close - sessions replayed on a real CqlServer over "
         "loopback TCP, and servers closed while their peers drop). Every as-found defect is kept as a negative-control configuration that "
         "TLC must still refute." + _LAYERS,
    note=_IF_NOTE + " Loopback TCP on ephemeral ports for the server level.",
    technique="TLA+ model checking (TLC, incl. liveness of Close and of request completion under a fair clock; timer goroutines as threads of the forced schedules) + fault injection at every step of every session on real connections + free-running stress with TLC trace validation",
    design_ref="DESIGN.md §0.4, §3.5, §4 C16")

CHECKS["C19"] = dict(
    level="exploration",
    text="Tables.tla transcribes the protocol tables and the per-version capability matrix from specs/*.spec; TLC checks its "
         "self-consistency ASSUMEs and emits it. The harness lists every declared constant from primitive/constants.go with go/ast "
         "and evaluates every exported validity / classification / capability predicate over the complete 8- and 16-bit domains "
         "(32-bit: 0..65535, declared +-1, single bits, seeded random) and all 256 version bytes x feature arguments, comparing with "
         "the declared set and with the TLA+ tables. Exhaustive over the small domains; pure functions, so no state exploration.",
    note="Trusted: the transcription in Tables.tla (ambiguities commented there); the hand-kept list of predicates in harness/c19.go.",
    technique="TLA+ tables (ASSUME-checked by TLC) + exhaustive-domain evaluation of the real predicates",
    design_ref="DESIGN.md §3.1, §4 C19")
CHECKS["C06"] = dict(
    level="exploration",
    text="Segment.tla defines the v5 segment layout (bit-packed little-endian headers, CRC-24, seeded CRC-32, raw fallback) as TLA+ "
         "operators; TLC computes byte-exact vectors (SegmentVec.tla) that the real encoder must reproduce and the real decoder must "
         "accept, and validates segments recorded from the real codec (SegmentTrace.tla). A sweep over payload lengths 0..131071 "
         "(all of them in the thorough tier) x contents x flag x {none, LZ4} checks round trip, header fields and both CRCs against "
         "a bit-serial reference that is re-anchored to the TLC vectors on every run." + _CS,
    note="Trusted: Segment.tla's reading of native_protocol_v5.spec §2 (raw fallback = uncompressed-length 0); refwire (anchored to TLC "
         "each run); the LZ4 library's UncompressBlock to open transmitted blocks. Known finding: dependency pierrec/lz4 v4.0.3.",
    technique="TLA+ layout operators evaluated by TLC (vectors + trace validation) + exhaustive length sweep on the real codec + replay of TLC-enumerated call histories (CodecSeq.tla)",
    design_ref="DESIGN.md §3.4, §4 C06")
CHECKS["C07"] = dict(
    level="fault_enumeration",
    text="SegmentCorrupt.tla: TLC proves by enumeration that every error pattern of weight <= 2 (quick) / 3 (thorough) over "
         "header+CRC-24 has a non-zero syndrome for both header formats, checks the affinity lemma the larger enumeration rests on, "
         "and emits corruption descriptors with prescribed verdicts. The harness applies them to real segments and the real decoder, "
         "then enumerates all header patterns of weight 1..4 directly and weights 5..7 via syndromes of the real CRC function "
         "(8.8e7 patterns for the 3-byte header; 7.1e8 for the 5-byte header in thorough), plus payload single flips, all pairs on "
         "small payloads and bursts up to 32 bits at every offset.",
    note="Trusted: affinity of the CRC-24 (TLC lemma + brute force on the real function); burst interiors are sampled (5 per offset/length).",
    technique="TLA+ corruption model checked by TLC + exhaustive fault enumeration on the real decoder (every refused segment presented again)",
    design_ref="DESIGN.md §3.4, §4 C07")
CHECKS["C08"] = dict(
    level="exploration",
    text="CompressLattice.tla states the assumption Decompress(Compress(x)) = x that the stream specifications rely on and enumerates "
         "the lattice algorithm x format x size class x content class; the harness materialises every point (seeded) and runs the "
         "real compressors and the frame/segment codecs with and without compression. TLA+ cannot say anything about LZ4/Snappy "
         "internals, so this is exploration of a structured input space, not model checking." + _CS,
    note="Trusted: nothing beyond the Go toolchain; known finding: the pinned pierrec/lz4 v4.0.3 corrupts some blocks > 64 KiB.",
    technique="TLA+-enumerated input lattice + round trip through the real compressors + replay of TLC-enumerated call histories (CodecSeq.tla)",
    design_ref="DESIGN.md §4 C08")

_WIRE_NOTE = ("Trusted: the TLA+ transcription of specs/*.spec in WirePrim/WireMsg/WireShapes.tla; the builder/projection in harness/wire.go "
              "(self-checked on every vector: project(build(x)) = x). Value contents beyond the enumerated classes are covered by the random legs only.")
CHECKS["C01"] = dict(
    level="exploration",
    text="WireShapes.tla enumerates the abstract frames (every message kind and variant, every subset of optional fields, value classes, "
         "every enum constant, legal header-flag combinations, stream-id classes) for all six versions; each is built as a real frame, "
         "encoded and decoded with no compression, LZ4 and Snappy, and the projection of the decoded frame must equal the abstract frame "
         "(equality up to what the wire cannot carry is built into the abstract form). Pure functions: structured enumeration, not state exploration.",
    note=_WIRE_NOTE, technique="TLA+-enumerated case space (TLC) + round trip through the real codec compared in the abstract domain + replay of TLC-enumerated call histories (CodecSeq.tla)",
    design_ref="DESIGN.md §3.2, §4 C01, Appendix A")
CHECKS["C02"] = dict(
    level="exploration",
    text="The expected bytes are computed by TLC from the TLA+ transcription of the protocol documents (WirePrim/WireMsg/WireShapes.tla) as "
         "chunk sequences with unordered (map entries) and alternative (Global_tables_spec) groups; the real encoder's bytes must be one of "
         "the admissible encodings and every admissible encoding must decode to the abstract frame. All 2^16 (version byte, opcode) headers "
         "are compared with WireHeader.tla's accept/reject table. This is the independent-oracle check a round trip cannot give.",
    note=_WIRE_NOTE + " Known finding: the v2 'text' type code cannot be decoded.",
    technique="byte-exact vectors computed by TLC from a TLA+ transcription of the protocol documents + replay of TLC-enumerated call histories (CodecSeq.tla)",
    design_ref="DESIGN.md §3.2, §4 C02")
CHECKS["C03"] = dict(
    level="exploration",
    text="For every vector of WireShapes.tla: the declared body length (struct field and bytes on the wire) equals the body bytes emitted, with "
         "and without compression; each message codec's EncodedLength equals what its encoder writes; every decoding path consumes exactly "
         "header + declared length (a sentinel follows each frame). Stream-level sequences (FrameStream.tla) are planned on top of this.",
    note=_WIRE_NOTE, technique="TLA+-enumerated case space + length/position accounting on the real codec + replay of TLC behaviours (FrameStream.tla) and call histories (CodecSeq.tla) on real streams",
    design_ref="DESIGN.md §3.3, §4 C03")
CHECKS["C05"] = dict(
    level="exploration",
    text="For every vector of WireShapes.tla each partial path of the raw codec (DecodeRawFrame+ConvertFromRawFrame, DecodeHeader followed by "
         "DecodeBody / DecodeRawBody / DiscardBody on seekable and non-seekable sources, ConvertToRawFrame+EncodeRawFrame, "
         "EncodeHeader+EncodeBody) must agree with the full codec: same abstract frame, admissible bytes, exact end position, and "
         "re-encoding decoded bytes gives bytes that decode to an equal frame.",
    note=_WIRE_NOTE, technique="TLA+-enumerated case space + path-equivalence checks on the real codec + replay of TLC behaviours (FrameStream.tla) and call histories (CodecSeq.tla) on real streams",
    design_ref="DESIGN.md §3.3, §4 C05")

_CQL_NOTE = ("Trusted: CqlValue.tla's transcription of native_protocol_v5.spec section 6 (and v2 section 6) and of the accepted-representation "
             "table of datacodec/doc.go; math/big in the harness only to materialise and compare values. Contents beyond the boundary "
             "classes (random values, deeper type trees) are not yet covered.")
CHECKS["C11"] = dict(
    level="exploration",
    text="CqlValue.tla models integers exactly (sign + bit list, since TLC integers are 32-bit) and enumerates CQL type x accepted Go "
         "representation x boundary value, plus duration / decimal / scalar tables and collections / tuples / UDTs with nulls; each case is "
         "encoded by the real codec, decoded into the same representation and into *interface{}, and compared with the value and the "
         "preferred type the specification names.",
    note=_CQL_NOTE, technique="TLA+-enumerated case space with exact integer arithmetic + round trip through the real codecs + TLC trace validation of random conversions (CqlValueTrace.tla) + call histories (CodecSeq.tla)",
    design_ref="DESIGN.md §3.8, §4 C11")
CHECKS["C12"] = dict(
    level="exploration",
    text="The expected bytes of every case are computed by TLC from the TLA+ transcription of the serialization formats (fixed-width two's "
         "complement, minimal varint checked against the document's own example table as ASSUMEs, decimal, zig-zag vint duration, date "
         "offset 2^31, 2- vs 4-byte collection framing, null element = -1, tuple/UDT framing); the real Encode must emit exactly those "
         "bytes and the real Decode of them must give the value denoted.",
    note=_CQL_NOTE, technique="byte-exact vectors computed by TLC from a TLA+ transcription of the serialization formats + TLC trace validation of random conversions (CqlValueTrace.tla) + call histories (CodecSeq.tla)",
    design_ref="DESIGN.md §3.8, §4 C12")
CHECKS["C13"] = dict(
    level="exploration",
    text="For every (CQL integer type, Go numeric representation, boundary value) pair in both directions the verdict ok(value) / error is "
         "derived in TLA+ from exact range predicates; TLC also checks those predicates are intervals, so the verdict between two "
         "neighbouring boundaries cannot differ. The real Encode/Decode must deliver exactly the same mathematical value or fail; also "
         "float64->float32 narrowing and 32-bit duration components.",
    note=_CQL_NOTE, technique="TLA+ range predicates (exact bit-list integers) evaluated by TLC + comparison with the real conversions + TLC trace validation of random conversions (CqlValueTrace.tla)",
    design_ref="DESIGN.md §3.8, §4 C13")
CHECKS["C14"] = dict(
    level="exploration",
    text="NullReps in CqlValue.tla transcribes which Go representations each CQL type accepts; for every (type, representation) the real "
         "codec must encode untyped nil and the typed nil pointer/slice as NULL without error and decode NULL into a pre-filled destination "
         "reporting wasNull and zeroing it; null elements at every position of list/set/map/tuple/UDT must survive the round trip with "
         "the bytes TLC prescribes, and protocol-v2 collections must refuse them.",
    note=_CQL_NOTE, technique="TLA+-enumerated representation table and null positions + the real codecs",
    design_ref="DESIGN.md §3.8, §4 C14")
CHECKS["C17"] = dict(
    level="exploration",
    text="Heap.tla defines Equal and Independent on object graphs (nodes with memory regions, slice backing regions with capacity) and TLC "
         "checks on all small heaps that Independent holds exactly when no single mutation through one root is observable through the "
         "other. The harness scans the generated deep-copy files for every type with a DeepCopy method (64 types), builds values that "
         "populate every field, calls the real DeepCopy, mutates every reachable location in both directions, and records heap "
         "snapshots that TLC judges with the same predicates (catches aliasing into spare capacity that mutation tests cannot see).",
    note="Trusted: the reflective snapshot walker (reflect+unsafe) and the region renumbering; values are generated, not exhaustive.",
    technique="TLA+ heap predicates (small-scope lemma by TLC) + trace validation of real heap snapshots + mutation testing",
    design_ref="DESIGN.md §3.9, §4 C17")

CHECKS["C04"] = dict(
    level="fault_enumeration",
    text="WireMutate.tla defines, per field role, the replacement values (-2, -1, 0, 1, boundaries, 2^16, 2^24, 2^31-1) and the structural "
         "mutations; they are applied to the field maps of the WireShapes.tla vectors (every count / length / code / flag field of every "
         "message layout) and of the CqlValue.tla cases, segments get mutated header lengths with recomputed checksums, compressed blocks "
         "mutated prefixes, plus seeded random bytes. Every input goes to every decoding entry point in isolated worker processes: "
         "recovered panics, fatal runtime errors and hangs (confirmed twice in isolation) are violations. 'All byte strings' is "
         "necessarily sampled; the systematic part is exhaustive over fields.",
    note="Trusted: the worker isolation / progress-file attribution; allocations of up to 2 GiB driven by a declared length are not counted "
         "as faults. TLA+ contributes the field maps and the mutation table, not a state space.",
    technique="TLA+ field maps + mutation table (TLC) + fault injection into every real decoding entry point",
    design_ref="DESIGN.md §4 C04")
CHECKS["C18"] = dict(
    level="exploration",
    text="SharedCodec.tla states that a codec has no state: every Return equals F(op, arg) under all interleavings (TLC, stateless config) and "
         "shows the corrupting interleaving TLC finds when a shared scratch variable exists (non-vacuity). The harness defines F by running "
         "~7500 encode/decode operations sequentially on shared codec instances, then runs them from 16-32 goroutines under the race "
         "detector; every concurrent return is compared with F in Go and a sample is validated by TLC (SharedCodecTrace.tla); race reports "
         "are violations. Schedules are sampled, not enumerated.",
    note="Trusted: the Go race detector for the data-race clause (a TLA+ model cannot see memory-level races); digests of results.",
    technique="TLA+ stateless-codec spec + trace validation of concurrent real executions (incl. concurrent first use) + Go race detector",
    design_ref="DESIGN.md §3.9, §4 C18")

CHECKS["C15"] = dict(
    level="model_checking",
    text="Conn.tla models the two connection ends, the units on the wire (legacy frames, self-contained segments with one or more "
         "envelopes, parts of a split envelope), the handshake with its framing switch and the packings a raw peer may choose; TLC "
         "checks the C15 invariants (requests / responses intact and in order, handshake unframed, only segments afterwards on v5, both "
         "ends agree on the framing, everything sent arrives) on every reachable state and prints every finished session. Each session is "
         "replayed on real connections over net.Pipe under synctest for every version, compression and authentication setting on three "
         "rigs: library-library (wire tapped and parsed by an independent reader), library client against a raw peer, raw peer against "
         "the library server; every frame delivered is compared with the frame sent. A raw peer also splits every envelope (two "
         "reassemblies per connection) and envelopes that would fit a segment, cutting inside the 9-byte envelope header, at its end, one "
         "byte before the end of the envelope, with a full first segment; callers set the compression flag on their frames; REGISTER / "
         "READY exercises the one message that is unframed during the handshake and framed afterwards.",
    note="Trusted: the raw peer (harness/conn_test.go, refwire re-anchored to TLC by C06) and the frame codec it uses for envelope bytes; "
         "net.Pipe + synctest instead of TCP. Sessions are bounded (2 requests quick, 3 thorough).",
    technique="TLA+ model checking of the connection protocol + replay of every finished session on real connections",
    design_ref="DESIGN.md §3.6, §4 C15")

NOT_YET = {}


def main():
    props = [json.loads(l) for l in open(os.path.join(VERIF, "properties.jsonl"))]
    checks = []
    na = []
    for p in props:
        pid = p["id"]
        if pid in CHECKS:
            c = CHECKS[pid]
            checks.append(dict(
                property_id=pid,
                quick_cmd="bin/check %s quick" % pid,
                thorough_cmd="bin/check %s thorough" % pid,
                evidence_file="/verif/evidence/%s.json" % pid,
                replay_cmd_template="bin/replay {path}",
                engine="tlc+harness",
                level_claimed=dict(category=c["level"], text=c["text"], design_ref=c["design_ref"]),
                level_note=c["note"],
                technique=c["technique"],
            ))
        else:
            na.append(dict(property_id=pid, reason=NOT_YET.get(pid, "check not built yet in this session; planned per DESIGN.md §4 " + pid)))
    m = dict(
        version=1,
        setup_cmd=SETUP,
        hooks=dict(guard="verif", enable="go build -tags verif (harness module /verif/harness replaces the library with /repo)",
                   baseline_off_cmd="cd /repo && go test -vet=off -count=1 ./...",
                   source_commits=HOOK_COMMITS, add_only=True),
        engines=[dict(name="tlc+harness", path="/verif/bin/check", serves_properties=sorted(CHECKS),
                      kind_free_text="TLA+ specs in /verif/specs checked by TLC; Go harness (/verif/harness, built against /repo with "
                                     "-tags verif) replays TLC-generated behaviours/vectors into the real code and records traces that "
                                     "TLC validates")],
        checks=checks,
        notes="See DESIGN.md. known_findings.txt lists repaired (fixed:) and recorded (known:) defects.",
        not_applicable=na,
    )
    with open(os.path.join(VERIF, "MANIFEST.json"), "w") as f:
        json.dump(m, f, indent=1)
        f.write("\n")


main()

"""Driver shared by C01 / C02 / C03 / C05 (vector part): reports the violations tagged with one property."""
import time

import wire
from common import Scratch, Verdict, build_harness, log, write_evidence


def run_wire_property(prop, tier, rule, level="exploration", extra=None):
    t0 = time.time()
    v = Verdict(prop)
    with Scratch(prop.lower()) as s:
        h = build_harness(s)
        rep, hrep, n = wire.run_wire(s, h, tier, with_headers=(prop == "C02"))
        others = set()
        mine = 0
        for x in rep["violations"] + (hrep["violations"] if hrep else []):
            p, sig = x["sig"].split("|", 1)
            if p == prop:
                v.violation("wire|" + sig, x["detail"], x["replay"])
                mine += 1
            else:
                others.add(p)
        if others:
            log("NOTE this run also found violations of %s (reported by their own checks)" % ",".join(sorted(others)))
        more = extra(s, h, v, tier) if extra else {}
        log("%s: %d vectors checked through every codec path, %d violations attributed to %s" % (prop, n, mine, prop))
        unlisted = v.finish()
        evals = rep["evaluations"] + (hrep["evaluations"] if hrep else 0) + more.get("evaluations", 0)
        cov = dict(evaluations=evals, distinct_nontrivial=rep["distinct"] + more.get("distinct", 0), rule=rule,
                   samples=(rep["samples"] + more.get("samples", []))[:5], tlc_vectors=n, extra=dict(rep.get("extra") or {}, **more.get("extra", {})),
                   header_pairs=(hrep["evaluations"] if hrep else 0), known_findings=sorted(v.known_hits))
        write_evidence(prop, tier, level, cov, time.time() - t0, unlisted,
                       assumptions=["WireMsg.tla / WirePrim.tla / WireShapes.tla transcribe specs/*.spec (see module comments)",
                                    "builder / projection between abstract frames and Go structs (harness/wire.go); each run checks project(build(x)) = x for every vector"])
        return unlisted

"""Driver shared by C01 / C02 / C03 / C05 (vector part): reports the violations tagged with one property."""
import time

import json

import codecseq
import wire
from common import Scratch, Verdict, build_harness, harness_json, log, marker_json, require_ok, run_tlc, seed, write_evidence


def stream_extra(prop):
    """FrameStream.tla behaviours replayed on real byte streams (C03, C05)."""
    def extra(s, h, v, tier):
        total = dict(evaluations=0, distinct=0, samples=[], extra={})
        states = 0
        for cfg, inter in ((("FrameStreamThorough.cfg" if tier == "thorough" else "FrameStreamQuick.cfg"), False), ("FrameStreamInterleaved.cfg", True)):
            raw = s.file(cfg + ".raw")
            res = require_ok(run_tlc(s, "FrameStream", cfg=cfg, marker='"RUN"', outfile=raw, copy=False, timeout=3000), "FrameStream " + cfg)
            states += res.distinct
            runs = s.file(cfg + ".ndjson")
            n = 0
            with open(runs, "w") as g, open(raw) as f:
                chunk = []
                for line in f:
                    chunk.append(line)
                    if len(chunk) >= 5000:
                        for j in marker_json(chunk, '"RUN"'):
                            g.write(json.dumps(j) + "\n")
                            n += 1
                        chunk = []
                for j in marker_json(chunk, '"RUN"'):
                    g.write(json.dumps(j) + "\n")
                    n += 1
            args = ["framestream", "-runs", runs, "-vec", s.file("wire.ndjson"), "-seed", str(seed())]
            if inter:
                args.append("-interleaved")
            rep = harness_json(h, args, timeout=7200)
            mine = 0
            for x in rep["violations"]:
                p, sig = x["sig"].split("|", 1)
                if p == prop or (prop in ("C03", "C05") and p in ("C03", "C05")):
                    v.violation(sig, x["detail"], x["replay"])
                    mine += 1
            log("FrameStream %s: %d states, %d complete behaviours replayed on real streams (6 source kinds x 3 compressions), %d violations" % (
                cfg, res.distinct, n, mine))
            total["evaluations"] += rep["evaluations"]
            total["distinct"] += rep["distinct"]
            total["samples"] += rep["samples"][:1]
            total["extra"][cfg] = dict(states=res.distinct, behaviours=n)
        total["extra"]["framestream_states"] = states
        return total
    return extra


def run_wire_property(prop, tier, rule, level="exploration", extra=None):
    t0 = time.time()
    v = Verdict(prop)
    with Scratch(prop.lower()) as s:
        h = build_harness(s)
        rep, hrep, n = wire.run_wire(s, h, tier, with_headers=(prop == "C02"))
        others = set()
        mine = 0
        for x in rep["violations"] + (hrep["violations"] if hrep else []):
            p, sig = x["sig"].split("|", 1)
            if p == prop:
                v.violation("wire|" + sig, x["detail"], x["replay"])
                mine += 1
            else:
                others.add(p)
        if others:
            log("NOTE this run also found violations of %s (reported by their own checks)" % ",".join(sorted(others)))
        more = extra(s, h, v, tier) if extra else {}
        cs = None
        if prop in ("C01", "C02", "C03", "C05"):
            # the codec used more than once: every history of calls (some made to fail, some results kept) - CodecSeq.tla
            cs = codecseq.run_codecseq(s, h, tier, prop)
            for x in cs["violations"]:
                v.violation(x["sig"], x["detail"], x["replay"])
            more.setdefault("extra", {})["codec_histories"] = {k: cs[k] for k in cs if k != "violations"}
            more["evaluations"] = more.get("evaluations", 0) + cs["histories"]
            more["distinct"] = more.get("distinct", 0) + cs["distinct_prefixes"]
        log("%s: %d vectors checked through every codec path, %d violations attributed to %s" % (prop, n, mine, prop))
        unlisted = v.finish()
        evals = rep["evaluations"] + (hrep["evaluations"] if hrep else 0) + more.get("evaluations", 0)
        cov = dict(evaluations=evals, distinct_nontrivial=rep["distinct"] + more.get("distinct", 0), rule=rule,
                   samples=(rep["samples"] + more.get("samples", []))[:5], tlc_vectors=n, extra=dict(rep.get("extra") or {}, **more.get("extra", {})),
                   header_pairs=(hrep["evaluations"] if hrep else 0), known_findings=sorted(v.known_hits))
        write_evidence(prop, tier, level, cov, time.time() - t0, unlisted,
                       assumptions=["WireMsg.tla / WirePrim.tla / WireShapes.tla transcribe specs/*.spec (see module comments)",
                                    "builder / projection between abstract frames and Go structs (harness/wire.go); each run checks project(build(x)) = x for every vector"])
        return unlisted

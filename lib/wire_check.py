"""Driver shared by C01 / C02 / C03 / C05 (vector part): reports the violations tagged with one property."""
import time

import json

import codecseq
import wire
from common import Infra, Scratch, Verdict, build_harness, harness_json, log, marker_json, require_ok, run_tlc, seed, write_evidence


def stream_extra(prop):
    """FrameStream.tla behaviours replayed on real byte streams (C03, C05)."""
    def extra(s, h, v, tier):
        total = dict(evaluations=0, distinct=0, samples=[], extra={})
        states = 0
        for cfg, inter in ((("FrameStreamThorough.cfg" if tier == "thorough" else "FrameStreamQuick.cfg"), False), ("FrameStreamInterleaved.cfg", True)):
            raw = s.file(cfg + ".raw")
            res = require_ok(run_tlc(s, "FrameStream", cfg=cfg, marker='"RUN"', outfile=raw, copy=False, timeout=3000), "FrameStream " + cfg)
            states += res.distinct
            runs = s.file(cfg + ".ndjson")
            n = 0
            with open(runs, "w") as g, open(raw) as f:
                chunk = []
                for line in f:
                    chunk.append(line)
                    if len(chunk) >= 5000:
                        for j in marker_json(chunk, '"RUN"'):
                            g.write(json.dumps(j) + "\n")
                            n += 1
                        chunk = []
                for j in marker_json(chunk, '"RUN"'):
                    g.write(json.dumps(j) + "\n")
                    n += 1
            args = ["framestream", "-runs", runs, "-vec", s.file("wire.ndjson"), "-seed", str(seed())]
            if inter:
                args.append("-interleaved")
            rep = harness_json(h, args, timeout=7200)
            mine = 0
            for x in rep["violations"]:
                p, sig = x["sig"].split("|", 1)
                if p == prop or (prop in ("C03", "C05") and p in ("C03", "C05")):
                    v.violation(sig, x["detail"], x["replay"])
                    mine += 1
            log("FrameStream %s: %d states, %d complete behaviours replayed on real streams (6 source kinds x 3 compressions), %d violations" % (
                cfg, res.distinct, n, mine))
            total["evaluations"] += rep["evaluations"]
            total["distinct"] += rep["distinct"]
            total["samples"] += rep["samples"][:1]
            total["extra"][cfg] = dict(states=res.distinct, behaviours=n)
        total["extra"]["framestream_states"] = states
        return total
    return extra


RAND_PROPS = {"frame-differs": {"C01", "C05"}, "not-at-boundary": {"C03", "C05"}, "bytes-left-over": {"C03", "C05"},
              "frames-missing": {"C01", "C03", "C05"}, "read-beyond-written": {"C03"}, "encoder-refused": {"C01"}}


def random_streams(s, h, v, prop, tier):
    """Binding T: streams of frames with random contents through random codec paths, judged by TLC (FrameStreamTrace.tla)."""
    trace = s.file("framerand.ndjson")
    n = 2500 if tier == "quick" else 20000
    rep = harness_json(h, ["framerand", "-vec", s.file("wire.ndjson"), "-out", trace, "-n", str(n), "-seed", str(seed())], timeout=3600)
    lines = [json.loads(l) for l in open(trace)]
    # control: a stream whose frame comes back different must be rejected
    with open(trace, "a") as f:
        for e in (dict(a="reset", trace=n + 1), dict(a="write", d="aa", len=10), dict(a="read", d="bb", pos=10, full=True), dict(a="end", left=0)):
            f.write(json.dumps(e) + "\n")
    with open(s.file("FrameStreamTraceRun.cfg"), "w") as f:
        f.write("SPECIFICATION Spec\nCHECK_DEADLOCK FALSE\n")
    res = require_ok(run_tlc(s, "FrameStreamTrace", cfg="FrameStreamTraceRun.cfg", workers=1, marker='"REJECTED"', copy=False, env=dict(TRACE=trace), timeout=3600),
                     "FrameStreamTrace")
    out = marker_json(res.lines, '"REJECTED"')
    if not out or out[0]["n"] != len(lines) + 4:
        raise Infra("FrameStreamTrace did not read the whole trace")
    bad = [b for b in out[0]["bad"]]
    ctl = [b for b in bad if int(b[0]) == n + 1]
    if not ctl or ctl[0][2] != "frame-differs":
        raise Infra("FrameStreamTrace accepted the control stream (a frame read back different)")
    mine = 0
    for b in bad:
        t, line, why = int(b[0]), int(b[1]), b[2]
        if t == n + 1 or prop not in RAND_PROPS.get(why, ()):
            continue
        # the events of that stream
        start = max(i for i in range(line) if lines[i]["a"] == "reset")
        ev = lines[start:line]
        v.violation("framerand|%s" % why, "a stream of frames with random contents (seed %d, stream %d) rejected by FrameStreamTrace (%s): %s" % (
            seed(), t, why, json.dumps(ev)[:1200]), dict(check="framerand", seed=seed(), stream=t, events=ev[:40]))
        mine += 1
    log("FrameStreamTrace: %d streams of random frames (%d frame reads, %d trace lines) judged by TLC, %d rejected lines (%d for %s); control stream rejected" % (
        n, rep["evaluations"], len(lines), len(bad) - len(ctl), mine, prop))
    return dict(streams=n, frame_reads=rep["evaluations"], trace_lines=len(lines), rejected=len(bad) - len(ctl), extra=rep.get("extra"),
                rule="concrete frames of the TLC vectors with their strings and byte fields replaced by random contents (lengths up to 65535 / 60000, "
                     "compressible and not), random sequences written back-to-back through random writer paths with none / LZ4 / Snappy, read back through "
                     "random reader paths; one trace line per write / read / end, judged by TLC: FIFO, equal frames, reader at the frame boundary after "
                     "every read, nothing left over; a control stream must be rejected")


def run_wire_property(prop, tier, rule, level="exploration", extra=None):
    t0 = time.time()
    v = Verdict(prop)
    with Scratch(prop.lower()) as s:
        h = build_harness(s)
        rep, hrep, n = wire.run_wire(s, h, tier, with_headers=(prop == "C02"))
        others = set()
        mine = 0
        for x in rep["violations"] + (hrep["violations"] if hrep else []):
            p, sig = x["sig"].split("|", 1)
            if p == prop:
                v.violation("wire|" + sig, x["detail"], x["replay"])
                mine += 1
            else:
                others.add(p)
        if others:
            log("NOTE this run also found violations of %s (reported by their own checks)" % ",".join(sorted(others)))
        more = extra(s, h, v, tier) if extra else {}
        cs = None
        if prop in ("C01", "C02", "C03", "C05"):
            # the codec used more than once: every history of calls (some made to fail, some results kept) - CodecSeq.tla
            cs = codecseq.run_codecseq(s, h, tier, prop)
            for x in cs["violations"]:
                v.violation(x["sig"], x["detail"], x["replay"])
            more.setdefault("extra", {})["codec_histories"] = {k: cs[k] for k in cs if k != "violations"}
            more["evaluations"] = more.get("evaluations", 0) + cs["histories"]
            more["distinct"] = more.get("distinct", 0) + cs["distinct_prefixes"]
        rs = None
        if prop in ("C01", "C03", "C05"):
            rs = random_streams(s, h, v, prop, tier)
            more.setdefault("extra", {})["random_streams"] = rs
            more["evaluations"] = more.get("evaluations", 0) + rs["frame_reads"]
        log("%s: %d vectors checked through every codec path, %d violations attributed to %s" % (prop, n, mine, prop))
        unlisted = v.finish()
        evals = rep["evaluations"] + (hrep["evaluations"] if hrep else 0) + more.get("evaluations", 0)
        cov = dict(evaluations=evals, distinct_nontrivial=rep["distinct"] + more.get("distinct", 0), rule=rule,
                   samples=(rep["samples"] + more.get("samples", []))[:5], tlc_vectors=n, extra=dict(rep.get("extra") or {}, **more.get("extra", {})),
                   header_pairs=(hrep["evaluations"] if hrep else 0), known_findings=sorted(v.known_hits))
        write_evidence(prop, tier, level, cov, time.time() - t0, unlisted,
                       assumptions=["WireMsg.tla / WirePrim.tla / WireShapes.tla transcribe specs/*.spec (see module comments)",
                                    "builder / projection between abstract frames and Go structs (harness/wire.go); each run checks project(build(x)) = x for every vector"])
        return unlisted

"""Shared pipeline for the in-flight handler specs (C09, C10, C16 at handler level).

  1. TLC: InFlightSeq full graph (invariants + action properties), refinement InFlightSeq => InFlightAbs.
  2. TLC: all histories up to a depth (history variable in the state) and/or random walks (-simulate); every
     explored state prints its history and the projection expected there.
  3. harness (test binary, synctest bubbles): every maximal history is executed on the real handler; the real
     projection is compared with the spec's after each step (binding R).
  4. every run that differs anywhere (and every panic / goroutine leak) is validated by TLC against the
     property-level InFlightAbs (binding T).  Only rejected traces are violations; accepted ones are model drift.
"""
import json
import re
import os
import subprocess
import time
from concurrent.futures import ThreadPoolExecutor

from common import (GOENV, Infra, NCPU, REPO, harness_dir, log, marker_json, require_ok, run_tlc, seed)
import shutil


def build_test_binary(scratch, race=False):
    out = scratch.file("harness.test" + ("-race" if race else ""))
    env = dict(os.environ, **GOENV)
    HARNESS = harness_dir(scratch)
    cmd = ["go1.26.8", "test", "-c", "-tags", "verif"]
    if race:
        cmd.append("-race")
    cmd += ["-o", out, "./"]
    p = subprocess.run(cmd, cwd=HARNESS, env=env, stdout=subprocess.PIPE, stderr=subprocess.STDOUT, text=True)
    if p.returncode != 0:
        raise Infra("harness test binary build failed:\n" + p.stdout[-4000:])
    return out


def cfg_text(spec, consts, invariants=(), properties=(), view=None, constraint=None):
    lines = ["SPECIFICATION " + spec, "CONSTANTS"]
    for k, v in consts.items():
        lines.append("  %s = %s" % (k, v))
    if view:
        lines.append("VIEW " + view)
    if invariants:
        lines.append("INVARIANTS " + " ".join(invariants))
    if properties:
        lines.append("PROPERTIES " + " ".join(properties))
    if constraint:
        lines.append("CONSTRAINT " + constraint)
    lines.append("CHECK_DEADLOCK FALSE")
    return "\n".join(lines) + "\n"


def tla_set(xs):
    return "{" + ", ".join(str(x) for x in xs) + "}"


SEQ_INV = ["TypeOK", "Unique", "InRange", "Conserve", "Bounded", "Ordered", "Exclusive", "DoneConsistent", "CloseCompletes"]
SEQ_PROPS = ["RefuseWhenFull", "AcceptWhenRoom", "UnknownNoEffect", "OnlyTarget", "CompleteOnLast", "TimeoutOnlyAfterSilence"]


ALL_ACTS = "MEDURCT"


def seq_consts(N, MaxPending, explicit, MaxReq, MaxFrames, TimeoutQ=2, Timed=True, MaxHist=0, legacy=(), acts=ALL_ACTS):
    if not Timed:
        acts = acts.replace("T", "")
    return dict(Acts=tla_set('"%s"' % a for a in acts), N=N, MaxPending=MaxPending, ExplicitIds=tla_set(explicit), UnknownId=9, MaxReq=MaxReq, MaxFrames=MaxFrames,
                TimeoutQ=TimeoutQ, Timed="TRUE" if Timed else "FALSE", MaxHist=MaxHist,
                Legacy=tla_set('"%s"' % x for x in legacy))


def model_check(scratch, consts, timeout=1500):
    """Full reachable graph of the sequential model + refinement to the property-level spec."""
    with open(scratch.file("IFSeqFull.cfg"), "w") as f:
        f.write(cfg_text("Spec", consts, SEQ_INV, SEQ_PROPS, view="view"))
    full = require_ok(run_tlc(scratch, "InFlightSeq", cfg="IFSeqFull.cfg", timeout=timeout), "InFlightSeq full graph")
    with open(scratch.file("IFRef.cfg"), "w") as f:
        f.write(cfg_text("Spec", consts, ["AbsInvariants"], ["RefinesAbs"], view="view"))
    ref = require_ok(run_tlc(scratch, "InFlightRef", cfg="IFRef.cfg", timeout=timeout, copy=False), "InFlightSeq => InFlightAbs")
    return full, ref


def emit_histories(scratch, consts, name, simulate=None, timeout=1500):
    """Run TLC with the history variable kept; returns path of ndjson {h, s} lines and the TLC result."""
    with open(scratch.file(name + ".cfg"), "w") as f:
        f.write(cfg_text("Spec", consts, SEQ_INV + ["EmitHist"]))
    raw = scratch.file(name + ".raw")
    kw = {}
    if simulate:
        kw = dict(simulate="num=%d" % simulate, depth=consts["MaxHist"] + 1, workers=1)
    res = run_tlc(scratch, "InFlightSeq", cfg=name + ".cfg", marker='"HIST"', outfile=raw, timeout=timeout, **kw)
    if not res.ok and not simulate:
        require_ok(res, "InFlightSeq histories " + name)
    out = scratch.file(name + ".ndjson")
    n = 0
    with open(out, "w") as g:
        with open(raw) as f:
            chunk = []
            for line in f:
                chunk.append(line)
                if len(chunk) >= 20000:
                    for j in marker_json(chunk, '"HIST"'):
                        g.write(json.dumps(j) + "\n")
                        n += 1
                    chunk = []
            for j in marker_json(chunk, '"HIST"'):
                g.write(json.dumps(j) + "\n")
                n += 1
    os.remove(raw)
    return out, res, n


def replay(scratch, testbin, hist_path, params, name, shards=None):
    """Replay histories on the real handler in `shards` processes; returns (report, divergences)."""
    shards = shards or min(NCPU, 8)

    def one(i):
        env = dict(os.environ, VERIF_HIST=hist_path, VERIF_PARAMS=json.dumps(params), VERIF_SHARD=str(i),
                   VERIF_NSHARDS=str(shards), VERIF_DIV_OUT=scratch.file("%s.div.%d" % (name, i)), VERIF_SEED=str(seed()))
        p = subprocess.run([testbin, "-test.run", "^TestInflightSeqReplay$", "-test.timeout", "3h"], env=env,
                           stdout=subprocess.PIPE, stderr=subprocess.STDOUT, text=True, errors="replace")
        return i, p

    reps, divs = [], []
    with ThreadPoolExecutor(shards) as ex:
        for i, p in ex.map(one, range(shards)):
            rl = [l for l in p.stdout.split("\n") if l.startswith("REPORT ")]
            if p.returncode != 0 or not rl:
                # a crash of the worker that the in-bubble recover could not catch (fatal error, panic in a library
                # goroutine, blocked goroutines at bubble exit): reported through the crash classifier - but a worker
                # that was killed (out of memory, signal) or died without a Go panic / fatal error says nothing about the code
                if p.returncode < 0 or not re.search(r"^(panic:|fatal error:)", p.stdout, re.M):
                    raise Infra("replay worker %d of %s died without a panic of its own (rc=%d: killed / out of memory?)\n%s" % (i, name, p.returncode, p.stdout[-1500:]))
                divs.append(dict(crash=True, output=p.stdout[-6000:], shard=i))
                continue
            reps.append(json.loads(rl[0][7:]))
            dp = scratch.file("%s.div.%d" % (name, i))
            if os.path.exists(dp):
                for line in open(dp):
                    divs.append(json.loads(line))
    rep = dict(evaluations=sum(r["evaluations"] for r in reps), distinct=sum(r["distinct"] for r in reps),
               samples=[s for r in reps for s in r["samples"]][:3],
               leaves=sum(r["extra"]["leaves"] for r in reps[:1]))
    return rep, divs


def validate_traces(scratch, divs, params, explicit, name):
    """TLC judges the divergent real traces against InFlightAbs. Returns list of rejection dicts."""
    trace_path = scratch.file(name + ".trace.ndjson")
    idx = []
    with open(trace_path, "w") as f:
        for d in divs:
            if d.get("crash") or not d.get("tlines"):
                continue
            idx.append(d)
            f.write(json.dumps(dict(a="reset", trace=len(idx))) + "\n")
            for t in d["tlines"]:
                f.write(json.dumps(t) + "\n")
    if not idx:
        return [], 0
    with open(scratch.file(name + ".trace.cfg"), "w") as f:
        f.write(cfg_text("TSpec", dict(N=params["N"], MaxPending=params["MaxPending"], ExplicitIds=tla_set(explicit),
                                       UnknownId=9, TimeoutQ=params["TimeoutQ"]), ["Report", "TraceInv"]))
    res = run_tlc(scratch, "InFlightTrace", cfg=name + ".trace.cfg", workers=1, marker='"REJECTED"', copy=False,
                  env=dict(TRACE=trace_path), timeout=1800)
    if not res.ok:
        # TraceInv violated on an explained prefix would be a contradiction inside the Abs spec
        raise Infra("InFlightTrace: TLC reported %s\n%s" % (res.violated, res.stdout[-3000:]))
    out = marker_json(res.lines, '"REJECTED"')
    if not out:
        raise Infra("InFlightTrace: trace file not consumed to the end\n" + res.stdout[-3000:])
    rejected = {}
    for o in out:
        for r in o["r"]:
            rejected[r[0]] = r
    rej = []
    for k, r in sorted(rejected.items()):
        d = idx[k - 1]
        rej.append(dict(action=r[2], why=r[3], hist=d["hist"], div=d))
    return rej, len(idx)


ATTRIB = {  # (action, why) -> properties whose statement the rejected step contradicts
    "M": {"C09"}, "E": {"C09"},
    "R": {"C10"}, "C": {"C16"}, "T": {"C16"},
}


def attribute(action, why):
    # a mismatch in the id pool / registration table breaks id management (C09) and, through it, routing (C10):
    # an id handed out while a request that carries it is unanswered sends the late response to the wrong request
    if why == "ids" and action in ("D", "T", "C"):
        return {"C09", "C10"} | ({"C16"} if action in ("T", "C") else set())
    if action == "D":
        return {"C10"}
    return ATTRIB.get(action, {"C09", "C10", "C16"})


def classify(rejs, divs):
    """Turn rejections / panics / leaks / crashes into (props, sig, detail, replay) tuples."""
    out = []
    for r in rejs:
        d = r["div"]
        step = d["hist"][min(d["at"], len(d["hist"]) - 1)] if d["hist"] else "?"
        # which recorded step was rejected: find it through the trace line action sequence
        props = attribute(r["action"], r["why"])
        if r["action"] == "T" and any(x.startswith("D") and x.endswith("P") for x in d["hist"]):
            # a timeout at the wrong moment of a multi-page response: the remaining pages, and the last one, are not
            # delivered to the request (C10's "delivers all its pages ... and completes it on the last page")
            props = props | {"C10"}
        out.append(dict(props=props,
                        sig="inflight-seq|%s|%s" % (r["action"], r["why"]),
                        detail="real trace rejected by InFlightAbs at a %s step (%s): history %s; first divergence from the "
                               "code-shaped model at step %d: real %s / model %s" % (
                                   r["action"], r["why"], ",".join(d["hist"]), d["at"], d.get("real", "")[:300], d.get("spec", "")[:300]),
                        replay=dict(check="inflight-seq", history=d["hist"])))
    for d in divs:
        if d.get("crash"):
            msg = [l for l in d["output"].split("\n") if l.startswith(("panic:", "fatal error:"))]
            out.append(dict(props={"C16"}, sig="inflight-seq|crash|" + (msg[0][:60] if msg else "worker-died"),
                            detail=d["output"][-1500:], replay=dict(check="inflight-seq", shard=d["shard"])))
            continue
        if d.get("panic"):
            out.append(dict(props={"C16"}, sig="inflight-seq|panic|" + d["panic"][:50],
                            detail="panic %r during history %s (step %d)" % (d["panic"], ",".join(d["hist"]), d["at"]),
                            replay=dict(check="inflight-seq", history=d["hist"])))
        if d.get("leak"):
            out.append(dict(props={"C16"}, sig="inflight-seq|goroutine-leak",
                            detail="%d goroutine(s) survive handler close after history %s" % (d["leak"], ",".join(d["hist"])),
                            replay=dict(check="inflight-seq", history=d["hist"])))
    return out


def seq_pipeline(scratch, tier, testbin):
    """Runs the whole sequential pipeline; returns a dict with counts and classified findings."""
    t0 = time.time()
    res = dict(states=0, transitions=0, evaluations=0, distinct=0, traces=0, drift=0, findings=[], samples=[], runs=[])
    if tier == "quick":
        mc = [seq_consts(2, 2, [1, 3], 3, 3)]
        hists = [("h-n2", seq_consts(2, 1, [1, 3], 4, 4, MaxHist=5), None),
                 ("h-n1", seq_consts(1, 2, [1, 2], 4, 4, MaxHist=5), None),
                 ("h-time", seq_consts(1, 3, [1], 3, 6, TimeoutQ=4, MaxHist=8, acts="MDT"), None),
                 ("sim-n3", seq_consts(3, 2, [2, 5], 8, 12, MaxHist=24), 400)]
    else:
        mc = [seq_consts(2, 2, [1, 3], 3, 3), seq_consts(1, 1, [1, 2], 4, 4), seq_consts(3, 1, [2, 4], 3, 3, Timed=False),
              seq_consts(2, 2, [1, 3], 4, 4, TimeoutQ=3)]
        hists = [("h-n2", seq_consts(2, 1, [1, 3], 4, 4, MaxHist=6), None),
                 ("h-n2p2", seq_consts(2, 2, [2, 3], 4, 5, MaxHist=5), None),
                 ("h-n1", seq_consts(1, 2, [1, 2], 5, 5, MaxHist=6), None),
                 ("h-n3", seq_consts(3, 1, [2, 4], 4, 4, MaxHist=5), None),
                 ("h-time", seq_consts(1, 3, [1], 4, 8, TimeoutQ=4, MaxHist=10, acts="MDT"), None),
                 ("h-time5", seq_consts(2, 2, [1], 3, 6, TimeoutQ=5, MaxHist=8, acts="MDTC"), None),
                 ("sim-n3", seq_consts(3, 2, [2, 5], 10, 20, MaxHist=40), 5000),
                 ("sim-n4", seq_consts(4, 3, [1, 6], 12, 30, TimeoutQ=3, MaxHist=60), 3000)]
    for c in mc:
        full, ref = model_check(scratch, c)
        res["states"] += full.distinct
        res["transitions"] += full.generated
        res["runs"].append(dict(kind="model-check", consts=c, distinct=full.distinct, generated=full.generated,
                                depth=full.depth, refinement_states=ref.distinct, wall=round(full.wall + ref.wall, 1)))
        log("TLC InFlightSeq N=%s: %d distinct / %d generated, refinement to InFlightAbs ok (%.0fs)" % (
            c["N"], full.distinct, full.generated, full.wall + ref.wall))
    for name, c, sim in hists:
        path, tl, n = emit_histories(scratch, c, name, simulate=sim)
        params = dict(N=c["N"], MaxPending=c["MaxPending"], TimeoutQ=c["TimeoutQ"])
        explicit = [int(x) for x in c["ExplicitIds"].strip("{}").split(",")]
        rep, divs = replay(scratch, testbin, path, params, name)
        rejs, nval = validate_traces(scratch, divs, params, explicit, name)
        drift = nval - len(rejs)
        res["evaluations"] += rep["evaluations"]
        res["distinct"] += rep["distinct"]
        res["traces"] += rep["evaluations"]
        res["drift"] += drift
        res["samples"] += rep["samples"][:1]
        res["findings"] += classify(rejs, divs)
        res["runs"].append(dict(kind="simulate" if sim else "all-histories", name=name, consts=c, states_emitted=n,
                                histories_replayed=rep["evaluations"], prefixes_checked=rep["distinct"],
                                divergent=len(divs), validated_by_tlc=nval, rejected=len(rejs), drift=drift))
        log("histories %s: %d states emitted, %d histories replayed on the real handler, %d divergent, %d rejected by InFlightAbs" % (
            name, n, rep["evaluations"], len(divs), len(rejs)))
        os.remove(path)
    res["wall"] = time.time() - t0
    return res

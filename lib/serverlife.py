"""Pipeline for ServerLife.tla (C16, the CqlServer and its registry of connections): TLC checks the design (no panic,
Close returns, everything closed afterwards) and the as-found negative controls, prints every session of two small
configurations; the harness replays them on a real CqlServer over loopback TCP; a free-running stress closes servers
while their peers drop."""
import json
import os
import re
import subprocess

from common import Infra, harness_json, log, marker_json, run_tlc, seed


def run_serverlife(scratch, h, testbin, tier):
    res = run_tlc(scratch, "ServerLife", cfg="ServerLife.cfg", workers=4, timeout=1200)
    if not res.ok:
        raise Infra("ServerLife: TLC reports %s in the as-built design\n%s" % (res.violated, res.stdout[-3000:]))
    neg = {}
    for v, inv in (("StartFailureCloses", "NoPanic"), ("NilConnGuard", "NoPanic"), ("AnyChanNonBlocking", "CloseReturns")):
        r = run_tlc(scratch, "ServerLife", cfg="ServerLifeAsFound%s.cfg" % v, workers=1, timeout=600, copy=False)
        if r.violated != inv:
            raise Infra("negative control %s: expected a violation of %s, TLC says %s" % (v, inv, r.violated))
        neg[v] = r.violated
    out = dict(states=res.distinct, transitions=res.generated, negative_controls=neg, sessions=0, replays=0, violations=[], runs=[])
    for m, every in ((1, 2 if tier == "quick" else 1), (2, 12 if tier == "quick" else 1)):
        raw = scratch.file("life%d.raw" % m)
        r = run_tlc(scratch, "ServerLife", cfg="ServerLifeSessions%d.cfg" % m, workers=1, marker='"LIFE"', outfile=raw, timeout=1800, copy=False)
        if not r.ok:
            raise Infra("ServerLifeSessions%d: TLC reports %s\n%s" % (m, r.violated, r.stdout[-3000:]))
        path = scratch.file("life%d.ndjson" % m)
        n = 0
        with open(path, "w") as g, open(raw) as f:
            for line in f:
                for j in marker_json([line], '"LIFE"'):
                    g.write(json.dumps(j) + "\n")
                    n += 1
        os.remove(raw)
        p = subprocess.run([h, "serverlife", "-sessions", path, "-max-conn", str(m), "-every", str(every), "-workers", "16"], stdout=subprocess.PIPE,
                           stderr=subprocess.STDOUT, text=True, errors="replace", timeout=3 * 3600)
        last = p.stdout.strip().split("\n")[-1] if p.stdout.strip() else ""
        try:
            rep = json.loads(last)
        except ValueError:
            # the replay process died: a panic in a goroutine of the library (e.g. the context watcher closing the server)
            mm = re.search(r"^(panic: .*|fatal error: .*)$", p.stdout, re.M)
            lib = re.search(r"go-cassandra-native-protocol/client\.\(\*\w+\)\.(\w+)", p.stdout)
            if not (mm and lib):
                raise Infra("serverlife replay: no report and no library panic:\n" + p.stdout[-3000:])
            rep = dict(evaluations=0, violations=[dict(sig="serverlife|crash|%s|%s" % (mm.group(1)[:40].replace(" ", "-"), lib.group(1)),
                                                       detail="replaying ServerLife sessions on a real CqlServer: the process died: %s in %s; %s" % (
                                                           mm.group(1), lib.group(0), p.stdout[p.stdout.find(mm.group(1)):][:1500]),
                                                       replay=dict(check="serverlife", max_conn=m))])
        out["sessions"] += n
        out["replays"] += rep["evaluations"]
        out["states"] += r.distinct
        for v in rep["violations"]:
            if "|harness" in v["sig"]:
                raise Infra("serverlife replay: the harness could not do its own part: " + v["detail"][:500])
            out["violations"].append(v)
        out["runs"].append(dict(max_conn=m, states=r.distinct, sessions=n, replayed=rep["evaluations"], violations=len(rep["violations"])))
        log("ServerLife MaxConnections=%d: %d states, %d sessions, %d replayed on a real CqlServer over loopback TCP, %d violations" % (
            m, r.distinct, n, rep["evaluations"], len(rep["violations"])))
        os.remove(path)
    # free-running: servers closed while their peers drop
    env = dict(os.environ, VERIF_STRESS=str(60 if tier == "quick" else 1500), VERIF_SEED=str(seed()))
    p = subprocess.run([testbin, "-test.run", "^TestServerLifeStress$", "-test.timeout", "3h"], env=env, stdout=subprocess.PIPE, stderr=subprocess.STDOUT,
                       text=True, errors="replace")
    rl = [l for l in p.stdout.split("\n") if l.startswith("LSTRESS ")]
    if not rl:
        m = re.search(r"^(panic: .*|fatal error: .*)$", p.stdout, re.M)
        lib = re.search(r"go-cassandra-native-protocol/client\.\(\*\w+\)\.(\w+)", p.stdout)
        if m and lib:
            out["violations"].append(dict(sig="serverlife|stress|crash|%s|%s" % (m.group(1)[:40].replace(" ", "-"), lib.group(1)),
                                          detail="servers closed while their peers drop: the process died: %s in %s; %s" % (m.group(1), lib.group(0), p.stdout[p.stdout.find(m.group(1)):][:1500]),
                                          replay=dict(check="serverlife-stress", seed=seed())))
        else:
            raise Infra("TestServerLifeStress: no report and no library panic:\n" + p.stdout[-3000:])
    else:
        rep = json.loads(rl[0][8:])
        out["stress"] = {k: rep[k] for k in rep if k != "problems"}
        for prob in (rep["problems"] or []):
            out["violations"].append(dict(sig="serverlife|stress|%s" % re.sub(r"[^a-zA-Z]+", "-", re.sub(r"round \d+: ", "", prob))[:60], detail=prob,
                                          replay=dict(check="serverlife-stress", seed=seed())))
        log("ServerLife stress: %d servers closed while %d peers dropped; %d problems" % (rep["rounds"], rep["connections"], len(rep["problems"] or [])))
    return out

SPECIFICATION Spec
CONSTANT StrVals = {"", "a", "b"}
INVARIANTS TypeOK CqlVersionKept
PROPERTIES SetGet Frame
CHECK_DEADLOCK FALSE

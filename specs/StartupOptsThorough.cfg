SPECIFICATION Spec
CONSTANT OtherComps = {"lz4", "snappy", "Snappy", "zstd", "none", "lZ4 "}
CONSTANT StrVals = {"", "a", "b"}
INVARIANTS TypeOK CqlVersionKept
PROPERTIES SetGet Frame
CHECK_DEADLOCK FALSE

SPECIFICATION Spec
CONSTANTS
  Modern = TRUE
  Auth = FALSE
  Rig = "raw-lib"
  NReq = 2
  BigFrames = {2}
  NEvents = 0
  NSpurious = 0
  Dup = FALSE
  SplitSmall = {}
  Faults = {}
INVARIANTS RequestsInOrder ResponsesInOrder WireOK ModesAgree AllArrive Emit
CHECK_DEADLOCK FALSE

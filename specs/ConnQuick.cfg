SPECIFICATION Spec
CONSTANTS
  Modern = TRUE
  Auth = FALSE
  Rig = "raw-lib"
  NReq = 2
  BigFrames = {2}
INVARIANTS RequestsInOrder ResponsesInOrder WireOK ModesAgree AllArrive Emit
CHECK_DEADLOCK FALSE

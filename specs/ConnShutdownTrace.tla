------------------------- MODULE ConnShutdownTrace -------------------------
(* Trace validation (binding T) for the shutdown of connections: events recorded by the trace points of the      *)
(* client package (build tag verif; each emitted inside the critical section that makes the change) while real   *)
(* connections are closed under free-running senders, receivers and event traffic (harness/connstress_test.go).  *)
(* The trace is judged by the three guards ConnShutdown.tla checks on the design:                                *)
(*   - a frame is put on a connection channel only while the channels are open;                                  *)
(*   - when Close returns the channels are closed and every registered, unanswered request is completed;         *)
(*   - no request is registered after Close has returned;                                                        *)
(*   - once everything has settled every request ever registered is completed ("quiet", the harness's last line).  *)
(*   {"a":"reset","trace":k,"side":"client"|"server"}    {"a":<point>,"id":n}                                      *)
EXTENDS Integers, Sequences, FiniteSets, TLC, Json, IOUtils

TraceFile == IF "TRACE" \in DOMAIN IOEnv THEN IOEnv.TRACE ELSE "trace.ndjson"
Trace == ndJsonDeserialize(TraceFile)

VARIABLES l, cur, chans, reg, added, completed, closeDone, rejected
tvars == <<l, cur, chans, reg, added, completed, closeDone, rejected>>

Fresh == chans' = "open" /\ reg' = {} /\ added' = {} /\ completed' = {} /\ closeDone' = FALSE

Step(e) ==
    CASE e.a = "inflight.add" -> /\ ~closeDone /\ reg' = reg \cup {e.id} /\ added' = added \cup {e.id}
                                 /\ completed' = completed \ {e.id} /\ UNCHANGED <<chans, closeDone>>
      [] e.a = "inflight.remove" -> reg' = reg \ {e.id} /\ UNCHANGED <<chans, added, completed, closeDone>>
      [] e.a = "req.close" -> completed' = completed \cup {e.id} /\ UNCHANGED <<chans, reg, added, closeDone>>
      [] e.a \in {"conn.enqueue", "conn.event", "sconn.enqueue", "sconn.request"} -> chans = "open" /\ UNCHANGED <<chans, reg, added, completed, closeDone>>
      [] e.a \in {"conn.chans.closed", "sconn.chans.closed"} -> chans = "open" /\ chans' = "closed" /\ UNCHANGED <<reg, added, completed, closeDone>>
      [] e.a \in {"conn.close.done", "sconn.close.done"} -> chans = "closed" /\ reg \subseteq completed /\ ~closeDone /\ closeDone' = TRUE /\ UNCHANGED <<chans, reg, added, completed>>
      \* the harness's own last line, once the connection is closed and everything has settled: every request ever
      \* registered has been completed (a stream id may have carried several requests: the last one counts)
      [] e.a = "quiet" -> closeDone /\ added \subseteq completed /\ UNCHANGED <<chans, reg, added, completed, closeDone>>
      [] OTHER -> FALSE

NextReset(i) == IF \E j \in i..Len(Trace) : Trace[j].a = "reset"
                THEN CHOOSE j \in i..Len(Trace) : Trace[j].a = "reset" /\ \A m \in i..(j - 1) : Trace[m].a # "reset"
                ELSE Len(Trace) + 1

TInit == l = 1 /\ cur = 0 /\ chans = "open" /\ reg = {} /\ added = {} /\ completed = {} /\ closeDone = FALSE /\ rejected = {}

TNext == /\ l <= Len(Trace)
         /\ LET e == Trace[l] IN
            IF e.a = "reset" THEN Fresh /\ l' = l + 1 /\ cur' = e.trace /\ UNCHANGED rejected
            ELSE IF ENABLED Step(e) THEN Step(e) /\ l' = l + 1 /\ UNCHANGED <<cur, rejected>>
            ELSE /\ rejected' = rejected \cup {<<cur, l, e.a, e.id>>}
                 /\ l' = NextReset(l)
                 /\ UNCHANGED <<cur, chans, reg, added, completed, closeDone>>

TSpec == TInit /\ [][TNext]_tvars
Done == l = Len(Trace) + 1
Report == Done => PrintT(<<"REJECTED", ToJson([n |-> Cardinality(rejected), lines |-> Len(Trace), r |-> rejected])>>)
=============================================================================

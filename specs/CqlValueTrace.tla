---------------------------- MODULE CqlValueTrace ----------------------------
(* Trace validation for the CQL integer codecs (binding T of C11 / C12 / C13): conversions of RANDOM values    *)
(* (random sign, random bit length up to 130, random bits - not the boundary values of the enumerated case      *)
(* space) executed by the real codecs are recorded, one line per conversion, and judged here by the operators   *)
(* of CqlValue.tla.                                                                                             *)
(*   {"d":"enc","cql":t,"rep":r,"neg":bool,"mag":[bits, little-endian],"ok":bool,"bytes":[...]}                 *)
(*        the Go value n held in representation r was encoded as CQL type t: ok iff t can hold n (C13), and     *)
(*        the bytes are the prescribed ones (C12)                                                               *)
(*   {"d":"dec","cql":t,"rep":r,"bytes":[...],"ok":bool,"neg":bool,"mag":[...]}                                *)
(*        the bytes (of the width of t; any length for varint) were decoded into representation r: ok iff r can  *)
(*        hold the value they denote (C13), and the value obtained is that value (C11 / C12)                     *)
(* Every line is judged independently; the verdict line lists the rejected ones with the clause that failed.    *)
EXTENDS CqlValue

TraceFile == IF "TRACE" \in DOMAIN IOEnv THEN IOEnv.TRACE ELSE "cqltrace.ndjson"
Trace == ndJsonDeserialize(TraceFile)

ByteBits(b) == [i \in 1..8 |-> (b \div (2 ^ (i - 1))) % 2]
RECURSIVE BytesToBitsLE(_)
\* big-endian bytes -> little-endian bits
BytesToBitsLE(bs) == IF bs = <<>> THEN <<>> ELSE BytesToBitsLE(Tail(bs)) \o ByteBits(Head(bs))
\* the integer a big-endian two's-complement byte string denotes
FromBytes(bs) == LET bits == BytesToBitsLE(bs) IN
                 IF bits[Len(bits)] = 0 THEN Norm([neg |-> FALSE, mag |-> bits])
                 ELSE Norm([neg |-> TRUE, mag |-> IncBits(Invert(bits))])

\* sanity of the reading direction against the writing direction, on the enumerated boundary values
ASSUME \A n \in Values : FromBytes(VarintBytes(n)) = n
ASSUME \A n \in {m \in Values : FitsSigned(m, 64)} : FromBytes(FixedBytes(n, 8)) = n

Verdict(e) ==
    IF e.d = "enc"
    THEN LET n == Norm([neg |-> e.neg, mag |-> e.mag])
             holds == CqlHolds(e.cql, n) IN
         IF e.ok /\ ~holds THEN "enc-silent"
         ELSE IF ~e.ok /\ holds THEN "enc-refused"
         ELSE IF e.ok /\ e.bytes # Ser(e.cql, n) THEN "enc-bytes"
         ELSE "ok"
    ELSE LET n == FromBytes(e.bytes)
             fits == RepHolds(e.rep, n) IN
         IF e.ok /\ ~fits THEN "dec-silent"
         ELSE IF ~e.ok /\ fits THEN "dec-refused"
         ELSE IF e.ok /\ Norm([neg |-> e.neg, mag |-> e.mag]) # n THEN "dec-value"
         ELSE "ok"

TInit == /\ x = 0
         /\ PrintT(<<"REJECTED", ToJson([n |-> Len(Trace),
                                         bad |-> {<<i, Verdict(Trace[i])>> : i \in {j \in 1..Len(Trace) : Verdict(Trace[j]) # "ok"}}])>>)
TNext == x' = x
TSpec == TInit /\ [][TNext]_x
=============================================================================

----------------------------- MODULE TablesEmit -----------------------------
(* Evaluates the ASSUMEs of Tables.tla and prints the tables as JSON for the C19 harness. *)
EXTENDS Tables
VARIABLE x
Init == x = 0 /\ PrintT(<<"TABLES", AsJson>>)
Next == x' = x
Spec == Init /\ [][Next]_x
=============================================================================

SPECIFICATION Spec
CONSTANTS
  NFrames = 2
  MaxLen = 2
  WriteFirst = FALSE
INVARIANTS PrefixOK BoundaryOK Emit
CHECK_DEADLOCK FALSE

--------------------------- MODULE CompressLattice ---------------------------
(* C08: the assumption every stream-level specification makes about compression,                         *)
(*         Decompress(Compress(x)) = x      for both algorithms and both formats,                           *)
(* is discharged empirically.  TLA+ contributes the statement and the class space: this module enumerates  *)
(* the lattice  algorithm x format x size class x content class  and emits one generator descriptor per    *)
(* point; the harness materialises each descriptor and runs the real compressors.  (TLA+ says nothing      *)
(* about LZ4 / Snappy internals -- DESIGN §4 C08.)                                                          *)
EXTENDS Integers, Sequences, FiniteSets, TLC, Json

CONSTANT Thorough

RECURSIVE Pow2(_)
Pow2(k) == IF k = 0 THEN 1 ELSE 2 * Pow2(k - 1)

\* body format: 4-byte big-endian uncompressed length + block (LZ4), snappy block format; payload format: raw block (v5 segments, LZ4 only)
Combos == {[algo |-> "lz4", format |-> "body"], [algo |-> "lz4", format |-> "payload"], [algo |-> "snappy", format |-> "body"]}

SmallSizes == 0..17
Boundaries == UNION {{Pow2(k) - 1, Pow2(k), Pow2(k) + 1} : k \in 5..17}
BigSizes == IF Thorough THEN {262144, 1048576, 4194304, 16777216} ELSE {262144, 1048576}
SizesFor(c) == IF c.format = "payload" THEN {n \in SmallSizes \cup Boundaries : n <= 131071}
               ELSE SmallSizes \cup Boundaries \cup BigSizes

\* content classes; "period" has a parameter p, "ratio" a target compression ratio r (one random byte every r bytes)
Contents == {[class |-> "zeros"], [class |-> "ones"], [class |-> "text"], [class |-> "rand"], [class |-> "sparse"]}
            \cup {[class |-> "period", p |-> p] : p \in {2, 3, 4, 7, 8, 15, 16, 31, 32, 63, 64}}
            \cup {[class |-> "ratio", r |-> r] : r \in {2, 4, 8, 9, 16, 50, 100, 250}}

\* every size in a dense range, for the two contents that bracket the compressors' behaviour (incompressible / compressible):
\* buffer-sizing mistakes live at sizes nobody thinks of as boundaries
DenseSizes == 0..(IF Thorough THEN 20000 ELSE 6000)
Dense == {[algo |-> c.algo, format |-> c.format, size |-> n, content |-> k] : c \in Combos, n \in DenseSizes,
             k \in {[class |-> "rand"], [class |-> "text"]}}

Descriptors == {[algo |-> c.algo, format |-> c.format, size |-> n, content |-> k] : c \in Combos, n \in UNION {SizesFor(c) : c \in Combos}, k \in Contents}
               \cup Dense
Valid(d) == d.size \in SizesFor([algo |-> d.algo, format |-> d.format]) \/ d \in Dense

VARIABLE x
Init == x = 0 /\ \A d \in {d \in Descriptors : Valid(d)} : PrintT(<<"GEN", ToJson(d)>>)
Next == x' = x
Spec == Init /\ [][Next]_x
=============================================================================

---------------------------- MODULE InFlightHook ----------------------------
(* Trace validation (binding T) of FREE-RUNNING executions of the real in-flight handler at its linearization    *)
(* points: the trace points "inflight.add" / "inflight.remove" are emitted inside the handler's write lock, after  *)
(* the change, with the stream id and the size of the table (client/inflight.go, build tag verif).  The           *)
(* specification is the table of C09 / C10 seen from there: a registration takes an id no unanswered request       *)
(* carries, never exceeds the limit, and the table the code reports is the table the specification has - an entry  *)
(* that silently disappears (or appears) makes the next reported size disagree.                                    *)
(*   {"a":"reset","trace":k,"n":limit,"id":0,"len":0}   {"a":"inflight.add"|"inflight.remove"|"req.close","id":i,"len":s} *)
EXTENDS Integers, Sequences, FiniteSets, TLC, Json, IOUtils

TraceFile == IF "TRACE" \in DOMAIN IOEnv THEN IOEnv.TRACE ELSE "trace.ndjson"
Trace == ndJsonDeserialize(TraceFile)

VARIABLES l, cur, cap, table, nclosed, rejected
hvars == <<l, cur, cap, table, nclosed, rejected>>

Step(e) ==
    CASE e.a = "inflight.add" -> /\ e.id \notin table                       \* C09: no other unanswered request carries the id
                                 /\ e.len = Cardinality(table) + 1           \* the code's table is the specification's
                                 /\ e.len <= cap                             \* C09: never more than N registered
                                 /\ table' = table \cup {e.id} /\ UNCHANGED nclosed
      [] e.a = "inflight.remove" -> /\ e.len = Cardinality(table \ {e.id})
                                    /\ table' = table \ {e.id} /\ UNCHANGED nclosed
      [] e.a = "req.close" -> nclosed' = nclosed + 1 /\ UNCHANGED table
      [] OTHER -> FALSE

NextReset(i) == IF \E j \in i..Len(Trace) : Trace[j].a = "reset"
                THEN CHOOSE j \in i..Len(Trace) : Trace[j].a = "reset" /\ \A m \in i..(j - 1) : Trace[m].a # "reset"
                ELSE Len(Trace) + 1

HInit == l = 1 /\ cur = 0 /\ cap = 0 /\ table = {} /\ nclosed = 0 /\ rejected = {}

HNext == /\ l <= Len(Trace)
         /\ LET e == Trace[l] IN
            IF e.a = "reset" THEN /\ table' = {} /\ nclosed' = 0 /\ cap' = e.n /\ cur' = e.trace /\ l' = l + 1 /\ UNCHANGED rejected
            ELSE IF ENABLED Step(e) THEN Step(e) /\ l' = l + 1 /\ UNCHANGED <<cur, cap, rejected>>
            ELSE /\ rejected' = rejected \cup {<<cur, l, e.a, e.id, e.len, Cardinality(table)>>}
                 /\ l' = NextReset(l)
                 /\ UNCHANGED <<cur, cap, table, nclosed>>

HSpec == HInit /\ [][HNext]_hvars
Done == l = Len(Trace) + 1
Report == Done => PrintT(<<"REJECTED", ToJson([n |-> Cardinality(rejected), lines |-> Len(Trace), r |-> rejected])>>)
=============================================================================

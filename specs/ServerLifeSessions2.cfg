SPECIFICATION Spec
CONSTANTS
  Clients = {"c1", "c2"}
  Strangers = {"x1"}
  MaxConn = 2
  StartFailureCloses = TRUE
  NilConnGuard = TRUE
  AnyChanNonBlocking = TRUE
INVARIANTS NoPanic CloseReturns AllClosedAfterClose RegistryBounded Emit

CHECK_DEADLOCK FALSE

SPECIFICATION Spec
CONSTANTS
  Thorough = FALSE
  OnlyVersions = {2, 3, 4, 5, 65, 66}
CHECK_DEADLOCK FALSE

------------------------------ MODULE Segment ------------------------------
(* Protocol v5 framing (native_protocol_v5.spec §2.1-2.3): checksummed segments.                      *)
(*                                                                                                     *)
(*   uncompressed segment:  3-byte header | CRC-24 (3) | payload | CRC-32 (4)                           *)
(*       header, little-endian 24 bits:  bits 0..16 payload length, bit 17 self-contained, rest 0      *)
(*   compressed segment:    5-byte header | CRC-24 (3) | payload as transmitted | CRC-32 (4)            *)
(*       header, little-endian 40 bits:  bits 0..16 compressed length, bits 17..33 uncompressed length, *)
(*       bit 34 self-contained, rest 0.  If compression does not reduce the size the payload is sent     *)
(*       raw: its length goes in the compressed-length field and the uncompressed-length field is 0.     *)
(*       (The prose of §2.3.2 words this as "compressed length 0"; Cassandra, the drivers and this       *)
(*       library use uncompressed length 0 -- see DESIGN §3.4.)                                          *)
(*   CRC-24: Koopman polynomial 0x1974F0B, initial value 0x875060, over the header bytes in order.       *)
(*   CRC-32: IEEE 802.3 (reflected 0xEDB88320), computed over the four bytes FA 2D 55 CA followed by     *)
(*           the payload bytes as transmitted; both checksums are written little-endian.                 *)
(*                                                                                                     *)
(* TLC integers are 32-bit: the 40-bit header is handled as a bit sequence and the CRC-32 register as   *)
(* two 16-bit halves.                                                                                  *)
EXTENDS Integers, Sequences, SequencesExt, FiniteSets, Bitwise, TLC

MaxPayload == 131071          \* 2^17 - 1

-----------------------------------------------------------------------------
\* little-endian bit list of n, w bits wide
RECURSIVE Bits(_, _)
Bits(n, w) == IF w = 0 THEN <<>> ELSE <<n % 2>> \o Bits(n \div 2, w - 1)

RECURSIVE FromBits(_)
FromBits(bs) == IF bs = <<>> THEN 0 ELSE Head(bs) + 2 * FromBits(Tail(bs))

RECURSIVE BytesOfBits(_)
BytesOfBits(bs) == IF bs = <<>> THEN <<>> ELSE <<FromBits(SubSeq(bs, 1, 8))>> \o BytesOfBits(SubSeq(bs, 9, Len(bs)))

RECURSIVE BitsOfBytes(_)
BitsOfBytes(bytes) == IF bytes = <<>> THEN <<>> ELSE Bits(Head(bytes), 8) \o BitsOfBytes(Tail(bytes))

Flag(b) == IF b THEN 1 ELSE 0

\* header bytes
HeaderUncompressed(len, sc) == BytesOfBits(Bits(len, 17) \o <<Flag(sc)>> \o Bits(0, 6))
HeaderCompressed(cLen, uLen, sc) == BytesOfBits(Bits(cLen, 17) \o Bits(uLen, 17) \o <<Flag(sc)>> \o Bits(0, 5))

\* fields back from header bytes
ParseUncompressed(h) == LET bs == BitsOfBytes(h) IN
    [len |-> FromBits(SubSeq(bs, 1, 17)), sc |-> bs[18] = 1, pad |-> FromBits(SubSeq(bs, 19, 24))]
ParseCompressed(h) == LET bs == BitsOfBytes(h) IN
    [cLen |-> FromBits(SubSeq(bs, 1, 17)), uLen |-> FromBits(SubSeq(bs, 18, 34)), sc |-> bs[35] = 1,
     pad |-> FromBits(SubSeq(bs, 36, 40))]

-----------------------------------------------------------------------------
\* CRC-24
Crc24Poly == 26693387       \* 0x1974F0B
Crc24Init == 8867936        \* 0x875060
Bit24 == 16777216           \* 0x1000000

\* (folds instead of recursive operators: TLC passes operator arguments lazily, and a recursive chain of
\*  register updates would be re-evaluated exponentially often)
Eight == <<1, 2, 3, 4, 5, 6, 7, 8>>
Crc24Bit(crc, i) == LET c2 == crc * 2 IN IF (c2 & Bit24) # 0 THEN c2 ^^ Crc24Poly ELSE c2
Crc24Byte(crc, b) == FoldLeft(Crc24Bit, crc ^^ (b * 65536), Eight)
Crc24From(crc, bytes) == FoldLeft(Crc24Byte, crc, bytes)

Crc24(bytes) == Crc24From(Crc24Init, bytes)
Crc24Lin(bytes) == Crc24From(0, bytes)            \* the linear part: CRC with a zero initial value
Le24(n) == <<n % 256, (n \div 256) % 256, (n \div 65536) % 256>>

-----------------------------------------------------------------------------
\* CRC-32 on a register split in halves [hi, lo], each 16 bits
PolyHi == 60856   \* 0xEDB8
PolyLo == 33568   \* 0x8320
Shr1(r) == [hi |-> r.hi \div 2, lo |-> (r.lo \div 2) + (r.hi % 2) * 32768]

Crc32Bit(r, i) == LET s == Shr1(r) IN
                  IF r.lo % 2 = 1 THEN [hi |-> s.hi ^^ PolyHi, lo |-> s.lo ^^ PolyLo] ELSE s
Crc32Byte(r, b) == FoldLeft(Crc32Bit, [hi |-> r.hi, lo |-> r.lo ^^ b], Eight)
Crc32From(r, bytes) == FoldLeft(Crc32Byte, r, bytes)

Crc32Seed == <<250, 45, 85, 202>>   \* FA 2D 55 CA
\* the four checksum bytes, little-endian
Crc32Bytes(payload) ==
    LET r == Crc32From([hi |-> 65535, lo |-> 65535], Crc32Seed \o payload)
        hi == r.hi ^^ 65535
        lo == r.lo ^^ 65535
    IN <<lo % 256, lo \div 256, hi % 256, hi \div 256>>

\* Known answer from the CRC catalogue: CRC-32/ISO-HDLC("123456789") = 0xCBF43926
ASSUME LET r == Crc32From([hi |-> 65535, lo |-> 65535], <<49, 50, 51, 52, 53, 54, 55, 56, 57>>)
       IN (r.hi ^^ 65535) = 52212 /\ (r.lo ^^ 65535) = 14630

-----------------------------------------------------------------------------
\* whole segments
SegUncompressed(payload, sc) ==
    LET h == HeaderUncompressed(Len(payload), sc)
    IN h \o Le24(Crc24(h)) \o payload \o Crc32Bytes(payload)

\* a compressed-format segment given the bytes actually transmitted and the uncompressed-length field
SegCompressed(transmitted, uLenField, sc) ==
    LET h == HeaderCompressed(Len(transmitted), uLenField, sc)
    IN h \o Le24(Crc24(h)) \o transmitted \o Crc32Bytes(transmitted)

\* Is this (header, crc) pair a well-formed uncompressed / compressed header for a payload of n bytes of which
\* t are transmitted?  (used by the trace validation of real segments)
GoodUncompressedHeader(h, crc, n, sc) ==
    /\ Len(h) = 3 /\ h = HeaderUncompressed(n, sc) /\ crc = Le24(Crc24(h))
GoodCompressedHeader(h, crc, n, t, sc) ==
    /\ Len(h) = 5 /\ crc = Le24(Crc24(h))
    /\ LET f == ParseCompressed(h) IN
       /\ f.sc = sc /\ f.pad = 0 /\ f.cLen = t
       /\ \/ f.uLen = n /\ n > 0            \* compressed: both lengths declared
          \/ f.uLen = 0 /\ t = n            \* raw fallback: uncompressed-length field 0, payload sent as is

\* the header round trip is the identity on the field ranges
ASSUME \A len \in {0, 1, 255, 256, 65535, 65536, 131070, 131071}, sc \in BOOLEAN :
          LET f == ParseUncompressed(HeaderUncompressed(len, sc)) IN f.len = len /\ f.sc = sc /\ f.pad = 0
ASSUME \A c \in {0, 1, 131071}, u \in {0, 77, 131071}, sc \in BOOLEAN :
          LET f == ParseCompressed(HeaderCompressed(c, u, sc)) IN f.cLen = c /\ f.uLen = u /\ f.sc = sc /\ f.pad = 0
=============================================================================

SPECIFICATION Spec
CONSTANTS
  W = 3
  EmitPayLen = 6
CHECK_DEADLOCK FALSE

SPECIFICATION Spec
CONSTANTS
  W = 3
  EmitPayLens = {0, 6}
CHECK_DEADLOCK FALSE

SPECIFICATION Spec
CONSTANT AllMutators = TRUE
INVARIANTS TypeOK PayloadFlag WarningsFlag NoCompressOnHandshake
CHECK_DEADLOCK FALSE

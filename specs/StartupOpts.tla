--------------------------- MODULE StartupOpts ---------------------------
(* STARTUP option accessors (message/startup.go).  Property C20, second clause: what a setter stores  *)
(* is what the matching getter returns, and no other option changes.                                  *)
(* State: the option map, option name -> value, "absent" standing for a missing key.  One action per  *)
(* setter and argument class.  Getters are pure observations of the state (Obs).  Every transition is *)
(* emitted and replayed on a real message.Startup; the harness instantiates the abstract values "a",  *)
(* "b" with arbitrary non-empty strings.                                                              *)
EXTENDS Naturals, Sequences, FiniteSets, TLC, Json

CONSTANT StrVals,     \* the abstract string arguments, e.g. {"", "a"} or {"", "a", "b"}
         OtherComps   \* compression names beyond the library's constants: primitive.Compression is a string type, the
                      \* protocol documents spell the algorithms in lower case ("lz4", "snappy"), and a setter stores
                      \* whatever it is given

Absent == "absent"
StringKeys == {"CLIENT_ID", "APPLICATION_NAME", "APPLICATION_VERSION", "DRIVER_NAME", "DRIVER_VERSION"}
Keys == StringKeys \cup {"CQL_VERSION", "COMPRESSION", "THROW_ON_OVERLOAD"}
Compressions == {"NONE", "LZ4", "SNAPPY"} \cup OtherComps

VARIABLE opts
vars == <<opts>>

\* The one-key update every setter must be: nothing else changes.
Put(k, v) == opts' = [opts EXCEPT ![k] = v]

SetString(k, s)   == Put(k, s)
SetCompression(c) == Put("COMPRESSION", IF c = "NONE" THEN Absent ELSE c)
SetThrow(b)       == Put("THROW_ON_OVERLOAD", IF b THEN "1" ELSE Absent)

\* What the getters must return in a state.
GetString(o, k)   == IF o[k] = Absent THEN "" ELSE o[k]
GetCompression(o) == IF o["COMPRESSION"] = Absent THEN "NONE" ELSE o["COMPRESSION"]
IsThrow(o)        == o["THROW_ON_OVERLOAD"] = "1"
Obs(o) == [get  |-> [k \in StringKeys |-> GetString(o, k)],
           comp |-> GetCompression(o),
           thr  |-> IsThrow(o)]
St(o) == [opts |-> o, obs |-> Obs(o)]

\* NewStartup()
Init == /\ opts = [k \in Keys |-> IF k = "CQL_VERSION" THEN "3.0.0" ELSE Absent]
        /\ PrintT(<<"INIT", ToJson(St(opts))>>)

Emit(m, k, a) == PrintT(<<"EDGE", ToJson([from |-> St(opts), act |-> m, arg |-> [k |-> k, v |-> a], to |-> St(opts')])>>)

Next ==
    \/ \E k \in StringKeys, s \in StrVals : SetString(k, s) /\ Emit("SetString", k, s)
    \/ \E c \in Compressions : SetCompression(c) /\ Emit("SetCompression", "COMPRESSION", c)
    \/ \E b \in BOOLEAN : SetThrow(b) /\ Emit("SetThrowOnOverload", "THROW_ON_OVERLOAD", IF b THEN "true" ELSE "false")

Spec == Init /\ [][Next]_vars

-----------------------------------------------------------------------------
TypeOK == opts \in [Keys -> StrVals \cup {Absent, "3.0.0", "1"} \cup Compressions]

\* Setter/getter consistency, stated as action properties over every transition.
SetGet ==
  [][ /\ \A k \in StringKeys, s \in StrVals : SetString(k, s) => GetString(opts', k) = s
      /\ \A c \in Compressions : SetCompression(c) => GetCompression(opts') = c
      /\ \A b \in BOOLEAN : SetThrow(b) => IsThrow(opts') = b ]_vars

\* No setter touches another option.
Frame == [][ Cardinality({k \in Keys : opts'[k] # opts[k]}) <= 1 ]_vars
CqlVersionKept == opts["CQL_VERSION"] = "3.0.0"
=============================================================================

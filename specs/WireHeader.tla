----------------------------- MODULE WireHeader -----------------------------
(* C02, rejection clause: which (version byte, opcode) pairs a header may carry (v5 §2.1, §2.4):          *)
(* the low 7 bits of the first byte are a supported version, the top bit is the direction, the opcode is   *)
(* defined, and its direction agrees with the top bit.  Everything else must be rejected.                  *)
EXTENDS Tables

Accepted(vb) == {op \in 0..255 :
                    /\ (vb % 128) \in Versions
                    /\ op \in OpcodeCodes
                    /\ OpcodeOf(op).dir = (IF vb >= 128 THEN "rsp" ELSE "req")}

VARIABLE x
Init == x = 0 /\ \A vb \in 0..255 : PrintT(<<"HDR", ToJson([vb |-> vb, ops |-> Accepted(vb)])>>)
Next == x' = x
Spec == Init /\ [][Next]_x
=============================================================================

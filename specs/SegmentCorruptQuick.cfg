SPECIFICATION Spec
CONSTANTS
  W = 2
  EmitPayLen = 4
CHECK_DEADLOCK FALSE

SPECIFICATION Spec
CONSTANTS
  W = 2
  EmitPayLens = {0, 4}
CHECK_DEADLOCK FALSE

------------------------------ MODULE WireMsg ------------------------------
(* Message bodies of the native protocol, transcribed from specs/native_protocol_v{2..5}.spec §4 and    *)
(* specs/dse_protocol_v{1,2}.spec §4: one operator per message kind from an ABSTRACT message (a record    *)
(* that only has the fields the version can carry) to the chunk sequence the documents prescribe,        *)
(* parameterised by the version through Tables!Feature.  Optional values are <<>> (absent) or <<x>>.      *)
EXTENDS WirePrim, Tables

Has(o) == o # <<>>
Get(o) == o[1]
Bool(b) == IF b THEN 1 ELSE 0

-----------------------------------------------------------------------------
(* [option] type descriptors (v5 §4.2.5.2)                                                               *)
(* abstract types: [c |-> code] for scalars, [c |-> 0, cls], [c |-> 32|34, e], [c |-> 33, key, val],     *)
(* [c |-> 48, ks, name, fields |-> <<[n, t]>>], [c |-> 49, fields |-> <<t>>]                              *)
RECURSIVE TypeOpt(_, _)
TypeOpt(t, name) ==
    Short(t.c, "code", name \o ".typecode") \o
    (CASE t.c = 0 -> String(t.cls, name \o ".class")
       [] t.c \in {32, 34} -> TypeOpt(t.e, name \o ".elem")
       [] t.c = 33 -> TypeOpt(t.key, name \o ".key") \o TypeOpt(t.val, name \o ".val")
       [] t.c = 48 -> String(t.ks, name \o ".udt.ks") \o String(t.name, name \o ".udt.name")
                      \o Short(Len(t.fields), "count16", name \o ".udt.count")
                      \o Cat([i \in 1..Len(t.fields) |-> String(t.fields[i].n, name \o ".udt.fname") \o TypeOpt(t.fields[i].t, name \o ".udt.ftype")])
       [] t.c = 49 -> Short(Len(t.fields), "count16", name \o ".tuple.count")
                      \o Cat([i \in 1..Len(t.fields) |-> TypeOpt(t.fields[i], name \o ".tuple.ftype")])
       [] OTHER -> <<>>)

Scalar(c) == [c |-> c]
T_int == Scalar(9)  T_varchar == Scalar(13)  T_uuid == Scalar(12)  T_blob == Scalar(3)
T_list(e) == [c |-> 32, e |-> e]
T_set(e) == [c |-> 34, e |-> e]
T_map(k, v) == [c |-> 33, key |-> k, val |-> v]
T_udt(ks, n, fs) == [c |-> 48, ks |-> ks, name |-> n, fields |-> fs]
T_tuple(fs) == [c |-> 49, fields |-> fs]
T_custom(cls) == [c |-> 0, cls |-> cls]
B_class == LitBlob(<<111, 114, 103, 46, 88>>)   \* "org.X"

\* the type trees explored for a version (nesting depth <= 3, width <= 2)
ScalarCodes(v) == {c \in PrimitiveTypeCodes : DataTypeIn(v, c) /\ c # 10}   \* (text, 0x0A, is handled apart: v2 only)
TypeTrees(v) ==
    {Scalar(c) : c \in ScalarCodes(v)} \cup
    {T_custom(B_class), T_list(T_int), T_set(T_varchar), T_map(T_varchar, T_uuid), T_list(T_list(T_blob)),
     T_map(T_int, T_set(T_list(T_varchar)))} \cup
    (IF Gen(v) >= 3 THEN {T_tuple(<<>>), T_tuple(<<T_int, T_list(T_varchar)>>), T_udt(B_ks, B_tb, <<>>),
                          T_udt(B_ks, B_tb, <<[n |-> B_c1, t |-> T_int], [n |-> B_c2, t |-> T_tuple(<<T_blob>>)]>>)}
     ELSE {})

-----------------------------------------------------------------------------
(* <query_parameters> (v5 §4.1.4; v2 §4.1.4; dse_v1 §4.1.4)                                               *)
(* opts: [cl, vals: [mode, items], skip, page, pageBytes, pstate, serial, ts, ks, now, cont]               *)
QLow(o) ==   (IF o.vals.mode # "none" THEN 1 ELSE 0) + (IF o.skip THEN 2 ELSE 0) + (IF Has(o.page) THEN 4 ELSE 0)
           + (IF Has(o.pstate) THEN 8 ELSE 0) + (IF Has(o.serial) THEN 16 ELSE 0) + (IF Has(o.ts) THEN 32 ELSE 0)
           + (IF o.vals.mode = "named" THEN 64 ELSE 0) + (IF Has(o.ks) THEN 128 ELSE 0) + (IF Has(o.now) THEN 256 ELSE 0)
QHigh(o) == (IF Has(o.cont) THEN 128 ELSE 0) + (IF o.pageBytes THEN 64 ELSE 0)   \* bits 31 and 30: the top byte
QFlags(o, v, name) ==
    IF Feature(v, "QueryFlags32")
    THEN Lit(<<QHigh(o), 0, QLow(o) \div 256, QLow(o) % 256>>, "flags", name \o ".flags")
    ELSE Lit(<<QLow(o)>>, "flags", name \o ".flags")

Values(vals, name) ==
    CASE vals.mode = "none" -> <<>>
      [] vals.mode = "pos" -> Short(Len(vals.items), "count16", name \o ".values.count")
                              \o Cat([i \in 1..Len(vals.items) |-> Value(vals.items[i], name \o ".value")])
      [] vals.mode = "named" -> Short(Len(vals.items), "count16", name \o ".values.count")
                              \o (IF vals.items = <<>> THEN <<>> ELSE
                                  Unordered({String(vals.items[i][1], name \o ".valuename") \o Value(vals.items[i][2], name \o ".value")
                                             : i \in 1..Len(vals.items)}))

ContinuousPaging(c, v, name) == Int32(c.max, "data", name \o ".maxpages") \o Int32(c.pps, "data", name \o ".pagespersec")
                                \o (IF Feature(v, "NextPages") THEN Int32(c.next, "data", name \o ".nextpages") ELSE <<>>)

QueryParams(o, v, name) ==
    Consistency(o.cl, name \o ".consistency") \o QFlags(o, v, name) \o Values(o.vals, name)
    \o (IF Has(o.page) THEN Int32(Get(o.page), "data", name \o ".pagesize") ELSE <<>>)
    \o (IF Has(o.pstate) THEN Bytes(o.pstate, name \o ".pagingstate") ELSE <<>>)
    \o (IF Has(o.serial) THEN Consistency(Get(o.serial), name \o ".serial") ELSE <<>>)
    \o (IF Has(o.ts) THEN Long(Get(o.ts), name \o ".timestamp") ELSE <<>>)
    \o (IF Has(o.ks) THEN String(Get(o.ks), name \o ".keyspace") ELSE <<>>)
    \o (IF Has(o.now) THEN Int32(Get(o.now), "data", name \o ".nowinseconds") ELSE <<>>)
    \o (IF Has(o.cont) THEN ContinuousPaging(Get(o.cont), v, name) ELSE <<>>)

\* query parameters the version can carry
QOptsValid(o, v) ==
    /\ (o.vals.mode = "named" => QueryFlagIn(v, "ValueNames"))
    /\ (Has(o.ts) => QueryFlagIn(v, "DefaultTimestamp"))
    /\ (Has(o.ks) => QueryFlagIn(v, "WithKeyspace"))
    /\ (Has(o.now) => QueryFlagIn(v, "NowInSeconds"))
    /\ (Has(o.cont) => QueryFlagIn(v, "DseContinuousPaging"))
    /\ (o.pageBytes => QueryFlagIn(v, "DsePageSizeBytes") /\ Has(o.page))
    /\ (Has(o.serial) => Get(o.serial) \in SerialConsistencies)

-----------------------------------------------------------------------------
(* result metadata (v5 §4.2.5.2, §4.2.5.4)                                                                *)
ColSpec(col, global, name) ==
    (IF global THEN <<>> ELSE String(col.ks, name \o ".col.ks") \o String(col.table, name \o ".col.table"))
    \o String(col.name, name \o ".col.name") \o TypeOpt(col.type, name \o ".col")
ColSpecs(cols, global, name) ==
    (IF global THEN String(cols[1].ks, name \o ".global.ks") \o String(cols[1].table, name \o ".global.table") ELSE <<>>)
    \o Cat([i \in 1..Len(cols) |-> ColSpec(cols[i], global, name)])
SameTable(cols) == cols # <<>> /\ \A i \in 1..Len(cols) : cols[i].ks = cols[1].ks /\ cols[i].table = cols[1].table

\* rows metadata: [count, pstate, newid, page, last, cols (<<>> = NO_METADATA, <<cols>> otherwise)]
RowsFlagsLow(m, global) == (IF global THEN 1 ELSE 0) + (IF Has(m.pstate) THEN 2 ELSE 0) + (IF ~Has(m.cols) THEN 4 ELSE 0)
                           + (IF Has(m.newid) THEN 8 ELSE 0)
RowsFlagsHigh(m) == (IF Has(m.page) THEN 64 ELSE 0) + (IF Has(m.page) /\ m.last THEN 128 ELSE 0)
RowsMetaWith(m, global, v, name) ==
    Lit(<<RowsFlagsHigh(m), 0, 0, RowsFlagsLow(m, global)>>, "flags", name \o ".flags")
    \o Int32(m.count, "count32", name \o ".colcount")
    \o (IF Has(m.pstate) THEN Bytes(m.pstate, name \o ".pagingstate") ELSE <<>>)
    \o (IF Has(m.newid) THEN ShortBytes(Get(m.newid), name \o ".newmetadataid") ELSE <<>>)
    \o (IF Has(m.page) THEN Int32(Get(m.page), "data", name \o ".pageno") ELSE <<>>)
    \o (IF Has(m.cols) THEN ColSpecs(Get(m.cols), global, name) ELSE <<>>)
\* Global_tables_spec is an encoder's choice whenever all columns share keyspace and table
RowsMeta(m, v, name) ==
    IF Has(m.cols) /\ SameTable(Get(m.cols))
    THEN Alt({RowsMetaWith(m, TRUE, v, name), RowsMetaWith(m, FALSE, v, name)})
    ELSE RowsMetaWith(m, FALSE, v, name)
RowsMetaValid(m, v) ==
    /\ (Has(m.newid) => Feature(v, "ResultMetadataId"))
    /\ (Has(m.page) => Feature(v, "Dse"))
    /\ (Has(m.cols) => Len(Get(m.cols)) = m.count /\ m.count > 0)

\* prepared (variables) metadata: [pk, cols]
VarsMetaWith(m, global, v, name) ==
    Lit(<<0, 0, 0, IF global THEN 1 ELSE 0>>, "flags", name \o ".flags")
    \o Int32(Len(m.cols), "count32", name \o ".colcount")
    \o (IF Feature(v, "PkIndices")
        THEN Int32(Len(m.pk), "count32", name \o ".pkcount") \o Cat([i \in 1..Len(m.pk) |-> Short(m.pk[i], "data", name \o ".pkindex")])
        ELSE <<>>)
    \o (IF m.cols # <<>> THEN ColSpecs(m.cols, global, name) ELSE <<>>)
VarsMeta(m, v, name) ==
    IF SameTable(m.cols) THEN Alt({VarsMetaWith(m, TRUE, v, name), VarsMetaWith(m, FALSE, v, name)})
    ELSE VarsMetaWith(m, FALSE, v, name)

\* schema change, shared by RESULT and EVENT (v5 §4.2.6; v2 §4.2.6: <change><keyspace><table>)
SchemaChange(m, v, name) ==
    String(m.ctype, name \o ".changetype")
    \o (IF Gen(v) >= 3
        THEN String(m.target, name \o ".target") \o String(m.ks, name \o ".ks")
             \o (IF m.target.b = <<75, 69, 89, 83, 80, 65, 67, 69>> THEN <<>>                       \* "KEYSPACE"
                 ELSE String(m.obj, name \o ".object")
                      \o (IF m.target.b \in {<<70, 85, 78, 67, 84, 73, 79, 78>>, <<65, 71, 71, 82, 69, 71, 65, 84, 69>>}
                          THEN StringList(m.args, name \o ".args") ELSE <<>>))
        ELSE String(m.ks, name \o ".ks") \o String(m.obj, name \o ".table"))

-----------------------------------------------------------------------------
(* ERROR bodies (v5 §9)                                                                                   *)
ErrorExtra(m, v) ==
    CASE m.code = 4096 -> Consistency(m.cl, "error.cl") \o Int32(m.required, "data", "error.required") \o Int32(m.alive, "data", "error.alive")
      [] m.code = 4352 -> Consistency(m.cl, "error.cl") \o Int32(m.received, "data", "error.received") \o Int32(m.blockfor, "data", "error.blockfor")
                          \o String(m.wtype, "error.writetype")
                          \o (IF Has(m.contentions) THEN Short(Get(m.contentions), "data", "error.contentions") ELSE <<>>)
      [] m.code = 4608 -> Consistency(m.cl, "error.cl") \o Int32(m.received, "data", "error.received") \o Int32(m.blockfor, "data", "error.blockfor")
                          \o Byte(Bool(m.data), "data", "error.datapresent")
      [] m.code = 4864 -> Consistency(m.cl, "error.cl") \o Int32(m.received, "data", "error.received") \o Int32(m.blockfor, "data", "error.blockfor")
                          \o (IF Feature(v, "ReasonMap") THEN ReasonMap(Get(m.reasons), "error.reasonmap")
                              ELSE Int32(Get(m.numfail), "data", "error.numfailures"))
                          \o Byte(Bool(m.data), "data", "error.datapresent")
      [] m.code = 5376 -> Consistency(m.cl, "error.cl") \o Int32(m.received, "data", "error.received") \o Int32(m.blockfor, "data", "error.blockfor")
                          \o (IF Feature(v, "ReasonMap") THEN ReasonMap(Get(m.reasons), "error.reasonmap")
                              ELSE Int32(Get(m.numfail), "data", "error.numfailures"))
                          \o String(m.wtype, "error.writetype")
      [] m.code = 5120 -> String(m.ks, "error.ks") \o String(m.func, "error.function") \o StringList(m.args, "error.argtypes")
      [] m.code = 9216 -> String(m.ks, "error.ks") \o String(m.table, "error.table")
      [] m.code = 9472 -> ShortBytes(m.id, "error.id")
      [] OTHER -> <<>>

-----------------------------------------------------------------------------
(* The body of a message for a version. *)
BatchChild(ch, v) ==
    (IF Has(ch.q) THEN Byte(0, "code", "batch.child.kind") \o LongString(Get(ch.q), "batch.child.query")
     ELSE Byte(1, "code", "batch.child.kind") \o ShortBytes(Get(ch.id), "batch.child.id"))
    \o Short(Len(ch.vals), "count16", "batch.child.values.count")
    \o Cat([i \in 1..Len(ch.vals) |-> Value(ch.vals[i], "batch.child.value")])
BatchFlagsLow(m) == (IF Has(m.serial) THEN 16 ELSE 0) + (IF Has(m.ts) THEN 32 ELSE 0) + (IF Has(m.ks) THEN 128 ELSE 0)
                    + (IF Has(m.now) THEN 256 ELSE 0)

Body(m, v) ==
    CASE m.kind = "STARTUP" -> StringMap(m.options, "startup.options")
      [] m.kind = "OPTIONS" -> <<>>
      [] m.kind = "QUERY" -> LongString(m.query, "query.query") \o QueryParams(m.opts, v, "query")
      [] m.kind = "PREPARE" -> LongString(m.query, "prepare.query")
                               \o (IF Feature(v, "PrepareFlags")
                                   THEN Lit(<<0, 0, 0, IF Has(m.ks) THEN 1 ELSE 0>>, "flags", "prepare.flags")
                                        \o (IF Has(m.ks) THEN String(Get(m.ks), "prepare.keyspace") ELSE <<>>)
                                   ELSE <<>>)
      [] m.kind = "EXECUTE" -> ShortBytes(m.id, "execute.id")
                               \o (IF Feature(v, "ResultMetadataId") THEN ShortBytes(Get(m.rmid), "execute.resultmetadataid") ELSE <<>>)
                               \o QueryParams(m.opts, v, "execute")
      [] m.kind = "BATCH" -> Byte(m.type, "code", "batch.type") \o Short(Len(m.children), "count16", "batch.count")
                             \o Cat([i \in 1..Len(m.children) |-> BatchChild(m.children[i], v)])
                             \o Consistency(m.cl, "batch.consistency")
                             \o (IF Feature(v, "BatchFlags")
                                 THEN (IF Feature(v, "QueryFlags32")
                                       THEN Lit(<<0, 0, BatchFlagsLow(m) \div 256, BatchFlagsLow(m) % 256>>, "flags", "batch.flags")
                                       ELSE Lit(<<BatchFlagsLow(m)>>, "flags", "batch.flags"))
                                      \o (IF Has(m.serial) THEN Consistency(Get(m.serial), "batch.serial") ELSE <<>>)
                                      \o (IF Has(m.ts) THEN Long(Get(m.ts), "batch.timestamp") ELSE <<>>)
                                      \o (IF Has(m.ks) THEN String(Get(m.ks), "batch.keyspace") ELSE <<>>)
                                      \o (IF Has(m.now) THEN Int32(Get(m.now), "data", "batch.nowinseconds") ELSE <<>>)
                                 ELSE <<>>)
      [] m.kind = "REGISTER" -> StringList(m.events, "register.events")
      [] m.kind = "AUTH_RESPONSE" -> Bytes(m.token, "authresponse.token")
      [] m.kind = "REVISE" -> Int32(m.rtype, "code", "revise.type") \o Int32(m.target, "data", "revise.streamid")
                              \o (IF m.rtype = 2 THEN Int32(Get(m.next), "data", "revise.nextpages") ELSE <<>>)
      [] m.kind = "ERROR" -> Int32(m.code, "code", "error.code") \o String(m.msg, "error.message") \o ErrorExtra(m, v)
      [] m.kind = "READY" -> <<>>
      [] m.kind = "AUTHENTICATE" -> String(m.auth, "authenticate.class")
      [] m.kind = "SUPPORTED" -> StringMultimap(m.options, "supported.options")
      [] m.kind = "AUTH_CHALLENGE" -> Bytes(m.token, "authchallenge.token")
      [] m.kind = "AUTH_SUCCESS" -> Bytes(m.token, "authsuccess.token")
      [] m.kind = "RESULT" ->
            Int32(m.rk, "code", "result.kind") \o
            (CASE m.rk = 1 -> <<>>
               [] m.rk = 3 -> String(m.ks, "result.keyspace")
               [] m.rk = 5 -> SchemaChange(m, v, "result.schemachange")
               [] m.rk = 4 -> ShortBytes(m.id, "result.prepared.id")
                              \o (IF Feature(v, "ResultMetadataId") THEN ShortBytes(Get(m.rmid), "result.prepared.resultmetadataid") ELSE <<>>)
                              \o VarsMeta(m.vars, v, "result.prepared.variables") \o RowsMeta(m.rmeta, v, "result.prepared.resultmetadata")
               [] m.rk = 2 -> RowsMeta(m.meta, v, "result.rows.metadata")
                              \o Int32(Len(m.rows), "count32", "result.rows.count")
                              \o Cat([i \in 1..Len(m.rows) |-> Cat([j \in 1..Len(m.rows[i]) |-> Bytes(m.rows[i][j], "result.rows.cell")])]))
      [] m.kind = "EVENT" ->
            String(m.et, "event.type") \o
            (IF m.et.b = <<83, 67, 72, 69, 77, 65, 95, 67, 72, 65, 78, 71, 69>>            \* "SCHEMA_CHANGE"
             THEN SchemaChange(m, v, "event.schemachange")
             ELSE String(m.change, "event.change") \o Inet(m.addr, m.port, "event.address"))

\* direction and opcode of a kind
KindOpcode(k) == CASE k = "REVISE" -> 255 [] OTHER -> OpcodeNamed(k)
KindDir(k) == OpcodeOf(KindOpcode(k)).dir
=============================================================================

---------------------------- MODULE InFlightRef ----------------------------
(* Refinement: the code-shaped sequential model implements the property-level specification.         *)
(* Mapping: pool = contents of the free-id queue, reg = table, request records projected field by    *)
(* field (error kind -> failed flag, remaining timer -> quanta of silence).                          *)
EXTENDS InFlightSeq

AbsRq == [t \in 1..Len(reqs) |->
            [id |-> reqs[t].id, managed |-> reqs[t].managed, buf |-> reqs[t].buf, done |-> reqs[t].done,
             failed |-> reqs[t].err # "none",
             silence |-> IF reqs[t].done THEN 0 ELSE TimeoutQ - reqs[t].timer]]

Abs == INSTANCE InFlightAbs WITH pool <- Range(free), reg <- table, rq <- AbsRq, aclosed <- closed, anframe <- nframe

RefinesAbs == Abs!ASpec
AbsInvariants == Abs!AUnique /\ Abs!ARange /\ Abs!AConserve /\ Abs!ABounded
=============================================================================

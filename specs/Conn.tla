-------------------------------- MODULE Conn --------------------------------
(* One client connection and one server connection of the `client` package exchanging frames over a      *)
(* byte stream (client/client.go, client/server.go, client/handshake.go) -- property C15, and the frame   *)
(* transport underneath C10 / C16.                                                                         *)
(*                                                                                                         *)
(* The wire carries UNITS: a legacy frame, or (protocol v5 after the handshake) a checksummed segment,      *)
(* which is either self-contained (one or more whole envelopes) or one part of a single large envelope.     *)
(* Each endpoint has a framing mode (`modern`), switched by the server when it WRITES the READY /           *)
(* AUTHENTICATE answer to STARTUP and by the client when it READS it -- for versions with modern framing    *)
(* only -- and a negotiated compression: legacy framing compresses envelope bodies (flag C), modern         *)
(* framing compresses segments and never envelopes.                                                        *)
(*                                                                                                         *)
(* The library itself always sends one envelope per self-contained segment; the property also covers what a *)
(* PEER may send: several envelopes per segment and envelopes split over segments.  Rig tells who is the    *)
(* library: "lib-lib", "lib-raw" (library client, raw server), "raw-lib" (raw client, library server).      *)
(* A raw side chooses how to pack what it sends (actions with a `pack` argument).                           *)
EXTENDS Integers, Sequences, FiniteSets, TLC, Json

CONSTANTS Modern,      \* the version has checksummed segments (v5)
          Auth,        \* the server demands authentication
          Rig,         \* "lib-lib" | "lib-raw" | "raw-lib"
          NReq,        \* requests per session
          Faults,      \* fault kinds injected (C16): subset of {"close-client", "close-server", "cancel", "drop"}; {} = none
          BigFrames,   \* numbers of the requests (raw client) / responses (raw server) whose envelope is larger than
                       \* one segment; the library never sends such envelopes (it cannot split), it only receives them
          NEvents,     \* events the server pushes during the session (C10): envelopes numbered -1, -2, ...
          NSpurious,   \* responses for stream ids no request carries (C10): envelopes numbered 101, 102, ...
          Dup,         \* the client application may once re-send under the stream id of an unanswered request (C09/C10)
          SplitSmall   \* numbers of the requests / responses that fit a segment but which a raw peer MAY still split
                       \* over 2 or 3 segments (where to cut - inside the envelope header, at its end, evenly, one byte
                       \* before the end - is the harness's choice, cycled over the sessions)

VARIABLES phase,     \* handshake progress: "init" "startup" "answered" "authresp" "done"
          cmodern, smodern,
          c2s, s2c,  \* units in flight: <<[k, envs]>>  k in {"frame","seg","part"}
          cacc, sacc,\* multi-part reassembly at each reader: <<>> or <<[id, have, total]>>
          reqSent, reqGot, rspSent, rspGot,   \* application-level sequences of envelope ids
          evSent, evGot,                      \* events pushed by the server / received on the client's event channel
          spSent, dupDone,                    \* spurious responses sent; the duplicate send has been tried
          hist

vars == <<phase, cmodern, smodern, c2s, s2c, cacc, sacc, reqSent, reqGot, rspSent, rspGot, evSent, evGot, spSent, dupDone, hist>>
c10vars == <<evSent, evGot, spSent, dupDone>>

Unit(k, envs) == [k |-> k, envs |-> envs]
\* how a SENDER in a given mode frames one envelope by itself
Solo(modern, id) == IF modern THEN Unit("seg", <<id>>) ELSE Unit("frame", <<id>>)

Init == /\ phase = "init" /\ cmodern = FALSE /\ smodern = FALSE
        /\ c2s = <<>> /\ s2c = <<>> /\ cacc = <<>> /\ sacc = <<>>
        /\ reqSent = <<>> /\ reqGot = <<>> /\ rspSent = <<>> /\ rspGot = <<>> /\ hist = <<>>
        /\ evSent = <<>> /\ evGot = <<>> /\ spSent = 0 /\ dupDone = FALSE

Log(step) == hist' = Append(hist, step)

-----------------------------------------------------------------------------
(* handshake: STARTUP -> READY | AUTHENTICATE -> AUTH_RESPONSE -> AUTH_SUCCESS *)
ClientStartup ==
    /\ phase = "init"
    /\ c2s' = Append(c2s, Unit("frame", <<"STARTUP">>))           \* always a legacy frame
    /\ phase' = "startup"
    /\ Log([a |-> "c-startup"])
    /\ UNCHANGED <<cmodern, smodern, s2c, cacc, sacc, reqSent, reqGot, rspSent, rspGot, c10vars>>

ServerAnswerStartup ==
    /\ phase = "startup" /\ c2s # <<>> /\ Head(c2s).envs = <<"STARTUP">>
    /\ c2s' = Tail(c2s)
    \* the answer itself still goes out as a legacy frame; the switch applies from the next write on
    /\ s2c' = Append(s2c, Unit("frame", <<IF Auth THEN "AUTHENTICATE" ELSE "READY">>))
    /\ smodern' = Modern
    /\ phase' = "answered"
    /\ Log([a |-> "s-answer"])
    /\ UNCHANGED <<cmodern, cacc, sacc, reqSent, reqGot, rspSent, rspGot, c10vars>>

ClientReadAnswer ==
    /\ phase = "answered" /\ s2c # <<>>
    /\ s2c' = Tail(s2c)
    /\ cmodern' = Modern
    /\ IF Auth THEN /\ c2s' = Append(c2s, Solo(Modern, "AUTH_RESPONSE"))
                    /\ phase' = "authresp"
               ELSE /\ c2s' = c2s
                    /\ phase' = "done"
    /\ Log([a |-> "c-read-answer"])
    /\ UNCHANGED <<smodern, cacc, sacc, reqSent, reqGot, rspSent, rspGot, c10vars>>

ServerAuthSuccess ==
    /\ phase = "authresp" /\ c2s # <<>>
    /\ c2s' = Tail(c2s)
    /\ s2c' = Append(s2c, Solo(smodern, "AUTH_SUCCESS"))
    /\ phase' = "authok"
    /\ Log([a |-> "s-auth-success"])
    /\ UNCHANGED <<cmodern, smodern, cacc, sacc, reqSent, reqGot, rspSent, rspGot, c10vars>>

ClientReadAuthSuccess ==
    /\ phase = "authok" /\ s2c # <<>>
    /\ s2c' = Tail(s2c)
    /\ phase' = "done"
    /\ Log([a |-> "c-read-auth-success"])
    /\ UNCHANGED <<cmodern, smodern, c2s, cacc, sacc, reqSent, reqGot, rspSent, rspGot, c10vars>>

-----------------------------------------------------------------------------
(* after the handshake *)
\* ways a raw sender may pack the envelopes `ids` (in order): singly; all in one self-contained segment;
\* or, for a big envelope alone, split into 2 or 3 parts.  Legacy framing has only "solo".
Split(id, n) == [i \in 1..n |-> Unit("part", <<[id |-> id, i |-> i, n |-> n]>>)]
\* the ways to put ONE envelope on a modern wire: whole if it fits a segment, otherwise split in 2 or 3 parts
One(id) == IF id \in BigFrames THEN {Split(id, 2), Split(id, 3)}
           ELSE {<<Unit("seg", <<id>>)>>} \cup (IF id \in SplitSmall THEN {Split(id, 2), Split(id, 3)} ELSE {})
Packs(ids, modern) ==
    IF ~modern THEN {[i \in 1..Len(ids) |-> Unit("frame", <<ids[i]>>)]}
    ELSE (IF Len(ids) = 1 THEN One(ids[1]) ELSE {a \o b : a \in One(ids[1]), b \in One(ids[2])})
         \cup (IF Len(ids) > 1 /\ \A i \in 1..Len(ids) : ids[i] \notin BigFrames THEN {<<Unit("seg", ids)>>} ELSE {})
\* the library packs every envelope by itself, and cannot send one that does not fit a segment
LibPacks(ids, modern) == {[i \in 1..Len(ids) |-> Solo(modern, ids[i])]}

ClientLib == Rig \in {"lib-lib", "lib-raw"}
ServerLib == Rig \in {"lib-lib", "raw-lib"}

\* the client application sends the next batch of requests (a raw client may send two at once, packed together)
ClientSend(k) ==
    /\ phase = "done" /\ Len(reqSent) + k <= NReq /\ k \in 1..2
    /\ LET ids == [i \in 1..k |-> Len(reqSent) + i] IN
       /\ \E pack \in (IF ClientLib THEN LibPacks(ids, cmodern) ELSE Packs(ids, cmodern)) :
            /\ c2s' = c2s \o pack
            /\ Log([a |-> "c-send", ids |-> ids, pack |-> pack])
       /\ reqSent' = reqSent \o ids
    /\ UNCHANGED <<phase, cmodern, smodern, s2c, cacc, sacc, reqGot, rspSent, rspGot, c10vars>>

\* a reader consumes one unit: whole envelopes are delivered in order; parts accumulate until complete
Deliver(u, acc, got) ==
    IF u.k \in {"frame", "seg"} THEN [acc |-> acc, got |-> got \o u.envs]
    ELSE LET p == u.envs[1] IN
         IF p.i = p.n THEN [acc |-> <<>>, got |-> Append(got, p.id)]
         ELSE [acc |-> <<[id |-> p.id, have |-> p.i, total |-> p.n]>>, got |-> got]

ServerRead ==
    /\ phase = "done" /\ c2s # <<>>
    /\ LET d == Deliver(Head(c2s), sacc, reqGot) IN /\ sacc' = d.acc /\ reqGot' = d.got
    /\ c2s' = Tail(c2s)
    /\ Log([a |-> "s-read"])
    /\ UNCHANGED <<phase, cmodern, smodern, s2c, cacc, reqSent, rspSent, rspGot, c10vars>>

\* the server application answers received requests, in any order
ServerSend(k) ==
    /\ phase = "done" /\ k \in 1..2
    /\ LET todo == {r \in 1..NReq : r \in {reqGot[i] : i \in 1..Len(reqGot)} /\ r \notin {rspSent[i] : i \in 1..Len(rspSent)}} IN
       /\ Cardinality(todo) >= k
       /\ \E ids \in {s \in [1..k -> todo] : \A i, j \in 1..k : i # j => s[i] # s[j]} :
            /\ \E pack \in (IF ServerLib THEN LibPacks(ids, smodern) ELSE Packs(ids, smodern)) :
                 /\ s2c' = s2c \o pack
                 /\ Log([a |-> "s-send", ids |-> ids, pack |-> pack])
            /\ rspSent' = rspSent \o ids
    /\ UNCHANGED <<phase, cmodern, smodern, c2s, cacc, sacc, reqSent, reqGot, rspGot, c10vars>>

\* what arrives at the client is sorted by kind (C10): responses go to the request with their stream id, events
\* (negative numbers) to the event channel, responses for ids nobody carries (above 100) are dropped
Keep(sq, P(_)) == SelectSeq(sq, P)
IsRsp(x) == x > 0 /\ x <= 100
IsEv(x) == x < 0
ClientRead ==
    /\ phase = "done" /\ s2c # <<>>
    /\ LET d == Deliver(Head(s2c), cacc, <<>>) IN
       /\ cacc' = d.acc
       /\ rspGot' = rspGot \o Keep(d.got, IsRsp)
       /\ evGot' = evGot \o Keep(d.got, IsEv)
    /\ s2c' = Tail(s2c)
    /\ Log([a |-> "c-read"])
    /\ UNCHANGED <<phase, cmodern, smodern, c2s, sacc, reqSent, reqGot, rspSent, evSent, spSent, dupDone>>

\* C10: the server pushes an event, or answers a stream id no request carries; either may be packed by a raw server
\* like any other envelope (here: by itself)
ServerPush(kind) ==
    /\ phase = "done"
    /\ IF kind = "event" THEN Len(evSent) < NEvents ELSE spSent < NSpurious
    /\ LET id == IF kind = "event" THEN 0 - (Len(evSent) + 1) ELSE 100 + spSent + 1 IN
       /\ s2c' = Append(s2c, Solo(smodern, id))
       /\ Log([a |-> "s-send", ids |-> <<id>>, pack |-> <<Solo(smodern, id)>>])
       /\ IF kind = "event" THEN evSent' = Append(evSent, id) /\ UNCHANGED spSent ELSE spSent' = spSent + 1 /\ UNCHANGED evSent
    /\ UNCHANGED <<phase, cmodern, smodern, c2s, cacc, sacc, reqSent, reqGot, rspSent, rspGot, evGot, dupDone>>

\* C09 / C10: the client application sends again under the stream id of a request still awaiting its response: refused,
\* and nothing else changes - the original request still gets its response
ClientSendDup ==
    /\ phase = "done" /\ Dup /\ ~dupDone /\ ClientLib
    \* (a request whose response the server has not even sent yet: whatever the client has read ahead, it is unanswered)
    /\ \E r \in {reqSent[i] : i \in 1..Len(reqSent)} \ {rspSent[i] : i \in 1..Len(rspSent)} :
         Log([a |-> "c-send-dup", ids |-> <<r>>])
    /\ dupDone' = TRUE
    /\ UNCHANGED <<phase, cmodern, smodern, c2s, s2c, cacc, sacc, reqSent, reqGot, rspSent, rspGot, evSent, evGot, spSent>>

(* C16: a fault may strike between any two steps; afterwards nothing more is exchanged.  What must hold then is  *)
(* checked on the real connections by the harness: every request still awaiting a response is completed with  *)
(* an error, blocked receivers return, later sends are refused, Close returns, no goroutine survives.          *)
Fault(kind) ==
    /\ phase # "closed"
    /\ phase' = "closed"
    /\ Log([a |-> "fault", kind |-> kind])
    /\ UNCHANGED <<cmodern, smodern, c2s, s2c, cacc, sacc, reqSent, reqGot, rspSent, rspGot, c10vars>>

Next == (\E kind \in Faults : Fault(kind)) \/ ClientStartup \/ ServerAnswerStartup \/ ClientReadAnswer \/ ServerAuthSuccess \/ ClientReadAuthSuccess
        \/ (\E k \in 1..2 : ClientSend(k)) \/ ServerRead \/ (\E k \in 1..2 : ServerSend(k)) \/ ClientRead
        \/ ServerPush("event") \/ ServerPush("spurious") \/ ClientSendDup

Spec == Init /\ [][Next]_vars

-----------------------------------------------------------------------------
(* C15 *)
IsPrefix(a, b) == Len(a) <= Len(b) /\ \A i \in 1..Len(a) : a[i] = b[i]
\* requests arrive intact and in order; responses arrive in the order they were sent
RequestsInOrder == IsPrefix(reqGot, reqSent)
ResponsesInOrder == IsPrefix(rspGot, rspSent)
\* wire conformance: the handshake is unframed; afterwards a modern connection carries only segments and a
\* legacy one only frames
HandshakeNames == {"STARTUP", "READY", "AUTHENTICATE"}
WireOK == \A ch \in {c2s, s2c} : \A i \in 1..Len(ch) :
            LET u == ch[i] IN
            /\ (u.k = "frame" /\ Modern => \A j \in 1..Len(u.envs) : u.envs[j] \in HandshakeNames)
            /\ (u.k \in {"seg", "part"} => Modern)
\* both ends agree on the framing whenever nothing of the handshake is in flight
ModesAgree == phase = "done" => cmodern = Modern /\ smodern = Modern
\* everything sent is eventually deliverable: when the pipes are empty nothing is half-assembled and all arrived
Quiescent == c2s = <<>> /\ s2c = <<>>
AllArrive == Quiescent => reqGot = reqSent /\ rspGot = rspSent /\ cacc = <<>> /\ sacc = <<>> /\ evGot = evSent
\* C10: events reach the event channel in order and nothing else does; a request only ever gets its own response
EventsInOrder == IsPrefix(evGot, evSent)
OnlyOwnResponses == \A i \in 1..Len(rspGot) : rspGot[i] \in {reqSent[j] : j \in 1..Len(reqSent)}

Finished == \/ phase = "done" /\ Len(reqSent) = NReq /\ Len(rspSent) = NReq /\ Quiescent /\ Len(evSent) = NEvents /\ spSent = NSpurious
            \/ phase = "closed"
\* requests the client application is still waiting on when the fault strikes
Pending == {r \in 1..NReq : r \in {reqSent[i] : i \in 1..Len(reqSent)} /\ r \notin {rspGot[i] : i \in 1..Len(rspGot)}}
Emit == Finished => PrintT(<<"SESSION", ToJson([steps |-> hist])>>)
=============================================================================

------------------------------ MODULE CodecSeq ------------------------------
(* History independence of the codecs (frame, raw frame, segment, compressors): what a call returns depends   *)
(* on its own arguments only - not on the calls made before it on the same codec instance (or on any other     *)
(* instance: scratch storage shared through package-level pools), not on calls that FAILED half way (a writer  *)
(* that breaks after some bytes, a frame the encoder refuses), and a result the caller still holds (a raw      *)
(* frame made by ConvertToRawFrame and encoded later) is not changed by the calls made in between.  This is    *)
(* the sequential counterpart of SharedCodec.tla (C18), and it is what the quantifiers "for every frame" /     *)
(* "for every payload" of C01, C03, C05, C06 and C08 mean for a codec that is used more than once.             *)
(*                                                                                                             *)
(* The specified codec has NO variable.  The model keeps only what the CALLER has: the history of calls with   *)
(* their results, and the results it still holds.  Alphabet (CONSTANT Ops): records [n |-> name, k |-> kind]   *)
(*   kind "ok"    a call that succeeds; its result is compared at once with F(n)                               *)
(*   kind "fail"  a call made to fail (broken writer, refused frame, truncated input); must return an error    *)
(*   kind "hold"  a call whose result the caller keeps (a raw frame): F(n), now and at every later step         *)
(*   kind "use"   a call that consumes the OLDEST held result h: its result must be G(F(h))                     *)
(*   kind "keep"  a call whose result (a byte slice) the caller keeps for good: F(n), now and at every later    *)
(*                step (an encoder must not hand out memory it will write to again)                             *)
(* F and G are uninterpreted (free terms).  TLC enumerates every history up to MaxLen, checks Independent and  *)
(* Stable in every state and prints every maximal history; the harness executes each one on real codec          *)
(* instances and compares every result with the reference computed once, from a clean process, for the same   *)
(* call made alone (binding R).                                                                                *)
(*                                                                                                             *)
(* Hidden = TRUE is the design mistake the property guards against (negative control; TLC must find it): the   *)
(* codec keeps a scratch buffer that a failed call leaves dirty and that a held result aliases.                 *)
EXTENDS Integers, Sequences, FiniteSets, TLC, Json

CONSTANTS Ops, MaxLen, Hidden

F(n) == <<"F", n>>
G(x) == <<"G", x>>
Err == <<"error">>
None == <<"none">>

VARIABLES hist,     \* the calls made so far: [n, k, res]
          held,     \* results the caller still holds: [n, val]   (val = what the memory reads now)
          kept,     \* results the caller keeps for good: [n, val]
          scratch   \* Hidden only: what the codec's scratch buffer holds (None: clean)
vars == <<hist, held, kept, scratch>>

Init == hist = <<>> /\ held = <<>> /\ kept = <<>> /\ scratch = None

\* what a call computes: from its own arguments - or, with the mistake, from whatever the scratch buffer holds
Result(x) == IF Hidden /\ scratch # None THEN <<"stale", scratch, x>> ELSE x

Do(o) ==
    /\ Len(hist) < MaxLen
    /\ CASE o.k = "ok" ->
              /\ hist' = Append(hist, [n |-> o.n, k |-> o.k, res |-> Result(F(o.n))])
              /\ scratch' = None
              /\ UNCHANGED <<held, kept>>
         [] o.k = "keep" ->
              /\ hist' = Append(hist, [n |-> o.n, k |-> o.k, res |-> Result(F(o.n))])
              \* the mistake: the result lives in the scratch buffer, and so did the ones kept before
              /\ kept' = IF Hidden THEN [i \in 1..Len(kept) |-> [kept[i] EXCEPT !.val = <<"overwritten", F(o.n)>>]] \o <<[n |-> o.n, val |-> Result(F(o.n))]>>
                         ELSE Append(kept, [n |-> o.n, val |-> F(o.n)])
              /\ scratch' = None
              /\ UNCHANGED held
         [] o.k = "fail" ->
              /\ hist' = Append(hist, [n |-> o.n, k |-> o.k, res |-> Err])
              /\ scratch' = IF Hidden THEN F(o.n) ELSE None            \* the mistake: the half-written bytes stay behind
              /\ UNCHANGED <<held, kept>>
         [] o.k = "hold" ->
              /\ hist' = Append(hist, [n |-> o.n, k |-> o.k, res |-> Result(F(o.n))])
              \* the mistake: the new result lives in the scratch buffer, and so did the previous one
              /\ held' = IF Hidden THEN [i \in 1..Len(held) |-> [held[i] EXCEPT !.val = <<"overwritten", F(o.n)>>]] \o <<[n |-> o.n, val |-> Result(F(o.n))]>>
                         ELSE Append(held, [n |-> o.n, val |-> F(o.n)])
              /\ scratch' = None
              /\ UNCHANGED kept
         [] o.k = "use" ->
              /\ held # <<>>
              /\ hist' = Append(hist, [n |-> o.n, k |-> o.k, res |-> G(Head(held).val)])
              /\ held' = Tail(held)
              /\ scratch' = None
              /\ UNCHANGED kept

Next == \E o \in Ops : Do(o)
Spec == Init /\ [][Next]_vars

\* every result is the function of the call's own arguments (for "use": of the held result as it was returned)
HeldBefore(i) == LET hs == SelectSeq(SubSeq(hist, 1, i - 1), LAMBDA e : e.k = "hold")
                     us == SelectSeq(SubSeq(hist, 1, i - 1), LAMBDA e : e.k = "use")
                 IN hs[Len(us) + 1].n
Independent == \A i \in 1..Len(hist) :
                 LET e == hist[i] IN
                 CASE e.k \in {"ok", "hold", "keep"} -> e.res = F(e.n)
                   [] e.k = "fail" -> e.res = Err
                   [] e.k = "use" -> e.res = G(F(HeldBefore(i)))
\* what the caller holds reads as it was returned
Stable == /\ \A i \in 1..Len(held) : held[i].val = F(held[i].n)
          /\ \A i \in 1..Len(kept) : kept[i].val = F(kept[i].n)

\* maximal histories are printed for replay
Emit == (Len(hist) = MaxLen) => PrintT(<<"HIST", ToJson([h |-> [i \in 1..Len(hist) |-> [n |-> hist[i].n, k |-> hist[i].k]]])>>)
=============================================================================

----------------------------- MODULE FrameStream -----------------------------
(* Frames written back-to-back on ONE stream and read back through the codec's alternative paths          *)
(* (C03: declared lengths equal emitted bytes => any sequence decodes to the same sequence, nothing left    *)
(* over or short; C05: the partial operations a proxy uses agree with the full codec and leave the reader   *)
(* exactly at the frame boundary).                                                                         *)
(*                                                                                                         *)
(* The stream is abstract: `out` is the sequence of frames written so far (each with the path that wrote   *)
(* it), the reader is either at a frame boundary (rmode = "idle", about to read frame number rnext) or has *)
(* decoded the header of frame rnext and owes a body operation (rmode = "header").  A correct codec keeps  *)
(* the reader at boundaries: that is the refinement the harness checks on the real byte stream after every *)
(* step (bytes consumed so far = sum of the lengths of the frames read).                                    *)
(* Writer paths:  EncodeFrame | ConvertToRawFrame+EncodeRawFrame | EncodeHeader+EncodeBody                  *)
(* Reader paths:  DecodeFrame | DecodeRawFrame(+ConvertFromRawFrame) | DecodeHeader then one of             *)
(*                DecodeBody | DecodeRawBody | DiscardBody                                                  *)
(* Which concrete frames the identifiers 1..NFrames stand for, the compression of the codec and the kind   *)
(* of byte source (bytes.Buffer, bytes.Reader, bufio, one byte at a time, random chunks, non-seekable) are  *)
(* chosen by the harness, which replays every behaviour for each combination.                               *)
(* Size classes: in one behaviour out of seven identifier 1 stands for a frame whose body is larger than    *)
(* 1 MiB and not a power of two (readers, compressors and buffers work in blocks: a body that spans blocks   *)
(* must still end exactly at its boundary).                                                                  *)
EXTENDS Integers, Sequences, TLC, Json

CONSTANTS NFrames,     \* size of the frame alphabet
          MaxLen,      \* frames per stream
          WriteFirst   \* TRUE: the whole stream is written before it is read (any byte source);
                       \* FALSE: writes and reads interleave (appendable sources only)

WPaths == {"frame", "raw", "hdr+body"}
RPaths == {"frame", "rawframe"}
BodyOps == {"body", "rawbody", "discard"}

VARIABLES out,      \* frames written: <<[f, w]>>
          rnext,    \* index of the next frame the reader will start (1-based)
          rmode,    \* "idle" | "header"
          got,      \* what the reader obtained: <<[f, how]>> (discarded frames yield only their header)
          hist      \* the steps taken, for replay

vars == <<out, rnext, rmode, got, hist>>

Init == out = <<>> /\ rnext = 1 /\ rmode = "idle" /\ got = <<>> /\ hist = <<>>

Write(f, w) ==
    /\ Len(out) < MaxLen
    /\ out' = Append(out, [f |-> f, w |-> w])
    /\ hist' = Append(hist, [a |-> "write", f |-> f, p |-> w])
    /\ UNCHANGED <<rnext, rmode, got>>

CanRead == ~WriteFirst \/ Len(out) = MaxLen

ReadWhole(p) ==
    /\ CanRead
    /\ rmode = "idle" /\ rnext <= Len(out)
    /\ got' = Append(got, [f |-> out[rnext].f, how |-> p])
    /\ rnext' = rnext + 1
    /\ hist' = Append(hist, [a |-> "read", f |-> out[rnext].f, p |-> p])
    /\ UNCHANGED <<out, rmode>>

ReadHeader ==
    /\ CanRead
    /\ rmode = "idle" /\ rnext <= Len(out)
    /\ rmode' = "header"
    /\ hist' = Append(hist, [a |-> "header", f |-> out[rnext].f, p |-> "header"])
    /\ UNCHANGED <<out, rnext, got>>

ReadBody(op) ==
    /\ rmode = "header"
    /\ rmode' = "idle"
    /\ got' = Append(got, [f |-> out[rnext].f, how |-> op])
    /\ rnext' = rnext + 1
    /\ hist' = Append(hist, [a |-> "bodyop", f |-> out[rnext].f, p |-> op])
    /\ UNCHANGED out

Next == \/ \E f \in 1..NFrames, w \in WPaths : Write(f, w)
        \/ \E p \in RPaths : ReadWhole(p)
        \/ ReadHeader
        \/ \E op \in BodyOps : ReadBody(op)

Spec == Init /\ [][Next]_vars

\* what was read is a prefix of what was written, frame for frame
Sent == [i \in 1..Len(out) |-> out[i].f]
Rcvd == [i \in 1..Len(got) |-> got[i].f]
PrefixOK == Len(got) <= Len(out) /\ \A i \in 1..Len(got) : Rcvd[i] = Sent[i]
\* the reader is at a boundary whenever it is idle: it has consumed exactly the frames before rnext
BoundaryOK == rnext = Len(got) + 1 /\ (rmode = "header" => rnext <= Len(out))
\* a finished behaviour (everything written has been read): printed for replay
Done == Len(out) = MaxLen /\ rnext = MaxLen + 1 /\ rmode = "idle"
Emit == Done => PrintT(<<"RUN", ToJson([steps |-> hist])>>)
=============================================================================

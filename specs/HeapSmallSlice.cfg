\* C17 small-scope lemma, slices: all well-formed heaps of 2 nodes over 3 memory cells where every node has
\* an own region and a backing region (partial overlaps such as [1,3) against [2,4) included).
SPECIFICATION Spec
CONSTANTS
    MaxNodes = 2
    NCells = 3
    WithBacking = TRUE
INVARIANTS Lemma ObservedOnlyIfShared CellsAgree
CHECK_DEADLOCK FALSE

---------------------------- MODULE ConnShutdown ----------------------------
(* Shutdown of a client connection against its users (client/client.go Close / Send / processIncomingFrame /   *)
(* outgoingLoop; the server connection has the same shape with `incoming` for `events`) - the part of C16     *)
(* that is narrower than a gate: "closing at any moment, concurrently with senders and receivers: nothing    *)
(* panics or deadlocks, later sends are refused, Close returns, every request still awaiting a response is   *)
(* completed".                                                                                               *)
(*                                                                                                           *)
(* Steps are the memory operations that matter: the closed flag (atomic), the channel FIELDS (set to nil by  *)
(* Close), the CHANNELS (closed by Close), the in-flight handler.  Locked = TRUE is the tree as it stands:   *)
(* senders read the field and send inside a read-locked section, Close swaps and closes inside the write-    *)
(* locked section (each section is one step here), the outgoing loop keeps the channel it was started with.  *)
(* Locked = FALSE is the tree as first found: field read and channel operation are separate steps with       *)
(* nothing between them and Close, and the outgoing loop re-reads the field (ConnShutdownAsFound.cfg: TLC    *)
(* must find the panic and the stuck loop - the negative control).                                            *)
EXTENDS Integers, Sequences, FiniteSets, TLC

CONSTANTS Senders, Closers, NEvents, Cap, Locked,
          CloseOnCtxDone   \* a frame arriving for a request whose context is cancelled completes the request (TRUE: as it stands)

VARIABLES closed,      \* the connection's closed flag
          field,       \* "set" | "nil": the outgoing / events fields
          chans,       \* "open" | "closed": the channels themselves
          hclosed,     \* the in-flight handler's closed flag
          queue,       \* number of frames in the outgoing channel
          reg,         \* requests registered in the in-flight handler: set of senders
          completed,   \* requests completed (by the handler's close)
          pc,          \* thread -> label
          held,        \* thread -> the channel value it read from the field ("none" | "chan" | "nil")
          result,      \* sender -> "none" | "ok" | "err"
          lateStart,   \* senders whose Send began after some Close had returned
          panicked,    \* a send on a closed channel happened
          evLeft,      \* events the peer still pushes
          closeDone,   \* the Close that won the compare-and-swap has returned
          everReg,     \* requests ever registered
          rtarget      \* the request whose final response the receive loop is delivering ("none" between deliveries)
vars == <<closed, field, chans, hclosed, queue, reg, completed, pc, held, result, lateStart, panicked, evLeft, closeDone, everReg, rtarget>>

Threads == Senders \cup Closers \cup {"evloop", "outloop", "rloop"}

Init == /\ closed = FALSE /\ field = "set" /\ chans = "open" /\ hclosed = FALSE /\ queue = 0
        /\ reg = {} /\ completed = {}
        /\ pc = [t \in Threads |-> IF t \in Senders THEN "s.check" ELSE IF t \in Closers THEN "c.cas" ELSE IF t = "evloop" THEN "e.check" ELSE IF t = "rloop" THEN "r.pick" ELSE "o.check"]
        /\ held = [t \in Threads |-> "none"]
        /\ result = [s \in Senders |-> "none"]
        /\ lateStart = {} /\ panicked = FALSE /\ evLeft = NEvents /\ closeDone = FALSE /\ everReg = {} /\ rtarget = "none"

Go(t, l) == pc' = [pc EXCEPT ![t] = l]
CloseReturned == closeDone

-----------------------------------------------------------------------------
(* Send *)
SCheck(s) == /\ pc[s] = "s.check"
             /\ lateStart' = IF CloseReturned THEN lateStart \cup {s} ELSE lateStart
             /\ IF closed THEN Go(s, "done") /\ result' = [result EXCEPT ![s] = "err"]
                ELSE Go(s, "s.enqueue") /\ UNCHANGED result
             /\ UNCHANGED <<closed, field, chans, hclosed, queue, reg, completed, held, panicked, evLeft, closeDone, everReg, rtarget>>
\* in-flight handler: refused once the handler is closed
SEnqueue(s) == /\ pc[s] = "s.enqueue"
               /\ IF hclosed THEN Go(s, "done") /\ result' = [result EXCEPT ![s] = "err"] /\ UNCHANGED reg
                  ELSE Go(s, IF Locked THEN "s.send" ELSE "s.read") /\ reg' = reg \cup {s} /\ UNCHANGED result
               /\ everReg' = IF hclosed THEN everReg ELSE everReg \cup {s}
               /\ UNCHANGED <<closed, field, chans, hclosed, queue, completed, held, lateStart, panicked, evLeft, closeDone, rtarget>>
\* the non-blocking send on the channel found in the field
TrySend(s, ch) == IF ch = "nil" \/ queue >= Cap THEN result' = [result EXCEPT ![s] = "err"] /\ UNCHANGED <<queue, panicked>>
                  ELSE IF chans = "closed" THEN panicked' = TRUE /\ UNCHANGED <<queue, result>>
                  ELSE queue' = queue + 1 /\ result' = [result EXCEPT ![s] = "ok"] /\ UNCHANGED panicked
\* as built: one read-locked section
SSend(s) == /\ pc[s] = "s.send"
            /\ TrySend(s, IF field = "nil" THEN "nil" ELSE "chan")
            /\ Go(s, "done")
            /\ UNCHANGED <<closed, field, chans, hclosed, reg, completed, held, lateStart, evLeft, closeDone, everReg, rtarget>>
\* as found: two steps
SRead(s) == /\ pc[s] = "s.read"
            /\ held' = [held EXCEPT ![s] = IF field = "nil" THEN "nil" ELSE "chan"]
            /\ Go(s, "s.chansend")
            /\ UNCHANGED <<closed, field, chans, hclosed, queue, reg, completed, result, lateStart, panicked, evLeft, closeDone, everReg, rtarget>>
SChanSend(s) == /\ pc[s] = "s.chansend"
                /\ TrySend(s, held[s])
                /\ Go(s, "done")
                /\ UNCHANGED <<closed, field, chans, hclosed, reg, completed, held, lateStart, evLeft, closeDone, everReg, rtarget>>

(* the incoming loop delivering events *)
ECheck == /\ pc["evloop"] = "e.check"
          /\ IF closed \/ evLeft = 0 THEN Go("evloop", "done") /\ UNCHANGED evLeft
             ELSE Go("evloop", IF Locked THEN "e.send" ELSE "e.read") /\ evLeft' = evLeft - 1
          /\ UNCHANGED <<closed, field, chans, hclosed, queue, reg, completed, held, result, lateStart, panicked, closeDone, everReg, rtarget>>
ESend == /\ pc["evloop"] = "e.send"
         /\ panicked' = panicked            \* read-locked: the channel cannot be closed under it; nil field -> dropped
         /\ Go("evloop", "e.check")
         /\ UNCHANGED <<closed, field, chans, hclosed, queue, reg, completed, held, result, lateStart, evLeft, closeDone, everReg, rtarget>>
ERead == /\ pc["evloop"] = "e.read"
         /\ held' = [held EXCEPT !["evloop"] = IF field = "nil" THEN "nil" ELSE "chan"]
         /\ Go("evloop", "e.chansend")
         /\ UNCHANGED <<closed, field, chans, hclosed, queue, reg, completed, result, lateStart, panicked, evLeft, closeDone, everReg, rtarget>>
EChanSend == /\ pc["evloop"] = "e.chansend"
             /\ panicked' = (panicked \/ (held["evloop"] = "chan" /\ chans = "closed"))
             /\ Go("evloop", "e.check")
             /\ UNCHANGED <<closed, field, chans, hclosed, queue, reg, completed, held, result, lateStart, evLeft, closeDone, everReg, rtarget>>

(* the outgoing loop *)
OCheck == /\ pc["outloop"] = "o.check"
          /\ Go("outloop", IF closed THEN "done" ELSE "o.recv")
          /\ UNCHANGED <<closed, field, chans, hclosed, queue, reg, completed, held, result, lateStart, panicked, evLeft, closeDone, everReg, rtarget>>
\* receive: as built from the channel the loop was started with; as found from whatever the field holds now - and a
\* receive from a nil channel never returns
ORecv == /\ pc["outloop"] = "o.recv"
         /\ IF ~Locked /\ field = "nil" THEN Go("outloop", "stuck") /\ UNCHANGED queue
            ELSE IF queue > 0 THEN queue' = queue - 1 /\ Go("outloop", "o.check")
            ELSE chans = "closed" /\ Go("outloop", "done") /\ UNCHANGED queue          \* (blocks while open and empty)
         /\ UNCHANGED <<closed, field, chans, hclosed, reg, completed, held, result, lateStart, panicked, evLeft, closeDone, everReg, rtarget>>

(* the incoming loop delivering the final response of a registered request (onIncomingFrameReceived): the request is
   unregistered first, then handed its frame - unless its context (a child of the connection's, cancelled by Close
   right after the compare-and-swap) is done: the select may then take that branch instead *)
RPick(s) == /\ pc["rloop"] = "r.pick" /\ ~closed /\ s \in reg /\ s \notin completed
            /\ pc[s] = "done" /\ result[s] = "ok"                          \* its frame was written: the peer answers
            /\ reg' = reg \ {s} /\ rtarget' = s
            /\ Go("rloop", "r.hand")
            /\ UNCHANGED <<closed, field, chans, hclosed, queue, completed, held, result, lateStart, panicked, evLeft, closeDone, everReg>>
RStop == /\ pc["rloop"] = "r.pick" /\ closed /\ Go("rloop", "done")
         /\ UNCHANGED <<closed, field, chans, hclosed, queue, reg, completed, held, result, lateStart, panicked, evLeft, closeDone, everReg, rtarget>>
RHand == /\ pc["rloop"] = "r.hand"
         /\ \/ completed' = completed \cup {rtarget}                         \* the frame is delivered: completed on its last frame
            \/ closed /\ (IF CloseOnCtxDone THEN completed' = completed \cup {rtarget} ELSE UNCHANGED completed)   \* context done
         /\ rtarget' = "none" /\ Go("rloop", "r.pick")
         /\ UNCHANGED <<closed, field, chans, hclosed, queue, reg, held, result, lateStart, panicked, evLeft, closeDone, everReg>>

(* Close *)
CCas(c) == /\ pc[c] = "c.cas"
           /\ IF closed THEN Go(c, "done") /\ UNCHANGED closed
              ELSE closed' = TRUE /\ Go(c, IF Locked THEN "c.chans" ELSE "c.nil")
           /\ UNCHANGED <<field, chans, hclosed, queue, reg, completed, held, result, lateStart, panicked, evLeft, closeDone, everReg, rtarget>>
CChans(c) == /\ pc[c] = "c.chans"                      \* write-locked: fields set to nil and channels closed at once
             /\ field' = "nil" /\ chans' = "closed"
             /\ Go(c, "c.hclose")
             /\ UNCHANGED <<closed, hclosed, queue, reg, completed, held, result, lateStart, panicked, evLeft, closeDone, everReg, rtarget>>
CNil(c) == /\ pc[c] = "c.nil" /\ field' = "nil" /\ Go(c, "c.close")
           /\ UNCHANGED <<closed, chans, hclosed, queue, reg, completed, held, result, lateStart, panicked, evLeft, closeDone, everReg, rtarget>>
CClose(c) == /\ pc[c] = "c.close" /\ chans' = "closed" /\ Go(c, "c.hclose")
             /\ UNCHANGED <<closed, field, hclosed, queue, reg, completed, held, result, lateStart, panicked, evLeft, closeDone, everReg, rtarget>>
CHClose(c) == /\ pc[c] = "c.hclose"
              /\ hclosed' = TRUE /\ completed' = completed \cup reg
              /\ Go(c, "c.wait")
              /\ UNCHANGED <<closed, field, chans, queue, reg, held, result, lateStart, panicked, evLeft, closeDone, everReg, rtarget>>
\* waitGroup.Wait(): both loops have exited
CWait(c) == /\ pc[c] = "c.wait"
            /\ pc["evloop"] = "done" /\ pc["outloop"] = "done" /\ pc["rloop"] = "done"
            /\ Go(c, "done") /\ closeDone' = TRUE
            /\ UNCHANGED <<closed, field, chans, hclosed, queue, reg, completed, held, result, lateStart, panicked, evLeft, everReg, rtarget>>

Next == \/ \E s \in Senders : SCheck(s) \/ SEnqueue(s) \/ SSend(s) \/ SRead(s) \/ SChanSend(s)
        \/ ECheck \/ ESend \/ ERead \/ EChanSend
        \/ OCheck \/ ORecv
        \/ (\E s \in Senders : RPick(s)) \/ RStop \/ RHand
        \/ \E c \in Closers : CCas(c) \/ CChans(c) \/ CNil(c) \/ CClose(c) \/ CHClose(c) \/ CWait(c)

Spec == Init /\ [][Next]_vars
FairSpec == Spec /\ WF_vars(Next) /\ \A c \in Closers : WF_vars(CWait(c))

-----------------------------------------------------------------------------
(* C16 *)
NoPanic == ~panicked
NoStuckLoop == pc["outloop"] # "stuck"
\* later sends are refused: a Send that began after a Close had returned does not succeed
LaterSendsRefused == \A s \in lateStart : result[s] # "ok"
\* every request still awaiting a response is completed by the time Close returns
CompletedAtClose == CloseReturned => \A s \in everReg : s \in completed \/ pc[s] # "done"
\* ... and at quiescence every registered request is completed
Quiet == \A t \in Threads : pc[t] \in {"done", "stuck"}
AllCompleted == Quiet /\ closed => everReg \subseteq completed
\* nothing is put on a channel after it has been closed (as built, by construction of the locked sections)
\* the three guards that ConnShutdownTrace.tla checks on traces of the real code, as action properties of the design:
EnqueueWhileOpen == [][queue' > queue => chans = "open"]_vars
DoneMeansCompleted == [][closeDone' /\ ~closeDone => chans = "closed" /\ everReg \subseteq completed]_vars
NoRegistrationAfterDone == [][reg' # reg => ~closeDone]_vars
\* Close returns (liveness, under fairness): every closer finishes
CloseTerminates == \A c \in Closers : <>(pc[c] = "done")
=============================================================================

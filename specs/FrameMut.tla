---------------------------- MODULE FrameMut ----------------------------
(* Frame mutators (frame/frame.go): SetCustomPayload, SetWarnings, SetTracingId, RequestTracingId,  *)
(* SetCompress.  Property C20: after ANY sequence of mutator calls the header flags reflect exactly  *)
(* which optional body parts are present, compression is never flagged for STARTUP/OPTIONS/READY,    *)
(* and the frame still encodes and round-trips.                                                      *)
(*                                                                                                   *)
(* The abstract frame: direction, opcode class (only compressibility matters), version class (only   *)
(* "custom payload / warnings exist from v4" matters), the flag set and the three optional body      *)
(* parts.  Arguments are abstracted to the classes the mutators distinguish: nil / empty / full.     *)
(* TLC closes the reachable graph, so all finite mutator sequences are covered by the fixpoint.      *)
(* Every transition is emitted (EDGE lines) and replayed on a real frame.Frame by the harness.       *)
EXTENDS Naturals, Sequences, FiniteSets, TLC, Json

CONSTANT AllMutators   \* TRUE: every mutator on every frame; FALSE: only the documented domain

VARIABLES dir,        \* "req" | "rsp"
          opc,        \* "startup" | "options" | "ready" | "other"  (fixed per behaviour)
          ver,        \* "pre4" | "v4plus"
          flags,      \* subset of {"C","T","P","W"}
          payload,    \* "nil" | "empty" | "full"
          warnings,   \* "nil" | "empty" | "full"
          tracing,    \* "nil" | "set"          (Body.TracingId)
          treq        \* BOOLEAN ghost: tracing last requested through RequestTracingId

vars == <<dir, opc, ver, flags, payload, warnings, tracing, treq>>

ArgClass == {"nil", "empty", "full"}
Compressible(o) == o \notin {"startup", "options", "ready"}

\* opcode classes that exist for a direction
OpcOf(d) == IF d = "req" THEN {"startup", "options", "other"} ELSE {"ready", "other"}

State == [dir |-> dir, opc |-> opc, ver |-> ver, flags |-> flags, payload |-> payload,
          warnings |-> warnings, tracing |-> tracing]

Init == /\ dir \in {"req", "rsp"}
        /\ opc \in OpcOf(dir)
        /\ ver \in {"pre4", "v4plus"}
        /\ flags = {}
        /\ payload = "nil" /\ warnings = "nil" /\ tracing = "nil" /\ treq = FALSE
        /\ PrintT(<<"INIT", ToJson(State)>>)

WithFlag(fs, f, on) == IF on THEN fs \cup {f} ELSE fs \ {f}

\* Documented domain: warnings and tracing ids are response-only, tracing requests are request-only.
InDomain(m) == \/ AllMutators
               \/ m \in {"SetCustomPayload", "SetCompress"}
               \/ m \in {"SetWarnings", "SetTracingId"} /\ dir = "rsp"
               \/ m = "RequestTracingId" /\ dir = "req"

SetCustomPayload(x) ==
    /\ InDomain("SetCustomPayload")
    /\ payload' = x
    /\ flags' = WithFlag(flags, "P", x = "full")
    /\ UNCHANGED <<dir, opc, ver, warnings, tracing, treq>>

SetWarnings(x) ==
    /\ InDomain("SetWarnings")
    /\ warnings' = x
    /\ flags' = WithFlag(flags, "W", x = "full")
    /\ UNCHANGED <<dir, opc, ver, payload, tracing, treq>>

SetTracingId(x) ==
    /\ InDomain("SetTracingId")
    /\ tracing' = x
    /\ flags' = WithFlag(flags, "T", x = "set")
    /\ treq' = FALSE
    /\ UNCHANGED <<dir, opc, ver, payload, warnings>>

RequestTracingId(b) ==
    /\ InDomain("RequestTracingId")
    /\ flags' = WithFlag(flags, "T", b)
    /\ treq' = b
    /\ UNCHANGED <<dir, opc, ver, payload, warnings, tracing>>

SetCompress(b) ==
    /\ InDomain("SetCompress")
    /\ flags' = WithFlag(flags, "C", b /\ Compressible(opc))
    /\ UNCHANGED <<dir, opc, ver, payload, warnings, tracing, treq>>

\* A state the protocol lets on the wire for its direction and version: its round trip is asserted.
Encodable ==
    /\ ("P" \in flags => ver = "v4plus")
    /\ ("W" \in flags => ver = "v4plus" /\ dir = "rsp")
    /\ ("T" \in flags /\ dir = "rsp" => tracing = "set")

Emit(m, a) ==
    PrintT(<<"EDGE", ToJson([from |-> State, act |-> m, arg |-> a,
                              to |-> [dir |-> dir', opc |-> opc', ver |-> ver', flags |-> flags',
                                      payload |-> payload', warnings |-> warnings', tracing |-> tracing'],
                              enc |-> Encodable'])>>)

Next ==
    \/ \E x \in ArgClass : SetCustomPayload(x) /\ Emit("SetCustomPayload", x)
    \/ \E x \in ArgClass : SetWarnings(x) /\ Emit("SetWarnings", x)
    \/ \E x \in {"nil", "set"} : SetTracingId(x) /\ Emit("SetTracingId", x)
    \/ \E b \in BOOLEAN : RequestTracingId(b) /\ Emit("RequestTracingId", IF b THEN "true" ELSE "false")
    \/ \E b \in BOOLEAN : SetCompress(b) /\ Emit("SetCompress", IF b THEN "true" ELSE "false")

Spec == Init /\ [][Next]_vars

-----------------------------------------------------------------------------
\* The property, as invariants over every reachable state.
TypeOK == /\ flags \subseteq {"C", "T", "P", "W"}
          /\ payload \in ArgClass /\ warnings \in ArgClass /\ tracing \in {"nil", "set"}

PayloadFlag  == ("P" \in flags) <=> (payload = "full")
WarningsFlag == ("W" \in flags) <=> (warnings = "full")
\* In the documented domain the tracing flag means "tracing id present" on responses and
\* "tracing requested" on requests.
TracingFlag  == ~AllMutators =>
                   /\ dir = "rsp" => (("T" \in flags) <=> (tracing = "set"))
                   /\ dir = "req" => (("T" \in flags) <=> treq)
NoCompressOnHandshake == ("C" \in flags) => Compressible(opc)
\* In the documented domain every reachable state of a v4+ frame is encodable.
DomainEncodable == ~AllMutators /\ ver = "v4plus" => Encodable
=============================================================================

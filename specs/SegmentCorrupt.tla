--------------------------- MODULE SegmentCorrupt ---------------------------
(* C07: corrupted segments are rejected.  Encode -> Corrupt(E) -> Decode, E a set of flipped bit positions.  *)
(* The decoder accepts a header iff the CRC-24 it recomputes equals the received one; because the CRC is      *)
(* affine, a header error pattern e (on the header bytes) together with an error c on the checksum bytes is   *)
(* UNDETECTED iff  Crc24Lin(e) = c   (lemma Linear below) -- independent of the header value.  TLC checks      *)
(* the lemma on sample headers and evaluates the detection guarantee exhaustively up to weight W; the         *)
(* harness carries the same definition to weight 7 (8.8*10^7 + 7.1*10^8 patterns) and to the real decoder.    *)
(* It also emits concrete corruption descriptors for small segments (all 1- and 2-bit flips, bursts) with     *)
(* the verdict the property prescribes, which the harness applies to real encoded segments.                    *)
EXTENDS Segment, FiniteSetsExt, Json

CONSTANT W,          \* exhaustive header error weight checked by TLC (2 quick, 3 thorough)
         EmitPayLens \* payload lengths of the segments for which descriptors are emitted (0: the trailer alone is what can be hit)

XorBytes(a, b) == [i \in 1..Len(a) |-> a[i] ^^ b[i]]
\* error pattern on n bytes from a set of bit positions 0..8n-1 (bit k = bit k%8 of byte k\div 8)
RECURSIVE Pow2(_)
Pow2(k) == IF k = 0 THEN 1 ELSE 2 * Pow2(k - 1)
\* (SumSet comes from FiniteSetsExt)
PatternBytes(E, n) == [i \in 1..n |-> SumSet({Pow2(k % 8) : k \in {k \in E : k \div 8 = i - 1}})]

\* all subsets of S with 1..w elements (w = 2 or 3), built directly: SUBSET S would enumerate 2^|S| sets
UpTo(S, w) == IF w = 2 THEN {{a, b} : a, b \in S} ELSE {{a, b, c} : a, b, c \in S}

\* Linear: crc(h xor e) xor crc(h) = crcLin(e)
SampleHeaders3 == {<<0, 0, 0>>, <<5, 0, 2>>, <<255, 255, 3>>, <<171, 205, 1>>}
SampleHeaders5 == {<<0, 0, 0, 0, 0>>, <<1, 0, 2, 0, 4>>, <<255, 255, 255, 255, 7>>, <<18, 52, 86, 120, 2>>}
Linear == \A hs \in {SampleHeaders3, SampleHeaders5} : \A h \in hs :
            \A E \in UpTo(0..(8 * Len(h) - 1), 2) :
               LET e == PatternBytes(E, Len(h)) IN (Crc24(XorBytes(h, e)) ^^ Crc24(h)) = Crc24Lin(e)

\* Syndrome of an error set over header (hl bytes) followed by the 3 checksum bytes, little-endian
Syndrome(E, hl) ==
    LET eh == PatternBytes({k \in E : k < 8 * hl}, hl)
        ec == SumSet({Pow2(k - 8 * hl) : k \in {k \in E : k >= 8 * hl}})
    IN Crc24Lin(eh) ^^ ec

\* every error of weight 1..W in header+checksum is detected (property C07 claims this up to weight 7)
DetectsUpTo(hl, w) == \A E \in UpTo(0..(8 * (hl + 3) - 1), w) : Syndrome(E, hl) # 0

ASSUME Linear
ASSUME DetectsUpTo(3, W)
ASSUME DetectsUpTo(5, W)

-----------------------------------------------------------------------------
\* Concrete descriptors for one small segment of each format: bit positions over the whole segment.
SegBits(hl, pl) == 8 * (hl + 3 + pl + 4)
HdrBits(hl) == 8 * (hl + 3)
\* the property's guaranteed detection range
Guaranteed(E, hl) ==
    LET eh == {k \in E : k < HdrBits(hl)}
        ep == E \ eh
    IN \/ Cardinality(eh) \in 1..7
       \/ eh = {} /\ ep # {} /\ (Cardinality(ep) <= 2 \/ (CHOOSE m \in ep : \A k \in ep : k <= m) - (CHOOSE m \in ep : \A k \in ep : k >= m) < 32)

Pairs(hl, pl) == UpTo(0..(SegBits(hl, pl) - 1), 2)
\* bursts: a window of 3..32 bits anywhere in payload+CRC-32 with both ends flipped and one of three interiors
Burst(start, len, kind) ==
    {start, start + len - 1} \cup
    (CASE kind = "ends" -> {} [] kind = "full" -> start..(start + len - 1)
       [] kind = "alt" -> {k \in start..(start + len - 1) : (k - start) % 2 = 0})
Bursts(hl, pl) == {Burst(s, l, k) : s \in HdrBits(hl)..(SegBits(hl, pl) - 3), l \in {3, 8, 9, 17, 31, 32}, k \in {"ends", "full", "alt"}}

Descriptor(E, hl, pl) == [fmt |-> IF hl = 3 THEN "none" ELSE "lz4", paylen |-> pl, bits |-> E,
                      reject |-> Guaranteed(E, hl)]

VARIABLE x
Init == /\ x = 0
        /\ \A hl \in {3, 5}, pl \in EmitPayLens :
             /\ \A E \in Pairs(hl, pl) : PrintT(<<"COR", ToJson(Descriptor(E, hl, pl))>>)
             /\ \A E \in {B \in Bursts(hl, pl) : \A k \in B : k < SegBits(hl, pl)} : PrintT(<<"COR", ToJson(Descriptor(E, hl, pl))>>)
Next == x' = x
Spec == Init /\ [][Next]_x
=============================================================================

SPECIFICATION Spec
CONSTANT AllMutators = FALSE
INVARIANTS TypeOK PayloadFlag WarningsFlag TracingFlag NoCompressOnHandshake DomainEncodable
CHECK_DEADLOCK FALSE

--------------------------- MODULE InFlightTrace ---------------------------
(* Trace validation (binding T): executions recorded from the REAL in-flight handler are checked      *)
(* against the property-level specification InFlightAbs.  One ndjson line per API call:               *)
(*   {"a":"reset","trace":k}                                  start of trace k                        *)
(*   {"a":"M"|"E"|"D"|"R"|"C"|"T", "k":id-or-tag, "last":bool, "ok":bool, "rid":int, "obs":{...}}     *)
(* obs is the projection of the real handler after the call: closed, free (queue contents), table     *)
(* (pairs <<id, tag>>), reqs (id, managed, pending, done, failed).                                    *)
(* Each line must be explained by the matching InFlightAbs action AND the state it leads to must       *)
(* agree with obs.  A line that cannot be explained rejects its trace: the trace number and line are   *)
(* recorded in `rejected` and validation resumes at the next trace, so one run judges all traces.      *)
EXTENDS InFlightAbs, TLC, Json, IOUtils

TraceFile == IF "TRACE" \in DOMAIN IOEnv THEN IOEnv.TRACE ELSE "trace.ndjson"
Trace == ndJsonDeserialize(TraceFile)

VARIABLES l,         \* next line to consume
          cur,       \* number of the trace being validated
          rejected   \* set of <<trace, line, action>> that no specification step explains

tvars == <<pool, reg, rq, aclosed, anframe, l, cur, rejected>>

SeqRange(s) == {s[i] : i \in DOMAIN s}

TableOf(obs) == [i \in AllIds |-> IF \E p \in SeqRange(obs.table) : p[1] = i
                                  THEN (CHOOSE p \in SeqRange(obs.table) : p[1] = i)[2] ELSE 0]

\* the abstract successor state agrees with what was observed on the real handler
Matches(obs) ==
    /\ aclosed' = obs.closed
    /\ ~obs.closed => /\ SeqRange(obs.free) = pool'
                      /\ Len(obs.free) = Cardinality(pool')
    /\ \A p \in SeqRange(obs.table) : p[1] \in AllIds
    /\ reg' = TableOf(obs)
    /\ Len(rq') = Len(obs.reqs)
    /\ \A t \in 1..Len(rq') :
         /\ rq'[t].id = obs.reqs[t].id
         /\ rq'[t].managed = obs.reqs[t].managed
         /\ Len(rq'[t].buf) = obs.reqs[t].pending
         /\ rq'[t].done = obs.reqs[t].done
         /\ rq'[t].failed = obs.reqs[t].failed

\* the call's own result agrees with the step taken
ResultOK(e) ==
    CASE e.a \in {"M", "E"} ->
            /\ e.ok <=> Len(rq') = Len(rq) + 1
            /\ e.ok => rq'[Len(rq')].id = e.rid
      [] e.a = "R" ->
            IF e.ok THEN /\ e.k \in 1..Len(rq) /\ rq[e.k].buf # <<>>
                         /\ Head(rq[e.k].buf) = e.rid                   \* the frame the spec says is next
                    ELSE /\ e.k \in 1..Len(rq) /\ rq[e.k].buf = <<>> /\ rq[e.k].done
                         /\ e.rid = (IF rq[e.k].failed THEN 1 ELSE 0)   \* closed with / without an error
      [] OTHER -> TRUE

AbsStep(e) ==
    CASE e.a = "M" -> ASendManaged
      [] e.a = "E" -> e.k \in AllIds /\ ASendExplicit(e.k)
      [] e.a = "D" -> e.k \in AllIds /\ ADeliver(e.k, e.last)
      [] e.a = "R" -> IF e.ok THEN AReceive(e.k) ELSE UNCHANGED avars
      [] e.a = "C" -> AClose
      [] e.a = "T" -> ATick
      [] OTHER -> FALSE

Explained(e) == AbsStep(e) /\ ResultOK(e) /\ Matches(e.obs)

\* diagnosis of an unexplained line: which part of the observation no specification step can produce
MatchesReqs(obs) ==
    /\ aclosed' = obs.closed
    /\ Len(rq') = Len(obs.reqs)
    /\ \A t \in 1..Len(rq') :
         /\ rq'[t].id = obs.reqs[t].id
         /\ rq'[t].managed = obs.reqs[t].managed
         /\ Len(rq'[t].buf) = obs.reqs[t].pending
         /\ rq'[t].done = obs.reqs[t].done
         /\ rq'[t].failed = obs.reqs[t].failed
Why(e) == IF ~ENABLED (AbsStep(e) /\ ResultOK(e)) THEN "result"
          ELSE IF ~ENABLED (AbsStep(e) /\ ResultOK(e) /\ MatchesReqs(e.obs)) THEN "reqs"
          ELSE "ids"

Reset == /\ pool' = ManagedIds
         /\ reg' = [i \in AllIds |-> 0]
         /\ rq' = <<>>
         /\ aclosed' = FALSE
         /\ anframe' = 0

\* first line of the next trace after position i (or the end)
NextReset(i) == IF \E j \in i..Len(Trace) : Trace[j].a = "reset"
                THEN CHOOSE j \in i..Len(Trace) : Trace[j].a = "reset" /\ \A m \in i..(j - 1) : Trace[m].a # "reset"
                ELSE Len(Trace) + 1

TInit == /\ AInit
         /\ l = 1 /\ cur = 0 /\ rejected = {}

TNext ==
    /\ l <= Len(Trace)
    /\ LET e == Trace[l] IN
       IF e.a = "reset" THEN
            /\ Reset /\ l' = l + 1 /\ cur' = e.trace /\ UNCHANGED rejected
       ELSE IF ENABLED Explained(e) THEN
            /\ Explained(e) /\ l' = l + 1 /\ UNCHANGED <<cur, rejected>>
       ELSE \* unexplained: record, skip the rest of this trace
            /\ rejected' = rejected \cup {<<cur, l, e.a, Why(e)>>}
            /\ l' = NextReset(l)
            /\ UNCHANGED <<avars, cur>>

TSpec == TInit /\ [][TNext]_tvars

\* Printed once, in the state where the whole file has been consumed.
Done == l = Len(Trace) + 1
Report == Done => PrintT(<<"REJECTED", ToJson([n |-> Cardinality(rejected), lines |-> Len(Trace), r |-> rejected])>>)

\* Property-level invariants hold along every explained trace.
TraceInv == AUnique /\ ARange /\ AConserve /\ ABounded
=============================================================================

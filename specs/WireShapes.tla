----------------------------- MODULE WireShapes -----------------------------
(* The case space for C01 / C02 / C03 / C05: frames (header + body prefix, v5 §2) and the set of abstract *)
(* messages explored per version -- every message kind, every subset of optional fields, value classes     *)
(* per field (absent / null / empty / small / boundary), every enum constant -- as a SUM over kinds, not a *)
(* product.  TLC prints, per case, the abstract frame and the chunk sequence the documents prescribe.      *)
EXTENDS WireMsg, Json

CONSTANTS Thorough,       \* larger value classes (65535-byte strings, all query-option subsets for EXECUTE)
          OnlyVersions    \* the versions this run emits (one TLC process per version runs in parallel)

-----------------------------------------------------------------------------
(* frames: [v, dir, stream, flags (subset of {"T","P","W"}), tracing, payload, warnings, msg]              *)
VersionByte(v, dir) == v + (IF dir = "rsp" THEN 128 ELSE 0)
FlagsByte(fl) == (IF "C" \in fl THEN 1 ELSE 0) + (IF "T" \in fl THEN 2 ELSE 0) + (IF "P" \in fl THEN 4 ELSE 0)
                 + (IF "W" \in fl THEN 8 ELSE 0)

FramePrefix(f) ==
    (IF "T" \in f.flags /\ f.dir = "rsp" THEN Uuid(Get(f.tracing), "frame.tracingid") ELSE <<>>)
    \o (IF "P" \in f.flags THEN BytesMap(Get(f.payload), "frame.custompayload") ELSE <<>>)
    \o (IF "W" \in f.flags /\ f.dir = "rsp" THEN StringList(Get(f.warnings), "frame.warnings") ELSE <<>>)

FrameBody(f) == FramePrefix(f) \o Body(f.msg, f.v)

FrameHeader(f, bodyLen) ==
    Byte(VersionByte(f.v, f.dir), "code", "frame.version")
    \o Byte(FlagsByte(f.flags), "flags", "frame.flags")
    \o (IF Feature(f.v, "StreamId16") THEN Lit(Signed(f.stream, 2), "data", "frame.stream")
        ELSE Lit(Signed(f.stream, 1), "data", "frame.stream"))
    \o Byte(KindOpcode(f.msg.kind), "code", "frame.opcode")
    \o Int32(bodyLen, "len32", "frame.length")

FrameChunks(f) == LET b == FrameBody(f) IN FrameHeader(f, ChunksLen(b)) \o b

\* legality of a frame for its version and direction (Appendix A of DESIGN.md)
FrameValid(f) ==
    /\ f.dir = KindDir(f.msg.kind)
    \* (a zero-entry custom payload / warning list under a set flag is what a decoder hands back for such bytes: legal on the wire)
    /\ ("P" \in f.flags => Feature(f.v, "CustomPayload") /\ Has(f.payload))
    /\ ("W" \in f.flags => Feature(f.v, "Warnings") /\ f.dir = "rsp" /\ Has(f.warnings))
    /\ ("T" \in f.flags /\ f.dir = "rsp" => Has(f.tracing))
    /\ (IF Feature(f.v, "StreamId16") THEN f.stream \in -32768..32767 ELSE f.stream \in -128..127)
    /\ (f.msg.kind = "REVISE" => Feature(f.v, "Dse"))

-----------------------------------------------------------------------------
(* value classes *)
Strs == {B_ks, B_empty, B_utf8, B_mid} \cup (IF Thorough THEN {B_long} ELSE {})
NonEmptyStrs == {B_ks, B_utf8, B_mid} \cup (IF Thorough THEN {B_long} ELSE {})
LongStrs == {B_query} \cup (IF Thorough THEN {B_long2, B_empty} ELSE {})
OptBlobs == {<<>>, <<B_empty>>, <<B_blob>>}
Vals(v) == {[t |-> "null"], [t |-> "bytes", b |-> B_blob], [t |-> "bytes", b |-> B_empty]}
           \cup (IF Feature(v, "UnsetValues") THEN {[t |-> "unset"]} ELSE {})
ValLists(v) == {<<>>, <<[t |-> "bytes", b |-> B_blob]>>} \cup {<<x, [t |-> "bytes", b |-> B_a]>> : x \in Vals(v)}
Cls == {c.code : c \in Consistencies}

OptsDefault == [cl |-> 1, vals |-> [mode |-> "none", items |-> <<>>], skip |-> FALSE, page |-> <<>>, pageBytes |-> FALSE,
                pstate |-> <<>>, serial |-> <<>>, ts |-> <<>>, ks |-> <<>>, now |-> <<>>, cont |-> <<>>]

\* every subset of the optional query parameters the version has, with default values ...
OptsSubsets(v) ==
    {[cl |-> 4,
      vals |-> vm, skip |-> sk,
      page |-> pg, pageBytes |-> FALSE,
      pstate |-> ps, serial |-> se, ts |-> ts, ks |-> ks, now |-> nw, cont |-> ct] :
        vm \in {[mode |-> "none", items |-> <<>>], [mode |-> "pos", items |-> <<[t |-> "bytes", b |-> B_blob]>>]},
        sk \in BOOLEAN, pg \in {<<>>, <<100>>}, ps \in {<<>>, <<B_blob>>}, se \in {<<>>, <<8>>},
        ts \in (IF QueryFlagIn(v, "DefaultTimestamp") THEN {<<>>, <<L_one>>} ELSE {<<>>}),
        ks \in (IF QueryFlagIn(v, "WithKeyspace") THEN {<<>>, <<B_ks>>} ELSE {<<>>}),
        nw \in (IF QueryFlagIn(v, "NowInSeconds") THEN {<<>>, <<42>>} ELSE {<<>>}),
        ct \in (IF QueryFlagIn(v, "DseContinuousPaging") THEN {<<>>, <<[max |-> 3, pps |-> 2, next |-> IF Feature(v, "NextPages") THEN 4 ELSE 0]>>} ELSE {<<>>})}
\* ... and one-field-at-a-time value classes around the all-present options
OptsFull(v) == [cl |-> 6, vals |-> [mode |-> "pos", items |-> <<[t |-> "bytes", b |-> B_blob]>>], skip |-> TRUE, page |-> <<5000>>,
                pageBytes |-> FALSE, pstate |-> <<B_blob>>, serial |-> <<9>>,
                ts |-> IF QueryFlagIn(v, "DefaultTimestamp") THEN <<L_2p31>> ELSE <<>>,
                ks |-> IF QueryFlagIn(v, "WithKeyspace") THEN <<B_utf8>> ELSE <<>>,
                now |-> IF QueryFlagIn(v, "NowInSeconds") THEN <<MaxInt>> ELSE <<>>,
                cont |-> IF QueryFlagIn(v, "DseContinuousPaging") THEN <<[max |-> 0, pps |-> MaxInt, next |-> IF Feature(v, "NextPages") THEN 1 ELSE 0]>> ELSE <<>>]
OptsVariants(v) ==
    {[OptsFull(v) EXCEPT !.cl = c] : c \in Cls}
    \cup {[OptsFull(v) EXCEPT !.vals = [mode |-> "pos", items |-> vl]] : vl \in ValLists(v)}
    \cup (IF QueryFlagIn(v, "ValueNames")
          THEN {[OptsFull(v) EXCEPT !.vals = [mode |-> "named", items |-> it]] :
                    it \in {<<>>, <<<<B_a, [t |-> "null"]>>>>, <<<<B_c1, [t |-> "bytes", b |-> B_blob]>>, <<B_c2, [t |-> "bytes", b |-> B_empty]>>>>}}
          ELSE {})
    \cup {[OptsFull(v) EXCEPT !.page = <<p>>] : p \in {1, MaxInt}}
    \cup {[OptsFull(v) EXCEPT !.pstate = ps] : ps \in OptBlobs \ {<<>>}}
    \cup (IF QueryFlagIn(v, "DefaultTimestamp") THEN {[OptsFull(v) EXCEPT !.ts = <<l>>] : l \in Longs} ELSE {})
    \cup (IF QueryFlagIn(v, "NowInSeconds") THEN {[OptsFull(v) EXCEPT !.now = <<n>>] : n \in {0, -1, MinInt}} ELSE {})
    \cup (IF QueryFlagIn(v, "DsePageSizeBytes") THEN {[OptsFull(v) EXCEPT !.pageBytes = TRUE]} ELSE {})
    \cup (IF QueryFlagIn(v, "WithKeyspace") /\ Thorough THEN {[OptsFull(v) EXCEPT !.ks = <<B_long>>]} ELSE {})
Opts(v) == {o \in OptsSubsets(v) \cup OptsVariants(v) \cup {OptsDefault} : QOptsValid(o, v)}

\* column specs and rows metadata
Col(ks, tb, n, t) == [ks |-> ks, table |-> tb, name |-> n, type |-> t]
ColsSame == <<Col(B_ks, B_tb, B_c1, T_int), Col(B_ks, B_tb, B_c2, T_list(T_varchar))>>
ColsDiff == <<Col(B_ks, B_tb, B_c1, T_int), Col(B_ks2, B_tb2, B_c2, T_varchar)>>
ColsOfType(t) == <<Col(B_ks, B_tb, B_c1, t)>>
RowsMetas(v) ==
    {m \in {[count |-> n, pstate |-> ps, newid |-> ni, page |-> pg, last |-> la, cols |-> co] :
            n \in {2}, ps \in {<<>>, <<B_blob>>, <<B_empty>>},
            ni \in (IF Feature(v, "ResultMetadataId") THEN {<<>>, <<B_blob>>} ELSE {<<>>}),
            pg \in (IF Feature(v, "Dse") THEN {<<>>, <<1>>, <<7>>} ELSE {<<>>}),
            la \in BOOLEAN,
            co \in {<<>>, <<ColsSame>>, <<ColsDiff>>}} : RowsMetaValid(m, v) /\ (m.last => Has(m.page))}
    \cup {[count |-> 1, pstate |-> <<>>, newid |-> <<>>, page |-> <<>>, last |-> FALSE, cols |-> <<ColsOfType(t)>>] : t \in TypeTrees(v)}
    \cup {[count |-> 0, pstate |-> <<>>, newid |-> <<>>, page |-> <<>>, last |-> FALSE, cols |-> <<>>]}

RowSets == {<<>>, <<<<<<B_blob>>, <<>>>>>>, <<<<<<B_empty>>, <<B_a>>>>, <<<<>>, <<B_blob>>>>>>}
\* rows have `count` cells each; the metadata decides the count
RowsFor(m) == IF m.count = 2 THEN RowSets
              ELSE IF m.count = 1 THEN {<<>>, <<<<<<B_blob>>>>, <<<<>>>>>>}
              ELSE {<<>>}

TargetB(t) == CASE t = "KEYSPACE" -> LitBlob(<<75, 69, 89, 83, 80, 65, 67, 69>>)
                [] t = "TABLE" -> LitBlob(<<84, 65, 66, 76, 69>>)
                [] t = "TYPE" -> LitBlob(<<84, 89, 80, 69>>)
                [] t = "FUNCTION" -> LitBlob(<<70, 85, 78, 67, 84, 73, 79, 78>>)
                [] t = "AGGREGATE" -> LitBlob(<<65, 71, 71, 82, 69, 71, 65, 84, 69>>)
CTypeB(t) == CASE t = "CREATED" -> LitBlob(<<67, 82, 69, 65, 84, 69, 68>>)
               [] t = "UPDATED" -> LitBlob(<<85, 80, 68, 65, 84, 69, 68>>)
               [] t = "DROPPED" -> LitBlob(<<68, 82, 79, 80, 80, 69, 68>>)
SchemaChanges(v) ==
    {[ctype |-> CTypeB(ct), target |-> TargetB(tg), ks |-> B_ks,
      obj |-> IF tg = "KEYSPACE" THEN B_empty ELSE B_tb,
      args |-> IF tg \in {"FUNCTION", "AGGREGATE"} THEN ar ELSE <<>>] :
        ct \in SchemaChangeTypes, tg \in {t \in SchemaChangeTargets : SchemaTargetIn(v, t)},
        ar \in {<<>>, <<B_ks, B_utf8>>}}

WTypeB(t) == CASE t = "SIMPLE" -> LitBlob(<<83, 73, 77, 80, 76, 69>>)
               [] t = "BATCH" -> LitBlob(<<66, 65, 84, 67, 72>>)
               [] t = "UNLOGGED_BATCH" -> LitBlob(<<85, 78, 76, 79, 71, 71, 69, 68, 95, 66, 65, 84, 67, 72>>)
               [] t = "COUNTER" -> LitBlob(<<67, 79, 85, 78, 84, 69, 82>>)
               [] t = "BATCH_LOG" -> LitBlob(<<66, 65, 84, 67, 72, 95, 76, 79, 71>>)
               [] t = "CAS" -> LitBlob(<<67, 65, 83>>)
               [] t = "VIEW" -> LitBlob(<<86, 73, 69, 87>>)
               [] t = "CDC" -> LitBlob(<<67, 68, 67>>)
EvB(t) == CASE t = "TOPOLOGY_CHANGE" -> LitBlob(<<84, 79, 80, 79, 76, 79, 71, 89, 95, 67, 72, 65, 78, 71, 69>>)
            [] t = "STATUS_CHANGE" -> LitBlob(<<83, 84, 65, 84, 85, 83, 95, 67, 72, 65, 78, 71, 69>>)
            [] t = "SCHEMA_CHANGE" -> LitBlob(<<83, 67, 72, 69, 77, 65, 95, 67, 72, 65, 78, 71, 69>>)
TopoB(t) == CASE t = "NEW_NODE" -> LitBlob(<<78, 69, 87, 95, 78, 79, 68, 69>>)
              [] t = "REMOVED_NODE" -> LitBlob(<<82, 69, 77, 79, 86, 69, 68, 95, 78, 79, 68, 69>>)
              [] t = "MOVED_NODE" -> LitBlob(<<77, 79, 86, 69, 68, 95, 78, 79, 68, 69>>)
StatB(t) == IF t = "UP" THEN LitBlob(<<85, 80>>) ELSE LitBlob(<<68, 79, 87, 78>>)

SimpleErrorCodes == {0, 10, 256, 4097, 4098, 4099, 8192, 8448, 8704, 8960}
Reasons == {<<>>, <<[addr |-> Ip4, code |-> 1]>>, <<[addr |-> Ip6, code |-> 0], [addr |-> Ip4, code |-> 6]>>}

Errors(v) ==
    {[kind |-> "ERROR", code |-> c, msg |-> s] : c \in SimpleErrorCodes, s \in Strs}
    \cup {[kind |-> "ERROR", code |-> 4096, msg |-> B_ks, cl |-> cl, required |-> r, alive |-> 1] : cl \in Cls, r \in {3, MinInt}}
    \cup {[kind |-> "ERROR", code |-> 4352, msg |-> B_ks, cl |-> 1, received |-> 1, blockfor |-> 2, wtype |-> WTypeB(w),
           contentions |-> IF Feature(v, "Contentions") /\ w = "CAS" THEN <<c>> ELSE <<>>] : w \in WriteTypes, c \in {0, 65535}}
    \cup {[kind |-> "ERROR", code |-> 4608, msg |-> B_ks, cl |-> 1, received |-> MaxInt, blockfor |-> 0, data |-> d] : d \in BOOLEAN}
    \cup (IF Gen(v) >= 4 THEN
            {[kind |-> "ERROR", code |-> 4864, msg |-> B_ks, cl |-> 2, received |-> 1, blockfor |-> 2, data |-> d,
              numfail |-> IF Feature(v, "ReasonMap") THEN <<>> ELSE <<n>>,
              reasons |-> IF Feature(v, "ReasonMap") THEN <<r>> ELSE <<>>] : d \in BOOLEAN, n \in {0, 3}, r \in Reasons}
            \cup {[kind |-> "ERROR", code |-> 5376, msg |-> B_ks, cl |-> 2, received |-> 1, blockfor |-> 2, wtype |-> WTypeB(w),
              numfail |-> IF Feature(v, "ReasonMap") THEN <<>> ELSE <<2>>,
              reasons |-> IF Feature(v, "ReasonMap") THEN <<r>> ELSE <<>>] : w \in {"SIMPLE", "CDC"}, r \in Reasons}
            \cup {[kind |-> "ERROR", code |-> 5120, msg |-> B_ks, ks |-> B_ks, func |-> B_tb, args |-> a] : a \in {<<>>, <<B_ks, B_empty>>}}
          ELSE {})
    \cup {[kind |-> "ERROR", code |-> 9216, msg |-> B_ks, ks |-> B_ks, table |-> t] : t \in {B_tb, B_empty}}
    \cup {[kind |-> "ERROR", code |-> 9472, msg |-> B_ks, id |-> i] : i \in {B_blob, B_empty}}

Results(v) ==
    {[kind |-> "RESULT", rk |-> 1]}
    \cup {[kind |-> "RESULT", rk |-> 3, ks |-> s] : s \in NonEmptyStrs}
    \cup {[kind |-> "RESULT", rk |-> 5, ctype |-> sc.ctype, target |-> sc.target, ks |-> sc.ks, obj |-> sc.obj, args |-> sc.args] : sc \in SchemaChanges(v)}
    \cup {[kind |-> "RESULT", rk |-> 2, meta |-> m, rows |-> r] : m \in {x \in RowsMetas(v) : TRUE}, r \in {<<>>}}
    \cup UNION {{[kind |-> "RESULT", rk |-> 2, meta |-> m, rows |-> r] : r \in RowsFor(m)} :
                  m \in {x \in RowsMetas(v) : x.pstate = <<>> /\ x.newid = <<>> /\ x.page = <<>> /\ x.cols \in {<<>>, <<ColsSame>>}}}
    \cup {[kind |-> "RESULT", rk |-> 4, id |-> B_blob,
           rmid |-> IF Feature(v, "ResultMetadataId") THEN <<B_a>> ELSE <<>>,
           vars |-> [pk |-> pk, cols |-> vc], rmeta |-> rm] :
            pk \in (IF Feature(v, "PkIndices") THEN {<<>>, <<0>>, <<1, 0>>} ELSE {<<>>}),
            vc \in {<<>>, ColsSame, ColsDiff},
            rm \in {x \in RowsMetas(v) : x.pstate = <<>> /\ x.newid = <<>> /\ x.page = <<>> /\ x.count \in {0, 2}}}

Events(v) ==
    {[kind |-> "EVENT", et |-> EvB("SCHEMA_CHANGE"), ctype |-> sc.ctype, target |-> sc.target, ks |-> sc.ks, obj |-> sc.obj, args |-> sc.args] : sc \in SchemaChanges(v)}
    \cup {[kind |-> "EVENT", et |-> EvB("STATUS_CHANGE"), change |-> StatB(c), addr |-> a, port |-> 9042] : c \in StatusChangeTypes, a \in {Ip4, Ip6}}
    \cup {[kind |-> "EVENT", et |-> EvB("TOPOLOGY_CHANGE"), change |-> TopoB(c), addr |-> a, port |-> p] :
            c \in {t \in TopologyChangeTypes : TopologyTypeIn(v, t)}, a \in {Ip4, Ip6}, p \in {0, 65535}}

Children(v) == {<<[q |-> <<B_query>>, id |-> <<>>, vals |-> <<>>]>>,
                <<[q |-> <<>>, id |-> <<B_blob>>, vals |-> <<[t |-> "bytes", b |-> B_blob], [t |-> "null"]>>],
                  [q |-> <<B_query>>, id |-> <<>>, vals |-> <<[t |-> "bytes", b |-> B_empty]>>]>>}
               \cup (IF Feature(v, "UnsetValues") THEN {<<[q |-> <<>>, id |-> <<B_a>>, vals |-> <<[t |-> "unset"]>>]>>} ELSE {})
Batches(v) ==
    {[kind |-> "BATCH", type |-> bt, children |-> ch, cl |-> 4, serial |-> se, ts |-> ts, ks |-> ks, now |-> nw] :
        bt \in {b.code : b \in BatchTypes}, ch \in Children(v),
        se \in (IF Feature(v, "BatchFlags") THEN {<<>>, <<9>>} ELSE {<<>>}),
        ts \in (IF Feature(v, "BatchFlags") THEN {<<>>, <<L_max>>} ELSE {<<>>}),
        ks \in (IF QueryFlagIn(v, "WithKeyspace") THEN {<<>>, <<B_ks>>} ELSE {<<>>}),
        nw \in (IF QueryFlagIn(v, "NowInSeconds") THEN {<<>>, <<-5>>} ELSE {<<>>})}

EventNameLists == {<<EvB("SCHEMA_CHANGE")>>, <<EvB("TOPOLOGY_CHANGE"), EvB("STATUS_CHANGE"), EvB("SCHEMA_CHANGE")>>}

Messages(v) ==
    {[kind |-> "STARTUP", options |-> o] : o \in {<<<<LitBlob(<<67, 81, 76, 95, 86, 69, 82, 83, 73, 79, 78>>), LitBlob(<<51, 46, 48, 46, 48>>)>>>>,
                                                 <<<<LitBlob(<<67, 81, 76, 95, 86, 69, 82, 83, 73, 79, 78>>), LitBlob(<<51, 46, 48, 46, 48>>)>>,
                                                   <<LitBlob(<<67, 79, 77, 80, 82, 69, 83, 83, 73, 79, 78>>), LitBlob(<<108, 122, 52>>)>>>>, <<>>}}
    \cup {[kind |-> "OPTIONS"]}
    \cup {[kind |-> "QUERY", query |-> q, opts |-> o] : q \in {B_query}, o \in Opts(v)}
    \cup {[kind |-> "QUERY", query |-> q, opts |-> OptsDefault] : q \in LongStrs}
    \cup {[kind |-> "PREPARE", query |-> B_query, ks |-> k] : k \in (IF Feature(v, "PrepareFlags") THEN {<<>>, <<B_ks>>} ELSE {<<>>})}
    \cup {[kind |-> "EXECUTE", id |-> i, rmid |-> IF Feature(v, "ResultMetadataId") THEN <<B_blob>> ELSE <<>>, opts |-> o] :
            i \in {B_blob}, o \in (IF Thorough THEN Opts(v) ELSE OptsVariants(v) \cup {OptsDefault})}
    \cup Batches(v)
    \cup {[kind |-> "REGISTER", events |-> e] : e \in EventNameLists}
    \cup {[kind |-> "AUTH_RESPONSE", token |-> t] : t \in OptBlobs}
    \cup (IF Feature(v, "Dse") THEN {[kind |-> "REVISE", rtype |-> 1, target |-> t, next |-> <<>>] : t \in {7, -1}} ELSE {})
    \cup (IF v = DSE2 THEN {[kind |-> "REVISE", rtype |-> 2, target |-> 7, next |-> <<n>>] : n \in {0, MaxInt}} ELSE {})
    \cup Errors(v)
    \cup {[kind |-> "READY"]}
    \cup {[kind |-> "AUTHENTICATE", auth |-> s] : s \in NonEmptyStrs}
    \cup {[kind |-> "SUPPORTED", options |-> o] : o \in {<<>>, <<<<B_ks, <<B_a, B_utf8>>>>, <<B_tb, <<>>>>>>}}
    \cup {[kind |-> "AUTH_CHALLENGE", token |-> t] : t \in OptBlobs}
    \cup {[kind |-> "AUTH_SUCCESS", token |-> t] : t \in OptBlobs}
    \cup Results(v)
    \cup Events(v)

\* frames: every message with plain header; every legal flag combination and stream id on one representative per kind
PayloadMaps == {<<<<B_ks, <<B_blob>>>>>>, <<<<B_a, <<>>>>, <<B_c1, <<B_empty>>>>>>, <<>>}
WarningLists == {<<B_ks>>, <<B_utf8, B_empty>>, <<>>}
BaseFrame(v, m) == [v |-> v, dir |-> KindDir(m.kind), stream |-> 1, flags |-> {}, tracing |-> <<>>, payload |-> <<>>, warnings |-> <<>>, msg |-> m]
Representative(v, k) == CHOOSE m \in Messages(v) : m.kind = k
KindsOf(v) == {m.kind : m \in Messages(v)}
FlagFrames(v) ==
    {f \in {[BaseFrame(v, Representative(v, k)) EXCEPT !.flags = fl, !.tracing = IF "T" \in fl /\ KindDir(k) = "rsp" THEN <<Uuid1>> ELSE <<>>,
                                                     !.payload = IF "P" \in fl THEN <<pm>> ELSE <<>>,
                                                     !.warnings = IF "W" \in fl THEN <<wl>> ELSE <<>>, !.stream = st] :
            k \in KindsOf(v), fl \in SUBSET {"T", "P", "W"}, pm \in PayloadMaps, wl \in WarningLists,
            st \in {0, -1, 127, -128} \cup (IF Feature(v, "StreamId16") THEN {128, 32767, -32768} ELSE {})} : FrameValid(f)}
Frames(v) == {BaseFrame(v, m) : m \in Messages(v)} \cup FlagFrames(v)

TextFrames(v) == {BaseFrame(v, [kind |-> "RESULT", rk |-> 2, rows |-> <<>>,
                                 meta |-> [count |-> 1, pstate |-> <<>>, newid |-> <<>>, page |-> <<>>, last |-> FALSE,
                                           cols |-> <<ColsOfType(Scalar(10))>>]])}

VARIABLE x
Init == /\ x = 0
        /\ \A v \in Versions \cap OnlyVersions : \A f \in Frames(v) :
              PrintT(<<"VEC", ToJson([frame |-> f, chunks |-> FrameChunks(f), bodylen |-> ChunksLen(FrameBody(f)), decodeonly |-> FALSE])>>)
        \* the v2 "text" type (0x000A, native_protocol_v2.spec 4.2.5.2) has no representation in the library's type model:
        \* it can only be checked in the decoding direction
        /\ \A v \in {V2} \cap OnlyVersions : \A f \in TextFrames(v) :
              PrintT(<<"VEC", ToJson([frame |-> f, chunks |-> FrameChunks(f), bodylen |-> ChunksLen(FrameBody(f)), decodeonly |-> TRUE])>>)
Next == x' = x
Spec == Init /\ [][Next]_x
=============================================================================

--------------------------- MODULE InFlightLin ---------------------------
(* Trace validation for CONCURRENT executions of the real in-flight handler (binding T for the "schedules"      *)
(* quantifier of C09 / C10 / C16): a history of calls and returns recorded from real goroutines is accepted     *)
(* iff every operation can be given a point between its call and its return at which it takes effect           *)
(* atomically as the property-level specification InFlightAbs says - i.e. iff the history is linearizable       *)
(* with respect to InFlightAbs - with the recorded results, and the final observation of every request and of   *)
(* the id pool agrees with the abstract state reached.                                                          *)
(*   {"a":"reset","trace":k}                                                                                    *)
(*   {"a":"call","t":thread,"op":"M"|"E"|"D"|"C"|"R","k":id,"last":bool,"mark":n}   (R: the caller polls the request  *)
(*                                                    its k-th call was given; ret ok with rid = the frame's mark)  *)
(*   {"a":"call","t":thread,"op":"X","owner":u,"k":c}   a timer goroutine of the request that call c of thread u was   *)
(*                                                    given goes on after its deadline (ret ok: there was one)     *)
(*   {"a":"ret","t":thread,"ok":bool,"rid":id}                                                                   *)
(*   {"a":"obs","closed":bool,"free":[ids],"reqs":[{"t":thread,"c":call number,"id","managed","done","failed",   *)
(*                                                     "frames":[marks]}]}       (last line of a trace)          *)
(* The linearization points are not logged (they are inside the library): Lin(t) is an internal step that TLC    *)
(* places wherever it can.  Every trace starts from its own initial state; a trace is accepted iff its "obs"     *)
(* line is consumed, which prints ACCEPTED; the driver rejects the others.                                       *)
EXTENDS InFlightAbs, TLC, Json, IOUtils

TraceFile == IF "TRACE" \in DOMAIN IOEnv THEN IOEnv.TRACE ELSE "trace.ndjson"
Trace == ndJsonDeserialize(TraceFile)
SeqRange(s) == {s[i] : i \in DOMAIN s}
Starts == {i \in 1..Len(Trace) : Trace[i].a = "reset"}
ThreadNames == {Trace[i].t : i \in {j \in 1..Len(Trace) : Trace[j].a = "call"}}

VARIABLES l,      \* next line to consume
          cur,    \* number of the trace being validated
          th,     \* thread -> [st |-> "idle" | "called" | "lin", e |-> the call line, acc |-> accepted?, tag |-> request tag]
          ncall,  \* thread -> number of calls so far
          tagOf   \* <<thread, call number>> -> tag of the request that call was given (accepted sends only)

lvars == <<pool, reg, rq, aclosed, anframe, l, cur, th, ncall, tagOf>>

Idle == [st |-> "idle"]

LInit == /\ AInit
         /\ \E i \in Starts : l = i + 1 /\ cur = Trace[i].trace
         /\ th = [t \in ThreadNames |-> Idle]
         /\ ncall = [t \in ThreadNames |-> 0]
         /\ tagOf = <<>>

Call == /\ l <= Len(Trace) /\ Trace[l].a = "call"
        /\ LET e == Trace[l] IN
           /\ th[e.t].st = "idle"
           /\ th' = [th EXCEPT ![e.t] = [st |-> "called", e |-> e]]
           /\ ncall' = [ncall EXCEPT ![e.t] = @ + 1]
        /\ l' = l + 1
        /\ UNCHANGED <<avars, cur, tagOf>>

\* A final response that meets a close need not be delivered: C10 promises delivery on a live connection, C16 that
\* every request still awaiting its response is completed with an error. The real operation is then not atomic: its
\* request is unregistered (and its id possibly given back) at one moment - visible to senders at once - and failed
\* at a later one, which must lie within a close: after the close was called (in progress) or took effect.
CloseInProgress == \E u \in ThreadNames : th[u].st \in {"called", "lin"} /\ th[u].e.op = "C"
DropUnregister(t) ==
    /\ th[t].st = "called" /\ th[t].e.op = "D" /\ th[t].e.last
    /\ LET id == th[t].e.k IN
       /\ id \in AllIds /\ ~aclosed /\ reg[id] # 0 /\ ~rq[reg[id]].done
       /\ reg' = [reg EXCEPT ![id] = 0]
       /\ \/ pool' = pool
          \/ rq[reg[id]].managed /\ pool' = pool \cup {id}
       /\ th' = [th EXCEPT ![t] = [st |-> "limbo", e |-> th[t].e, acc |-> FALSE, tag |-> reg[id]]]
    /\ anframe' = anframe + 1
    /\ UNCHANGED <<rq, aclosed, l, cur, ncall, tagOf>>
\* The same two steps occur when the request's timeout fires between them (operation "X"): the timer goroutine has
\* seen its deadline pass, the final response is received and the id given back - a new request may carry it at once -
\* and the timer then fails the request before the frame is handed over. The response met the timeout: either outcome
\* satisfies C10 / C16, provided the request is completed by it.
DropFail(t) ==
    /\ th[t].st = "limbo" /\ (CloseInProgress \/ aclosed \/ rq[th[t].tag].done)
    /\ rq' = [rq EXCEPT ![th[t].tag] = IF @.done THEN @ ELSE [@ EXCEPT !.done = TRUE, !.failed = TRUE, !.silence = 0]]
    /\ th' = [th EXCEPT ![t].st = "lin"]
    /\ UNCHANGED <<pool, reg, aclosed, anframe, l, cur, ncall, tagOf>>

\* Concurrent managed sends each hold a borrowed id from the moment they start until they are registered or give it
\* back: a further send may find the pool empty although fewer than N requests are registered yet. C09 counts those
\* as sends in progress, not as a wrong refusal: the refusal is allowed when registered + other managed sends that have
\* been called and have not returned with a request reach N.
PendingManaged(t) == Cardinality({u \in ThreadNames \ {t} : /\ th[u].st \in {"called", "lin"} /\ th[u].e.op = "M"
                                                             /\ (th[u].st = "lin" => ~th[u].acc)})   \* (refused, not yet returned: may still hold its id)

\* the operation of thread t takes effect now
Lin(t) ==
    /\ th[t].st = "called"
    /\ LET e == th[t].e IN
       /\ CASE e.op = "M" -> ASendManaged \/ (Cardinality(RegIds) + PendingManaged(t) >= N /\ Refuse)
            [] e.op = "E" -> e.k \in AllIds /\ ASendExplicit(e.k)
            [] e.op = "D" -> e.k \in AllIds /\ ADeliverM(e.k, e.last, e.mark)
            [] e.op = "C" -> AClose
            [] e.op = "R" -> UNCHANGED avars      \* takes effect at its return, where the result is known
            \* C16: a timeout fails a request that is still open (and leaves it registered), and does nothing else
            [] e.op = "X" -> \/ UNCHANGED avars
                             \/ /\ <<e.owner, e.k>> \in DOMAIN tagOf /\ ~rq[tagOf[<<e.owner, e.k>>]].done
                                /\ rq' = [rq EXCEPT ![tagOf[<<e.owner, e.k>>]] = [@ EXCEPT !.done = TRUE, !.failed = TRUE, !.silence = 0]]
                                /\ UNCHANGED <<pool, reg, aclosed, anframe>>
       /\ th' = [th EXCEPT ![t] = [st |-> "lin", e |-> e, acc |-> IF e.op = "X" THEN rq' # rq ELSE Len(rq') = Len(rq) + 1, tag |-> Len(rq')]]
    /\ UNCHANGED <<l, cur, ncall, tagOf>>

\* the recorded result agrees with the effect: a send returns a request iff it was accepted, and the request's id is
\* the one the specification registered; results of deliver and close carry no obligation here (the final
\* observation does)
Ret == /\ l <= Len(Trace) /\ Trace[l].a = "ret"
       /\ LET e == Trace[l]
              c == th[e.t] IN
          /\ c.st = "lin"
          /\ c.e.op = "X" => (c.acc => e.ok)       \* no timer goroutine went on: nothing timed out
          /\ c.e.op \in {"M", "E"} => /\ e.ok <=> c.acc
                                      /\ e.ok => rq[c.tag].id = e.rid
          /\ tagOf' = IF c.e.op \in {"M", "E"} /\ e.ok THEN tagOf @@ (<<e.t, ncall[e.t]>> :> c.tag) ELSE tagOf
          /\ th' = [th EXCEPT ![e.t] = Idle]
          \* a frame the caller took out of its request is the next one the specification routed to that request
          /\ IF c.e.op = "R" /\ e.ok
             THEN /\ <<e.t, c.e.k>> \in DOMAIN tagOf
                  /\ LET tg == tagOf[<<e.t, c.e.k>>] IN
                     /\ rq[tg].buf # <<>> /\ Head(rq[tg].buf) = e.rid
                     /\ AReceive(tg)
             ELSE UNCHANGED avars
       /\ l' = l + 1
       /\ UNCHANGED <<cur, ncall>>

\* the final observation: every request a caller holds is in the state the specification says, with exactly the
\* frames the specification routed to it, in order; the pool holds exactly the assignable ids, each once
ObsOK(o) ==
    /\ aclosed = o.closed
    /\ ~o.closed => /\ SeqRange(o.free) = pool
                    /\ Len(o.free) = Cardinality(pool)
    /\ Len(o.reqs) = Cardinality(DOMAIN tagOf)
    /\ \A i \in 1..Len(o.reqs) :
         LET q == o.reqs[i] IN
         /\ <<q.t, q.c>> \in DOMAIN tagOf
         /\ LET r == rq[tagOf[<<q.t, q.c>>]] IN
            /\ r.id = q.id /\ r.managed = q.managed
            /\ r.done = q.done /\ r.failed = q.failed
            /\ r.buf = q.frames

Obs == /\ l <= Len(Trace) /\ Trace[l].a = "obs"
       /\ \A t \in ThreadNames : th[t].st = "idle"
       /\ ObsOK(Trace[l])
       /\ PrintT(<<"ACCEPTED", cur>>)
       /\ l' = l + 1
       /\ UNCHANGED <<avars, cur, th, ncall, tagOf>>

LNext == Call \/ (\E t \in ThreadNames : Lin(t) \/ DropUnregister(t) \/ DropFail(t)) \/ Ret \/ Obs

LSpec == LInit /\ [][LNext]_lvars

\* the property-level invariants hold along every explanation
LinInv == AUnique /\ ARange /\ ABounded
=============================================================================

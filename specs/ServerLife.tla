----------------------------- MODULE ServerLife -----------------------------
(* The life of a CqlServer and of its registry of client connections (client/server.go Start / Close /         *)
(* acceptLoop / Accept / AcceptAny, client/connection.go clientConnectionHandler) - the "or the server" part   *)
(* of C16: closing the server at any moment ends cleanly: Close returns, nothing panics or deadlocks, every     *)
(* accepted connection is closed, later calls are refused.                                                     *)
(*                                                                                                             *)
(* The steps are the calls an application and its peers can make, plus the accept loop's own step (taking one   *)
(* TCP connection off the listener and registering it), which is where the loop can block while holding the     *)
(* registry's lock.  The three booleans select the repaired behaviour (TRUE) or the tree as first found         *)
(* (FALSE; ServerLifeAsFound*.cfg are the negative controls: TLC must find the panic / the stuck Close):        *)
(*   StartFailureCloses   a Start that cannot listen leaves the server closed (not "running" without listener)  *)
(*   NilConnGuard         closing the registry skips holders whose connection never arrived                     *)
(*   AnyChanNonBlocking   announcing an accepted connection on the AcceptAny channel never blocks               *)
EXTENDS Integers, Sequences, FiniteSets, TLC, Json

CONSTANTS Clients,             \* clients that connect to the server (each at most once)
          Strangers,           \* client connections made elsewhere: the application may ask for them, they never arrive
          MaxConn,             \* MaxConnections
          StartFailureCloses, NilConnGuard, AnyChanNonBlocking

VARIABLES state,      \* "new" | "running" | "closed"
          listener,   \* "none" | "open" | "closed"
          hclosed,    \* the registry's closed flag
          holders,    \* client or stranger -> "none" | "waiting" (Accept requested, no connection) | "ready" (connection, not yet handed out) | "taken"
          asked,      \* strangers the application has asked for
          sconn,      \* client -> "none" | "open" | "closed": the server-side connection
          cstate,     \* client -> "idle" | "connected" | "stuck" (TCP established, never registered) | "closed"
          anyq,       \* connections announced on the AcceptAny channel and not yet taken
          loop,       \* "idle" | "blocked" | "exited": the accept loop (blocked: inside onConnectionAccepted, holding the lock)
          panicked, closeStuck, hist
vars == <<state, listener, hclosed, holders, asked, sconn, cstate, anyq, loop, panicked, closeStuck, hist>>
All == Clients \cup Strangers

Init == /\ state = "new" /\ listener = "none" /\ hclosed = FALSE
        /\ holders = [c \in All |-> "none"] /\ asked = {} /\ sconn = [c \in Clients |-> "none"] /\ cstate = [c \in Clients |-> "idle"]
        /\ anyq = 0 /\ loop = "idle" /\ panicked = FALSE /\ closeStuck = FALSE /\ hist = <<>>

Log(e) == hist' = Append(hist, e)
Dead == panicked \/ closeStuck
NHolders == Cardinality({c \in All : holders[c] # "none"})

Start(ok) ==
    /\ ~Dead /\ state = "new"
    /\ IF ok THEN state' = "running" /\ listener' = "open"
       ELSE state' = (IF StartFailureCloses THEN "closed" ELSE "running") /\ listener' = "none"
    /\ Log([a |-> "start", ok |-> ok])
    /\ UNCHANGED <<hclosed, holders, asked, sconn, cstate, anyq, loop, panicked, closeStuck>>

\* a client connects: the accept loop takes the TCP connection and registers it (onConnectionAccepted, under the
\* registry lock) - or rejects it - or blocks for ever announcing it, still holding the lock
Connect(c) ==
    /\ ~Dead /\ state = "running" /\ listener = "open" /\ cstate[c] = "idle"
    /\ IF loop = "blocked" THEN cstate' = [cstate EXCEPT ![c] = "stuck"] /\ UNCHANGED <<holders, sconn, anyq, loop>>
       ELSE IF hclosed \/ (holders[c] = "none" /\ NHolders >= MaxConn)
       THEN cstate' = [cstate EXCEPT ![c] = "closed"] /\ UNCHANGED <<holders, sconn, anyq, loop>>      \* rejected
       ELSE /\ cstate' = [cstate EXCEPT ![c] = "connected"]
            /\ sconn' = [sconn EXCEPT ![c] = "open"]
            /\ holders' = [holders EXCEPT ![c] = "ready"]
            /\ IF anyq < MaxConn THEN anyq' = anyq + 1 /\ UNCHANGED loop
               ELSE IF AnyChanNonBlocking THEN UNCHANGED <<anyq, loop>>
               ELSE loop' = "blocked" /\ UNCHANGED anyq            \* the channel is full: blocks, the lock is never released
    /\ Log([a |-> "connect", c |-> c, ok |-> cstate'[c] = "connected"])
    /\ UNCHANGED <<state, listener, hclosed, asked, panicked, closeStuck>>

\* the application asks for the server side of a connected client (Accept): handed out
AppAccept(c) ==
    /\ ~Dead /\ loop # "blocked" /\ state = "running" /\ cstate[c] = "connected" /\ holders[c] = "ready"
    /\ holders' = [holders EXCEPT ![c] = "taken"]
    /\ Log([a |-> "accept", c |-> c])
    /\ UNCHANGED <<state, listener, hclosed, asked, sconn, cstate, anyq, loop, panicked, closeStuck>>
\* ... or for a connection that was made elsewhere: a holder is registered (if there is room), the call times out, the
\* holder stays
AppAcceptStranger(x) ==
    /\ ~Dead /\ loop # "blocked" /\ state = "running" /\ x \notin asked
    /\ asked' = asked \cup {x}
    /\ holders' = IF hclosed \/ NHolders >= MaxConn THEN holders ELSE [holders EXCEPT ![x] = "waiting"]
    /\ Log([a |-> "accept-stranger", c |-> x])
    /\ UNCHANGED <<state, listener, hclosed, sconn, cstate, anyq, loop, panicked, closeStuck>>

AppAcceptAny ==
    /\ ~Dead /\ state = "running" /\ listener # "none" /\ anyq > 0
    /\ anyq' = anyq - 1
    /\ Log([a |-> "accept-any"])
    /\ UNCHANGED <<state, listener, hclosed, holders, asked, sconn, cstate, loop, panicked, closeStuck>>

\* the peer goes away: the server connection closes itself and unregisters (onConnectionClosed, needs the lock)
ClientClose(c) ==
    /\ ~Dead /\ loop # "blocked" /\ cstate[c] = "connected"
    /\ cstate' = [cstate EXCEPT ![c] = "closed"]
    /\ sconn' = [sconn EXCEPT ![c] = "closed"]
    /\ holders' = IF hclosed THEN holders ELSE [holders EXCEPT ![c] = "none"]
    /\ Log([a |-> "client-close", c |-> c])
    /\ UNCHANGED <<state, listener, hclosed, asked, anyq, loop, panicked, closeStuck>>

\* CqlServer.Close
ServerClose ==
    /\ ~Dead /\ state = "running"
    /\ state' = "closed"
    /\ IF listener = "none" THEN panicked' = TRUE /\ UNCHANGED <<listener, hclosed, holders, sconn, loop, closeStuck>>      \* nil listener
       ELSE IF loop = "blocked" THEN closeStuck' = TRUE /\ listener' = "closed" /\ UNCHANGED <<hclosed, holders, sconn, loop, panicked>>  \* the lock is held for ever
       ELSE IF ~NilConnGuard /\ \E c \in All : holders[c] = "waiting"
            THEN panicked' = TRUE /\ listener' = "closed" /\ hclosed' = TRUE /\ UNCHANGED <<holders, sconn, loop, closeStuck>>  \* holder.conn is nil
       ELSE /\ listener' = "closed" /\ hclosed' = TRUE
            /\ sconn' = [c \in Clients |-> IF sconn[c] = "open" THEN "closed" ELSE sconn[c]]
            /\ holders' = [c \in All |-> "none"]
            /\ loop' = "exited"
            /\ UNCHANGED <<panicked, closeStuck>>
    /\ Log([a |-> "server-close"])
    /\ UNCHANGED <<cstate, anyq, asked>>

Next == Start(TRUE) \/ Start(FALSE) \/ (\E c \in Clients : Connect(c) \/ AppAccept(c) \/ ClientClose(c))
        \/ (\E x \in Strangers : AppAcceptStranger(x)) \/ AppAcceptAny \/ ServerClose
Spec == Init /\ [][Next]_vars

-----------------------------------------------------------------------------
NoPanic == ~panicked
CloseReturns == ~closeStuck
\* once the server is closed every connection it had accepted is closed
AllClosedAfterClose == state = "closed" /\ ~Dead => \A c \in Clients : sconn[c] # "open"
\* the registry never holds more than MaxConnections entries
RegistryBounded == NHolders <= MaxConn

View == <<state, listener, hclosed, holders, asked, sconn, cstate, anyq, loop, panicked, closeStuck>>
Finished == state = "closed" \/ Dead
Emit == Finished => PrintT(<<"LIFE", ToJson([steps |-> hist])>>)
=============================================================================

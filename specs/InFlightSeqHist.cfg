SPECIFICATION Spec
CONSTANTS
  N = 2
  MaxPending = 1
  ExplicitIds = {1, 3}
  UnknownId = 9
  MaxReq = 3
  MaxFrames = 3
  TimeoutQ = 2
  Timed = TRUE
  Acts = {"M","E","D","U","R","C","T"}
  Legacy = {}
  MaxHist = 4
INVARIANTS TypeOK Unique InRange Conserve Bounded Ordered Exclusive DoneConsistent CloseCompletes EmitHist
CHECK_DEADLOCK FALSE

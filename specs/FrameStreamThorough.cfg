SPECIFICATION Spec
CONSTANTS
  NFrames = 3
  MaxLen = 3
  WriteFirst = TRUE
INVARIANTS PrefixOK BoundaryOK Emit
CHECK_DEADLOCK FALSE

--------------------------- MODULE InFlightConc ---------------------------
(* The in-flight request handler (client/inflight.go) with its CONCURRENCY: one process per calling      *)
(* goroutine, one step per stretch of code between two gate points (verifGate, client/verif_hooks.go;      *)
(* gates sit outside every lock, so a goroutine parked at one holds nothing).  This is the model behind    *)
(* the "schedules" quantifier of C09 / C10 / C16: TLC explores every interleaving of the programs below,   *)
(* checks the invariants in every state, and the harness forces each interleaving onto real goroutines,    *)
(* comparing the handler's state after every step (binding R) and validating the call/return history it     *)
(* records against the property-level specification (InFlightLin.tla, binding T).                          *)
(*                                                                                                         *)
(* Progs: thread name -> sequence of operations, executed in order:                                        *)
(*   [op |-> "send", id |-> 0]                  managed send                                               *)
(*   [op |-> "send", id |-> k]                  send with caller-chosen id k                               *)
(*   [op |-> "deliver", id |-> k, last |-> b]   a response frame for id k arrives (final / non-final page)  *)
(*   [op |-> "close"]                                                                                      *)
(*   [op |-> "recv", id |-> k]                  the caller polls the request its k-th operation (a send) was given *)
(*   [op |-> "expire", owner |-> u, id |-> k]   a timer goroutine of the request that the k-th operation of thread u *)
(*                                              (a send) was given has seen its deadline pass and now fails the     *)
(*                                              request with a timeout (time is abstract here: any armed timer may   *)
(*                                              fire at any moment; the harness runs these programs with a read      *)
(*                                              timeout of 1 ns, so that every timer goroutine is at its gate at     *)
(*                                              once and the schedule decides when - and whether - it goes on)        *)
(* Steps and the gate each one ends at ("ret" = the call returns):                                         *)
(*   send:    borrow -> out.borrowed ; check -> out.checked ; add -> out.added ; finish -> ret              *)
(*            (a refused send returns from whichever step refuses it; after a failed check there is no add) *)
(*   deliver: lookup -> in.lookedup ; [remove -> in.removed] ; release -> in.released ; hand -> ret         *)
(*   close:   cas -> close.cas ; drain -> close.drained ; closepool -> ret                                  *)
(*   recv:    one step (a non-blocking receive on the request's channel): "ok" with the next frame, else "err" *)
(*   expire:  one step (timer.fire -> timer.fired: inFlightRequest.close with the timeout error): "ok" if a timer    *)
(*            goroutine of that request was waiting, else "err" (nothing happens)                                    *)
(* Setup names a thread that runs alone first (builds the starting state); "none" for no such thread.      *)
(* CheckUnderLock / CloseOnReleaseFail = TRUE model the repaired tree; FALSE the tree as first found       *)
(* (InFlightConcAsFound*.cfg: TLC must find the violation there - the invariants are not vacuous).         *)
(* SendUnderLock = TRUE: onFrameReceived reads the request's channel field and sends on it under the       *)
(* request's read lock (one step); FALSE (as found): the read and the send are two steps, and a timeout or  *)
(* close in between closes the channel: the send panics (result "panic"; invariant NoPanic).               *)
EXTENDS Integers, Sequences, FiniteSets, TLC, Json

CONSTANTS N, MaxPending, Progs, Setup, CheckUnderLock, CloseOnReleaseFail, SendUnderLock

Threads == DOMAIN Progs
MaxId == N + 2
Ids == 1..MaxId
NoReq == 0

VARIABLES free,     \* the pool of free ids, a FIFO (buffered channel)
          table,    \* id -> index into reqs (0: not registered)
          reqs,     \* every request object ever created
          closed,   \* the handler's closed flag
          ip,       \* thread -> index of its current operation
          pc,       \* thread -> next step of that operation ("idle": about to start it; "done": program finished)
          loc,      \* thread -> locals of the operation in progress
          results   \* thread -> results of its finished operations: [r |-> "ok"|"err", req |-> index or 0]
vars == <<free, table, reqs, closed, ip, pc, loc, results>>

TableIds == {i \in Ids : table[i] # NoReq}
NewReq(id, managed, owner, k) == [id |-> id, managed |-> managed, owner |-> owner, op |-> k, pend |-> <<>>, got |-> <<>>, done |-> FALSE, failed |-> FALSE, ans |-> FALSE, rel |-> FALSE, tm |-> 0]
CloseReq(r, failed) == IF r.done THEN r ELSE [r EXCEPT !.done = TRUE, !.failed = failed]
Op(t) == Progs[t][ip[t]]
First(o) == CASE o.op = "send" -> "borrow" [] o.op = "deliver" -> "lookup" [] o.op = "close" -> "cas" [] o.op = "recv" -> "recv" [] o.op = "expire" -> "fire"
\* timer goroutines are part of the model only in programs that let one of them go on
HasTimers == \E t \in Threads : \E k \in 1..Len(Progs[t]) : Progs[t][k].op = "expire"
\* startTimeout: a new timer goroutine, which sees its deadline pass unless the request is already completed (its
\* context cancelled)
Arm(r) == IF HasTimers /\ ~r.done THEN [r EXCEPT !.tm = @ + 1] ELSE r
NoLoc == [id |-> 0, req |-> 0, err |-> "none"]

Init == /\ free = [i \in 1..N |-> i]
        /\ table = [i \in Ids |-> NoReq]
        /\ reqs = <<>>
        /\ closed = FALSE
        /\ ip = [t \in Threads |-> 1]
        /\ pc = [t \in Threads |-> IF Progs[t] = <<>> THEN "done" ELSE First(Progs[t][1])]
        /\ loc = [t \in Threads |-> NoLoc]
        /\ results = [t \in Threads |-> <<>>]
        /\ PrintT(<<"INIT", ToJson(<<free, table, reqs, closed, ip, pc, loc, results>>)>>)

\* thread t takes a step and parks at the gate that ends it (the step is named by pc[t], the gate by GateOf)
Goto(t, l) ==
    /\ pc' = [pc EXCEPT ![t] = l]
    /\ UNCHANGED <<ip, results>>
\* thread t takes a step that returns r from the operation
Return(t, r, req) ==
    /\ results' = [results EXCEPT ![t] = Append(@, [r |-> r, req |-> req])]
    /\ ip' = [ip EXCEPT ![t] = @ + 1]
    /\ pc' = [pc EXCEPT ![t] = IF ip[t] = Len(Progs[t]) THEN "done" ELSE First(Progs[t][ip[t] + 1])]
GateOf(step) == CASE step = "borrow" -> "out.borrowed" [] step = "check" -> "out.checked" [] step = "add" -> "out.added"
                  [] step = "lookup" -> "in.lookedup" [] step = "remove" -> "in.removed" [] step = "release" -> "in.released"
                  [] step = "cas" -> "close.cas" [] step = "drain" -> "close.drained" [] OTHER -> "ret"

-----------------------------------------------------------------------------
\* send: isClosed ; borrowStreamId
Borrow(t) ==
    /\ pc[t] = "borrow"
    /\ IF closed \/ (Op(t).id = 0 /\ free = <<>>)
       THEN Return(t, "err", 0) /\ UNCHANGED <<free, loc>>
       ELSE /\ IF Op(t).id # 0
               THEN loc' = [loc EXCEPT ![t] = [NoLoc EXCEPT !.id = Op(t).id]] /\ UNCHANGED free
               ELSE free' = Tail(free) /\ loc' = [loc EXCEPT ![t] = [NoLoc EXCEPT !.id = Head(free)]]
            /\ Goto(t, "check")
    /\ UNCHANGED <<table, reqs, closed>>

\* under the read lock: capacity and duplicate check
Check(t) ==
    /\ pc[t] = "check"
    /\ LET e == IF Cardinality(TableIds) = N THEN "full" ELSE IF table[loc[t].id] # NoReq THEN "inuse" ELSE "none" IN
       /\ loc' = [loc EXCEPT ![t].err = e]
       /\ Goto(t, IF e = "none" THEN "add" ELSE "finish")
    /\ UNCHANGED <<free, table, reqs, closed>>

\* addInFlight, under the write lock
Add(t) ==
    /\ pc[t] = "add"
    /\ LET id == loc[t].id
           refuse == closed \/ (CheckUnderLock /\ (Cardinality(TableIds) >= N \/ table[id] # NoReq))
       IN IF refuse
          THEN /\ loc' = [loc EXCEPT ![t].err = "refused"]
               /\ UNCHANGED <<table, reqs>>
          ELSE /\ reqs' = Append(reqs, NewReq(id, Op(t).id = 0, t, ip[t]))
               /\ table' = [table EXCEPT ![id] = Len(reqs) + 1]            \* replaces whatever was registered
               /\ loc' = [loc EXCEPT ![t].req = Len(reqs) + 1]
    /\ Goto(t, "finish")
    /\ UNCHANGED <<free, closed>>

\* start the timer and return the request; or give a borrowed id back and return the error
FinishSend(t) ==
    /\ pc[t] = "finish"
    /\ IF loc[t].err = "none"
       THEN Return(t, "ok", loc[t].req) /\ UNCHANGED free /\ reqs' = [reqs EXCEPT ![loc[t].req] = Arm(@)]
       ELSE /\ Return(t, "err", 0)
            /\ free' = IF Op(t).id = 0 /\ ~closed /\ Len(free) < N THEN Append(free, loc[t].id) ELSE free
            /\ UNCHANGED reqs
    /\ loc' = [loc EXCEPT ![t] = NoLoc]
    /\ UNCHANGED <<table, closed>>

-----------------------------------------------------------------------------
\* deliver: isClosed ; lookup under the read lock
Lookup(t) ==
    /\ pc[t] = "lookup"
    /\ IF closed THEN Return(t, "err", 0) /\ UNCHANGED loc
       ELSE IF table[Op(t).id] = NoReq
            THEN /\ loc' = [loc EXCEPT ![t] = [NoLoc EXCEPT !.err = "unknown"]] /\ Goto(t, "unknown")
            ELSE /\ loc' = [loc EXCEPT ![t] = [NoLoc EXCEPT !.req = table[Op(t).id], !.id = Op(t).id]]
                 /\ Goto(t, IF Op(t).last THEN "remove" ELSE "release")
    /\ UNCHANGED <<free, table, reqs, closed>>

Unknown(t) ==
    /\ pc[t] = "unknown"
    /\ Return(t, "err", 0)
    /\ loc' = [loc EXCEPT ![t] = NoLoc]
    /\ UNCHANGED <<free, table, reqs, closed>>

\* removeInFlight (write lock): deletes whatever is registered under the id now
Remove(t) ==
    /\ pc[t] = "remove"
    /\ table' = [table EXCEPT ![loc[t].id] = NoReq]
    /\ reqs' = [reqs EXCEPT ![loc[t].req].ans = TRUE]       \* (ghost) its final response has arrived
    /\ Goto(t, "release")
    /\ UNCHANGED <<free, closed, loc>>

\* releaseStreamId (final frame of a managed request only); refused once the handler is closed
Release(t) ==
    /\ pc[t] = "release"
    /\ IF ~Op(t).last \/ ~reqs[loc[t].req].managed
       THEN Goto(t, "hand") /\ UNCHANGED <<free, reqs, loc>>
       ELSE IF closed \/ Len(free) >= N
            THEN /\ Return(t, "err", 0)
                 /\ reqs' = IF CloseOnReleaseFail THEN [reqs EXCEPT ![loc[t].req] = CloseReq(@, TRUE)] ELSE reqs
                 /\ loc' = [loc EXCEPT ![t] = NoLoc]
                 /\ UNCHANGED free
            ELSE /\ free' = Append(free, loc[t].id)
                 /\ reqs' = [reqs EXCEPT ![loc[t].req].rel = TRUE]     \* (ghost) its id has been given back
                 /\ Goto(t, "hand") /\ UNCHANGED loc
    /\ UNCHANGED <<table, closed>>

\* inFlightRequest.onFrameReceived: the frame is identified by <<thread, operation index>>
\* the select: the frame goes into the channel (a non-final page re-arms the timer; the final one completes the
\* request); a completed request takes the "context done" branch; a full channel fails the request
HandBody(t) ==
    /\ LET r == reqs[loc[t].req] IN
       IF r.done THEN Return(t, "err", 0) /\ UNCHANGED reqs
       ELSE IF Len(r.pend) < MaxPending
            THEN /\ reqs' = [reqs EXCEPT ![loc[t].req] =
                                IF Op(t).last THEN CloseReq([r EXCEPT !.pend = Append(@, <<t, ip[t]>>)], FALSE)
                                ELSE Arm([r EXCEPT !.pend = Append(@, <<t, ip[t]>>)])]
                 /\ Return(t, "ok", 0)
            ELSE /\ reqs' = [reqs EXCEPT ![loc[t].req] = CloseReq(r, TRUE)] /\ Return(t, "err", 0)
    /\ loc' = [loc EXCEPT ![t] = NoLoc]
    /\ UNCHANGED <<free, table, closed>>

Hand(t) ==
    /\ pc[t] = "hand"
    /\ IF SendUnderLock THEN HandBody(t)
       ELSE \* as found: the channel field is read here ...
            /\ loc' = [loc EXCEPT ![t].err = IF reqs[loc[t].req].done THEN "nil" ELSE "open"]
            /\ Goto(t, "hand2")
            /\ UNCHANGED <<free, table, reqs, closed>>

\* ... and sent on here: a channel that was open when read and has been closed since makes the send panic
Hand2(t) ==
    /\ pc[t] = "hand2"
    /\ IF loc[t].err = "open" /\ reqs[loc[t].req].done
       THEN Return(t, "panic", 0) /\ loc' = [loc EXCEPT ![t] = NoLoc] /\ UNCHANGED <<free, table, reqs, closed>>
       ELSE HandBody(t)

\* a timer goroutine of the request goes on from timer.fire: inFlightRequest.close(timeout error). The request stays
\* registered (only its final response, or close, unregisters it)
Fire(t) ==
    /\ pc[t] = "fire"
    /\ LET o == Op(t)
           i == IF o.owner \in Threads /\ o.id <= Len(results[o.owner]) THEN results[o.owner][o.id].req ELSE 0
       IN IF i # 0 /\ reqs[i].tm > 0
          THEN /\ reqs' = [reqs EXCEPT ![i] = [CloseReq(@, TRUE) EXCEPT !.tm = @ - 1]]
               /\ Return(t, "ok", 0)
          ELSE Return(t, "err", 0) /\ UNCHANGED reqs
    /\ UNCHANGED <<free, table, closed, loc>>

-----------------------------------------------------------------------------
\* close: compare-and-swap on the closed flag
Cas(t) ==
    /\ pc[t] = "cas"
    /\ IF closed THEN Return(t, "ok", 0) /\ UNCHANGED closed
       ELSE closed' = TRUE /\ Goto(t, "drain")
    /\ UNCHANGED <<free, table, reqs, loc>>

\* under the write lock: every registered request is completed with an error and unregistered
Drain(t) ==
    /\ pc[t] = "drain"
    /\ reqs' = [i \in 1..Len(reqs) |-> IF \E id \in Ids : table[id] = i THEN CloseReq(reqs[i], TRUE) ELSE reqs[i]]
    /\ table' = [i \in Ids |-> NoReq]
    /\ Goto(t, "closepool")
    /\ UNCHANGED <<free, closed, loc>>

ClosePool(t) ==
    /\ pc[t] = "closepool"
    /\ Return(t, "ok", 0)
    /\ UNCHANGED <<free, table, reqs, closed, loc>>

\* the whole state (identifies a node of the graph) and what the harness can observe of it
St == <<free, table, reqs, closed, ip, pc, loc, results>>
Proj == [free |-> free, closed |-> closed, table |-> {<<i, table[i]>> : i \in TableIds},
         reqs |-> [i \in 1..Len(reqs) |-> [id |-> reqs[i].id, managed |-> reqs[i].managed, pend |-> reqs[i].pend, done |-> reqs[i].done,
                                            failed |-> reqs[i].failed, owner |-> reqs[i].owner, op |-> reqs[i].op]],
         results |-> results, done |-> \A t \in Threads : pc[t] = "done"]

-----------------------------------------------------------------------------
\* the caller takes the next frame out of the request an earlier send of its own returned, if there is one
Recv(t) ==
    /\ pc[t] = "recv"
    /\ LET k == Op(t).id
           i == IF k <= Len(results[t]) THEN results[t][k].req ELSE 0
       IN IF i # 0 /\ reqs[i].pend # <<>>
          THEN /\ reqs' = [reqs EXCEPT ![i].pend = Tail(@), ![i].got = Append(@, Head(reqs[i].pend))]
               /\ Return(t, "ok", 0)
          ELSE Return(t, "err", 0) /\ UNCHANGED reqs
    /\ UNCHANGED <<free, table, closed, loc>>

Runnable(t) == pc[t] # "done" /\ (Setup \in Threads /\ t # Setup => pc[Setup] = "done")

Next == \E t \in Threads :
          /\ Runnable(t)
          /\ \/ Borrow(t) \/ Check(t) \/ Add(t) \/ FinishSend(t)
             \/ Lookup(t) \/ Unknown(t) \/ Remove(t) \/ Release(t) \/ Hand(t) \/ Hand2(t) \/ Fire(t)
             \/ Cas(t) \/ Drain(t) \/ ClosePool(t) \/ Recv(t)
          \* every transition is printed: the harness walks the graph (all schedules, or a sample that covers every
          \* edge) and forces each walk onto real goroutines
          /\ PrintT(<<"EDGE", ToJson([from |-> St, to |-> St', t |-> t, k |-> ip[t], s |-> pc[t],
                                      at |-> IF ip'[t] # ip[t] THEN "ret" ELSE GateOf(pc[t]),
                                      r |-> IF ip'[t] # ip[t] THEN results'[t][ip[t]].r ELSE "",
                                      obs |-> Proj'])>>)

Spec == Init /\ [][Next]_vars

-----------------------------------------------------------------------------
AllDone == \A t \in Threads : pc[t] = "done"

TypeOK == /\ \A i \in 1..Len(free) : free[i] \in 1..N
          /\ \A i \in Ids : table[i] \in 0..Len(reqs)
          /\ closed \in BOOLEAN

\* the requests handed to callers (indices into reqs) by sends that returned ok
AcceptedIdx == UNION {{results[t][k].req : k \in 1..Len(results[t])} : t \in Threads} \ {0}

\* C09: no two accepted, unanswered requests carry the same id (a request is answered from the moment the receive
\* loop has unregistered it for its final frame: the id is assignable again); managed ids lie in 1..N
Unanswered(i) == ~reqs[i].done /\ ~reqs[i].ans
UniqueAccepted == \A a, b \in AcceptedIdx : a # b /\ Unanswered(a) /\ Unanswered(b) => reqs[a].id # reqs[b].id
InRange == \A i \in 1..Len(reqs) : reqs[i].managed => reqs[i].id \in 1..N
\* C09: never more than N registered
Bounded == Cardinality(TableIds) <= N
\* C09 / C16: at quiescence an accepted request is either completed or still registered (something will complete
\* it: its response, or close); an orphan is a request its caller holds that nothing will ever complete
NoOrphan == AllDone => \A i \in AcceptedIdx : reqs[i].done \/ table[reqs[i].id] = i
\* C09: at quiescence the ids are conserved: free and in-flight managed ids partition 1..N
FreeSet == {free[i] : i \in 1..Len(free)}
Conserved == AllDone /\ ~closed =>
               LET used == {i \in 1..N : table[i] # NoReq /\ reqs[table[i]].managed} IN
               /\ FreeSet \cap used = {}
               /\ FreeSet \cup used = 1..N
               /\ Len(free) = Cardinality(FreeSet)
\* C09: once a request's final response has arrived - the caller can see it completed - its id is assignable again
RecycledWhenSeen == \A i \in 1..Len(reqs) : reqs[i].managed /\ reqs[i].done /\ ~reqs[i].failed => reqs[i].rel
\* C16: once close has returned and everything is quiet, every request ever accepted is completed
ClosedCompletes == AllDone /\ closed => \A i \in AcceptedIdx : reqs[i].done
\* C10: a frame is only ever in a request with the frame's stream id, and in at most one request
Frames(i) == {reqs[i].pend[j] : j \in 1..Len(reqs[i].pend)} \cup {reqs[i].got[j] : j \in 1..Len(reqs[i].got)}
RoutedById == \A i \in 1..Len(reqs) : \A f \in Frames(i) : Progs[f[1]][f[2]].id = reqs[i].id
OnceOnly == /\ \A i, j \in 1..Len(reqs) : i # j => Frames(i) \cap Frames(j) = {}
            /\ \A i \in 1..Len(reqs) : Cardinality(Frames(i)) = Len(reqs[i].pend) + Len(reqs[i].got)
\* C10: a frame whose delivery returned ok is in exactly one request
\* C16: nothing panics
NoPanic == \A t \in Threads : \A k \in 1..Len(results[t]) : results[t][k].r # "panic"
Delivered == \A t \in Threads : \A k \in 1..Len(results[t]) :
               Progs[t][k].op = "deliver" /\ results[t][k].r = "ok" => \E i \in 1..Len(reqs) : <<t, k>> \in Frames(i)

=============================================================================

--------------------------- MODULE InFlightAbs ---------------------------
(* Property-level specification of stream-id management and response routing (C09, C10 and the       *)
(* handler-level part of C16).  It says what the properties say and leaves free what they leave free:*)
(*   - WHICH free id a managed send gets (the pool is a set, not a queue);                            *)
(*   - whether a caller-chosen id is refused for reasons other than a duplicate;                      *)
(*   - what a managed send does while caller-chosen ids are also in flight (mixing is "not            *)
(*     recommended" and the properties are stated for automatic assignment);                          *)
(*   - which error a refusal or failure carries (only error / no error is visible here).              *)
(* (silence is kept at 0 for completed requests so that it carries no information there.)             *)
(* It is the acceptance criterion for traces of the real code (InFlightTrace.tla) and the target of   *)
(* the refinement check of the code-shaped model (InFlightSeq.tla, config InFlightRef.cfg).           *)
EXTENDS Integers, Sequences, FiniteSets

CONSTANTS N, MaxPending, ExplicitIds, UnknownId, TimeoutQ

VARIABLES pool,     \* set of managed ids currently assignable
          reg,      \* id -> tag of the unanswered request carrying it (0 = none)
          rq,       \* all requests ever accepted: [id, managed, buf, done, failed, silence]
          aclosed,  \* handler closed
          anframe   \* frames handed to a registered request so far (numbers them)

avars == <<pool, reg, rq, aclosed, anframe>>

ManagedIds == 1..N
AllIds == ManagedIds \cup ExplicitIds \cup {UnknownId}
RegIds == {i \in AllIds : reg[i] # 0}
ExplicitLive == \E i \in RegIds : ~rq[reg[i]].managed

AInit == /\ pool = ManagedIds
         /\ reg = [i \in AllIds |-> 0]
         /\ rq = <<>>
         /\ aclosed = FALSE
         /\ anframe = 0

NewRq(id, m) == [id |-> id, managed |-> m, buf |-> <<>>, done |-> FALSE, failed |-> FALSE, silence |-> 0]

\* A refused send changes nothing observable.
Refuse == UNCHANGED avars

\* C09: accepted managed request: an id of the pool that no unanswered request carries
AcceptManaged(id) ==
    /\ ~aclosed /\ Cardinality(RegIds) < N
    /\ id \in pool /\ reg[id] = 0
    /\ pool' = pool \ {id}
    /\ reg' = [reg EXCEPT ![id] = Len(rq) + 1]
    /\ rq' = Append(rq, NewRq(id, TRUE))
    /\ UNCHANGED <<aclosed, anframe>>

ASendManaged ==
    \/ \E id \in ManagedIds : AcceptManaged(id)
    \* refusal is allowed only when closed, when N requests are unanswered, or in mixed mode
    \/ (aclosed \/ Cardinality(RegIds) >= N \/ ExplicitLive) /\ Refuse

ASendExplicit(k) ==
    \/ /\ ~aclosed /\ Cardinality(RegIds) < N /\ reg[k] = 0      \* never the id of an unanswered request
       /\ reg' = [reg EXCEPT ![k] = Len(rq) + 1]
       /\ rq' = Append(rq, NewRq(k, FALSE))
       /\ UNCHANGED <<pool, aclosed, anframe>>
    \/ Refuse

\* C10: a response goes to the request registered under its id and to no other
\* (mark identifies the frame in the request's buffer: its arrival number, or any caller-chosen distinct value)
ADeliverM(id, isLast, mark) ==
    IF aclosed \/ reg[id] = 0 THEN UNCHANGED avars                 \* unknown id: dropped, nothing disturbed
    ELSE LET t == reg[id]
             r == rq[t]
             f == mark
             \* what may happen to the addressed request
             appended == [r EXCEPT !.buf = Append(r.buf, f), !.silence = 0, !.done = isLast]
             overflow == [r EXCEPT !.done = TRUE, !.failed = TRUE, !.silence = 0]
         IN /\ anframe' = anframe + 1
            /\ \/ ~r.done /\ Len(r.buf) < MaxPending /\ rq' = [rq EXCEPT ![t] = appended]
               \/ ~r.done /\ Len(r.buf) >= MaxPending /\ rq' = [rq EXCEPT ![t] = overflow]
               \/ r.done /\ rq' = rq                                \* already completed or failed: dropped
            \* C09: on the final response the id becomes assignable again
            /\ reg' = IF isLast THEN [reg EXCEPT ![id] = 0] ELSE reg
            /\ pool' = IF isLast /\ r.managed THEN pool \cup {id} ELSE pool
            /\ UNCHANGED aclosed

ADeliver(id, isLast) == ADeliverM(id, isLast, anframe + 1)

\* frames come out of a request in arrival order, each once
AReceive(t) ==
    /\ t \in 1..Len(rq)
    /\ rq[t].buf # <<>>
    /\ rq' = [rq EXCEPT ![t].buf = Tail(@)]
    /\ UNCHANGED <<pool, reg, aclosed, anframe>>

\* C16: close completes every unanswered request with an error; nothing stays registered
AClose ==
    /\ aclosed' = TRUE
    /\ reg' = [i \in AllIds |-> 0]
    /\ rq' = [t \in 1..Len(rq) |->
                IF (\E i \in AllIds : reg[i] = t) /\ ~rq[t].done
                THEN [rq[t] EXCEPT !.done = TRUE, !.failed = TRUE, !.silence = 0] ELSE rq[t]]
    /\ UNCHANGED <<pool, anframe>>

\* C16: one quantum of silence for every open request; exactly those silent for the whole timeout fail
ATick ==
    /\ rq' = [t \in 1..Len(rq) |->
                IF rq[t].done THEN rq[t]
                ELSE IF rq[t].silence + 1 >= TimeoutQ
                     THEN [rq[t] EXCEPT !.done = TRUE, !.failed = TRUE, !.silence = 0]
                     ELSE [rq[t] EXCEPT !.silence = @ + 1]]
    /\ UNCHANGED <<pool, reg, aclosed, anframe>>

ANext ==
    \/ ASendManaged
    \/ \E k \in AllIds : ASendExplicit(k)
    \/ \E id \in AllIds, l \in BOOLEAN : ADeliver(id, l)
    \/ \E t \in 1..Len(rq) : AReceive(t)
    \/ AClose
    \/ ATick

ASpec == AInit /\ [][ANext]_avars

-----------------------------------------------------------------------------
\* Invariants of the property-level spec itself (checked in InFlightAbs.cfg)
AUnique  == \A a, b \in AllIds : a # b /\ reg[a] # 0 => reg[a] # reg[b]
ARange   == \A t \in 1..Len(rq) : rq[t].managed => rq[t].id \in ManagedIds
AConserve == ~aclosed =>
             /\ pool \cap {i \in RegIds : rq[reg[i]].managed} = {}
             /\ pool \cup {i \in RegIds : rq[reg[i]].managed} = ManagedIds
ABounded == Cardinality(RegIds) <= N
=============================================================================

SPECIFICATION Spec
CONSTANTS
  Thorough = TRUE
  OnlyVersions = {2, 3, 4, 5, 65, 66}
CHECK_DEADLOCK FALSE

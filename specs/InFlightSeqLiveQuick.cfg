SPECIFICATION FairSpec
CONSTANTS
  N = 1
  MaxPending = 2
  ExplicitIds = {1, 2}
  UnknownId = 9
  MaxReq = 2
  MaxFrames = 3
  TimeoutQ = 2
  Timed = TRUE
  Acts = {"M","E","D","U","R","C","T"}
  Legacy = {}
  MaxHist = 0
PROPERTIES EventuallyCompleted
CHECK_DEADLOCK FALSE

------------------------------- MODULE Tables -------------------------------
(* Protocol tables of the CQL native protocol, transcribed from specs/native_protocol_v{2,3,4,5}.spec *)
(* and specs/dse_protocol_v{1,2}.spec.  Single source of truth for every other module (layout specs,  *)
(* C19 capability checks).  Section numbers refer to native_protocol_v5.spec unless stated.           *)
EXTENDS Integers, Sequences, FiniteSets, TLC, Json

-----------------------------------------------------------------------------
(* Versions.  DSE versions have bit 6 set: DSE_V1 = 0x41 = 65, DSE_V2 = 0x42 = 66 (dse_protocol_v1 §2.1). *)
V2 == 2  V3 == 3  V4 == 4  V5 == 5  DSE1 == 65  DSE2 == 66
OssVersions == {V2, V3, V4, V5}
DseVersions == {DSE1, DSE2}
Versions == OssVersions \cup DseVersions
VersionName(v) == CASE v = V2 -> "v2" [] v = V3 -> "v3" [] v = V4 -> "v4" [] v = V5 -> "v5"
                    [] v = DSE1 -> "dse1" [] v = DSE2 -> "dse2"

\* DSE v1 was cut from v4 + some v5 features; DSE v2 from v5-beta.  "AtLeast(v, n)" is the OSS generation
\* a version belongs to: v2=2, v3=3, v4=4, v5=5, dse1=4 (plus listed extras), dse2=5 (minus listed ones).
Gen(v) == CASE v \in OssVersions -> v [] v = DSE1 -> 4 [] v = DSE2 -> 5

-----------------------------------------------------------------------------
(* Opcodes (§2.4) with direction (§4.1 requests, §4.2 responses); REVISE_REQUEST is DSE (dse_v1 §4.1.9). *)
Opcodes == {
  [code |-> 0,   name |-> "ERROR",          dir |-> "rsp", dse |-> FALSE],
  [code |-> 1,   name |-> "STARTUP",        dir |-> "req", dse |-> FALSE],
  [code |-> 2,   name |-> "READY",          dir |-> "rsp", dse |-> FALSE],
  [code |-> 3,   name |-> "AUTHENTICATE",   dir |-> "rsp", dse |-> FALSE],
  [code |-> 5,   name |-> "OPTIONS",        dir |-> "req", dse |-> FALSE],
  [code |-> 6,   name |-> "SUPPORTED",      dir |-> "rsp", dse |-> FALSE],
  [code |-> 7,   name |-> "QUERY",          dir |-> "req", dse |-> FALSE],
  [code |-> 8,   name |-> "RESULT",         dir |-> "rsp", dse |-> FALSE],
  [code |-> 9,   name |-> "PREPARE",        dir |-> "req", dse |-> FALSE],
  [code |-> 10,  name |-> "EXECUTE",        dir |-> "req", dse |-> FALSE],
  [code |-> 11,  name |-> "REGISTER",       dir |-> "req", dse |-> FALSE],
  [code |-> 12,  name |-> "EVENT",          dir |-> "rsp", dse |-> FALSE],
  [code |-> 13,  name |-> "BATCH",          dir |-> "req", dse |-> FALSE],
  [code |-> 14,  name |-> "AUTH_CHALLENGE", dir |-> "rsp", dse |-> FALSE],
  [code |-> 15,  name |-> "AUTH_RESPONSE",  dir |-> "req", dse |-> FALSE],
  [code |-> 16,  name |-> "AUTH_SUCCESS",   dir |-> "rsp", dse |-> FALSE],
  [code |-> 255, name |-> "REVISE_REQUEST", dir |-> "req", dse |-> TRUE] }
OpcodeCodes == {o.code : o \in Opcodes}
OpcodeOf(c) == CHOOSE o \in Opcodes : o.code = c
OpcodeNamed(n) == (CHOOSE o \in Opcodes : o.name = n).code

(* Header flags (§2.2) *)
HeaderFlags == [C |-> 1, T |-> 2, P |-> 4, W |-> 8, B |-> 16]

(* Consistency levels (§3 [consistency]) *)
Consistencies == {
  [code |-> 0,  name |-> "ANY"], [code |-> 1, name |-> "ONE"], [code |-> 2, name |-> "TWO"],
  [code |-> 3,  name |-> "THREE"], [code |-> 4, name |-> "QUORUM"], [code |-> 5, name |-> "ALL"],
  [code |-> 6,  name |-> "LOCAL_QUORUM"], [code |-> 7, name |-> "EACH_QUORUM"], [code |-> 8, name |-> "SERIAL"],
  [code |-> 9,  name |-> "LOCAL_SERIAL"], [code |-> 10, name |-> "LOCAL_ONE"] }
SerialConsistencies == {8, 9}
LocalConsistencies == {6, 9, 10}

(* Error codes (§9) *)
ErrorCodes == {
  [code |-> 0,    name |-> "SERVER_ERROR"],   [code |-> 10,   name |-> "PROTOCOL_ERROR"],
  [code |-> 256,  name |-> "AUTH_ERROR"],     [code |-> 4096, name |-> "UNAVAILABLE"],
  [code |-> 4097, name |-> "OVERLOADED"],     [code |-> 4098, name |-> "IS_BOOTSTRAPPING"],
  [code |-> 4099, name |-> "TRUNCATE_ERROR"], [code |-> 4352, name |-> "WRITE_TIMEOUT"],
  [code |-> 4608, name |-> "READ_TIMEOUT"],   [code |-> 4864, name |-> "READ_FAILURE"],
  [code |-> 5120, name |-> "FUNCTION_FAILURE"], [code |-> 5376, name |-> "WRITE_FAILURE"],
  [code |-> 8192, name |-> "SYNTAX_ERROR"],   [code |-> 8448, name |-> "UNAUTHORIZED"],
  [code |-> 8704, name |-> "INVALID"],        [code |-> 8960, name |-> "CONFIG_ERROR"],
  [code |-> 9216, name |-> "ALREADY_EXISTS"], [code |-> 9472, name |-> "UNPREPARED"] }
FatalErrorCodes == {0, 10, 256}      \* 0x0000, 0x000A, 0x0100: the connection is unusable afterwards
\* READ_FAILURE, FUNCTION_FAILURE, WRITE_FAILURE exist from v4 (native_protocol_v4 §10 changes)
ErrorCodeMinGen(c) == IF c \in {4864, 5120, 5376} THEN 4 ELSE 2

(* Result kinds (§4.2.5) *)
ResultKinds == {[code |-> 1, name |-> "Void"], [code |-> 2, name |-> "Rows"], [code |-> 3, name |-> "SetKeyspace"],
                [code |-> 4, name |-> "Prepared"], [code |-> 5, name |-> "SchemaChange"]}

(* Data type codes ([option] ids, §4.2.5.2) with the OSS generation that introduced them. *)
DataTypes == {
  [code |-> 0,  name |-> "custom",  gen |-> 2], [code |-> 1,  name |-> "ascii",   gen |-> 2],
  [code |-> 2,  name |-> "bigint",  gen |-> 2], [code |-> 3,  name |-> "blob",    gen |-> 2],
  [code |-> 4,  name |-> "boolean", gen |-> 2], [code |-> 5,  name |-> "counter", gen |-> 2],
  [code |-> 6,  name |-> "decimal", gen |-> 2], [code |-> 7,  name |-> "double",  gen |-> 2],
  [code |-> 8,  name |-> "float",   gen |-> 2], [code |-> 9,  name |-> "int",     gen |-> 2],
  [code |-> 10, name |-> "text",    gen |-> 2],            \* v1/v2 only: removed in v3 (native_protocol_v3 §10)
  [code |-> 11, name |-> "timestamp", gen |-> 2], [code |-> 12, name |-> "uuid", gen |-> 2],
  [code |-> 13, name |-> "varchar", gen |-> 2], [code |-> 14, name |-> "varint",  gen |-> 2],
  [code |-> 15, name |-> "timeuuid", gen |-> 2], [code |-> 16, name |-> "inet",   gen |-> 2],
  [code |-> 17, name |-> "date",    gen |-> 4], [code |-> 18, name |-> "time",    gen |-> 4],
  [code |-> 19, name |-> "smallint", gen |-> 4], [code |-> 20, name |-> "tinyint", gen |-> 4],
  [code |-> 21, name |-> "duration", gen |-> 5],           \* v5, and both DSE versions (dse_v1 §4.2.5.2)
  [code |-> 32, name |-> "list",    gen |-> 2], [code |-> 33, name |-> "map",     gen |-> 2],
  [code |-> 34, name |-> "set",     gen |-> 2],
  [code |-> 48, name |-> "udt",     gen |-> 3], [code |-> 49, name |-> "tuple",   gen |-> 3] }
DataTypeCodes == {d.code : d \in DataTypes}
PrimitiveTypeCodes == {d.code : d \in {x \in DataTypes : x.code \in 1..21}}
DataTypeIn(v, c) ==
    /\ c \in DataTypeCodes
    /\ LET d == CHOOSE x \in DataTypes : x.code = c IN
       IF c = 21 THEN v \in {V5, DSE1, DSE2}
       ELSE IF c = 10 THEN v = V2
       ELSE Gen(v) >= d.gen

(* String-typed code sets *)
WriteTypes == {"SIMPLE", "BATCH", "UNLOGGED_BATCH", "COUNTER", "BATCH_LOG", "CAS", "VIEW", "CDC"}   \* §9 0x1100
EventTypes == {"TOPOLOGY_CHANGE", "STATUS_CHANGE", "SCHEMA_CHANGE"}                                \* §4.2.6
SchemaChangeTypes == {"CREATED", "UPDATED", "DROPPED"}
SchemaChangeTargets == {"KEYSPACE", "TABLE", "TYPE", "FUNCTION", "AGGREGATE"}
TopologyChangeTypes == {"NEW_NODE", "REMOVED_NODE", "MOVED_NODE"}
StatusChangeTypes == {"UP", "DOWN"}
Compressions == {"NONE", "LZ4", "SNAPPY"}

\* v2 has no <target> (only keyspace / table); "TYPE" from v3; "FUNCTION", "AGGREGATE" from v4 (v4 §4.2.6)
SchemaTargetIn(v, t) == CASE t \in {"KEYSPACE", "TABLE"} -> TRUE
                          [] t = "TYPE" -> Gen(v) >= 3
                          [] t \in {"FUNCTION", "AGGREGATE"} -> Gen(v) >= 4
                          [] OTHER -> FALSE
\* "MOVED_NODE" appears in native_protocol_v3 §4.2.6; later documents abbreviate the list. Read as: from v3.
TopologyTypeIn(v, t) == CASE t \in {"NEW_NODE", "REMOVED_NODE"} -> TRUE
                          [] t = "MOVED_NODE" -> Gen(v) >= 3
                          [] OTHER -> FALSE
\* snappy was dropped by v5 (§4.1.1: "lz4" only); DSE v2 keeps it (dse_v2 §4.1.1)
CompressionIn(v, c) == CASE c \in {"NONE", "LZ4"} -> TRUE [] c = "SNAPPY" -> v # V5 [] OTHER -> FALSE

BatchTypes == {[code |-> 0, name |-> "LOGGED"], [code |-> 1, name |-> "UNLOGGED"], [code |-> 2, name |-> "COUNTER"]}
BatchChildKinds == {0, 1}
\* <reasonmap> failure codes (§9 0x1300 / 0x1500; dse_v2 adds 5 and 6)
FailureCodes == {[code |-> 0, name |-> "UNKNOWN"], [code |-> 1, name |-> "TOO_MANY_TOMBSTONES_READ"],
                 [code |-> 2, name |-> "INDEX_NOT_AVAILABLE"], [code |-> 3, name |-> "CDC_SPACE_FULL"],
                 [code |-> 4, name |-> "COUNTER_WRITE"], [code |-> 5, name |-> "TABLE_NOT_FOUND"],
                 [code |-> 6, name |-> "KEYSPACE_NOT_FOUND"]}
\* DSE REVISE_REQUEST revision types (dse_v1 §4.1.9: cancel; dse_v2: + more pages)
RevisionTypes == {[code |-> 1, name |-> "CANCEL_CONTINUOUS_PAGING"], [code |-> 2, name |-> "MORE_CONTINUOUS_PAGES"]}
RevisionTypeIn(v, c) == CASE c = 1 -> v \in DseVersions [] c = 2 -> v = DSE2 [] OTHER -> FALSE

(* Query flags (§4.1.4) *)
QueryFlagBits == [Values |-> 1, SkipMetadata |-> 2, PageSize |-> 4, PagingState |-> 8, SerialConsistency |-> 16,
                  DefaultTimestamp |-> 32, ValueNames |-> 64, WithKeyspace |-> 128, NowInSeconds |-> 256]
\* DSE: 0x40000000 page size in bytes, 0x80000000 continuous paging options (dse_v1 §4.1.4) -- bits 30 and 31
QueryFlagIn(v, f) ==
    CASE f \in {"Values", "SkipMetadata", "PageSize", "PagingState", "SerialConsistency"} -> TRUE
      [] f \in {"DefaultTimestamp", "ValueNames"} -> Gen(v) >= 3
      [] f = "WithKeyspace" -> v \in {V5, DSE2}
      [] f = "NowInSeconds" -> v = V5
      [] f \in {"DsePageSizeBytes", "DseContinuousPaging"} -> v \in DseVersions
      [] OTHER -> FALSE
QueryFlagNames == {"Values", "SkipMetadata", "PageSize", "PagingState", "SerialConsistency", "DefaultTimestamp",
                   "ValueNames", "WithKeyspace", "NowInSeconds", "DsePageSizeBytes", "DseContinuousPaging"}

-----------------------------------------------------------------------------
(* The capability matrix. *)
Features == {"StreamId16", "Coll32", "QueryFlags32", "BatchFlags", "PrepareFlags", "ResultMetadataId", "ReasonMap",
             "Contentions", "UnsetValues", "CustomPayload", "Warnings", "ModernFraming", "PkIndices", "Dse",
             "NextPages"}
Feature(v, f) ==
    CASE f = "StreamId16"       -> Gen(v) >= 3                 \* v3 §2.3: stream id is a [short]
      [] f = "Coll32"           -> Gen(v) >= 3                 \* v3 §6: collection sizes are [int]
      [] f = "QueryFlags32"     -> v \in {V5, DSE1, DSE2}      \* v5 §4.1.4, dse_v1 §4.1.4: <flags> is an [int]
      [] f = "BatchFlags"       -> Gen(v) >= 3                 \* v3 §4.1.7
      [] f = "PrepareFlags"     -> v \in {V5, DSE2}            \* v5 §4.1.5, dse_v2 §4.1.5
      [] f = "ResultMetadataId" -> v \in {V5, DSE2}            \* v5 §4.1.6 / §4.2.5.4
      [] f = "ReasonMap"        -> v \in {V5, DSE1, DSE2}      \* v5 §9, dse_v1 §9
      [] f = "Contentions"      -> v = V5                      \* v5 §9 0x1100 CAS
      [] f = "UnsetValues"      -> Gen(v) >= 4                 \* v4 §3 [value] -2
      [] f = "CustomPayload"    -> Gen(v) >= 4                 \* v4 §2.2 flag 0x04
      [] f = "Warnings"         -> Gen(v) >= 4                 \* v4 §2.2 flag 0x08
      [] f = "PkIndices"        -> Gen(v) >= 4                 \* v4 §4.2.5.4 <pk_count>
      [] f = "ModernFraming"    -> v = V5                      \* v5 §2 (checksummed segments)
      [] f = "Dse"              -> v \in DseVersions
      [] f = "NextPages"        -> v = DSE2                    \* dse_v2 §4.1.4 continuous paging <next_pages>
      [] OTHER -> FALSE
HeaderLen(v) == IF Feature(v, "StreamId16") THEN 9 ELSE 8

-----------------------------------------------------------------------------
(* Self-consistency of the transcription (checked by TLC when the module is loaded). *)
ASSUME \A a, b \in Opcodes : a.code = b.code => a = b
ASSUME \A a, b \in Opcodes : a.name = b.name => a = b
ASSUME \A o \in Opcodes : o.dir \in {"req", "rsp"}
ASSUME \A S \in {Consistencies, ErrorCodes, ResultKinds, BatchTypes, FailureCodes, RevisionTypes} :
          \A a, b \in S : (a.code = b.code \/ a.name = b.name) => a = b
ASSUME \A a, b \in DataTypes : (a.code = b.code \/ a.name = b.name) => a = b
\* OSS features are monotone in the version, except text (removed in v3) and snappy (removed in v5)
ASSUME \A f \in Features : \A a, b \in OssVersions : a < b /\ Feature(a, f) => Feature(b, f)
ASSUME \A c \in DataTypeCodes \ {10} : \A a, b \in OssVersions : a < b /\ DataTypeIn(a, c) => DataTypeIn(b, c)

\* Everything the harness needs, as one JSON document.
AsJson == ToJson([
  versions |-> [v \in Versions |-> VersionName(v)],
  opcodes |-> Opcodes, consistencies |-> Consistencies, serial |-> SerialConsistencies, local |-> LocalConsistencies,
  errors |-> ErrorCodes, fatal |-> FatalErrorCodes, results |-> ResultKinds,
  datatypes |-> {[code |-> d.code, name |-> d.name, versions |-> {v \in Versions : DataTypeIn(v, d.code)}] : d \in DataTypes},
  primitive |-> PrimitiveTypeCodes,
  writetypes |-> WriteTypes, eventtypes |-> EventTypes, schematypes |-> SchemaChangeTypes,
  schematargets |-> {[name |-> t, versions |-> {v \in Versions : SchemaTargetIn(v, t)}] : t \in SchemaChangeTargets},
  topologytypes |-> {[name |-> t, versions |-> {v \in Versions : TopologyTypeIn(v, t)}] : t \in TopologyChangeTypes},
  statustypes |-> StatusChangeTypes,
  compressions |-> {[name |-> c, versions |-> {v \in Versions : CompressionIn(v, c)}] : c \in Compressions},
  batchtypes |-> BatchTypes, batchchild |-> BatchChildKinds, failurecodes |-> FailureCodes,
  revisiontypes |-> {[code |-> r.code, name |-> r.name, versions |-> {v \in Versions : RevisionTypeIn(v, r.code)}] : r \in RevisionTypes},
  queryflags |-> {[name |-> f, versions |-> {v \in Versions : QueryFlagIn(v, f)}] : f \in QueryFlagNames},
  features |-> {[name |-> f, versions |-> {v \in Versions : Feature(v, f)}] : f \in Features},
  headerlen |-> {[v |-> v, n |-> HeaderLen(v)] : v \in Versions} ])
=============================================================================

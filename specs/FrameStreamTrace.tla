--------------------------- MODULE FrameStreamTrace ---------------------------
(* Trace validation for byte streams of RANDOM frames (binding T of C01 / C03 / C05): the harness takes the     *)
(* concrete frames of the TLC vectors, replaces the contents of their strings and byte fields by random ones    *)
(* (lengths 0 .. 65535 for [string], up to 200000 for [long string] / [bytes]; compressible and incompressible), *)
(* writes random sequences of them back-to-back on one stream through randomly chosen writer paths, reads the    *)
(* stream back through randomly chosen reader paths, and records one line per event:                             *)
(*   {"a":"reset","trace":k}                                                                                     *)
(*   {"a":"write","d":digest,"len":bytes emitted}       (digest: hash of the frame's abstract projection)        *)
(*   {"a":"read","d":digest of what was obtained,"pos":bytes consumed so far,"full":bool}                        *)
(*            (full = FALSE: only the header was decoded and the body discarded; the digest is then not compared) *)
(*   {"a":"refused","d":error}                          the encoder refused a frame (its contents are within   *)
(*                                                      what the notations can carry: never expected)           *)
(*   {"a":"end","left":bytes left in the stream}                                                                  *)
(* The specification is the FIFO of FrameStream.tla: what is read is what was written, in order (C01), every      *)
(* read leaves the reader exactly at a frame boundary - the sum of the emitted lengths (C03 / C05) - and nothing  *)
(* is left over or short at the end.                                                                              *)
EXTENDS Integers, Sequences, TLC, Json, IOUtils

TraceFile == IF "TRACE" \in DOMAIN IOEnv THEN IOEnv.TRACE ELSE "framestream.ndjson"
Trace == ndJsonDeserialize(TraceFile)

VARIABLES l,        \* next line
          sent,     \* <<[d, len]>> of the current stream
          nread,    \* frames read
          pos,      \* boundary after the frames read so far
          bad       \* set of <<trace number, line, reason>>
vars == <<l, sent, nread, pos, bad>>
VARIABLE cur

Init == l = 1 /\ sent = <<>> /\ nread = 0 /\ pos = 0 /\ bad = {} /\ cur = 0

Reject(why) == bad' = bad \cup {<<cur, l, why>>}

Step ==
    /\ l <= Len(Trace)
    /\ LET e == Trace[l] IN
       CASE e.a = "reset" -> /\ sent' = <<>> /\ nread' = 0 /\ pos' = 0 /\ cur' = e.trace /\ UNCHANGED bad
         [] e.a = "write" -> /\ sent' = Append(sent, [d |-> e.d, len |-> e.len]) /\ UNCHANGED <<nread, pos, bad, cur>>
         [] e.a = "read" ->
              IF nread >= Len(sent)
              THEN Reject("read-beyond-written") /\ UNCHANGED <<sent, nread, pos, cur>>
              ELSE LET w == sent[nread + 1] IN
                   /\ nread' = nread + 1
                   /\ pos' = pos + w.len
                   /\ IF e.full /\ e.d # w.d THEN Reject("frame-differs")
                      ELSE IF e.pos # pos + w.len THEN Reject("not-at-boundary")
                      ELSE UNCHANGED bad
                   /\ UNCHANGED <<sent, cur>>
         [] e.a = "refused" -> /\ Reject("encoder-refused") /\ UNCHANGED <<sent, nread, pos, cur>>
         [] e.a = "end" ->
              /\ IF nread # Len(sent) THEN Reject("frames-missing")
                 ELSE IF e.left # 0 THEN Reject("bytes-left-over")
                 ELSE UNCHANGED bad
              /\ UNCHANGED <<sent, nread, pos, cur>>
    /\ l' = l + 1

Done == /\ l = Len(Trace) + 1
        /\ PrintT(<<"REJECTED", ToJson([n |-> Len(Trace), bad |-> bad])>>)
        /\ l' = l + 1
        /\ UNCHANGED <<sent, nread, pos, bad, cur>>

Next == Step \/ Done
Spec == Init /\ [][Next]_<<vars, cur>>
=============================================================================

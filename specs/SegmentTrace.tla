---------------------------- MODULE SegmentTrace ----------------------------
(* Trace validation for C06: segments emitted by the REAL segment codec (recorded by harness c06 as one  *)
(* ndjson event each: payload length n, transmitted length t, flag, compressor, header bytes, CRC-24     *)
(* bytes, CRC-32 bytes and -- for short ones -- the transmitted payload) are checked against the layout   *)
(* operators of Segment.tla.  Stateless: every event is judged on its own; the indices of the events the  *)
(* specification does not accept are printed.                                                             *)
EXTENDS Segment, Json, IOUtils

TraceFile == IF "TRACE" \in DOMAIN IOEnv THEN IOEnv.TRACE ELSE "segments.ndjson"
Trace == ndJsonDeserialize(TraceFile)

Accepts(e) ==
    /\ e.n \in 0..MaxPayload /\ e.t \in 0..MaxPayload
    /\ IF e.comp = "none"
       THEN e.t = e.n /\ GoodUncompressedHeader(e.h, e.crc, e.n, e.sc)
       ELSE GoodCompressedHeader(e.h, e.crc, e.n, e.t, e.sc)
    /\ e.hasp => Len(e.payload) = e.t /\ e.pcrc = Crc32Bytes(e.payload)

Rejected == {i \in 1..Len(Trace) : ~Accepts(Trace[i])}

VARIABLE x
Init == x = 0 /\ PrintT(<<"REJECTED", ToJson([n |-> Len(Trace), bad |-> Rejected])>>)
Next == x' = x
Spec == Init /\ [][Next]_x
=============================================================================

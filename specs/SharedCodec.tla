----------------------------- MODULE SharedCodec -----------------------------
(* C18: codecs can be shared by concurrent goroutines.                                                      *)
(*                                                                                                          *)
(* The property-level statement.  A codec (frame, raw, segment, message, CQL value codec, compressor) has   *)
(* NO variable: nothing a call does is remembered by the codec.  Threads t \in Threads each make up to      *)
(* Calls calls; the only observable behaviour is                                                            *)
(*         Call(t, op, arg)  ...  Return(t) with result res                                                 *)
(* and the only requirement is   ReturnOK(op, arg, res)  ==  res = F(op, arg)   for ONE deterministic,       *)
(* uninterpreted function F -- the function the same calls compute when made one after another -- whatever  *)
(* the interleaving of the other threads' calls.                                                            *)
(*                                                                                                          *)
(* Two configurations:                                                                                      *)
(*   SharedCodecStateless.cfg  Scratch = FALSE: the specification itself.  TLC checks ResultsCorrect over   *)
(*                             all interleavings (it holds: the model has no shared variable to go wrong).  *)
(*   SharedCodecScratch.cfg    Scratch = TRUE: the design mistake the property guards against -- the codec  *)
(*                             keeps ONE scratch buffer, filled from the arguments when a call starts and   *)
(*                             read when the call produces its result.  TLC must FIND the interleaving      *)
(*                             Call(t1,a) Call(t2,b) Return(t1) in which t1 returns F(b).  This is the      *)
(*                             non-vacuity demonstration: ResultsCorrect is violated there, and the check   *)
(*                             driver treats "not violated" as an infrastructure error.                    *)
(*                                                                                                          *)
(* F is a CONSTANT operator.  The model configurations substitute the free (Herbrand) interpretation        *)
(* TermF(op, arg) = <<"F", op, arg>>: an uninterpreted function is modelled by its own application term, so *)
(* F is injective and any mix-up of arguments between two calls is visible in the result.                   *)
(* SharedCodecTrace.tla substitutes the F recorded from a sequential run of the real code.                  *)
(*                                                                                                          *)
(* What this module does not say: anything about memory-level data races (observed by the Go race detector, *)
(* not by TLA+), DESIGN §4 C18.                                                                             *)
EXTENDS Integers, FiniteSets, TLC

CONSTANTS Threads,      \* goroutines sharing the codec
          Ops,          \* operations (e.g. "frame.encode", "varint.decode")
          Args,         \* argument values (digests of the caller's own frame / segment / value)
          Calls,        \* calls made by each thread
          Scratch       \* FALSE: stateless codec (the specification); TRUE: codec with a shared scratch buffer
CONSTANT F(_, _)        \* the uninterpreted, deterministic function computed by the codec

TermF(op, arg) == <<"F", op, arg>>

(* The whole property, as a predicate on one Call/Return pair. *)
ReturnOK(op, arg, res) == res = F(op, arg)

None == [none |-> TRUE]

VARIABLES pc,        \* pc[t] \in {"idle", "busy"}
          cur,       \* cur[t]: the call in progress -- op and arg live on the CALLER's stack, private to t
          done,      \* done[t]: calls completed by t
          last,      \* last[t]: the most recent observable Call/Return pair of t: [op, arg, res], or None
          scratch    \* the codec's shared buffer; constant None unless Scratch
vars == <<pc, cur, done, last, scratch>>

Init ==
    /\ pc = [t \in Threads |-> "idle"]
    /\ cur = [t \in Threads |-> None]
    /\ done = [t \in Threads |-> 0]
    /\ last = [t \in Threads |-> None]
    /\ scratch = None

Call(t, op, arg) ==
    /\ pc[t] = "idle" /\ done[t] < Calls
    /\ pc' = [pc EXCEPT ![t] = "busy"]
    /\ cur' = [cur EXCEPT ![t] = [op |-> op, arg |-> arg]]
    /\ scratch' = IF Scratch THEN [op |-> op, arg |-> arg] ELSE scratch     \* the mistake: arguments parked in the codec
    /\ UNCHANGED <<done, last>>

(* What the call computes: from its own arguments (stateless), or from whatever the shared buffer holds now. *)
Input(t) == IF Scratch THEN scratch ELSE cur[t]

Return(t) ==
    /\ pc[t] = "busy"
    /\ LET src == Input(t) IN
       last' = [last EXCEPT ![t] = [op |-> cur[t].op, arg |-> cur[t].arg, res |-> F(src.op, src.arg)]]
    /\ pc' = [pc EXCEPT ![t] = "idle"]
    /\ cur' = [cur EXCEPT ![t] = None]
    /\ done' = [done EXCEPT ![t] = @ + 1]
    /\ UNCHANGED scratch

Next == \E t \in Threads : (\E op \in Ops, arg \in Args : Call(t, op, arg)) \/ Return(t)

Spec == Init /\ [][Next]_vars

TypeOK ==
    /\ pc \in [Threads -> {"idle", "busy"}]
    /\ done \in [Threads -> 0..Calls]
    /\ \A t \in Threads : (pc[t] = "busy") <=> (cur[t] # None)
    /\ ~Scratch => scratch = None

(* Every returned result equals F(op, arg) of the caller's OWN call, whatever the interleaving. *)
ResultsCorrect == \A t \in Threads : last[t] # None => ReturnOK(last[t].op, last[t].arg, last[t].res)
=============================================================================

\* Trace validation uses SharedCodec's acceptance predicate ReturnOK with F read from the trace; the state machine
\* itself is not run (no threads).  Threads / Ops / Args must stay plain values here: substituting trace-derived
\* definitions for them defeats TLC's caching of the constant definitions (Trace, Graph, FTab) -- 600 events took 50 s.
SPECIFICATION TraceSpec
CONSTANTS
    Threads = {}
    Ops = {}
    Args = {}
    Calls = 0
    Scratch = FALSE
    F <- TraceF
CHECK_DEADLOCK FALSE

SPECIFICATION Spec
CONSTANT Thorough = TRUE
CHECK_DEADLOCK FALSE

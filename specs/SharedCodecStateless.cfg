SPECIFICATION Spec
CONSTANTS
    Threads = {t1, t2, t3}
    Ops = {"enc", "dec"}
    Args = {7}
    Calls = 2
    Scratch = FALSE
    F <- TermF
INVARIANTS TypeOK ResultsCorrect
CHECK_DEADLOCK FALSE

SPECIFICATION Spec
CONSTANTS
  Senders = {"s1", "s2"}
  Closers = {"c1", "c2"}
  NEvents = 2
  Cap = 1
  Locked = TRUE
  CloseOnCtxDone = FALSE
INVARIANTS AllCompleted

CHECK_DEADLOCK FALSE

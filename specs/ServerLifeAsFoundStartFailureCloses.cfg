SPECIFICATION Spec
CONSTANTS
  Clients = {"c1", "c2", "c3"}
  Strangers = {"x1"}
  MaxConn = 2
  StartFailureCloses = FALSE
  NilConnGuard = TRUE
  AnyChanNonBlocking = TRUE
INVARIANTS NoPanic CloseReturns
VIEW View
CHECK_DEADLOCK FALSE

SPECIFICATION Spec
CONSTANT OtherComps = {"lz4", "Snappy", "zstd"}
CONSTANT StrVals = {"", "a"}
INVARIANTS TypeOK CqlVersionKept
PROPERTIES SetGet Frame
CHECK_DEADLOCK FALSE

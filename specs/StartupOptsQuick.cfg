SPECIFICATION Spec
CONSTANT StrVals = {"", "a"}
INVARIANTS TypeOK CqlVersionKept
PROPERTIES SetGet Frame
CHECK_DEADLOCK FALSE

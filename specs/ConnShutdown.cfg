SPECIFICATION FairSpec
CONSTANTS
  Senders = {"s1", "s2"}
  Closers = {"c1", "c2"}
  NEvents = 2
  Cap = 1
  Locked = TRUE
  CloseOnCtxDone = TRUE
INVARIANTS NoPanic NoStuckLoop LaterSendsRefused CompletedAtClose AllCompleted
PROPERTIES CloseTerminates EnqueueWhileOpen DoneMeansCompleted NoRegistrationAfterDone
CHECK_DEADLOCK FALSE

SPECIFICATION Spec
CONSTANT Thorough = FALSE
CHECK_DEADLOCK FALSE

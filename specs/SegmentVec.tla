----------------------------- MODULE SegmentVec -----------------------------
(* Vectors for C06: TLC evaluates the Segment.tla operators on the case space and prints, per case, the  *)
(* bytes the v5 framing prescribes.  The harness feeds the same cases to segment.Codec and compares.       *)
EXTENDS Segment, Json

CONSTANT Thorough

RECURSIVE Pow2(_)
Pow2(k) == IF k = 0 THEN 1 ELSE 2 * Pow2(k - 1)

Boundary == {0, 1, 2, 3} \cup UNION {{Pow2(k) - 1, Pow2(k), Pow2(k) + 1} : k \in 2..16} \cup {131070, 131071}
Lengths == {n \in Boundary : n <= MaxPayload}

\* payload contents by class (the harness builds the same bytes from the class name)
Content(class, n) == [i \in 1..n |->
    CASE class = "zeros" -> 0
      [] class = "ones"  -> 255
      [] class = "inc"   -> (i - 1) % 256
      [] class = "p3"    -> <<171, 205, 239>>[((i - 1) % 3) + 1]
      [] class = "mix"   -> ((i * 37) + (i \div 3) * 101 + 13) % 256]
Classes == {"zeros", "ones", "inc", "p3", "mix"}
ShortLens == IF Thorough THEN 0..40 ELSE 0..12

HdrU == {[kind |-> "hdrU", len |-> n, sc |-> sc] : n \in Lengths, sc \in BOOLEAN}
HdrC == {[kind |-> "hdrC", cLen |-> c, uLen |-> u, sc |-> sc] :
            c \in {0, 1, 2, 255, 256, 257, 65535, 65536, 131070, 131071}, u \in {0, 1, 300, 65536, 131071}, sc \in BOOLEAN}
Full == {[kind |-> "full", class |-> cl, len |-> n, sc |-> sc] : cl \in Classes, n \in ShortLens, sc \in BOOLEAN}
\* raw-fallback compressed-format segments (what a compressing codec must emit when compression does not help)
Raw == {[kind |-> "raw", class |-> cl, len |-> n, sc |-> sc] : cl \in {"inc", "mix"}, n \in 0..8, sc \in BOOLEAN}
Refuse == {[kind |-> "refuse", len |-> n] : n \in {131072, 131073, 200000}}

Vec(c) ==
    CASE c.kind = "hdrU" -> [case |-> c, bytes |-> LET h == HeaderUncompressed(c.len, c.sc) IN h \o Le24(Crc24(h))]
      [] c.kind = "hdrC" -> [case |-> c, bytes |-> LET h == HeaderCompressed(c.cLen, c.uLen, c.sc) IN h \o Le24(Crc24(h))]
      [] c.kind = "full" -> [case |-> c, bytes |-> SegUncompressed(Content(c.class, c.len), c.sc)]
      [] c.kind = "raw"  -> [case |-> c, bytes |-> SegCompressed(Content(c.class, c.len), 0, c.sc)]
      [] c.kind = "refuse" -> [case |-> c, bytes |-> <<>>]

Cases == HdrU \cup HdrC \cup Full \cup Raw \cup Refuse

VARIABLE x
Init == x = 0 /\ \A c \in Cases : PrintT(<<"VEC", ToJson(Vec(c))>>)
Next == x' = x
Spec == Init /\ [][Next]_x
=============================================================================

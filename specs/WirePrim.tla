------------------------------ MODULE WirePrim ------------------------------
(* The primitive notations of the native protocol (native_protocol_v5.spec §3 and the same section of   *)
(* the older documents), as operators from abstract values to CHUNK SEQUENCES.                          *)
(*                                                                                                     *)
(* A chunk is one of                                                                                    *)
(*   [k |-> "b",   v |-> <<bytes>>, role |-> r, name |-> n]   literal bytes                              *)
(*   [k |-> "rep", c |-> byte, n |-> count]                    count copies of one byte (long strings)   *)
(*   [k |-> "unordered", v |-> {chunk sequences}]              all of them, in any order (map entries)   *)
(*   [k |-> "alt", v |-> {chunk sequences}]                    exactly one of them (encoder's choice)    *)
(* role is what the field means for the length / mutation checks (C03, C04):                            *)
(*   "len16" "len32" "count16" "count32" "code" "flags" "data".                                          *)
(* Byte strings (used for [string], [bytes], ...) are abstract "blobs": either literal                  *)
(*   [t |-> "lit", b |-> <<bytes>>]  or run-length  [t |-> "rep", c |-> byte, n |-> count]               *)
(* so that 65535-byte strings do not need 65535-element TLA+ sequences.                                  *)
(* TLC integers are 32-bit: [int] is two's complement on TLC ints; [long] values are carried as 8 bytes. *)
EXTENDS Integers, Sequences, SequencesExt, FiniteSets, FiniteSetsExt, TLC

\* ---------------------------------------------------------------- bytes of integers
RECURSIVE BE(_, _)
\* big-endian bytes of n >= 0, w bytes wide
BE(n, w) == IF w = 0 THEN <<>> ELSE BE(n \div 256, w - 1) \o <<n % 256>>

Complement(bytes) == [i \in 1..Len(bytes) |-> 255 - bytes[i]]
\* two's complement, w bytes, for -2^31 <= n < 2^31 (w = 2: -2^15..2^15-1 or 0..65535 for unsigned use BE)
Signed(n, w) == IF n >= 0 THEN BE(n, w) ELSE Complement(BE(-(n + 1), w))

\* ---------------------------------------------------------------- chunks
Lit(bytes, role, name) == <<[k |-> "b", v |-> bytes, role |-> role, name |-> name]>>
Data(bytes) == IF bytes = <<>> THEN <<>> ELSE Lit(bytes, "data", "")
Unordered(S) == <<[k |-> "unordered", v |-> S]>>
Alt(S) == <<[k |-> "alt", v |-> S]>>

RECURSIVE Cat(_)
\* concatenation of a sequence of chunk sequences
Cat(ss) == IF ss = <<>> THEN <<>> ELSE Head(ss) \o Cat(Tail(ss))

\* ---------------------------------------------------------------- blobs
LitBlob(bytes) == [t |-> "lit", b |-> bytes]
RepBlob(c, n) == [t |-> "rep", c |-> c, n |-> n]
BlobLen(x) == IF x.t = "lit" THEN Len(x.b) ELSE x.n
BlobChunks(x) == IF x.t = "lit" THEN Data(x.b)
                 ELSE IF x.n = 0 THEN <<>> ELSE <<[k |-> "rep", c |-> x.c, n |-> x.n]>>

\* ---------------------------------------------------------------- notations (§3)
Byte(n, role, name)  == Lit(<<n>>, role, name)
Short(n, role, name) == Lit(BE(n, 2), role, name)              \* [short]: unsigned 16 bits
Int32(n, role, name) == Lit(Signed(n, 4), role, name)          \* [int]: signed 32 bits
Long(bytes8, name)   == Lit(bytes8, "data", name)              \* [long]: the abstract value is its 8 bytes
String(s, name)      == Short(BlobLen(s), "len16", name \o ".len") \o BlobChunks(s)      \* [string]
LongString(s, name)  == Int32(BlobLen(s), "len32", name \o ".len") \o BlobChunks(s)        \* [long string]
Uuid(bytes16, name)  == Lit(bytes16, "data", name)             \* [uuid]
\* optional blob: <<>> = null, <<x>> = x (possibly empty)
Bytes(ob, name) == IF ob = <<>> THEN Int32(-1, "len32", name \o ".len")                    \* [bytes]
                   ELSE Int32(BlobLen(ob[1]), "len32", name \o ".len") \o BlobChunks(ob[1])
ShortBytes(x, name) == Short(BlobLen(x), "len16", name \o ".len") \o BlobChunks(x)       \* [short bytes]
\* [value]: length -1 = null, -2 = not set (v4+)
Value(val, name) == CASE val.t = "null"  -> Int32(-1, "len32", name \o ".len")
                      [] val.t = "unset" -> Int32(-2, "len32", name \o ".len")
                      [] val.t = "bytes" -> Int32(BlobLen(val.b), "len32", name \o ".len") \o BlobChunks(val.b)
StringList(ss, name) == Short(Len(ss), "count16", name \o ".count")                      \* [string list]
                        \o Cat([i \in 1..Len(ss) |-> String(ss[i], name \o ".item")])
\* maps: the entries may come in any order; pairs <<k, v>> given as a sequence without duplicate keys
StringMap(ps, name) == Short(Len(ps), "count16", name \o ".count")                       \* [string map]
                       \o (IF ps = <<>> THEN <<>> ELSE
                           Unordered({String(ps[i][1], name \o ".key") \o String(ps[i][2], name \o ".value") : i \in 1..Len(ps)}))
StringMultimap(ps, name) == Short(Len(ps), "count16", name \o ".count")                  \* [string multimap]
                       \o (IF ps = <<>> THEN <<>> ELSE
                           Unordered({String(ps[i][1], name \o ".key") \o StringList(ps[i][2], name \o ".value") : i \in 1..Len(ps)}))
BytesMap(ps, name) == Short(Len(ps), "count16", name \o ".count")                        \* [bytes map]
                       \o (IF ps = <<>> THEN <<>> ELSE
                           Unordered({String(ps[i][1], name \o ".key") \o Bytes(ps[i][2], name \o ".value") : i \in 1..Len(ps)}))
\* [inetaddr]: one byte 4 or 16 then the address; [inet]: the same followed by an [int] port
InetAddr(addr, name) == Byte(Len(addr), "len8", name \o ".size") \o Data(addr)
Inet(addr, port, name) == InetAddr(addr, name) \o Int32(port, "data", name \o ".port")
Consistency(c, name) == Short(c, "code", name)
\* <reasonmap> (v5 §9): [int] n, then n pairs <endpoint [inetaddr]><failurecode [short]>
ReasonMap(rs, name) == Int32(Len(rs), "count32", name \o ".count")
                       \o Cat([i \in 1..Len(rs) |-> InetAddr(rs[i].addr, name \o ".endpoint") \o Short(rs[i].code, "code", name \o ".code")])

\* ---------------------------------------------------------------- lengths (for C03: what the notation says it occupies)
RECURSIVE ChunksLen(_)
ChunkLen(c) == CASE c.k = "b" -> Len(c.v)
                 [] c.k = "rep" -> c.n
                 [] c.k = "unordered" -> FoldSet(LAMBDA s, acc : acc + ChunksLen(s), 0, c.v)
                 [] c.k = "alt" -> ChunksLen(CHOOSE s \in c.v : TRUE)
ChunksLen(cs) == IF cs = <<>> THEN 0 ELSE ChunkLen(Head(cs)) + ChunksLen(Tail(cs))

\* ---------------------------------------------------------------- some byte strings used by the shape sets
Ascii(s) == LitBlob(s)
B_empty == LitBlob(<<>>)
B_a     == LitBlob(<<97>>)                         \* "a"
B_ks    == LitBlob(<<107, 115>>)                   \* "ks"
B_ks2   == LitBlob(<<107, 115, 50>>)               \* "ks2"
B_tb    == LitBlob(<<116, 98>>)                    \* "tb"
B_tb2   == LitBlob(<<116, 98, 50>>)                \* "tb2"
B_c1    == LitBlob(<<99, 49>>)                     \* "c1"
B_c2    == LitBlob(<<99, 50>>)                     \* "c2"
B_utf8  == LitBlob(<<104, 195, 169, 226, 130, 172>>)   \* "h" e-acute euro-sign
B_query == LitBlob(<<83, 69, 76, 69, 67, 84, 32, 49>>) \* "SELECT 1"
B_long  == RepBlob(120, 65535)                     \* 65535 times "x": the longest [string]
B_mid   == RepBlob(122, 32768)                     \* the first length whose [short] prefix has its top bit set (signed / unsigned slips)
B_long2 == RepBlob(121, 70000)                     \* longer than a [string] can hold: only for [long string] / [bytes]
B_blob  == LitBlob(<<0, 255, 128, 1>>)
L_zero  == <<0, 0, 0, 0, 0, 0, 0, 0>>
L_one   == <<0, 0, 0, 0, 0, 0, 0, 1>>
L_neg1  == <<255, 255, 255, 255, 255, 255, 255, 255>>
L_max   == <<127, 255, 255, 255, 255, 255, 255, 255>>
L_min   == <<128, 0, 0, 0, 0, 0, 0, 0>>
L_2p31  == <<0, 0, 0, 0, 128, 0, 0, 0>>
Longs   == {L_zero, L_one, L_neg1, L_max, L_min, L_2p31}
MaxInt  == 2147483647
MinInt  == -2147483647 - 1
Ints    == {0, 1, -1, 255, 256, 65536, MaxInt, MinInt}
Uuid1   == <<222, 173, 190, 239, 0, 1, 2, 3, 4, 5, 6, 7, 8, 9, 10, 255>>
Ip4     == <<192, 168, 1, 7>>
Ip6     == <<32, 1, 13, 184, 0, 0, 0, 0, 0, 0, 0, 0, 0, 0, 0, 1>>

ASSUME Signed(-1, 4) = <<255, 255, 255, 255>> /\ Signed(-2, 4) = <<255, 255, 255, 254>>
ASSUME Signed(MinInt, 4) = <<128, 0, 0, 0>> /\ Signed(MaxInt, 4) = <<127, 255, 255, 255>> /\ Signed(256, 4) = <<0, 0, 1, 0>>
ASSUME BE(65535, 2) = <<255, 255>> /\ BE(258, 2) = <<1, 2>>
=============================================================================

-------------------------- MODULE SharedCodecTrace --------------------------
(* Trace validation for C18 (binding T, DESIGN §2.1): executions of the REAL codecs, recorded by `harness     *)
(* c18`, are judged by SharedCodec.tla.  The event file (ndjson, one event per line) has two phases:           *)
(*                                                                                                            *)
(*   {"k":"def","op":o,"arg":a,"res":r}          phase 1, sequential, one goroutine: the shared codec          *)
(*                                               instances computed result r for operation o on argument a.    *)
(*                                               These events DEFINE the uninterpreted function F of           *)
(*                                               SharedCodec.tla:  F(o, a) = r.                                 *)
(*   {"k":"ret","t":t,"op":o,"arg":a,"res":r}    phase 2, M goroutines at once on the SAME instances:          *)
(*                                               Call(t, o, a) ... Return(t) with result r.                    *)
(*                                                                                                            *)
(* a and r are digests (low 30 bits of an FNV-1a hash, TLC integers being 32-bit) of the argument and of the   *)
(* canonical form of the result (output bytes / decoded object / error text).  o names operation, codec        *)
(* instance and protocol version.                                                                             *)
(*                                                                                                            *)
(* SharedCodec's constant F is replaced (SharedCodecTrace.cfg:  F <- TraceF) by the function read from the     *)
(* "def" events and every "ret" event is judged by SharedCodec!ReturnOK.  Because the specified codec has no   *)
(* variable, acceptance of a Return depends on nothing but (o, a, r): events are judged one by one, whatever    *)
(* order the goroutines' records were merged in, and the indices (line numbers) of ALL rejected events are      *)
(* printed -- validation does not stop at the first one.                                                       *)
EXTENDS SharedCodec, Sequences, Json, IOUtils

TraceFile == IF "TRACE" \in DOMAIN IOEnv THEN IOEnv.TRACE ELSE "c18-events.ndjson"
Trace == ndJsonDeserialize(TraceFile)

DefIdx == {i \in 1..Len(Trace) : Trace[i].k = "def"}
RetIdx == {i \in 1..Len(Trace) : Trace[i].k = "ret"}

(* The graph of F as recorded by the sequential phase. *)
Graph == {<<Trace[i].op, Trace[i].arg, Trace[i].res>> : i \in DefIdx}

(* F must be a function: the sequential phase recorded exactly one result per (op, arg). *)
WellDefined == Cardinality({<<g[1], g[2]>> : g \in Graph}) = Cardinality(Graph)

TraceOps == {g[1] : g \in Graph}
FTab == [o \in TraceOps |->
            LET G == {g \in Graph : g[1] = o}
            IN  [a \in {g[2] : g \in G} |-> (CHOOSE g \in G : g[2] = a)[3]]]

(* Digests are >= 0; -1 is "F is not defined here", which no recorded result equals. *)
TraceF(op, arg) == IF op \in DOMAIN FTab /\ arg \in DOMAIN FTab[op] THEN FTab[op][arg] ELSE -1

TraceThreads == {Trace[i].t : i \in RetIdx}

WellFormed(e) == /\ e.res \in 0..1073741823 /\ e.arg \in 0..1073741823

(* A concurrent Call/Return pair is accepted iff SharedCodec accepts it: res = F(op, arg). *)
Accepts(e) == WellFormed(e) /\ ReturnOK(e.op, e.arg, e.res)

Rejected == {i \in RetIdx : ~Accepts(Trace[i])}

TraceInit ==
    /\ Init
    /\ PrintT(<<"REJECTED", ToJson([n |-> Cardinality(RetIdx), defs |-> Cardinality(Graph),
                                    threads |-> Cardinality(TraceThreads), welldefined |-> WellDefined,
                                    bad |-> Rejected])>>)
TraceNext == UNCHANGED vars
TraceSpec == TraceInit /\ [][TraceNext]_vars
=============================================================================

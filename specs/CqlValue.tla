------------------------------ MODULE CqlValue ------------------------------
(* Serialization formats of CQL values (native_protocol_v5.spec §6 "Data Type Serialization Formats" and  *)
(* §3 for the collection framing; native_protocol_v2.spec §6 for the 2-byte v2 collection format) and the  *)
(* conversion rules of the codec package (datacodec/doc.go: which Go representations a CQL type accepts).  *)
(*                                                                                                         *)
(* TLC integers are 32-bit, CQL integers reach 2^63 and varints are unbounded, so integers are modelled     *)
(* exactly as sign + little-endian bit list ("Big" values) with the few operations needed: successor,       *)
(* predecessor, power of two, range tests, two's-complement bytes of a given width, minimal width.          *)
(* One shared case space serves C11 (round trip), C12 (bytes), C13 (lossless or error) and C14 (NULL).      *)
EXTENDS Integers, Sequences, SequencesExt, FiniteSets, TLC, Json, IOUtils

\* thorough tier (environment VERIF_DEEP=1): every exponent 0..130 instead of the width boundaries, two more decimal digits of slack
Deep == "VERIF_DEEP" \in DOMAIN IOEnv /\ IOEnv.VERIF_DEEP = "1"

-----------------------------------------------------------------------------
(* Big integers: [neg |-> BOOLEAN, mag |-> bits, little-endian, no leading (high) zero; zero = <<>>]        *)
Zero == [neg |-> FALSE, mag |-> <<>>]
RECURSIVE Trim(_)
Trim(bs) == IF bs # <<>> /\ bs[Len(bs)] = 0 THEN Trim(SubSeq(bs, 1, Len(bs) - 1)) ELSE bs
Norm(n) == LET m == Trim(n.mag) IN [neg |-> n.neg /\ m # <<>>, mag |-> m]
Pow2(e) == [neg |-> FALSE, mag |-> [i \in 1..(e + 1) |-> IF i = e + 1 THEN 1 ELSE 0]]
Neg(n) == Norm([neg |-> ~n.neg, mag |-> n.mag])
RECURSIVE IncBits(_)
IncBits(bs) == IF bs = <<>> THEN <<1>> ELSE IF Head(bs) = 0 THEN <<1>> \o Tail(bs) ELSE <<0>> \o IncBits(Tail(bs))
RECURSIVE DecBits(_)
DecBits(bs) == IF Head(bs) = 1 THEN <<0>> \o Tail(bs) ELSE <<1>> \o DecBits(Tail(bs))      \* bs > 0
Succ(n) == IF n.neg THEN Norm([neg |-> TRUE, mag |-> DecBits(n.mag)]) ELSE [neg |-> FALSE, mag |-> IncBits(n.mag)]
Pred(n) == IF n.mag = <<>> THEN [neg |-> TRUE, mag |-> <<1>>]
           ELSE IF n.neg THEN [neg |-> TRUE, mag |-> IncBits(n.mag)] ELSE Norm([neg |-> FALSE, mag |-> DecBits(n.mag)])
Small(k) == IF k = 0 THEN Zero ELSE IF k = 1 THEN Pow2(0) ELSE IF k = -1 THEN Neg(Pow2(0)) ELSE IF k = 2 THEN Pow2(1) ELSE Neg(Pow2(1))
IsPow2(bs) == bs # <<>> /\ \A i \in 1..(Len(bs) - 1) : bs[i] = 0
\* -2^(w-1) <= n <= 2^(w-1) - 1
FitsSigned(n, w) == IF n.neg THEN Len(n.mag) <= w - 1 \/ (Len(n.mag) = w /\ IsPow2(n.mag)) ELSE Len(n.mag) <= w - 1
\* 0 <= n <= 2^w - 1
FitsUnsigned(n, w) == ~n.neg /\ Len(n.mag) <= w
Pad(bs, w) == bs \o [i \in 1..(w - Len(bs)) |-> 0]
Invert(bs) == [i \in 1..Len(bs) |-> 1 - bs[i]]
\* w-bit two's complement, little-endian bits (requires FitsSigned(n, w), or FitsUnsigned for unsigned use)
TwoC(n, w) == IF ~n.neg THEN Pad(n.mag, w) ELSE Invert(Pad(Pred(Neg(n)).mag, w))          \* -x = ~(x-1)
RECURSIVE BitsToBytesLE(_)
BitsToBytesLE(bs) == IF bs = <<>> THEN <<>>
                     ELSE <<bs[1] + 2*bs[2] + 4*bs[3] + 8*bs[4] + 16*bs[5] + 32*bs[6] + 64*bs[7] + 128*bs[8]>> \o BitsToBytesLE(SubSeq(bs, 9, Len(bs)))
\* big-endian bytes, `bytes` bytes wide
FixedBytes(n, bytes) == Reverse(BitsToBytesLE(TwoC(n, 8 * bytes)))
MinBytes(n) == CHOOSE k \in 1..40 : FitsSigned(n, 8 * k) /\ (k = 1 \/ ~FitsSigned(n, 8 * (k - 1)))
\* [varint] of §6.19: the minimal-length two's complement
VarintBytes(n) == FixedBytes(n, MinBytes(n))
\* the offset form of date (§6.6): days since the epoch + 2^31 as an unsigned 32-bit integer
AddPow2_31(n) == \* n + 2^31 for -2^31 <= n < 2^31: flip the sign bit of the 32-bit two's complement
    LET bs == TwoC(n, 32) IN Norm([neg |-> FALSE, mag |-> [i \in 1..32 |-> IF i = 32 THEN 1 - bs[i] ELSE bs[i]]])

\* the document's own examples (v5 §6.19 varint table)
ASSUME VarintBytes(Zero) = <<0>> /\ VarintBytes(Small(1)) = <<1>> /\ VarintBytes(Pred(Pow2(7))) = <<127>>
ASSUME VarintBytes(Pow2(7)) = <<0, 128>> /\ VarintBytes(Succ(Pow2(7))) = <<0, 129>>
ASSUME VarintBytes(Small(-1)) = <<255>> /\ VarintBytes(Neg(Pow2(7))) = <<128>> /\ VarintBytes(Pred(Neg(Pow2(7)))) = <<255, 127>>
ASSUME FixedBytes(Small(-2), 4) = <<255, 255, 255, 254>> /\ FixedBytes(Pow2(8), 2) = <<1, 0>>

-----------------------------------------------------------------------------
(* Integer CQL types and Go representations *)
IntCqlTypes == {"tinyint", "smallint", "int", "bigint", "counter", "varint", "date", "time", "timestamp"}
CqlWidth(t) == CASE t = "tinyint" -> 8 [] t = "smallint" -> 16 [] t \in {"int", "date"} -> 32 [] OTHER -> 64
\* values a CQL type can hold, as the integer the numeric Go representations see
TimeMax == \* 24h - 1ns = 86399999999999 = 0x4E94914EFFFF
    [neg |-> FALSE, mag |-> <<1,1,1,1,1,1,1,1, 1,1,1,1,1,1,1,1, 0,1,1,1,0,0,1,0, 1,0,0,0,1,0,0,1, 0,0,1,0,1,0,0,1, 0,1,1,1,0,0,1>>]
Leq(a, b) == \* a <= b for non-negative a, b
    \/ Len(a.mag) < Len(b.mag)
    \/ Len(a.mag) = Len(b.mag) /\ (a.mag = b.mag \/ LET i == CHOOSE i \in 1..Len(a.mag) : a.mag[i] # b.mag[i] /\ \A j \in (i + 1)..Len(a.mag) : a.mag[j] = b.mag[j]
                                                     IN a.mag[i] < b.mag[i])
CqlHolds(t, n) == CASE t = "varint" -> TRUE
                    \* (a CQL time is a nanosecond of the day, 0..86399999999999 (§6.17); the numeric path of the codec does not
                    \*  enforce that -- no information is lost, so C13 has nothing to say: noted in DESIGN.md, not a finding)
                    [] OTHER -> FitsSigned(n, CqlWidth(t))
\* the bytes the documents prescribe for value n of type t
IntSer(t, n) == CASE t = "varint" -> VarintBytes(n)
                  [] OTHER -> FixedBytes(n, CqlWidth(t) \div 8)
DateSer(n) == LET u == AddPow2_31(n) IN Reverse(BitsToBytesLE(Pad(u.mag, 32)))
Ser(t, n) == IF t = "date" THEN DateSer(n) ELSE IntSer(t, n)

GoIntReps == {"int", "int8", "int16", "int32", "int64", "uint", "uint8", "uint16", "uint32", "uint64", "bigint", "string"}
RepHolds(r, n) == CASE r = "int8" -> FitsSigned(n, 8) [] r = "int16" -> FitsSigned(n, 16) [] r = "int32" -> FitsSigned(n, 32)
                    [] r \in {"int", "int64"} -> FitsSigned(n, 64)
                    [] r = "uint8" -> FitsUnsigned(n, 8) [] r = "uint16" -> FitsUnsigned(n, 16) [] r = "uint32" -> FitsUnsigned(n, 32)
                    [] r \in {"uint", "uint64"} -> FitsUnsigned(n, 64)
                    [] OTHER -> TRUE
\* representations accepted per CQL type (datacodec/doc.go): all integer kinds everywhere; *big.Int for bigint/counter/varint;
\* decimal strings for the plain integer types
RepAccepted(t, r) == CASE r = "bigint" -> t \in {"bigint", "counter", "varint"}
                       [] r = "string" -> t \in {"tinyint", "smallint", "int", "bigint", "counter", "varint"}
                       [] OTHER -> TRUE
Preferred(t) == CASE t = "tinyint" -> "int8" [] t = "smallint" -> "int16" [] t = "int" -> "int32"
                  [] t \in {"bigint", "counter"} -> "int64" [] t = "varint" -> "bigint"
                  [] t = "date" -> "time" [] t = "time" -> "duration" [] t = "timestamp" -> "time"

\* boundary values: 0, +-1, +-2, and 2^e + d, -(2^e) + d for the widths that matter and d in -1..1
Exps == IF Deep THEN 2..130 ELSE {7, 8, 15, 16, 31, 32, 63, 64, 100}
Around(n) == {Pred(n), n, Succ(n)}
Values == UNION {Around(Small(k)) : k \in {0}} \cup {Small(2), Small(-2)}
          \cup UNION {Around(Pow2(e)) \cup Around(Neg(Pow2(e))) : e \in Exps}
          \cup Around(TimeMax)

\* one case: encode n held in representation r as CQL t, and decode the bytes of n into r
IntCase(t, r, n) ==
    [fam |-> "int", cql |-> t, rep |-> r, neg |-> n.neg, mag |-> n.mag,
     \* can the Go representation hold n at all?  if not there is nothing to encode
     holds |-> RepHolds(r, n),
     \* encoding: exact value or error, never a wrapped one
     enc |-> IF CqlHolds(t, n) THEN "ok" ELSE "err",
     bytes |-> IF CqlHolds(t, n) THEN Ser(t, n) ELSE <<>>,
     \* decoding the bytes of n (when the CQL type can hold n) into r
     dec |-> IF ~CqlHolds(t, n) THEN "na" ELSE IF RepHolds(r, n) THEN "ok" ELSE "err",
     pref |-> Preferred(t),
     \* the preferred representation of time (time.Duration) only exists for valid nanoseconds of the day
     prefok |-> (t # "time" \/ (~n.neg /\ Leq(n, TimeMax)))]
IntCases == UNION {{IntCase(t, r, n) : r \in {r \in GoIntReps : RepAccepted(t, r)}, n \in Values} : t \in IntCqlTypes}

-----------------------------------------------------------------------------
(* Monotone (C13): between two neighbouring boundary values the verdicts cannot change -- checked here on the *)
(* range predicates themselves: each is an interval, so a random value is judged by the interval it falls in.  *)
IntervalPred(P(_)) == \A a, b, c \in Values : (P(a) /\ P(c) /\ ~a.neg /\ ~c.neg /\ ~b.neg /\ Leq(a, b) /\ Leq(b, c)) => P(b)
ASSUME \A w \in {8, 16, 32, 64} : IntervalPred(LAMBDA n : FitsSigned(n, w)) /\ IntervalPred(LAMBDA n : FitsUnsigned(n, w))

-----------------------------------------------------------------------------
(* Other scalar formats (§6): literal tables *)
\* [vint] (§3): zig-zag then variable-length, first byte's leading 1-bits = number of extra bytes
VIntBytes == [z |-> <<0>>, one |-> <<2>>, mone |-> <<1>>, v63 |-> <<126>>, v64 |-> <<128, 128>>, vm64 |-> <<127>>, vm65 |-> <<128, 129>>,
              maxi32 |-> <<240, 255, 255, 255, 254>>, mini32 |-> <<240, 255, 255, 255, 255>>,
              maxi64 |-> <<255, 255, 255, 255, 255, 255, 255, 255, 254>>, mini64 |-> <<255, 255, 255, 255, 255, 255, 255, 255, 255>>]
\* duration (§6.7): three [vint]s: months, days, nanoseconds
DurationCases == {
  [fam |-> "duration", months |-> "0", days |-> "0", nanos |-> "0", bytes |-> <<0, 0, 0>>],
  [fam |-> "duration", months |-> "1", days |-> "-1", nanos |-> "63", bytes |-> <<2, 1, 126>>],
  [fam |-> "duration", months |-> "64", days |-> "-64", nanos |-> "-65", bytes |-> <<128, 128, 127, 128, 129>>],
  [fam |-> "duration", months |-> "2147483647", days |-> "-2147483648", nanos |-> "9223372036854775807",
   bytes |-> <<240, 255, 255, 255, 254>> \o <<240, 255, 255, 255, 255>> \o <<255, 255, 255, 255, 255, 255, 255, 255, 254>>],
  [fam |-> "duration", months |-> "0", days |-> "0", nanos |-> "-9223372036854775808",
   bytes |-> <<0, 0>> \o <<255, 255, 255, 255, 255, 255, 255, 255, 255>>] }
\* months and days are 32-bit (§6.7): a [vint] beyond that range must be refused on decode, not truncated
DurationOverflow == {
  [fam |-> "duration-overflow", field |-> "months", bytes |-> <<241, 0, 0, 0, 0>> \o <<0, 0>>],      \* months = 2^31 (zig-zag 2^32)
  [fam |-> "duration-overflow", field |-> "days", bytes |-> <<0>> \o <<241, 0, 0, 0, 1>> \o <<0>>] } \* days = -2^31 - 1

\* decimal (§6.5): [int] scale followed by the [varint] unscaled value
DecimalCase(scale, n) == [fam |-> "decimal", scale |-> scale, neg |-> n.neg, mag |-> n.mag,
                          bytes |-> <<IF scale < 0 THEN 255 ELSE 0, IF scale < 0 THEN 255 ELSE 0, IF scale < 0 THEN 255 ELSE 0,
                                      IF scale < 0 THEN 256 + scale ELSE scale>> \o VarintBytes(n)]
DecimalCases == {DecimalCase(s, n) : s \in {0, 1, 7, -3, 127, -128},
                   n \in (IF Deep THEN Values ELSE {Zero, Small(1), Small(-1), Pow2(7), Neg(Pow2(7)), Pred(Neg(Pow2(63))), Pow2(100)})}

\* boolean (§6.4), ascii/varchar/blob (identity), uuid (16 bytes), inet (4 or 16 bytes), float/double (IEEE 754 big-endian)
SimpleCases == {
  [fam |-> "simple", cql |-> "boolean", go |-> "true", bytes |-> <<1>>], [fam |-> "simple", cql |-> "boolean", go |-> "false", bytes |-> <<0>>],
  [fam |-> "simple", cql |-> "varchar", go |-> "", bytes |-> <<>>], [fam |-> "simple", cql |-> "varchar", go |-> "hex:68c3a9e282ac", bytes |-> <<104, 195, 169, 226, 130, 172>>],
  [fam |-> "simple", cql |-> "ascii", go |-> "abc", bytes |-> <<97, 98, 99>>],
  [fam |-> "simple", cql |-> "blob", go |-> "00ff80", bytes |-> <<0, 255, 128>>], [fam |-> "simple", cql |-> "blob", go |-> "", bytes |-> <<>>],
  [fam |-> "simple", cql |-> "uuid", go |-> "deadbeef-0001-0203-0405-060708090aff", bytes |-> <<222, 173, 190, 239, 0, 1, 2, 3, 4, 5, 6, 7, 8, 9, 10, 255>>],
  [fam |-> "simple", cql |-> "timeuuid", go |-> "00000000-0000-1000-8000-000000000000", bytes |-> <<0, 0, 0, 0, 0, 0, 16, 0, 128, 0, 0, 0, 0, 0, 0, 0>>],
  [fam |-> "simple", cql |-> "inet", go |-> "192.168.1.7", bytes |-> <<192, 168, 1, 7>>],
  [fam |-> "simple", cql |-> "inet", go |-> "2001:db8::1", bytes |-> <<32, 1, 13, 184, 0, 0, 0, 0, 0, 0, 0, 0, 0, 0, 0, 1>>],
  [fam |-> "simple", cql |-> "float", go |-> "0", bytes |-> <<0, 0, 0, 0>>], [fam |-> "simple", cql |-> "float", go |-> "-0", bytes |-> <<128, 0, 0, 0>>],
  [fam |-> "simple", cql |-> "float", go |-> "1", bytes |-> <<63, 128, 0, 0>>], [fam |-> "simple", cql |-> "float", go |-> "-1.5", bytes |-> <<191, 192, 0, 0>>],
  [fam |-> "simple", cql |-> "float", go |-> "+Inf", bytes |-> <<127, 128, 0, 0>>], [fam |-> "simple", cql |-> "float", go |-> "-Inf", bytes |-> <<255, 128, 0, 0>>],
  [fam |-> "simple", cql |-> "float", go |-> "maxfloat32", bytes |-> <<127, 127, 255, 255>>], [fam |-> "simple", cql |-> "float", go |-> "minsubnormal32", bytes |-> <<0, 0, 0, 1>>],
  [fam |-> "simple", cql |-> "double", go |-> "0", bytes |-> <<0, 0, 0, 0, 0, 0, 0, 0>>], [fam |-> "simple", cql |-> "double", go |-> "1", bytes |-> <<63, 240, 0, 0, 0, 0, 0, 0>>],
  [fam |-> "simple", cql |-> "double", go |-> "-1.5", bytes |-> <<191, 248, 0, 0, 0, 0, 0, 0>>], [fam |-> "simple", cql |-> "double", go |-> "0.1", bytes |-> <<63, 185, 153, 153, 153, 153, 153, 154>>],
  [fam |-> "simple", cql |-> "double", go |-> "+Inf", bytes |-> <<127, 240, 0, 0, 0, 0, 0, 0>>], [fam |-> "simple", cql |-> "double", go |-> "maxfloat64", bytes |-> <<127, 239, 255, 255, 255, 255, 255, 255>>],
  [fam |-> "simple", cql |-> "double", go |-> "16777217", bytes |-> <<65, 112, 0, 0, 16, 0, 0, 0>>] }
\* float narrowing (C13): a float64 that is not exactly a float32 must be refused by the CQL float codec, never rounded
FloatNarrow == {[fam |-> "narrow", go |-> "0.1", ok |-> FALSE], [fam |-> "narrow", go |-> "16777217", ok |-> FALSE], [fam |-> "narrow", go |-> "1e39", ok |-> FALSE],
                [fam |-> "narrow", go |-> "0.5", ok |-> TRUE], [fam |-> "narrow", go |-> "-1.5", ok |-> TRUE], [fam |-> "narrow", go |-> "16777216", ok |-> TRUE]}

-----------------------------------------------------------------------------
(* Collections, tuples, UDTs (§6.x, §3 [bytes]; v2: native_protocol_v2.spec §6: [short] counts and lengths)  *)
Int4(n) == IF n >= 0 THEN <<(n \div 16777216) % 256, (n \div 65536) % 256, (n \div 256) % 256, n % 256>> ELSE <<255, 255, 255, 255>>  \* only -1 is needed
Short2(n) == <<(n \div 256) % 256, n % 256>>
\* an element is <<>> (null) or <<bytes>>
ElemV3(e) == IF e = <<>> THEN Int4(-1) ELSE Int4(Len(e[1])) \o e[1]
ElemV2(e) == Short2(Len(e[1])) \o e[1]                                     \* v2 cannot express a null element
RECURSIVE FlatMap(_, _)
FlatMap(F(_), s) == IF s = <<>> THEN <<>> ELSE F(Head(s)) \o FlatMap(F, Tail(s))
CollV3(elems) == Int4(Len(elems)) \o FlatMap(ElemV3, elems)
CollV2(elems) == Short2(Len(elems)) \o FlatMap(ElemV2, elems)
\* tuples and UDTs: the fields as successive [bytes], no count (§6.21, §6.22), in every version that has them
TupleSer(fields) == FlatMap(ElemV3, fields)

I32(k) == <<0, 0, 0, k>>      \* the int k as element bytes (0 <= k < 256)
Txt(b) == b
\* element lists for list<int> / set<int>: every null position of a 3-element list
IntLists == {<<>>, <<<<I32(1)>>>>, <<<<I32(1)>>, <<I32(2)>>, <<I32(3)>>>>, <<<<>>, <<I32(2)>>, <<I32(3)>>>>, <<<<I32(1)>>, <<>>, <<I32(3)>>>>, <<<<I32(1)>>, <<I32(2)>>, <<>>>>, <<<<>>, <<>>>>}
HasNull(elems) == \E i \in 1..Len(elems) : elems[i] = <<>>
CollCase(kind, elems, v2) ==
    [fam |-> "coll", kind |-> kind, elems |-> elems, v2 |-> v2,
     enc |-> IF v2 /\ HasNull(elems) THEN "err" ELSE "ok",
     bytes |-> IF v2 THEN (IF HasNull(elems) THEN <<>> ELSE CollV2(elems)) ELSE CollV3(elems)]
\* map<int,varchar>: entries as pairs flattened key, value; a single entry keeps the order question out
MapCase(entries, v2) ==
    [fam |-> "coll", kind |-> "map", elems |-> entries, v2 |-> v2,
     enc |-> IF v2 /\ HasNull(entries) THEN "err" ELSE "ok",
     bytes |-> IF v2 THEN (IF HasNull(entries) THEN <<>> ELSE Short2(Len(entries) \div 2) \o FlatMap(ElemV2, entries))
               ELSE Int4(Len(entries) \div 2) \o FlatMap(ElemV3, entries)]
\* maps with several entries: the order of the entries on the wire is the encoder's choice (the document prescribes
\* none), so the prescription is the head followed by the entries in ANY order: ents lists the entries' bytes, the
\* harness checks membership; bytes is one admissible encoding (entries as listed), which must decode to the same map
MapCaseN(entries, v2) ==
    LET ent(i) == IF v2 THEN ElemV2(entries[2 * i - 1]) \o ElemV2(entries[2 * i]) ELSE ElemV3(entries[2 * i - 1]) \o ElemV3(entries[2 * i])
        n == Len(entries) \div 2
        head == IF v2 THEN Short2(n) ELSE Int4(n)
        bad == v2 /\ HasNull(entries)
    IN [fam |-> "coll", kind |-> "mapn", elems |-> entries, v2 |-> v2, enc |-> IF bad THEN "err" ELSE "ok",
        head |-> head, ents |-> IF bad THEN <<>> ELSE [i \in 1..n |-> ent(i)],
        bytes |-> IF bad THEN <<>> ELSE head \o FlatMap(LAMBDA i : ent(i), [i \in 1..n |-> i])]
\* a UDT whose two fields have the same type (a Go map destination then holds two values of one type)
Udt2Case(fields) == [fam |-> "coll", kind |-> "udt2", elems |-> fields, v2 |-> FALSE, enc |-> "ok", bytes |-> TupleSer(fields)]
TupleCase(kind, fields) == [fam |-> "coll", kind |-> kind, elems |-> fields, v2 |-> FALSE, enc |-> "ok", bytes |-> TupleSer(fields)]
CollCases ==
    {CollCase(k, e, v2) : k \in {"list", "set"}, e \in IntLists, v2 \in BOOLEAN}
    \cup {MapCase(e, v2) : e \in {<<>>, <<<<I32(1)>>, <<<<97>>>>>>, <<<<I32(1)>>, <<>>>>, <<<<I32(7)>>, <<<<>>>>>>}, v2 \in BOOLEAN}
    \cup {MapCaseN(e, v2) : e \in {<<<<I32(1)>>, <<<<97>>>>, <<I32(2)>>, <<<<98, 98>>>>>>,
                                    <<<<I32(1)>>, <<<<97>>>>, <<I32(2)>>, <<<<98>>>>, <<I32(3)>>, <<<<99, 100>>>>>>,
                                    <<<<I32(5)>>, <<<<120>>>>, <<I32(6)>>, <<>>>>}, v2 \in BOOLEAN}
    \cup {Udt2Case(f) : f \in {<<<<I32(10)>>, <<I32(20)>>>>, <<<<I32(10)>>, <<>>>>, <<<<>>, <<I32(20)>>>>}}
    \cup {TupleCase(k, f) : k \in {"tuple", "udt"},
                             f \in {<<<<I32(1)>>, <<<<97, 98>>>>>>, <<<<>>, <<<<97>>>>>>, <<<<I32(1)>>, <<>>>>, <<<<>>, <<>>>>, <<<<I32(9)>>, <<<<>>>>>>}}
    \* nested: list<list<int>> with a null inner list and an inner list holding a null
    \cup {[fam |-> "coll", kind |-> "listlist", elems |-> e, v2 |-> FALSE, enc |-> "ok", bytes |-> CollV3(e)] :
             e \in {<<<<CollV3(<<<<I32(1)>>, <<>>>>)>>, <<>>, <<CollV3(<<>>)>>>>}}

-----------------------------------------------------------------------------
(* NULL (C14): which Go representations each CQL type accepts (datacodec/doc.go), per type name *)
NullReps == [
  bigint |-> {"int64", "int", "int32", "int16", "int8", "uint64", "uint", "uint32", "uint16", "uint8", "bigint", "string"},
  counter |-> {"int64", "int", "int32", "int16", "int8", "uint64", "uint", "uint32", "uint16", "uint8", "bigint", "string"},
  int |-> {"int32", "int64", "int", "int16", "int8", "uint64", "uint", "uint32", "uint16", "uint8", "string"},
  smallint |-> {"int16", "int64", "int", "int32", "int8", "uint64", "uint", "uint32", "uint16", "uint8", "string"},
  tinyint |-> {"int8", "int64", "int", "int32", "int16", "uint64", "uint", "uint32", "uint16", "uint8", "string"},
  varint |-> {"bigint", "int64", "int", "int32", "int16", "int8", "uint64", "uint", "uint32", "uint16", "uint8", "string"},
  blob |-> {"bytes", "string"}, boolean |-> {"bool", "int64", "int", "int32", "int16", "int8", "uint64", "uint", "uint32", "uint16", "uint8"},
  date |-> {"time", "int64", "int", "int32", "int16", "int8", "uint64", "uint", "uint32", "uint16", "uint8", "string"},
  decimal |-> {"decimal"}, double |-> {"float64", "float32", "bigfloat"}, duration |-> {"cqlduration"}, float |-> {"float32", "float64"},
  inet |-> {"ip", "bytes", "string"},
  time |-> {"duration", "int64", "int", "int32", "int16", "int8", "uint64", "uint", "uint32", "uint16", "uint8", "time", "string"},
  timestamp |-> {"time", "int64", "int", "int32", "int16", "int8", "uint64", "uint", "uint32", "uint16", "uint8", "string"},
  uuid |-> {"uuid", "bytes16", "bytes", "string"}, timeuuid |-> {"uuid", "bytes16", "bytes", "string"},
  varchar |-> {"string", "bytes", "runes"}, ascii |-> {"string", "bytes", "runes"} ]
NullTable == {[fam |-> "null", cql |-> t, reps |-> NullReps[t]] : t \in DOMAIN NullReps}

\* NULL decoded into every kind of destination a container type accepts (doc.go), each pre-filled by the harness
NullCollTable == {[fam |-> "nullcoll", kind |-> "list", dests |-> {"slice", "array", "iface"}],
                  [fam |-> "nullcoll", kind |-> "set", dests |-> {"slice", "array", "iface"}],
                  [fam |-> "nullcoll", kind |-> "map", dests |-> {"map", "iface"}],
                  [fam |-> "nullcoll", kind |-> "tuple", dests |-> {"slice", "array", "struct", "iface"}],
                  [fam |-> "nullcoll", kind |-> "udt", dests |-> {"map", "struct", "slice", "array", "iface"}]}
\* collections whose element count needs the full width of the count field: n copies of the int 1; the bytes are
\* head followed by n times elem (given in this form so that TLC does not have to build 65535-element sequences)
BigCollCase(n, v2) == [fam |-> "bigcoll", kind |-> "list", n |-> n, v2 |-> v2,
                       head |-> IF v2 THEN Short2(n) ELSE Int4(n),
                       elem |-> IF v2 THEN ElemV2(<<I32(1)>>) ELSE ElemV3(<<I32(1)>>)]
BigCollCases == {BigCollCase(n, v2) : n \in {255, 256, 32767, 32768, 65535}, v2 \in BOOLEAN} \cup {BigCollCase(65536, FALSE)}

AllCases == NullCollTable \cup BigCollCases \cup IntCases \cup DurationCases \cup DurationOverflow \cup DecimalCases \cup SimpleCases \cup FloatNarrow \cup CollCases \cup NullTable

VARIABLE x
Init == x = 0 /\ \A c \in AllCases : PrintT(<<"CQL", ToJson(c)>>)
Next == x' = x
Spec == Init /\ [][Next]_x
=============================================================================

----------------------------- MODULE HeapTrace -----------------------------
(* Trace validation for C17.  Every event recorded by `harness c17` is one snapshot of two REAL object     *)
(* graphs -- a generated value and what the library's deep copy returned for it -- extracted with         *)
(* reflect + unsafe:                                                                                      *)
(*   [i, type, method, variant, seed, a, b, nodes]   a = root of the original, b = root of the copy,      *)
(*   nodes = sequence of node records in the format of Heap.tla (region end points renumbered 1, 2, ...   *)
(*   in address order, 0 = no storage).                                                                   *)
(* Stateless: each event is judged on its own by Heap!Equal and Heap!Independent (in its cell form, which *)
(* the small-scope lemma ties to the region form; the quadratic region form is evaluated too on graphs of *)
(* at most PairwiseLimit nodes).  The numbers of the rejected events are printed with the reason and, for *)
(* sharing, the witness nodes on the copy's side.                                                         *)
EXTENDS Heap, Json, IOUtils

TraceFile == IF "TRACE" \in DOMAIN IOEnv THEN IOEnv.TRACE ELSE "c17-events.ndjson"
Trace == ndJsonDeserialize(TraceFile)

PairwiseLimit == 60

G(e) == [nodes |-> e.nodes]
Eq(e) == Equal(G(e), e.a, e.b)
Ind(e) ==
    /\ IndependentCells(G(e), e.a, e.b)
    /\ Len(e.nodes) <= PairwiseLimit => Independent(G(e), e.a, e.b)
Sane(e) == WellFormed(G(e)) \/ Len(e.nodes) > PairwiseLimit

NotEqual == {i \in 1..Len(Trace) : ~Eq(Trace[i])}
Shared == {i \in 1..Len(Trace) : ~Ind(Trace[i])}
Witness == [i \in Shared |-> SharedNodes(G(Trace[i]), Trace[i].a, Trace[i].b)]
Malformed == {i \in 1..Len(Trace) : ~Sane(Trace[i])}

TraceInit ==
    /\ heap = 0 /\ rb = 0 /\ mem = 0 /\ wrote = 0
    /\ PrintT(<<"REJECTED", ToJson([n |-> Len(Trace), noteq |-> NotEqual, shared |-> Shared,
                                    witness |-> [i \in Shared |-> Witness[i]], malformed |-> Malformed])>>)
TraceNext == UNCHANGED vars
TraceSpec == TraceInit /\ [][TraceNext]_vars
=============================================================================

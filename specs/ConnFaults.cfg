SPECIFICATION Spec
CONSTANTS
  Modern = TRUE
  Auth = FALSE
  Rig = "lib-lib"
  NReq = 2
  BigFrames = {}
  NEvents = 0
  NSpurious = 0
  Dup = FALSE
  SplitSmall = {}
  Faults = {"close-client", "close-server", "cancel", "drop"}
INVARIANTS RequestsInOrder ResponsesInOrder WireOK ModesAgree AllArrive Emit
CHECK_DEADLOCK FALSE

\* the lemma's scope constants are not used by trace validation
SPECIFICATION TraceSpec
CONSTANTS
    MaxNodes = 1
    NCells = 1
    WithBacking = FALSE
CHECK_DEADLOCK FALSE

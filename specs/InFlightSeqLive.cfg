SPECIFICATION FairSpec
CONSTANTS
  N = 2
  MaxPending = 2
  ExplicitIds = {1, 3}
  UnknownId = 9
  MaxReq = 3
  MaxFrames = 3
  TimeoutQ = 2
  Timed = TRUE
  Acts = {"M","E","D","U","R","C","T"}
  Legacy = {}
  MaxHist = 0
PROPERTIES EventuallyCompleted
CHECK_DEADLOCK FALSE

--------------------------- MODULE InFlightSeq ---------------------------
(* The in-flight request handler of the client connection (client/inflight.go), one atomic action    *)
(* per API call -- the sequential view: exactly one call runs at a time (histories, not schedules;   *)
(* interleavings are InFlightConc.tla).                                                              *)
(*                                                                                                   *)
(* State, as in the code:                                                                            *)
(*   free      the buffered channel of free stream ids (FIFO queue), pre-filled with 1..N            *)
(*   table     the map stream id -> in-flight request (0 = no entry)                                 *)
(*   reqs      every request object ever created (index = tag), each with its buffered delivery      *)
(*             channel, done/err/closed triple and its timer (remaining quanta, 0 = not armed)       *)
(*   closed    the handler's closed flag                                                             *)
(* Environment actions: SendManaged, SendExplicit(k), Deliver(id, last), AppReceive(r), Close, Tick. *)
(* Tick advances the fake clock by one quantum (= Timeout/TimeoutQ) and fires every timer that       *)
(* becomes due, which is what the real code does when a synctest bubble's clock advances.            *)
(*                                                                                                   *)
(* The property-level statements of C09 / C10 / C16 (handler level) are the invariants and action    *)
(* properties at the end; the refinement InFlightSeq => InFlightAbs is checked in InFlightRef.cfg.   *)
EXTENDS Integers, Sequences, FiniteSets, TLC, Json

CONSTANTS N,            \* limit of concurrent requests = size of the managed id pool
          MaxPending,   \* capacity of a request's delivery channel
          ExplicitIds,  \* caller-chosen ids explored (some inside 1..N, some outside)
          UnknownId,    \* an id never sent, for spurious responses
          MaxReq,       \* bound on request objects created in one behaviour
          MaxFrames,    \* bound on frames handed to requests in one behaviour
          TimeoutQ,     \* the read timeout, in clock quanta
          Timed,        \* TRUE: Tick enabled
          MaxHist,      \* bound on history length (0 = unbounded: no history kept)
          Acts,         \* which environment actions are explored: subset of {"M","E","D","U","R","C","T"}
                        \*   (U = responses for the never-sent UnknownId)
          Legacy        \* named deviations of the tree as first found (repaired since, see known_findings.txt):
                        \*   "leak"  a managed send refused after borrowing an id never returns it

VARIABLES free, table, reqs, closed, nframe, hist, last

vars == <<free, table, reqs, closed, nframe, hist, last>>
view == <<free, table, reqs, closed, nframe>>

ManagedIds == 1..N
AllIds == ManagedIds \cup ExplicitIds \cup {UnknownId}
NoReq == 0

Range(s) == {s[i] : i \in DOMAIN s}
TableIds == {i \in AllIds : table[i] # NoReq}

NewReq(id, managed) ==
    [id |-> id, managed |-> managed, buf |-> <<>>, done |-> FALSE, err |-> "none", timer |-> TimeoutQ,
     rcvd |-> <<>>]

\* inFlightRequest.close(err): idempotent; cancels the request context, hence its timer.
CloseReq(r, e) == IF r.done THEN r ELSE [r EXCEPT !.done = TRUE, !.err = e, !.timer = 0]

Record(step, res) ==
    /\ last' = res
    /\ hist' = IF MaxHist = 0 THEN hist ELSE Append(hist, step)

HistOK == MaxHist = 0 \/ Len(hist) < MaxHist

Init == /\ free = [i \in 1..N |-> i]
        /\ table = [i \in AllIds |-> NoReq]
        /\ reqs = <<>>
        /\ closed = FALSE
        /\ nframe = 0
        /\ hist = <<>>
        /\ last = "init"

-----------------------------------------------------------------------------
\* onOutgoingFrameEnqueued with stream id 0
SendManaged ==
    /\ HistOK
    /\ IF closed THEN
            /\ Record("M", "err:closed")
            /\ UNCHANGED <<free, table, reqs, closed, nframe>>
       ELSE IF free = <<>> THEN
            /\ Record("M", "err:noid")
            /\ UNCHANGED <<free, table, reqs, closed, nframe>>
       ELSE LET id == Head(free) IN
            IF Cardinality(TableIds) = N \/ table[id] # NoReq THEN
                \* refused after borrowing: the id goes back to the pool (at the tail)
                /\ free' = IF "leak" \in Legacy THEN Tail(free) ELSE Append(Tail(free), id)
                /\ Record("M", IF Cardinality(TableIds) = N THEN "err:full" ELSE "err:inuse")
                /\ UNCHANGED <<table, reqs, closed, nframe>>
            ELSE
                /\ Len(reqs) < MaxReq
                /\ free' = Tail(free)
                /\ reqs' = Append(reqs, NewReq(id, TRUE))
                /\ table' = [table EXCEPT ![id] = Len(reqs) + 1]
                /\ Record("M", "ok:" \o ToString(id))
                /\ UNCHANGED <<closed, nframe>>

\* onOutgoingFrameEnqueued with a caller-chosen stream id
SendExplicit(k) ==
    /\ HistOK
    /\ IF closed THEN
            /\ Record("E" \o ToString(k), "err:closed")
            /\ UNCHANGED <<free, table, reqs, closed, nframe>>
       ELSE IF Cardinality(TableIds) = N THEN
            /\ Record("E" \o ToString(k), "err:full")
            /\ UNCHANGED <<free, table, reqs, closed, nframe>>
       ELSE IF table[k] # NoReq THEN
            /\ Record("E" \o ToString(k), "err:inuse")
            /\ UNCHANGED <<free, table, reqs, closed, nframe>>
       ELSE
            /\ Len(reqs) < MaxReq
            /\ reqs' = Append(reqs, NewReq(k, FALSE))
            /\ table' = [table EXCEPT ![k] = Len(reqs) + 1]
            /\ Record("E" \o ToString(k), "ok:" \o ToString(k))
            /\ UNCHANGED <<free, closed, nframe>>

\* inFlightRequest.onFrameReceived: non-blocking hand-off on the request's own channel
OnFrame(r, f, isLast) ==
    IF r.done THEN [req |-> r, res |-> "err:reqclosed"]            \* internal channel is nil, ctx is done
    ELSE IF Len(r.buf) < MaxPending THEN
        LET r1 == [r EXCEPT !.buf = Append(r.buf, f)] IN
        IF isLast THEN [req |-> CloseReq(r1, "none"), res |-> "ok"]
        ELSE [req |-> [r1 EXCEPT !.timer = TimeoutQ], res |-> "ok"]  \* timer re-armed on a non-final page
    ELSE [req |-> CloseReq(r, "overflow"), res |-> "err:overflow"]

\* onIncomingFrameReceived
Deliver(id, isLast) ==
    /\ HistOK
    /\ LET step == "D" \o ToString(id) \o (IF isLast THEN "L" ELSE "P") IN
       IF closed THEN
            /\ Record(step, "err:closed")
            /\ UNCHANGED <<free, table, reqs, closed, nframe>>
       ELSE IF table[id] = NoReq THEN
            /\ Record(step, "err:unknown")
            /\ UNCHANGED <<free, table, reqs, closed, nframe>>
       ELSE LET ri == table[id]
                o == OnFrame(reqs[ri], nframe + 1, isLast) IN
            /\ nframe < MaxFrames
            /\ nframe' = nframe + 1
            /\ reqs' = [reqs EXCEPT ![ri] = o.req]
            /\ table' = IF isLast THEN [table EXCEPT ![id] = NoReq] ELSE table
            /\ free' = IF isLast /\ reqs[ri].managed THEN Append(free, id) ELSE free
            /\ Record(step, o.res)
            /\ UNCHANGED closed

\* the application takes the next frame from a request's Incoming() channel (only when that does not block)
AppReceive(ri) ==
    /\ HistOK
    /\ ri \in 1..Len(reqs)
    /\ LET r == reqs[ri] IN
       /\ r.buf # <<>> \/ r.done
       /\ IF r.buf # <<>> THEN
              /\ reqs' = [reqs EXCEPT ![ri].buf = Tail(r.buf), ![ri].rcvd = Append(r.rcvd, Head(r.buf))]
              /\ Record("R" \o ToString(ri), "frame:" \o ToString(Head(r.buf)))
          ELSE
              /\ reqs' = reqs
              /\ Record("R" \o ToString(ri), "closed:" \o r.err)
    /\ UNCHANGED <<free, table, closed, nframe>>

\* inFlightRequestsHandler.close: idempotent
Close ==
    /\ HistOK
    /\ IF closed THEN UNCHANGED <<free, table, reqs, closed>>
       ELSE /\ closed' = TRUE
            /\ table' = [i \in AllIds |-> NoReq]
            /\ reqs' = [i \in 1..Len(reqs) |->
                          IF \E id \in AllIds : table[id] = i THEN CloseReq(reqs[i], "closed") ELSE reqs[i]]
            /\ free' = free
    /\ Record("C", "ok")
    /\ UNCHANGED nframe

\* the clock advances one quantum; every armed timer that reaches zero fires (request closed with a timeout)
Tick ==
    /\ Timed /\ HistOK
    /\ \E i \in 1..Len(reqs) : reqs[i].timer > 0      \* otherwise time passing changes nothing
    /\ reqs' = [i \in 1..Len(reqs) |->
                  IF reqs[i].timer = 0 THEN reqs[i]
                  ELSE IF reqs[i].timer = 1 THEN CloseReq(reqs[i], "timeout")
                  ELSE [reqs[i] EXCEPT !.timer = @ - 1]]
    /\ Record("T", "ok")
    /\ UNCHANGED <<free, table, closed, nframe>>

Next ==
    \/ "M" \in Acts /\ SendManaged
    \/ "E" \in Acts /\ \E k \in ExplicitIds : SendExplicit(k)
    \/ "D" \in Acts /\ \E id \in AllIds \ {UnknownId}, l \in BOOLEAN : Deliver(id, l)
    \/ "U" \in Acts /\ \E l \in BOOLEAN : Deliver(UnknownId, l)
    \/ "R" \in Acts /\ \E ri \in 1..MaxReq : AppReceive(ri)
    \/ "C" \in Acts /\ Close
    \/ "T" \in Acts /\ Tick

Spec == Init /\ [][Next]_vars
\* time passes: a clock tick that can happen does happen (liveness configuration InFlightSeqLive.cfg)
FairSpec == Spec /\ WF_vars(Tick)

-----------------------------------------------------------------------------
\* What the harness compares after every step (the projection of the real handler).
Proj == [free |-> IF closed THEN <<>> ELSE free, closed |-> closed, last |-> last,
         table |-> [i \in TableIds |-> table[i]],
         reqs |-> [i \in 1..Len(reqs) |->
                     [id |-> reqs[i].id, managed |-> reqs[i].managed, pending |-> Len(reqs[i].buf),
                      done |-> reqs[i].done, err |-> reqs[i].err]]]

\* One line per explored state: the history that leads to it and the projection expected there.
EmitHist == MaxHist = 0 \/ PrintT(<<"HIST", ToJson([h |-> hist, s |-> Proj])>>)

-----------------------------------------------------------------------------
(* ---- property-level invariants (C09, C10, C16 at handler level) ---- *)

Live(i) == \E id \in AllIds : table[id] = i          \* request i is registered (unanswered)

TypeOK == /\ Range(free) \subseteq ManagedIds
          /\ \A id \in AllIds : table[id] \in 0..Len(reqs)

\* C09: distinct unanswered requests carry distinct ids, each request is registered under its own id
Unique == /\ \A a, b \in AllIds : a # b /\ table[a] # NoReq => table[a] # table[b]
          /\ \A id \in AllIds : table[id] # NoReq => reqs[table[id]].id = id
\* C09: managed ids are within 1..N
InRange == \A i \in 1..Len(reqs) : reqs[i].managed => reqs[i].id \in ManagedIds
\* C09: the pool and the managed ids in use partition 1..N (nothing leaked, nothing duplicated)
Conserve == ~closed =>
            /\ Len(free) = Cardinality(Range(free))
            /\ Range(free) \cap {id \in ManagedIds : table[id] # NoReq /\ reqs[table[id]].managed} = {}
            /\ Range(free) \cup {id \in ManagedIds : table[id] # NoReq /\ reqs[table[id]].managed} = ManagedIds
\* C09: never more than N unanswered requests
Bounded == Cardinality(TableIds) <= N
\* C10: frames reach only the request registered under their id, in arrival order, each exactly once:
\*      what a request has received so far plus what is buffered is strictly increasing in frame number,
\*      and no frame number appears at two requests.
FramesOf(i) == reqs[i].rcvd \o reqs[i].buf
Ordered == \A i \in 1..Len(reqs) : \A a, b \in 1..Len(FramesOf(i)) : a < b => FramesOf(i)[a] < FramesOf(i)[b]
Exclusive == \A i, j \in 1..Len(reqs) : i # j => Range(FramesOf(i)) \cap Range(FramesOf(j)) = {}
\* C16: done, error and timer are in step; a request completed normally has no error
DoneConsistent == \A i \in 1..Len(reqs) :
                     /\ reqs[i].done => reqs[i].timer = 0
                     /\ ~reqs[i].done => reqs[i].err = "none" /\ reqs[i].timer > 0
\* C16: after close every request ever accepted is done, and nothing is registered
CloseCompletes == closed => /\ \A i \in 1..Len(reqs) : reqs[i].done
                            /\ TableIds = {}

(* ---- action properties ---- *)
\* C09: with N unanswered requests a send is refused; with fewer, no explicit id in the managed range and an
\*      open handler, a managed send is accepted
RefuseWhenFull ==
    [][ (Cardinality(TableIds) = N \/ closed) => Len(reqs') = Len(reqs) ]_vars
AcceptWhenRoom ==
    [][ (SendManaged /\ ~closed /\ Cardinality(TableIds) < N /\ Len(reqs) < MaxReq
         /\ \A id \in ManagedIds : table[id] # NoReq => reqs[table[id]].managed)
        => Len(reqs') = Len(reqs) + 1 ]_vars
\* C10: a response for an id nobody is waiting on changes nothing but the call's result
UnknownNoEffect ==
    [][ \A id \in AllIds, l \in BOOLEAN :
          (Deliver(id, l) /\ (table[id] = NoReq \/ closed)) => UNCHANGED <<free, table, reqs, closed>> ]_vars
\* C10: a delivery touches at most the request registered under that id
OnlyTarget ==
    [][ \A id \in AllIds, l \in BOOLEAN :
          Deliver(id, l) => \A i \in 1..Len(reqs) : i # table[id] => reqs'[i] = reqs[i] ]_vars
\* C10: a request completes normally exactly on its last page
CompleteOnLast ==
    [][ \A id \in AllIds, l \in BOOLEAN :
          (Deliver(id, l) /\ table[id] # NoReq /\ ~closed /\ ~reqs[table[id]].done /\ Len(reqs[table[id]].buf) < MaxPending)
          => /\ reqs'[table[id]].done = l
             /\ Len(reqs'[table[id]].buf) = Len(reqs[table[id]].buf) + 1 ]_vars
\* C16: a timeout strikes only a request that has been silent for the whole timeout (timer ran down), and an
\*      arriving page re-arms it
TimeoutOnlyAfterSilence ==
    [][ \A i \in 1..Len(reqs) :
          (~reqs[i].done /\ reqs'[i].done /\ reqs'[i].err = "timeout") => reqs[i].timer = 1 /\ Tick ]_vars
\* C16 (liveness, under FairSpec): a request whose response does not arrive does not stay open for ever - whatever else
\* happens on the connection, every accepted request is eventually completed (by its response, by close, or by the read
\* timeout once silence has lasted the whole timeout)
EventuallyCompleted == \A i \in 1..MaxReq : (Len(reqs) >= i) ~> (Len(reqs) >= i /\ reqs[i].done)
=============================================================================

------------------------------- MODULE Heap -------------------------------
(* C17 - "deep copies are equal to and independent of their originals".                                   *)
(*                                                                                                        *)
(* An object graph (heap snapshot) g is a record with one field, g.nodes, a sequence of node records.     *)
(* A node is one typed OCCURRENCE OF A VALUE IN MEMORY:                                                   *)
(*                                                                                                        *)
(*   kind   "struct" | "ptr" | "slice" | "map" | "iface" | "scalar"   (arrays are structs whose fields    *)
(*          are indices; the bytes of a string are an immutable scalar)                                   *)
(*   type   the static type, as text                                                                      *)
(*   val    the label of a scalar (its value as text); for "iface" the dynamic type; "" otherwise         *)
(*   len    number of elements of a slice / entries of a map / bytes of a string; 0 otherwise             *)
(*   isnil  nil pointer / nil slice / nil map / nil interface                                             *)
(*   mut    the memory of this node can be written (FALSE only for the bytes of a string)                 *)
(*   lo,hi  the node's OWN storage [lo, hi): the struct itself, the scalar itself, the word(s) holding    *)
(*          the pointer / slice header / map word / interface words.  Empty (0,0) when the value has no   *)
(*          storage of its own that can be addressed (a map entry, the value boxed in an interface, a     *)
(*          zero-size struct): that storage then belongs to the enclosing node's region.                  *)
(*   blo,bhi for a slice the BACKING region [base, base + cap * elemsize) -- cap, not len: re-slicing     *)
(*          shares what lies beyond len as well; for a map the address of the map object; else (0,0)      *)
(*   out    labelled edges, label -> node:  "f:<Field>" (struct field, inside the struct's region),       *)
(*          "i:<k>" (slice or array element, inside the backing region), "k:<key>" (map entry),           *)
(*          "deref" (pointer target), "dyn" (value held by an interface), "data" (bytes of a string)      *)
(*                                                                                                        *)
(* Addresses are abstract: only the order of region end points matters (the harness renumbers the real    *)
(* 64-bit end points to 1, 2, 3, ... preserving their order, so every overlap relation is preserved).     *)
(* Two roots a and b (node numbers) designate the original and the copy.                                  *)
EXTENDS Integers, Sequences, FiniteSets, TLC

Kinds == {"struct", "ptr", "slice", "map", "iface", "scalar"}

NumNodes(g) == Cardinality(DOMAIN g.nodes)
Succ(g, x) == {g.nodes[x].out[l] : l \in DOMAIN g.nodes[x].out}

(* Nodes reachable from x.  The fuel makes the recursion total on cyclic graphs as well (every node that  *)
(* is reachable at all is reachable by a simple path, which has fewer edges than there are nodes).        *)
RECURSIVE ReachF(_, _, _)
ReachF(g, x, fuel) ==
    {x} \cup (IF fuel = 0 THEN {} ELSE UNION {ReachF(g, y, fuel - 1) : y \in Succ(g, x)})
Reach(g, r) == ReachF(g, r, NumNodes(g) - 1)

-----------------------------------------------------------------------------
(* EQUAL: the two reachable graphs are the same up to addresses.  Kinds, types, scalar labels, lengths,   *)
(* nil-ness and edge labels agree, recursively.  A nil slice / map and an empty one are DIFFERENT: the    *)
(* generated DeepCopyInto functions only allocate under `if in.X != nil`, so nil stays nil and empty      *)
(* stays empty-but-allocated, and a copy that changed one into the other would not be "equal" for a       *)
(* caller that tests `x == nil` (the codecs do: WriteBytes encodes nil as NULL, empty as length 0).       *)
(* Capacity is not compared (not observable through the value).  Fuel as above; a graph that runs out of  *)
(* fuel is cyclic and is rejected, real snapshots of these types are trees or DAGs.                       *)
SameShape(n, m) ==
    /\ n.kind = m.kind /\ n.type = m.type /\ n.val = m.val /\ n.len = m.len
    /\ n.isnil = m.isnil /\ n.mut = m.mut
    /\ DOMAIN n.out = DOMAIN m.out

RECURSIVE EqF(_, _, _, _)
EqF(g, x, y, fuel) ==
    LET n == g.nodes[x]
        m == g.nodes[y]
    IN  /\ SameShape(n, m)
        /\ \A l \in DOMAIN n.out : fuel > 0 /\ EqF(g, n.out[l], m.out[l], fuel - 1)
Equal(g, a, b) == EqF(g, a, b, NumNodes(g))

-----------------------------------------------------------------------------
(* INDEPENDENT: no mutable memory is shared.  Stated on regions: no mutable node reachable from one root  *)
(* overlaps (own storage or backing region) a mutable node reachable from the other.  This contains both  *)
(* "the sets of addresses of mutable nodes are disjoint" (same address => overlapping own regions) and    *)
(* "no two slice regions overlap" (so a re-slice `out.X = in.X[:n]` or a copy into a shared backing array *)
(* is caught even where the two slices have different base addresses).  Immutable memory (string bytes)   *)
(* and nil (empty regions) may be shared.                                                                 *)
Overlap(l1, h1, l2, h2) == l1 < h1 /\ l2 < h2 /\ l1 < h2 /\ l2 < h1
RegionsOf(n) == {<<n.lo, n.hi>>, <<n.blo, n.bhi>>}
NodesOverlap(n, m) == \E p \in RegionsOf(n), q \in RegionsOf(m) : Overlap(p[1], p[2], q[1], q[2])

MutReach(g, r) == {x \in Reach(g, r) : g.nodes[x].mut}
Independent(g, a, b) ==
    \A x \in MutReach(g, a), y \in MutReach(g, b) : ~NodesOverlap(g.nodes[x], g.nodes[y])

(* The same predicate on sets of memory cells (cell c = the addresses from end point c to the next one).  *)
(* Linear instead of quadratic; used on the large real snapshots.  The lemma below shows they agree.      *)
Cells(n) == (n.lo .. (n.hi - 1)) \cup (n.blo .. (n.bhi - 1))
MutCells(g, r) == UNION {Cells(g.nodes[x]) : x \in MutReach(g, r)}
AllCells(g, r) == UNION {Cells(g.nodes[x]) : x \in Reach(g, r)}
IndependentCells(g, a, b) == MutCells(g, a) \cap MutCells(g, b) = {}

(* Mutable nodes on b's side that share memory with a's side (witnesses for the report).                  *)
SharedNodes(g, a, b) ==
    LET ca == MutCells(g, a) IN {y \in MutReach(g, b) : Cells(g.nodes[y]) \cap ca # {}}

(* Memory is either writable or not: a well-formed snapshot has no immutable node overlapping a mutable   *)
(* one (Go guarantees it for string data short of package unsafe).                                        *)
WellFormed(g) ==
    \A x, y \in DOMAIN g.nodes :
        g.nodes[x].mut # g.nodes[y].mut => ~NodesOverlap(g.nodes[x], g.nodes[y])

-----------------------------------------------------------------------------
(* Worked examples (evaluated by TLC whenever the module is loaded): what the predicates accept / reject. *)
Nd(k, t, v, ln, nl, mu, lo, hi, blo, bhi, o) ==
    [kind |-> k, type |-> t, val |-> v, len |-> ln, isnil |-> nl, mut |-> mu,
     lo |-> lo, hi |-> hi, blo |-> blo, bhi |-> bhi, out |-> o]
None == <<>>   \* no edges (DOMAIN <<>> = {})
ByteSl(lo, ln, nl, blo, bhi, o) == Nd("slice", "[]uint8", "", ln, nl, TRUE, lo, lo + 1, blo, bhi, o)
Byte(v, at) == Nd("scalar", "uint8", v, 0, FALSE, TRUE, at, at + 1, 0, 0, None)
PtrTo(t, tgt) == Nd("ptr", t, "", 0, FALSE, TRUE, 0, 0, 0, 0, ("deref" :> tgt))
StructV(lo, hi, o) == Nd("struct", "Value", "", 0, FALSE, TRUE, lo, hi, 0, 0, o)

\* original: *Value{Contents: []byte{7}} at 1..3 with backing 10..12 ; copies differ
ExDeep == [nodes |-> <<
    PtrTo("*Value", 2), StructV(1, 3, ("f:Contents" :> 3)), ByteSl(1, 1, FALSE, 10, 12, ("i:0" :> 4)), Byte("7", 10),
    PtrTo("*Value", 6), StructV(5, 7, ("f:Contents" :> 7)), ByteSl(5, 1, FALSE, 20, 21, ("i:0" :> 8)), Byte("7", 20)>>]
\* shallow: the copy's slice header points at the original's backing array
ExShallow == [nodes |-> <<
    PtrTo("*Value", 2), StructV(1, 3, ("f:Contents" :> 3)), ByteSl(1, 1, FALSE, 10, 12, ("i:0" :> 4)), Byte("7", 10),
    PtrTo("*Value", 6), StructV(5, 7, ("f:Contents" :> 7)), ByteSl(5, 1, FALSE, 10, 12, ("i:0" :> 4))>>]
\* re-sliced: the copy's element 0 is the original's spare capacity (different base, overlapping regions)
ExResliced == [nodes |-> <<
    PtrTo("*Value", 2), StructV(1, 3, ("f:Contents" :> 3)), ByteSl(1, 1, FALSE, 10, 12, ("i:0" :> 4)), Byte("7", 10),
    PtrTo("*Value", 6), StructV(5, 7, ("f:Contents" :> 7)), ByteSl(5, 1, FALSE, 11, 12, ("i:0" :> 8)), Byte("7", 11)>>]
\* nil became empty
ExNilEmpty == [nodes |-> <<
    PtrTo("*Value", 2), StructV(1, 3, ("f:Contents" :> 3)), ByteSl(1, 0, TRUE, 0, 0, None),
    PtrTo("*Value", 5), StructV(5, 7, ("f:Contents" :> 6)), ByteSl(5, 0, FALSE, 0, 0, None)>>]
\* two string slots sharing their (immutable) bytes
StrSlot(at, d) == Nd("scalar", "string", "ab", 2, FALSE, TRUE, at, at + 1, 0, 0, ("data" :> d))
ExString == [nodes |-> <<
    StrSlot(1, 3), StrSlot(2, 3), Nd("scalar", "strdata", "ab", 2, FALSE, FALSE, 30, 32, 0, 0, None)>>]

ASSUME Equal(ExDeep, 1, 5) /\ Independent(ExDeep, 1, 5) /\ IndependentCells(ExDeep, 1, 5)
ASSUME Equal(ExShallow, 1, 5) /\ ~Independent(ExShallow, 1, 5) /\ SharedNodes(ExShallow, 1, 5) = {4, 7}
ASSUME Equal(ExResliced, 1, 5) /\ ~Independent(ExResliced, 1, 5) /\ ~IndependentCells(ExResliced, 1, 5)
ASSUME ~Equal(ExNilEmpty, 1, 4) /\ Independent(ExNilEmpty, 1, 4)
ASSUME Equal(ExString, 1, 2) /\ Independent(ExString, 1, 2) /\ WellFormed(ExString)
ASSUME ~Independent(ExDeep, 1, 1) /\ Equal(ExDeep, 1, 1)

-----------------------------------------------------------------------------
(* SMALL-SCOPE LEMMA.  The mutate / observe machine: memory is a function from cells to values; a         *)
(* mutation through a root overwrites ONE cell of a mutable node reachable from that root -- this is      *)
(* what overwriting a scalar, a slice element, a map entry, or a pointer / slice header / interface word  *)
(* (re-targeting) is; what can be observed through a root is the content of every cell of every node      *)
(* reachable from it (everything else a holder of the root can compute is a function of that).            *)
(*   Lemma: on every well-formed heap within the scope, for both pairs of roots,                          *)
(*     Independent(g, a, b)  <=>  no single mutation through one root changes the other root's            *)
(*                                observation  (in either direction),                                     *)
(*   and Independent = IndependentCells.                                                                  *)
(* Scope: MaxNodes nodes (fewer are covered: unreachable nodes are inert), NCells cells, every own region *)
(* (and, with WithBacking, every backing region), mutable or not, every edge relation without self loops, *)
(* roots (1, 1) and (1, 2).                                                                               *)
CONSTANTS MaxNodes, NCells, WithBacking
VARIABLES heap, rb, mem, wrote

vars == <<heap, rb, mem, wrote>>

SmallRegions == {<<0, 0>>} \cup {r \in (1..NCells) \X (2..(NCells + 1)) : r[1] < r[2]}
SmallNodeSet(x) ==
    {[lo |-> r[1], hi |-> r[2], blo |-> q[1], bhi |-> q[2], mut |-> mu, out |-> [d \in S |-> d]] :
        r \in SmallRegions, q \in (IF WithBacking THEN SmallRegions ELSE {<<0, 0>>}),
        mu \in BOOLEAN, S \in SUBSET ((1..MaxNodes) \ {x})}
Zero == [c \in 1..NCells |-> 0]
Flip(m, c) == [m EXCEPT ![c] = 1 - @]
Obs(g, m, r) == [c \in AllCells(g, r) |-> m[c]]
Other(r) == IF r = 1 THEN rb ELSE 1

NonInterference(g, a, b) ==
    /\ \A c \in MutCells(g, a) : Obs(g, Flip(Zero, c), b) = Obs(g, Zero, b)
    /\ \A c \in MutCells(g, b) : Obs(g, Flip(Zero, c), a) = Obs(g, Zero, a)

(* The heap under test is assembled one node per step (so that TLC's workers share the enumeration) and   *)
(* is then frozen; every complete well-formed heap of the scope is reached exactly once per choice of rb. *)
Complete == Len(heap.nodes) = MaxNodes
Ready == Complete /\ WellFormed(heap)

Init ==
    /\ heap = [nodes |-> <<>>]
    /\ rb \in {1, 2}
    /\ mem = Zero
    /\ wrote = <<>>

Build ==
    /\ ~Complete
    /\ \E n \in SmallNodeSet(Len(heap.nodes) + 1) : heap' = [nodes |-> Append(heap.nodes, n)]
    /\ UNCHANGED <<rb, mem, wrote>>

Write(r, c) ==
    /\ Ready
    /\ wrote = <<>>
    /\ c \in MutCells(heap, r)
    /\ mem' = Flip(mem, c)
    /\ wrote' = <<r, c>>
    /\ UNCHANGED <<heap, rb>>

Next == Build \/ \E r \in {1, rb}, c \in 1..NCells : Write(r, c)
Spec == Init /\ [][Next]_vars

\* the structural predicate is the semantic one
Lemma == (Ready /\ wrote = <<>>) => (Independent(heap, 1, rb) <=> NonInterference(heap, 1, rb))
\* ... and the machine agrees step by step: a write that the other root observes happens only on heaps
\* that are not independent, i.e. on an independent heap no write is ever observed
ObservedOnlyIfShared ==
    wrote # <<>> =>
        ((Obs(heap, mem, Other(wrote[1])) # Obs(heap, Zero, Other(wrote[1]))) => ~Independent(heap, 1, rb))
\* the two formulations coincide
CellsAgree == (Ready /\ wrote = <<>>) => (Independent(heap, 1, rb) <=> IndependentCells(heap, 1, rb))
=============================================================================

\* C17 small-scope lemma: all well-formed heaps of 3 nodes over 3 memory cells (own regions only).
SPECIFICATION Spec
CONSTANTS
    MaxNodes = 3
    NCells = 3
    WithBacking = FALSE
INVARIANTS Lemma ObservedOnlyIfShared CellsAgree
CHECK_DEADLOCK FALSE

\* C17 small-scope lemma: all well-formed heaps of 3 nodes over 2 memory cells (own regions only; 3 cells: 605k states, same result).
SPECIFICATION Spec
CONSTANTS
    MaxNodes = 3
    NCells = 2
    WithBacking = FALSE
INVARIANTS Lemma ObservedOnlyIfShared CellsAgree
CHECK_DEADLOCK FALSE

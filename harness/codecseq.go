package main

import (
	"bytes"
	"encoding/json"
	"errors"
	"flag"
	"fmt"
	"io"
	"math/big"
	"os"
	"sort"
	"strings"

	"github.com/datastax/go-cassandra-native-protocol/client"
	"github.com/datastax/go-cassandra-native-protocol/datacodec"
	"github.com/datastax/go-cassandra-native-protocol/datatype"
	"github.com/datastax/go-cassandra-native-protocol/frame"
	"github.com/datastax/go-cassandra-native-protocol/message"
	"github.com/datastax/go-cassandra-native-protocol/primitive"
	"github.com/datastax/go-cassandra-native-protocol/segment"
)

// Replay of specs/CodecSeq.tla (history independence of the codecs): every history TLC prints is executed on real
// codec instances, one set per history; every result is compared with the reference - the result of the same call
// made alone, computed once when the process starts - and every result still held is re-read after every step.

func init() { subcommands["codecseq"] = codecSeqMain }

// csInst is the set of codec instances one history runs on.
type csInst struct {
	plain, lz4, snappy frame.RawCodec
	segPlain, segLz4   segment.Codec
	lz4c, snappyc      frame.BodyCompressor
	held               []*csHeld
	kept               []*csKept
}

// csKept is a byte slice an encoder returned and the caller keeps.
type csKept struct {
	name string
	b    []byte // the slice as returned (not a copy)
}

type csHeld struct {
	name string
	raw  *frame.RawFrame
}

func newCsInst() *csInst {
	return &csInst{
		plain:    frame.NewRawCodec(),
		lz4:      frame.NewRawCodecWithCompression(client.NewBodyCompressor(primitive.CompressionLz4)),
		snappy:   frame.NewRawCodecWithCompression(client.NewBodyCompressor(primitive.CompressionSnappy)),
		segPlain: segment.NewCodec(),
		segLz4:   segment.NewCodecWithCompression(client.NewPayloadCompressor(primitive.CompressionLz4)),
		lz4c:     client.NewBodyCompressor(primitive.CompressionLz4),
		snappyc:  client.NewBodyCompressor(primitive.CompressionSnappy),
	}
}

// brokenWriter accepts n bytes and then fails.
type brokenWriter struct{ n int }

func (w *brokenWriter) Write(p []byte) (int, error) {
	if len(p) <= w.n {
		w.n -= len(p)
		return len(p), nil
	}
	k := w.n
	w.n = 0
	return k, errors.New("verif: writer broke")
}

type csOp struct {
	Name  string `json:"n"`
	Kind  string `json:"k"` // ok | fail | hold | use
	Props string `json:"props"`
	run   func(in *csInst) ([]byte, error)
}

func csQuery(v primitive.ProtocolVersion, id int16, text string, compress bool) *frame.Frame {
	f := frame.NewFrame(v, id, &message.Query{Query: text, Options: &message.QueryOptions{Consistency: primitive.ConsistencyLevelOne}})
	if compress {
		f.Header.Flags = f.Header.Flags.Add(primitive.HeaderFlagCompressed)
	}
	return f
}

func csRows(id int16, n int, compress bool) *frame.Frame {
	rows := make(message.RowSet, n)
	for i := range rows {
		rows[i] = message.Row{message.Column(bytes.Repeat([]byte{byte('a' + i%7)}, 40))}
	}
	f := frame.NewFrame(primitive.ProtocolVersion4, id, &message.RowsResult{
		Metadata: &message.RowsMetadata{ColumnCount: 1, Columns: []*message.ColumnMetadata{{Keyspace: "ks", Table: "t", Name: "c", Index: 0, Type: datatype.Blob}}},
		Data:     rows})
	if compress {
		f.Header.Flags = f.Header.Flags.Add(primitive.HeaderFlagCompressed)
	}
	return f
}

func encodeWith(c frame.RawCodec, f *frame.Frame, w io.Writer) error {
	return c.EncodeFrame(f, w)
}

// once: the frame is built on first use and deep-copied for every call.
func once(mk func() *frame.Frame) func() *frame.Frame {
	var f *frame.Frame
	return func() *frame.Frame {
		if f == nil {
			f = mk()
		}
		return f.DeepCopy()
	}
}

func csEnc(pick func(in *csInst) frame.RawCodec, mk func() *frame.Frame) func(in *csInst) ([]byte, error) {
	return func(in *csInst) ([]byte, error) {
		buf := &bytes.Buffer{}
		err := encodeWith(pick(in), mk(), buf)
		return buf.Bytes(), err
	}
}

func csEncFail(pick func(in *csInst) frame.RawCodec, mk func() *frame.Frame, after int) func(in *csInst) ([]byte, error) {
	return func(in *csInst) ([]byte, error) {
		err := encodeWith(pick(in), mk(), &brokenWriter{after})
		return nil, err
	}
}

func csSeg(pick func(in *csInst) segment.Codec, payload []byte, sc bool) func(in *csInst) ([]byte, error) {
	return func(in *csInst) ([]byte, error) {
		buf := &bytes.Buffer{}
		seg := &segment.Segment{Header: &segment.Header{IsSelfContained: sc}, Payload: &segment.Payload{UncompressedData: append([]byte(nil), payload...)}}
		err := pick(in).EncodeSegment(seg, buf)
		return buf.Bytes(), err
	}
}

func csCatalogue() []csOp {
	plain := func(in *csInst) frame.RawCodec { return in.plain }
	lz4 := func(in *csInst) frame.RawCodec { return in.lz4 }
	snappy := func(in *csInst) frame.RawCodec { return in.snappy }
	segLz4 := func(in *csInst) segment.Codec { return in.segLz4 }
	segPlain := func(in *csInst) segment.Codec { return in.segPlain }
	v4 := primitive.ProtocolVersion4
	small := once(func() *frame.Frame { return csQuery(v4, 5, "SELECT a FROM t WHERE k = 1", false) })
	other := once(func() *frame.Frame {
		return csQuery(primitive.ProtocolVersion3, 6, "INSERT INTO u (x, y) VALUES (?, ?) -- another statement, longer", false)
	})
	empty := once(func() *frame.Frame { return frame.NewFrame(v4, 1, &message.Options{}) })
	csmall := once(func() *frame.Frame {
		return csQuery(v4, 7, "SELECT a, b, c, a, b, c, a, b, c FROM t WHERE k = 1 AND a = a AND b = b", true)
	})
	cbig := once(func() *frame.Frame { return csRows(8, 60, true) })
	cempty := once(func() *frame.Frame {
		f := frame.NewFrame(v4, 2, &message.Ready{})
		f.Header.Flags = f.Header.Flags.Add(primitive.HeaderFlagCompressed)
		return f
	})
	refused := once(func() *frame.Frame {
		f := csQuery(primitive.ProtocolVersion3, 9, "SELECT refused", false)
		f.SetCustomPayload(map[string][]byte{"k": {1, 2, 3}})
		return f
	})
	rnd := []byte{0x9b, 0x11, 0xe7, 0x42, 0x05}
	zeros := make([]byte, 300)
	text := bytes.Repeat([]byte("the quick brown fox "), 40)
	comp := func(pick func(in *csInst) frame.BodyCompressor, data []byte) func(in *csInst) ([]byte, error) {
		return func(in *csInst) ([]byte, error) {
			out := &bytes.Buffer{}
			if err := pick(in).CompressWithLength(bytes.NewReader(data), out); err != nil {
				return nil, err
			}
			back := &bytes.Buffer{}
			if err := pick(in).DecompressWithLength(bytes.NewReader(out.Bytes()), back); err != nil {
				return nil, err
			}
			return append(out.Bytes(), back.Bytes()...), nil
		}
	}
	// decoding: the input is a stream of two frames; the result is the re-encoding of both and the number of bytes left
	decStream := func(pick func(in *csInst) frame.RawCodec, mk1, mk2 func() *frame.Frame, cut int) func(in *csInst) ([]byte, error) {
		var input []byte
		return func(in *csInst) ([]byte, error) {
			if input == nil { // the input stream is built once
				ref := newCsInst()
				src := &bytes.Buffer{}
				if err := encodeWith(pick(ref), mk1(), src); err != nil {
					return nil, err
				}
				if err := encodeWith(pick(ref), mk2(), src); err != nil {
					return nil, err
				}
				input = src.Bytes()
			}
			data := input
			if cut > 0 {
				data = data[:len(data)-cut]
			}
			r := bytes.NewReader(data)
			out := &bytes.Buffer{}
			for i := 0; i < 2; i++ {
				f, err := pick(in).DecodeFrame(r)
				if err != nil {
					return nil, err
				}
				fmt.Fprintf(out, "[%v|%v]", f.Header, f.Body.Message)
			}
			fmt.Fprintf(out, "left=%d", r.Len())
			return out.Bytes(), nil
		}
	}
	// a frame with the compression flag whose body is not a valid block
	decCorrupt := func(pick func(in *csInst) frame.RawCodec, mk func() *frame.Frame) func(in *csInst) ([]byte, error) {
		var input []byte
		return func(in *csInst) ([]byte, error) {
			if input == nil {
				src := &bytes.Buffer{}
				if err := encodeWith(pick(newCsInst()), mk(), src); err != nil {
					return nil, nil // (reference failure shows as "did not fail")
				}
				input = src.Bytes()
				for i := 13; i < len(input); i += 3 {
					input[i] ^= 0xa5
				}
			}
			data := append([]byte(nil), input...)
			_, err := pick(in).DecodeFrame(&slowReader{data})
			return nil, err
		}
	}
	return []csOp{
		{Name: "enc.plain.small", Kind: "ok", Props: "C01,C02,C03", run: csEnc(plain, small)},
		{Name: "enc.plain.empty", Kind: "ok", Props: "C01,C02,C03", run: csEnc(plain, empty)},
		{Name: "enc.lz4.small", Kind: "ok", Props: "C01,C02,C03", run: csEnc(lz4, csmall)},
		{Name: "enc.lz4.big", Kind: "ok", Props: "C01,C02,C03", run: csEnc(lz4, cbig)},
		{Name: "enc.snappy.small", Kind: "ok", Props: "C01,C02,C03", run: csEnc(snappy, csmall)},
		{Name: "fail.plain.writer", Kind: "fail", Props: "C01,C02,C03", run: csEncFail(plain, other, 12)},
		{Name: "fail.plain.refused", Kind: "fail", Props: "C01,C02,C03", run: csEncFail(plain, refused, 1<<20)},
		{Name: "fail.lz4.writer", Kind: "fail", Props: "C01,C02,C03", run: csEncFail(lz4, cbig, 12)},
		{Name: "fail.snappy.writer", Kind: "fail", Props: "C01,C02,C03", run: csEncFail(snappy, cbig, 9)},
		{Name: "raw.a", Kind: "hold", Props: "C05"},
		{Name: "raw.b", Kind: "hold", Props: "C05"},
		{Name: "raw.encode", Kind: "use", Props: "C05"},
		{Name: "dec.plain", Kind: "ok", Props: "C01,C03", run: decStream(plain, small, other, 0)},
		{Name: "dec.lz4.empty-then-next", Kind: "ok", Props: "C03,C05,C08", run: decStream(lz4, cempty, csmall, 0)},
		{Name: "dec.snappy", Kind: "ok", Props: "C01,C03,C08", run: decStream(snappy, cbig, csmall, 0)},
		{Name: "fail.dec.lz4.truncated", Kind: "fail", Props: "C03,C05,C08", run: decStream(lz4, csmall, cbig, 7)},
		{Name: "seg.lz4.fallback", Kind: "ok", Props: "C06", run: csSeg(segLz4, rnd, true)},
		{Name: "seg.lz4.zeros", Kind: "ok", Props: "C06", run: csSeg(segLz4, zeros, true)},
		{Name: "seg.lz4.text", Kind: "ok", Props: "C06", run: csSeg(segLz4, text, false)},
		{Name: "seg.plain", Kind: "ok", Props: "C06", run: csSeg(segPlain, text, true)},
		{Name: "fail.seg.lz4.writer", Kind: "fail", Props: "C06", run: func(in *csInst) ([]byte, error) {
			seg := &segment.Segment{Header: &segment.Header{IsSelfContained: true}, Payload: &segment.Payload{UncompressedData: append([]byte(nil), text...)}}
			return nil, in.segLz4.EncodeSegment(seg, &brokenWriter{10})
		}},
		{Name: "fail.dec.snappy.corrupt", Kind: "fail", Props: "C01,C08", run: decCorrupt(snappy, csmall)},
		{Name: "fail.dec.lz4.corrupt", Kind: "fail", Props: "C01,C08", run: decCorrupt(lz4, cbig)},
		{Name: "fail.snappy.decompress", Kind: "fail", Props: "C08", run: func(in *csInst) ([]byte, error) {
			return nil, in.snappyc.DecompressWithLength(bytes.NewReader([]byte{0x20, 0xfe, 0xff, 0xff, 0xff, 0x07, 0xff, 0xee, 0xdd, 9}), &bytes.Buffer{})
		}},
		{Name: "fail.lz4.decompress", Kind: "fail", Props: "C08", run: func(in *csInst) ([]byte, error) {
			return nil, in.lz4c.DecompressWithLength(bytes.NewReader([]byte{0, 0, 1, 0, 0xf0, 0xff, 0xff, 0xff, 0xff, 1, 2}), &bytes.Buffer{})
		}},
		{Name: "cql.list.encode", Kind: "keep", Props: "C11,C12", run: cqlEnc(cqlListCodec, []int32{1, 2, 3})},
		{Name: "cql.set.encode", Kind: "keep", Props: "C11,C12", run: cqlEnc(cqlSetCodec, []int32{7, 8, 9, 10})},
		{Name: "cql.map.encode", Kind: "keep", Props: "C11,C12", run: cqlEnc(cqlMapCodec, map[int32]string{5: "five"})},
		{Name: "cql.varint.encode", Kind: "keep", Props: "C11,C12", run: cqlEnc(datacodec.Varint, big.NewInt(-123456789))},
		{Name: "cql.udt.encode", Kind: "keep", Props: "C11,C12", run: cqlEnc(cqlUdtCodec, map[string]interface{}{"a": int32(4), "b": []int32{5, 6}})},
		{Name: "fail.cql.list.encode", Kind: "fail", Props: "C11,C12", run: cqlEnc(cqlListCodec, []string{"not", "ints"})},
		{Name: "cql.list.decode", Kind: "ok", Props: "C11,C12", run: func(in *csInst) ([]byte, error) {
			var d []int32
			_, err := cqlListCodec.Decode([]byte{0, 0, 0, 2, 0, 0, 0, 4, 0, 0, 0, 9, 0, 0, 0, 4, 0, 0, 0, 8}, &d, primitive.ProtocolVersion4)
			return []byte(fmt.Sprint(d)), err
		}},
		{Name: "fail.cql.list.decode", Kind: "fail", Props: "C11,C12", run: func(in *csInst) ([]byte, error) {
			var d []int32
			_, err := cqlListCodec.Decode([]byte{0, 0, 0, 2, 0, 0, 0, 4, 0, 0, 0, 9, 0, 0, 0, 4, 0, 0}, &d, primitive.ProtocolVersion4)
			return nil, err
		}},
		{Name: "lz4.roundtrip", Kind: "ok", Props: "C08", run: comp(func(in *csInst) frame.BodyCompressor { return in.lz4c }, text)},
		{Name: "lz4.roundtrip.empty", Kind: "ok", Props: "C08", run: comp(func(in *csInst) frame.BodyCompressor { return in.lz4c }, nil)},
		{Name: "snappy.roundtrip", Kind: "ok", Props: "C08", run: comp(func(in *csInst) frame.BodyCompressor { return in.snappyc }, zeros)},
	}
}

// slowReader is a plain io.Reader (not a *bytes.Buffer / *bytes.Reader: codecs may special-case those).
type slowReader struct{ b []byte }

func (r *slowReader) Read(p []byte) (int, error) {
	if len(r.b) == 0 {
		return 0, io.EOF
	}
	n := copy(p, r.b)
	r.b = r.b[n:]
	return n, nil
}

var cqlListCodec, _ = datacodec.NewList(datatype.NewList(datatype.Int))
var cqlSetCodec, _ = datacodec.NewSet(datatype.NewSet(datatype.Int))
var cqlMapCodec, _ = datacodec.NewMap(datatype.NewMap(datatype.Int, datatype.Varchar))
var cqlUdtCodec = func() datacodec.Codec {
	udt, _ := datatype.NewUserDefined("ks", "t", []string{"a", "b"}, []datatype.DataType{datatype.Int, datatype.NewList(datatype.Int)})
	c, _ := datacodec.NewUserDefined(udt)
	return c
}()

func cqlEnc(c datacodec.Codec, v interface{}) func(in *csInst) ([]byte, error) {
	return func(in *csInst) ([]byte, error) { return c.Encode(v, primitive.ProtocolVersion4) }
}

func csRawSource(name string) *frame.Frame {
	if name == "raw.a" {
		return csQuery(primitive.ProtocolVersion4, 11, "SELECT raw_a FROM t", false)
	}
	return csRows(12, 9, false)
}

// csRun executes one operation; for hold / use operations the held raw frames are managed here.
func csRun(op *csOp, in *csInst) ([]byte, error) {
	switch op.Kind {
	case "hold":
		raw, err := in.plain.ConvertToRawFrame(csRawSource(op.Name))
		if err != nil {
			return nil, err
		}
		in.held = append(in.held, &csHeld{op.Name, raw})
		return csRawDigest(raw), nil
	case "use":
		h := in.held[0]
		in.held = in.held[1:]
		buf := &bytes.Buffer{}
		if err := in.plain.EncodeRawFrame(h.raw, buf); err != nil {
			return nil, err
		}
		return buf.Bytes(), nil
	}
	out, err := op.run(in)
	if op.Kind == "keep" && err == nil {
		in.kept = append(in.kept, &csKept{op.Name, out})
	}
	return out, err
}

func csRawDigest(raw *frame.RawFrame) []byte {
	return []byte(fmt.Sprintf("%v|%x", raw.Header, raw.Body))
}

func codecSeqMain(args []string) int {
	fs := flag.NewFlagSet("codecseq", flag.ExitOnError)
	list := fs.Bool("list", false, "print the alphabet (JSON) and exit")
	hist := fs.String("hist", "", "HIST lines of CodecSeq.tla (ndjson)")
	only := fs.String("props", "", "report only operations that concern one of these properties (comma separated); empty: all")
	_ = fs.Parse(args)
	cat := csCatalogue()
	if *list {
		b, _ := json.Marshal(cat)
		fmt.Println(string(b))
		return 0
	}
	byName := map[string]*csOp{}
	for i := range cat {
		byName[cat[i].Name] = &cat[i]
	}
	// reference: every call made alone, on fresh instances, before anything has failed in this process
	ref := map[string][]byte{}
	broken := map[string]string{}
	for pass := 0; pass < 2; pass++ {
		for i := range cat {
			op := &cat[i]
			if (op.Kind == "fail") != (pass == 1) {
				continue // the calls made to fail come last: nothing has failed yet when the references are taken
			}
			in := newCsInst()
			switch op.Kind {
			case "ok", "hold", "keep":
				out, err := csRun(op, in)
				if err != nil {
					// a call on valid input (it succeeds on the tree the catalogue was written for) fails when made
					// alone, first thing in the process: reported as such; histories are judged without this call
					broken[op.Name] = fmt.Sprintf("a call on valid input failed when made alone, before anything else in the process: %v", err)
					continue
				}
				ref[op.Name] = append([]byte(nil), out...)
				if op.Kind == "hold" {
					enc, err := csRun(byName["raw.encode"], in)
					if err != nil {
						fmt.Fprintf(os.Stderr, "codecseq: reference raw.encode(%s) failed: %v\n", op.Name, err)
						return 2
					}
					ref["raw.encode/"+op.Name] = append([]byte(nil), enc...)
				}
			case "fail":
				if _, err := csRun(op, in); err == nil {
					fmt.Fprintf(os.Stderr, "codecseq: reference call %s did not fail\n", op.Name)
					return 2
				}
			}
		}
	}
	want := func(p string) bool {
		if *only == "" {
			return true
		}
		for _, x := range strings.Split(*only, ",") {
			if strings.Contains(p, x) {
				return true
			}
		}
		return false
	}
	rep := &Report{}
	distinct := map[string]bool{}
	sigs := map[string]bool{}
	for name, why := range broken {
		if want(byName[name].Props) {
			rep.violate("codecseq|"+name+"|alone-error", name+": "+why, map[string]interface{}{"check": "codecseq", "history": []string{name}, "step": 1})
		}
	}
	err := readNDJSON(*hist, func(line []byte) error {
		var h struct {
			H []struct {
				N string `json:"n"`
				K string `json:"k"`
			} `json:"h"`
		}
		if err := json.Unmarshal(line, &h); err != nil {
			return err
		}
		rep.Evaluations++
		in := newCsInst()
		var names []string
		for _, e := range h.H {
			names = append(names, e.N)
		}
		bad := func(step int, op *csOp, what string) {
			if !want(op.Props) {
				return
			}
			sig := fmt.Sprintf("codecseq|%s|%s", op.Name, strings.SplitN(what, ":", 2)[0])
			if sigs[sig] && len(rep.Violations) > 40 {
				return
			}
			sigs[sig] = true
			rep.violate(sig, fmt.Sprintf("history %v, step %d (%s): %s", names, step+1, op.Name, what), map[string]interface{}{"check": "codecseq", "history": names, "step": step + 1})
		}
		for i, e := range h.H {
			op := byName[e.N]
			if op == nil {
				return fmt.Errorf("unknown operation %q", e.N)
			}
			var heldName string
			if op.Kind == "use" {
				heldName = in.held[0].name
			}
			var out []byte
			var err error
			func() {
				defer func() {
					if x := recover(); x != nil {
						err = fmt.Errorf("panic: %v", x)
						if op.Kind == "fail" {
							bad(i, op, fmt.Sprintf("panic: %v", x))
						}
					}
				}()
				out, err = csRun(op, in)
			}()
			switch op.Kind {
			case "fail":
				if err == nil {
					bad(i, op, "no-error: the call was made to fail and returned no error")
				}
			case "ok", "hold", "keep":
				if broken[op.Name] != "" {
					break
				}
				if err != nil {
					bad(i, op, fmt.Sprintf("error: a call that succeeds when made alone failed: %v", err))
				} else if !bytes.Equal(out, ref[op.Name]) {
					bad(i, op, fmt.Sprintf("result-differs: the result differs from that of the same call made alone (%d bytes, alone %d bytes; first difference at %d)", len(out), len(ref[op.Name]), csFirstDiff(out, ref[op.Name])))
				}
			case "use":
				if err != nil {
					bad(i, op, fmt.Sprintf("error: encoding the raw frame held since %s failed: %v", heldName, err))
				} else if !bytes.Equal(out, ref["raw.encode/"+heldName]) {
					bad(i, op, fmt.Sprintf("result-differs: the raw frame made by %s and held since does not encode to the bytes it encodes to when encoded at once (%d bytes, at once %d; first difference at %d)",
						heldName, len(out), len(ref["raw.encode/"+heldName]), csFirstDiff(out, ref["raw.encode/"+heldName])))
				}
			}
			// everything still held reads as it was returned
			for _, hd := range in.held {
				if !bytes.Equal(csRawDigest(hd.raw), ref[hd.name]) {
					bad(i, byName[hd.name], fmt.Sprintf("held-changed: the raw frame returned by %s changed under the caller's feet after %s", hd.name, op.Name))
				}
			}
			for _, kp := range in.kept {
				if !bytes.Equal(kp.b, ref[kp.name]) {
					bad(i, byName[kp.name], fmt.Sprintf("kept-changed: the bytes returned by %s changed under the caller's feet after %s", kp.name, op.Name))
				}
			}
			distinct[strings.Join(names[:i+1], ">")] = true
		}
		return nil
	})
	if err != nil {
		fmt.Fprintln(os.Stderr, err)
		return 2
	}
	rep.Distinct = len(distinct)
	var opn []string
	for _, o := range cat {
		opn = append(opn, o.Name+":"+o.Kind)
	}
	sort.Strings(opn)
	rep.Extra = map[string]interface{}{"alphabet": opn}
	return rep.print()
}

func csFirstDiff(a, b []byte) int {
	for i := 0; i < len(a) && i < len(b); i++ {
		if a[i] != b[i] {
			return i
		}
	}
	if len(a) < len(b) {
		return len(a)
	}
	return len(b)
}

package main

import (
	"context"
	"encoding/json"
	"flag"
	"fmt"
	"net"
	"os"
	"runtime"
	"strings"
	"sync"
	"time"

	"github.com/datastax/go-cassandra-native-protocol/client"
)

// Replay of specs/ServerLife.tla sessions on a real CqlServer over loopback TCP (binding R for the server part of
// C16): start (or a Start that cannot listen), clients connecting, Accept / AcceptAny, Accept for a connection made
// elsewhere, peers going away, Close. After every call its result is compared with the model; at the end (the model
// always ends with Close, or with the state TLC proved dead in the as-found variants) Close must return, nothing may
// panic, every connection the server accepted must be closed, later calls must be refused, no goroutine may survive.

func init() { subcommands["serverlife"] = serverLife }

type lifeStep struct {
	A  string `json:"a"`
	C  string `json:"c"`
	Ok bool   `json:"ok"`
}

type lifeSession struct {
	Steps []lifeStep `json:"steps"`
}

func runLifeSession(sess lifeSession, maxConn int, occupied string, elsewhere string) (problems []string, sigs []string) {
	bad := func(sig, msg string) { sigs = append(sigs, sig); problems = append(problems, msg) }
	ctx, cancel := context.WithCancel(context.Background())
	defer cancel()
	var srv *client.CqlServer
	clients := map[string]*client.CqlClientConnection{}
	var accepted []*client.CqlServerConnection
	guard := func(name string, f func()) (returned bool) {
		done := make(chan string, 1)
		go func() {
			defer func() {
				if r := recover(); r != nil {
					done <- fmt.Sprint(r)
					return
				}
				done <- ""
			}()
			f()
		}()
		select {
		case p := <-done:
			if p != "" {
				bad("panic|"+name+"|"+panicClass(p), fmt.Sprintf("%s panicked: %s", name, p))
			}
			return true
		case <-time.After(10 * time.Second):
			bad("blocked|"+name, fmt.Sprintf("%s did not return within 10 s", name))
			return false
		}
	}
	closed := false
	for si, st := range sess.Steps {
		if len(problems) > 0 {
			break
		}
		switch st.A {
		case "start":
			addr := "127.0.0.1:0"
			if !st.Ok {
				addr = occupied // somebody else is listening there: Start cannot bind
			}
			srv = client.NewCqlServer(addr, nil)
			srv.MaxConnections = maxConn
			srv.AcceptTimeout = 40 * time.Millisecond
			var err error
			if !guard("Start", func() { err = srv.Start(ctx) }) {
				return
			}
			if (err == nil) != st.Ok {
				bad("start-result", fmt.Sprintf("step %d: Start returned %v, the model says ok=%v", si, err, st.Ok))
			}
		case "connect":
			cc := client.NewCqlClient(srv.VerifListenAddr(), nil)
			cc.ConnectTimeout = 2 * time.Second
			var conn *client.CqlClientConnection
			var err error
			for try := 0; try < 8; try++ {
				if !guard("Connect", func() { conn, err = cc.Connect(ctx) }) {
					return
				}
				clash := false
				for _, other := range clients { // (see accept-stranger: the registry is keyed by the client's address)
					clash = clash || (err == nil && other.LocalAddr().String() == conn.LocalAddr().String())
				}
				if !clash {
					break
				}
				_ = conn.Close()
				time.Sleep(20 * time.Millisecond)
			}
			if err != nil {
				bad("connect", fmt.Sprintf("step %d: client %s could not connect: %v", si, st.C, err))
				break
			}
			clients[st.C] = conn
			// let the accept loop register (or reject) it: wait for what the model says happens, up to a second
			registered := func() bool {
				found := false
				guard("AllAcceptedClients", func() {
					all, _ := srv.AllAcceptedClients()
					for _, sc := range all {
						if sc.RemoteAddr().String() == conn.LocalAddr().String() {
							found = true
						}
					}
				})
				return found
			}
			deadline := time.Now().Add(time.Second)
			for st.Ok && !registered() && time.Now().Before(deadline) && len(problems) == 0 {
				time.Sleep(time.Millisecond)
			}
			if !st.Ok {
				time.Sleep(20 * time.Millisecond)
			}
			if len(problems) == 0 && registered() != st.Ok {
				bad("connect-registration", fmt.Sprintf("step %d: client %s connected; registered by the server = %v, the model says %v", si, st.C, !st.Ok, st.Ok))
			}
		case "accept":
			var sc *client.CqlServerConnection
			var err error
			if !guard("Accept", func() { sc, err = srv.Accept(clients[st.C]) }) {
				return
			}
			if err != nil || sc == nil {
				bad("accept-connected-client", fmt.Sprintf("step %d: Accept for the connected client %s: %v", si, st.C, err))
			} else {
				accepted = append(accepted, sc)
			}
		case "accept-stranger":
			// a client connection made to another listener: the server never sees it
			cc := client.NewCqlClient(elsewhere, nil)
			var conn *client.CqlClientConnection
			var err error
			for try := 0; try < 8; try++ {
				if conn, err = cc.Connect(ctx); err != nil {
					break
				}
				// the kernel may give this connection (to another listener) the local port of one of the server's clients, and
				// the registry is keyed by the client's address: that would not be a stranger
				clash := false
				for _, other := range clients {
					clash = clash || other.LocalAddr().String() == conn.LocalAddr().String()
				}
				if !clash {
					break
				}
				_ = conn.Close()
				conn, err = nil, fmt.Errorf("local port clash")
			}
			if err != nil {
				bad("harness", fmt.Sprintf("cannot connect to the harness's own listener: %v", err))
				break
			}
			clients["stranger:"+st.C] = conn
			var sc *client.CqlServerConnection
			if !guard("Accept", func() { sc, err = srv.Accept(conn) }) {
				return
			}
			if err == nil && sc != nil {
				bad("accept-stranger-succeeded", fmt.Sprintf("step %d: Accept returned a connection for a client that never connected", si))
			}
		case "accept-any":
			var sc *client.CqlServerConnection
			var err error
			if !guard("AcceptAny", func() { sc, err = srv.AcceptAny() }) {
				return
			}
			if err != nil || sc == nil {
				bad("accept-any", fmt.Sprintf("step %d: AcceptAny with a connection announced: %v", si, err))
			} else {
				accepted = append(accepted, sc)
			}
		case "client-close":
			if c := clients[st.C]; c != nil {
				sizeBefore := 0
				guard("registry", func() { sizeBefore = srv.VerifRegistrySize() })
				guard("client Close", func() { _ = c.Close() })
				// let the server side notice and unregister: the registry shrinks when it does
				deadline := time.Now().Add(time.Second)
				for time.Now().Before(deadline) && len(problems) == 0 {
					size := 0
					guard("registry", func() { size = srv.VerifRegistrySize() })
					if size < sizeBefore {
						break
					}
					time.Sleep(time.Millisecond)
				}
			}
		case "server-close":
			if !guard("AllAcceptedClients", func() {
				if all, err := srv.AllAcceptedClients(); err == nil {
					accepted = append(accepted, all...)
				}
			}) {
				return
			}
			if !guard("CqlServer.Close", func() { _ = srv.Close() }) {
				return
			}
			closed = true
		}
	}
	if srv != nil && !closed && len(problems) == 0 {
		// the model stopped in a state it proved dead (as-found variants only): Close is the step that shows it
		if !guard("CqlServer.Close", func() { _ = srv.Close() }) {
			return
		}
		closed = true
	}
	if closed && len(problems) == 0 {
		for _, sc := range accepted {
			if !sc.IsClosed() {
				bad("connection-open-after-close", "a connection the server had accepted is still open after CqlServer.Close returned")
				break
			}
		}
		if _, err := srv.AcceptAny(); err == nil {
			bad("accept-after-close", "AcceptAny succeeded on a closed server")
		}
		guard("second Close", func() { _ = srv.Close() })
	}
	for _, c := range clients {
		_ = c.Close()
	}
	return
}

func serverLife(args []string) int {
	fs := flag.NewFlagSet("serverlife", flag.ExitOnError)
	path := fs.String("sessions", "", "LIFE lines of ServerLife.tla (ndjson)")
	maxConn := fs.Int("max-conn", 2, "MaxConnections of the model")
	every := fs.Int("every", 1, "replay every n-th session")
	workers := fs.Int("workers", 12, "")
	_ = fs.Parse(args)
	var sessions []lifeSession
	if err := readNDJSON(*path, func(line []byte) error {
		var s lifeSession
		if err := json.Unmarshal(line, &s); err != nil {
			return err
		}
		sessions = append(sessions, s)
		return nil
	}); err != nil || len(sessions) == 0 {
		fmt.Fprintln(os.Stderr, "sessions:", err)
		return 2
	}
	// a port that is taken (for the Start that fails) and a listener that is not the server (for the strangers)
	occ, err := net.Listen("tcp", "127.0.0.1:0")
	if err != nil {
		fmt.Fprintln(os.Stderr, err)
		return 2
	}
	defer occ.Close()
	other, err := net.Listen("tcp", "127.0.0.1:0")
	if err != nil {
		fmt.Fprintln(os.Stderr, err)
		return 2
	}
	defer other.Close()
	go func() {
		for {
			c, err := other.Accept()
			if err != nil {
				return
			}
			go func() { buf := make([]byte, 256); for { if _, err := c.Read(buf); err != nil { c.Close(); return } } }()
		}
	}()
	base := runtime.NumGoroutine()
	rep := &Report{}
	var mu sync.Mutex
	var wg sync.WaitGroup
	work := make(chan int, 64)
	for w := 0; w < *workers; w++ {
		wg.Add(1)
		go func() {
			defer wg.Done()
			for i := range work {
				problems, sigs := runLifeSession(sessions[i], *maxConn, occ.Addr().String(), other.Addr().String())
				if len(sigs) > 0 && strings.HasPrefix(sigs[0], "blocked") {
					// a stall under load is only a verdict if it happens again
					if p2, _ := runLifeSession(sessions[i], *maxConn, occ.Addr().String(), other.Addr().String()); len(p2) == 0 {
						problems, sigs = nil, nil
					}
				}
				mu.Lock()
				rep.Evaluations++
				for k := range problems {
					rep.violate("serverlife|"+sigs[k], fmt.Sprintf("%s | session %v", problems[k], describeLife(sessions[i])), map[string]interface{}{"check": "serverlife", "max_conn": *maxConn, "session": sessions[i].Steps})
				}
				mu.Unlock()
			}
		}()
	}
	for i := range sessions {
		if i%*every == 0 {
			work <- i
		}
	}
	close(work)
	wg.Wait()
	// goroutines of the library must be gone
	deadline := time.Now().Add(5 * time.Second)
	for runtime.NumGoroutine() > base+2 && time.Now().Before(deadline) {
		time.Sleep(20 * time.Millisecond)
	}
	if len(rep.Violations) == 0 {
		buf := make([]byte, 1<<20)
		buf = buf[:runtime.Stack(buf, true)]
		lib := 0
		for _, g := range strings.Split(string(buf), "\n\n") {
			if strings.Contains(g, "go-cassandra-native-protocol/client.") {
				lib++
			}
		}
		if lib > 0 {
			rep.violate("serverlife|goroutines-survive", fmt.Sprintf("%d goroutine(s) of the library survive %d closed servers", lib, rep.Evaluations), nil)
		}
	}
	rep.Distinct = rep.Evaluations
	if len(sessions) > 0 {
		rep.Samples = append(rep.Samples, describeLife(sessions[len(sessions)/2]))
	}
	return rep.print()
}

func describeLife(s lifeSession) []string {
	var out []string
	for _, st := range s.Steps {
		x := st.A
		if st.C != "" {
			x += ":" + st.C
		}
		if st.A == "start" && !st.Ok {
			x += ":fails"
		}
		out = append(out, x)
	}
	return out
}

package main

import (
	"bytes"
	"context"
	"encoding/json"
	"flag"
	"fmt"
	"math/rand"
	"os"
	"runtime"
	"sort"
	"strconv"
	"sync"
	"sync/atomic"
	"time"

	"github.com/datastax/go-cassandra-native-protocol/client"
	"github.com/datastax/go-cassandra-native-protocol/frame"
	"github.com/datastax/go-cassandra-native-protocol/message"
	"github.com/datastax/go-cassandra-native-protocol/primitive"
)

// Forced-schedule replay of specs/InFlightConc.tla on real goroutines (binding R for the "schedules" quantifier of
// C09 / C10 / C16), and recording of the call/return histories those executions produce (for binding T: validation
// against InFlightAbs by specs/InFlightLin.tla).
//
// TLC prints every transition of the model as an EDGE line: thread t takes the step between two gate points of
// client/inflight.go. The harness walks the graph from the initial state to a terminal state - all walks when there
// are few enough, otherwise uniformly sampled walks plus walks through every edge - and forces each walk onto real
// goroutines: one goroutine per model thread, parked at the gates (client.VerifGate; gates sit outside every lock),
// released one at a time. After every step the gate reached (or the result returned) and the shape of the handler
// (free ids, registered ids, closed flag) are compared with the model's successor state; at the end every request a
// caller was given is projected and compared. A difference is model drift, not a verdict: from there on the threads run
// free, and the history recorded is still a real concurrent execution, judged by InFlightLin.

func init() { subcommands["conc"] = concMain }

type concOp struct {
	Op    string `json:"op"`
	Id    int    `json:"id"`
	Last  bool   `json:"last"`
	Owner string `json:"owner"`
}

type concParams struct {
	N          int                 `json:"N"`
	MaxPending int                 `json:"MaxPending"`
	Progs      map[string][]concOp `json:"progs"`
}

type concReqObs struct {
	Id      int             `json:"id"`
	Managed bool            `json:"managed"`
	Pend    [][]interface{} `json:"pend"`
	Done    bool            `json:"done"`
	Failed  bool            `json:"failed"`
	Owner   string          `json:"owner"`
	Op      int             `json:"op"`
}

type concObs struct {
	Free   []int        `json:"free"`
	Closed bool         `json:"closed"`
	Table  [][2]int     `json:"table"`
	Reqs   []concReqObs `json:"reqs"`
	Done   bool         `json:"done"`
}

type concEdge struct {
	From json.RawMessage `json:"from"`
	To   json.RawMessage `json:"to"`
	T    string          `json:"t"`
	K    int             `json:"k"`
	S    string          `json:"s"`
	At   string          `json:"at"`
	R    string          `json:"r"`
	Obs  concObs         `json:"obs"`
	from int
	to   int
}

type concGraph struct {
	edges []concEdge
	out   [][]int // node -> edge indices
	init  int
	paths []float64 // number of maximal walks from each node
}

func loadConcGraph(path string) (*concGraph, error) {
	g := &concGraph{init: -1}
	ids := map[string]int{}
	node := func(raw []byte) int {
		k := CanonJSON(raw, nil) // TLC does not print the fields of equal records in one order
		if n, ok := ids[k]; ok {
			return n
		}
		ids[k] = len(ids)
		g.out = append(g.out, nil)
		return ids[k]
	}
	err := readNDJSON(path, func(line []byte) error {
		var probe struct {
			Init json.RawMessage `json:"init"`
		}
		if json.Unmarshal(line, &probe) == nil && probe.Init != nil {
			g.init = node(probe.Init)
			return nil
		}
		var e concEdge
		if err := json.Unmarshal(line, &e); err != nil {
			return err
		}
		e.from, e.to = node(e.From), node(e.To)
		e.From, e.To = nil, nil
		g.edges = append(g.edges, e)
		return nil
	})
	if err != nil {
		return nil, err
	}
	if g.init < 0 {
		return nil, fmt.Errorf("no initial state in %s", path)
	}
	seen := map[string]bool{}
	kept := g.edges[:0]
	for _, e := range g.edges { // TLC evaluates (and prints) an edge once per worker that generates it
		k := fmt.Sprintf("%d/%d/%s", e.from, e.to, e.T)
		if !seen[k] {
			seen[k] = true
			kept = append(kept, e)
		}
	}
	g.edges = kept
	for i, e := range g.edges {
		g.out[e.from] = append(g.out[e.from], i)
	}
	g.paths = make([]float64, len(g.out))
	var count func(n int) float64
	count = func(n int) float64 {
		if g.paths[n] != 0 {
			return g.paths[n]
		}
		if len(g.out[n]) == 0 {
			g.paths[n] = 1
			return 1
		}
		s := 0.0
		for _, ei := range g.out[n] {
			s += count(g.edges[ei].to)
		}
		g.paths[n] = s
		return s
	}
	count(g.init)
	return g, nil
}

func (g *concGraph) allWalks(yield func(w []int)) {
	var cur []int
	var rec func(n int)
	rec = func(n int) {
		if len(g.out[n]) == 0 {
			yield(append([]int(nil), cur...))
			return
		}
		for _, ei := range g.out[n] {
			cur = append(cur, ei)
			rec(g.edges[ei].to)
			cur = cur[:len(cur)-1]
		}
	}
	rec(g.init)
}

// randomWalkFrom extends w from node n to a terminal node, uniformly over the maximal walks.
func (g *concGraph) randomWalkFrom(n int, w []int, rnd *rand.Rand) []int {
	for len(g.out[n]) > 0 {
		x := rnd.Float64() * g.paths[n]
		pick := g.out[n][len(g.out[n])-1]
		for _, ei := range g.out[n] {
			if x < g.paths[g.edges[ei].to] {
				pick = ei
				break
			}
			x -= g.paths[g.edges[ei].to]
		}
		w = append(w, pick)
		n = g.edges[pick].to
	}
	return w
}

func (g *concGraph) pathTo(n int) []int {
	parent := map[int]int{g.init: -1}
	queue := []int{g.init}
	for len(queue) > 0 {
		c := queue[0]
		queue = queue[1:]
		if c == n {
			break
		}
		for _, ei := range g.out[c] {
			if _, ok := parent[g.edges[ei].to]; !ok {
				parent[g.edges[ei].to] = ei
				queue = append(queue, g.edges[ei].to)
			}
		}
	}
	var p []int
	for c := n; c != g.init; {
		ei, ok := parent[c]
		if !ok {
			return nil
		}
		p = append([]int{ei}, p...)
		c = g.edges[ei].from
	}
	return p
}

func responseFrame(id int16, isLast bool, variant int) *frame.Frame {
	var msg message.Message
	if !isLast {
		msg = &message.RowsResult{Metadata: &message.RowsMetadata{ColumnCount: 0, ContinuousPageNumber: int32(1 + variant%5), LastContinuousPage: false}, Data: message.RowSet{}}
	} else {
		switch variant % 4 {
		case 0:
			msg = &message.VoidResult{}
		case 1:
			msg = &message.RowsResult{Metadata: &message.RowsMetadata{ColumnCount: 0, ContinuousPageNumber: 9, LastContinuousPage: true}, Data: message.RowSet{}}
		case 2:
			msg = &message.RowsResult{Metadata: &message.RowsMetadata{ColumnCount: 0}, Data: message.RowSet{}}
		default:
			msg = &message.Unavailable{ErrorMessage: "x", Consistency: primitive.ConsistencyLevelOne, Required: 1}
		}
	}
	return frame.NewFrame(primitive.ProtocolVersionDse2, id, msg)
}

// ---------------------------------------------------------------------------------------------- execution

type concEv struct {
	gate  string
	ret   bool
	ok    bool
	mark  int
	req   client.InFlightRequest
	err   error
	panik string
}

type concThread struct {
	name     string
	resume   chan struct{}
	ev       chan concEv
	free     bool // gates pass through
	wc       *concWalkCtx
	expectOK atomic.Bool // (expire) the model says a timer goroutine is waiting
}

// concTimer is a timer goroutine of the library parked at its gate: it has seen its deadline pass (the handler of a
// program with "expire" operations has a read timeout of 1 ns) and goes on only when the schedule says so.
type concTimer struct {
	req    client.InFlightRequest
	resume chan struct{}
	fired  chan struct{}
}

// concWalkCtx is what the goroutines of one forced execution share.
type concWalkCtx struct {
	mu       sync.Mutex
	timers   []*concTimer
	finished bool
	reqOf    map[string]client.InFlightRequest // "thread/operation number" -> the request that send returned
	gids     []int64
}

func (wc *concWalkCtx) takeTimer(req client.InFlightRequest, wait time.Duration) *concTimer {
	deadline := time.Now().Add(wait)
	for {
		wc.mu.Lock()
		for i, tg := range wc.timers {
			if tg.req == req {
				wc.timers = append(wc.timers[:i:i], wc.timers[i+1:]...)
				wc.mu.Unlock()
				return tg
			}
		}
		wc.mu.Unlock()
		if time.Now().After(deadline) {
			return nil
		}
		time.Sleep(200 * time.Microsecond)
	}
}

// finish lets every timer goroutine still parked (and any that arrives later) go on.
func (wc *concWalkCtx) finish() {
	wc.mu.Lock()
	wc.finished = true
	for _, tg := range wc.timers {
		close(tg.resume)
	}
	wc.timers = nil
	gids := wc.gids
	wc.mu.Unlock()
	for _, gid := range gids {
		concRegistry.Delete(gid)
	}
}

var concTimerOf sync.Map // goroutine id of a timer goroutine -> *concTimer

// parentGoroutineID reads "created by ... in goroutine N" from the calling goroutine's own stack.
func parentGoroutineID() int64 {
	buf := make([]byte, 8192)
	n := runtime.Stack(buf, false)
	b := buf[:n]
	i := bytes.LastIndex(b, []byte(" in goroutine "))
	if i < 0 {
		return -1
	}
	b = b[i+len(" in goroutine "):]
	j := 0
	for j < len(b) && b[j] >= '0' && b[j] <= '9' {
		j++
	}
	id, _ := strconv.ParseInt(string(b[:j]), 10, 64)
	return id
}

// concGateReq is client.VerifGateReq: the gates of a request's timer goroutine (created by the goroutine of the model
// thread whose send or page delivery armed the timer).
func concGateReq(point string, req client.InFlightRequest) {
	switch point {
	case "timer.fire":
		v, ok := concRegistry.Load(parentGoroutineID())
		if !ok {
			return
		}
		wc := v.(*concThread).wc
		tg := &concTimer{req: req, resume: make(chan struct{}), fired: make(chan struct{}, 1)}
		wc.mu.Lock()
		if wc.finished {
			wc.mu.Unlock()
			return
		}
		wc.timers = append(wc.timers, tg)
		wc.mu.Unlock()
		concTimerOf.Store(goroutineID(), tg)
		<-tg.resume
	case "timer.fired":
		gid := goroutineID()
		if v, ok := concTimerOf.Load(gid); ok {
			concTimerOf.Delete(gid)
			tg := v.(*concTimer)
			tg.fired <- struct{}{}
			<-tg.resume
		}
	}
}

var concRegistry sync.Map // goroutine id -> *concThread

func goroutineID() int64 {
	var buf [64]byte
	n := runtime.Stack(buf[:], false)
	// "goroutine 123 ["
	b := buf[:n]
	b = b[len("goroutine "):]
	i := bytes.IndexByte(b, ' ')
	id, _ := strconv.ParseInt(string(b[:i]), 10, 64)
	return id
}

func concGate(point string, a int64) {
	if point == "timer.fire" {
		return
	}
	v, ok := concRegistry.Load(goroutineID())
	if !ok {
		return
	}
	th := v.(*concThread)
	if th.free {
		return
	}
	th.ev <- concEv{gate: point}
	<-th.resume
}

// concTLine is one line of the history handed to InFlightLin.tla.
type concTLine struct {
	A      string      `json:"a"`
	Trace  int         `json:"trace,omitempty"`
	T      string      `json:"t,omitempty"`
	Op     string      `json:"op,omitempty"`
	K      int         `json:"k"`
	Last   bool        `json:"last"`
	Mark   int         `json:"mark"`
	Ok     bool        `json:"ok"`
	Rid    int         `json:"rid"`
	Owner  string      `json:"owner,omitempty"`
}

// concObsLine is the last line of a history: the final observation.
type concObsLine struct {
	A      string      `json:"a"`
	Closed bool        `json:"closed"`
	Free   []int       `json:"free"`
	Reqs   []concTReqO `json:"reqs"`
}

type concTReqO struct {
	T       string `json:"t"`
	C       int    `json:"c"`
	Id      int    `json:"id"`
	Managed bool   `json:"managed"`
	Done    bool   `json:"done"`
	Failed  bool   `json:"failed"`
	Frames  []int  `json:"frames"`
}

type concResult struct {
	lines   []interface{}
	drift   string // first difference from the model, "" if none
	driftAt int
	problem string // panic / blocked: verdicts by themselves
	probSig string
}

func concMark(threadIdx, k int) int { return (threadIdx+1)*100 + k }

func runConcWalk(p concParams, g *concGraph, walk []int, names []string) (res concResult) {
	ctx, cancel := context.WithCancel(context.Background())
	defer cancel()
	timeout := time.Hour
	for _, prog := range p.Progs {
		for _, op := range prog {
			if op.Op == "expire" {
				// every timer goroutine sees its deadline pass at once and waits at its gate for the schedule
				timeout = time.Nanosecond
			}
		}
	}
	h := client.VerifNewInFlightHandler(ctx, p.N, p.MaxPending, timeout)
	wc := &concWalkCtx{reqOf: map[string]client.InFlightRequest{}}
	defer wc.finish()
	tidx := map[string]int{}
	for i, n := range names {
		tidx[n] = i
	}
	var frameMu sync.Mutex
	frameMark := map[*frame.Frame]int{}
	threads := map[string]*concThread{}
	type accepted struct {
		t   string
		c   int
		req client.InFlightRequest
	}
	var acc []accepted
	for _, name := range names {
		th := &concThread{name: name, resume: make(chan struct{}), ev: make(chan concEv, 1), wc: wc}
		threads[name] = th
		prog := p.Progs[name]
		go func() {
			gid := goroutineID()
			concRegistry.Store(gid, th)
			wc.mu.Lock()
			wc.gids = append(wc.gids, gid) // unregistered when the walk is over: timer goroutines look their creator up
			wc.mu.Unlock()
			mine := map[int]client.InFlightRequest{} // operation number -> the request that send returned
			for k, op := range prog {
				<-th.resume
				var ev concEv
				func() {
					defer func() {
						if r := recover(); r != nil {
							ev = concEv{ret: true, panik: fmt.Sprint(r)}
						}
					}()
					switch op.Op {
					case "send":
						f := frame.NewFrame(primitive.ProtocolVersion4, int16(op.Id), &message.Query{Query: "SELECT " + th.name + strconv.Itoa(k+1)})
						req, err := h.Enqueue(f)
						ev = concEv{ret: true, ok: err == nil, req: req, err: err}
						if err == nil {
							mine[k+1] = req
							wc.mu.Lock()
							wc.reqOf[th.name+"/"+strconv.Itoa(k+1)] = req
							wc.mu.Unlock()
						}
					case "recv":
						ev = concEv{ret: true}
						if req := mine[op.Id]; req != nil {
							select {
							case f, ok := <-req.Incoming():
								if ok {
									frameMu.Lock()
									ev.ok, ev.mark = true, frameMark[f]
									frameMu.Unlock()
								}
							default:
							}
						}
					case "deliver":
						f := responseFrame(int16(op.Id), op.Last, k)
						frameMu.Lock()
						frameMark[f] = concMark(tidx[th.name], k+1)
						frameMu.Unlock()
						err := h.Deliver(f)
						ev = concEv{ret: true, ok: err == nil, err: err}
					case "close":
						h.Close()
						ev = concEv{ret: true, ok: true}
					case "expire":
						ev = concEv{ret: true}
						wc.mu.Lock()
						req := wc.reqOf[op.Owner+"/"+strconv.Itoa(op.Id)]
						wc.mu.Unlock()
						if req != nil {
							wait := 30 * time.Millisecond
							if th.expectOK.Load() {
								wait = 10 * time.Second
							}
							if tg := wc.takeTimer(req, wait); tg != nil {
								tg.resume <- struct{}{} // timer.fire -> inFlightRequest.close(timeout)
								<-tg.fired
								tg.resume <- struct{}{}
								ev.ok = true
							}
						}
					}
				}()
				th.ev <- ev
			}
		}()
	}
	step := func(th *concThread) (concEv, bool) {
		th.resume <- struct{}{}
		select {
		case ev := <-th.ev:
			return ev, true
		case <-time.After(20 * time.Second):
			return concEv{}, false
		}
	}
	ip := map[string]int{} // operations finished per thread
	started := map[string]bool{}
	record := func(th *concThread, ev concEv) {
		op := p.Progs[th.name][ip[th.name]]
		ip[th.name]++
		started[th.name] = false
		l := concTLine{A: "ret", T: th.name, Ok: ev.ok}
		if op.Op == "send" && ev.ok {
			l.Rid = int(ev.req.StreamId())
			acc = append(acc, accepted{th.name, ip[th.name], ev.req})
		}
		if op.Op == "recv" && ev.ok {
			l.Rid = ev.mark
		}
		res.lines = append(res.lines, l)
	}
	call := func(th *concThread) {
		if started[th.name] {
			return
		}
		started[th.name] = true
		k := ip[th.name]
		op := p.Progs[th.name][k]
		l := concTLine{A: "call", T: th.name, K: op.Id, Last: op.Last}
		switch op.Op {
		case "send":
			l.Op = "E"
			if op.Id == 0 {
				l.Op = "M"
			}
		case "deliver":
			l.Op, l.Mark = "D", concMark(tidx[th.name], k+1)
		case "close":
			l.Op = "C"
		case "recv":
			l.Op = "R"
		case "expire":
			l.Op, l.Owner = "X", op.Owner
		}
		res.lines = append(res.lines, l)
	}
	shape := func() (free []int, ids []int, closed bool) {
		closed = h.IsClosed()
		if !closed {
			f, ok := h.FreeIds()
			if ok {
				for _, x := range f {
					free = append(free, int(x))
				}
			}
		}
		for _, x := range h.InFlightIds() {
			ids = append(ids, int(x))
		}
		sort.Ints(ids)
		return
	}
	blocked := false
	for si, ei := range walk {
		e := g.edges[ei]
		th := threads[e.T]
		th.expectOK.Store(e.R == "ok")
		call(th)
		ev, ok := step(th)
		if !ok {
			res.problem = fmt.Sprintf("step %d: thread %s (operation %d, step %q) neither reached a gate nor returned within 20 s", si, e.T, e.K, e.S)
			res.probSig = "blocked|" + e.S
			blocked = true
			break
		}
		if ev.panik != "" {
			res.problem = fmt.Sprintf("step %d: thread %s (operation %d, step %q) panicked: %s", si, e.T, e.K, e.S, ev.panik)
			res.probSig = "panic|" + panicClass(ev.panik)
		}
		if ev.ret {
			record(th, ev)
		}
		// compare with the model's successor
		diff := ""
		switch {
		case ev.ret && e.At != "ret":
			diff = fmt.Sprintf("returned (ok=%v err=%v), the model parks at %s", ev.ok, ev.err, e.At)
		case !ev.ret && ev.gate != e.At:
			diff = fmt.Sprintf("reached gate %s, the model says %s", ev.gate, e.At)
		case ev.ret && ev.ok != (e.R == "ok"):
			diff = fmt.Sprintf("returned ok=%v (err=%v), the model says %q", ev.ok, ev.err, e.R)
		default:
			free, ids, closed := shape()
			var mids []int
			for _, pr := range e.Obs.Table {
				mids = append(mids, pr[0])
			}
			sort.Ints(mids)
			if closed != e.Obs.Closed {
				diff = fmt.Sprintf("closed=%v, model %v", closed, e.Obs.Closed)
			} else if fmt.Sprint(ids) != fmt.Sprint(mids) {
				diff = fmt.Sprintf("registered ids %v, model %v", ids, mids)
			} else if !closed && fmt.Sprint(free) != fmt.Sprint(e.Obs.Free) && !(len(free) == 0 && len(e.Obs.Free) == 0) {
				diff = fmt.Sprintf("free ids %v, model %v", free, e.Obs.Free)
			}
		}
		if diff != "" {
			res.drift = fmt.Sprintf("after step %d (thread %s operation %d step %q): %s", si, e.T, e.K, e.S, diff)
			res.driftAt = si
			break
		}
	}
	if blocked {
		return res
	}
	// let whatever has not finished run free, one thread after the other (only after drift)
	for _, name := range names {
		th := threads[name]
		th.free = true
		for ip[name] < len(p.Progs[name]) {
			call(th)
			ev, ok := step(th)
			if !ok {
				res.problem = fmt.Sprintf("thread %s did not finish operation %d within 20 s when left to run", name, ip[name]+1)
				res.probSig = "blocked|free-run"
				return res
			}
			if ev.panik != "" && res.problem == "" {
				res.problem = fmt.Sprintf("thread %s operation %d panicked: %s", name, ip[name]+1, ev.panik)
				res.probSig = "panic|" + panicClass(ev.panik)
			}
			if ev.ret {
				record(th, ev)
			}
		}
	}
	// final observation
	obs := concObsLine{A: "obs", Free: []int{}, Reqs: []concTReqO{}}
	free, ids, closed := shape()
	obs.Closed = closed
	if free != nil {
		obs.Free = free
	}
	for _, a := range acc {
		st := client.VerifProjectRequest(a.req)
		o := concTReqO{T: a.t, C: a.c, Id: int(st.StreamId), Managed: st.Managed, Done: st.Done, Failed: st.Err != nil, Frames: []int{}}
	drain:
		for {
			select {
			case f, ok := <-a.req.Incoming():
				if !ok {
					break drain
				}
				frameMu.Lock()
				o.Frames = append(o.Frames, frameMark[f])
				frameMu.Unlock()
			default:
				break drain
			}
		}
		if st.Done != a.req.IsDone() {
			res.problem, res.probSig = fmt.Sprintf("request of thread %s: projection done=%v, IsDone()=%v", a.t, st.Done, a.req.IsDone()), "isdone"
		}
		obs.Reqs = append(obs.Reqs, o)
	}
	res.lines = append(res.lines, obs)
	// compare the final observation with the model's terminal state
	if res.drift == "" && len(walk) > 0 {
		m := g.edges[walk[len(walk)-1]].Obs
		var mids []int
		for _, pr := range m.Table {
			mids = append(mids, pr[0])
		}
		sort.Ints(mids)
		want := map[string]concReqObs{}
		for _, r := range m.Reqs {
			want[fmt.Sprintf("%s/%d", r.Owner, r.Op)] = r
		}
		if len(want) != len(obs.Reqs) {
			res.drift = fmt.Sprintf("at the end: %d requests handed to callers, the model has %d", len(obs.Reqs), len(want))
		}
		for _, o := range obs.Reqs {
			w, ok := want[fmt.Sprintf("%s/%d", o.T, o.C)]
			if !ok {
				res.drift = fmt.Sprintf("at the end: request of %s/%d unknown to the model", o.T, o.C)
				continue
			}
			var wf []int
			for _, pr := range w.Pend {
				wf = append(wf, concMark(tidx[pr[0].(string)], int(pr[1].(float64))))
			}
			if w.Id != o.Id || w.Managed != o.Managed || w.Done != o.Done || w.Failed != o.Failed || fmt.Sprint(wf) != fmt.Sprint(append([]int(nil), o.Frames...)) && !(len(wf) == 0 && len(o.Frames) == 0) {
				res.drift = fmt.Sprintf("at the end: request of %s/%d is id=%d managed=%v done=%v failed=%v frames=%v, the model has id=%d managed=%v done=%v failed=%v frames=%v",
					o.T, o.C, o.Id, o.Managed, o.Done, o.Failed, o.Frames, w.Id, w.Managed, w.Done, w.Failed, wf)
			}
		}
		if fmt.Sprint(ids) != fmt.Sprint(mids) && res.drift == "" {
			res.drift = fmt.Sprintf("at the end: registered ids %v, model %v", ids, mids)
		}
		res.driftAt = len(walk)
	}
	return res
}

func concMain(args []string) int {
	fs := flag.NewFlagSet("conc", flag.ExitOnError)
	graphPath := fs.String("graph", "", "INIT / EDGE lines of InFlightConc.tla (ndjson)")
	paramsJSON := fs.String("params", "", "N, MaxPending, progs")
	maxWalks := fs.Int("max-walks", 20000, "all walks when there are at most this many, otherwise this many sampled ones plus edge coverage")
	tracesOut := fs.String("traces-out", "", "distinct histories for InFlightLin.tla (ndjson)")
	seedv := fs.Int64("seed", 1, "seed")
	workers := fs.Int("workers", 12, "walks executed in parallel")
	_ = fs.Parse(args)
	var p concParams
	if err := json.Unmarshal([]byte(*paramsJSON), &p); err != nil {
		fmt.Fprintln(os.Stderr, "params:", err)
		return 2
	}
	g, err := loadConcGraph(*graphPath)
	if err != nil {
		fmt.Fprintln(os.Stderr, err)
		return 2
	}
	var names []string
	for n := range p.Progs {
		names = append(names, n)
	}
	sort.Strings(names)
	client.VerifGate = concGate
	client.VerifGateReq = concGateReq
	rnd := rand.New(rand.NewSource(*seedv))
	var walks [][]int
	exhaustive := g.paths[g.init] <= float64(*maxWalks)
	if exhaustive {
		g.allWalks(func(w []int) { walks = append(walks, w) })
	} else {
		covered := make([]bool, len(g.edges))
		for i := 0; i < *maxWalks; i++ {
			w := g.randomWalkFrom(g.init, nil, rnd)
			for _, ei := range w {
				covered[ei] = true
			}
			walks = append(walks, w)
		}
		for ei := range g.edges {
			if covered[ei] {
				continue
			}
			w := append(g.pathTo(g.edges[ei].from), ei)
			w = g.randomWalkFrom(g.edges[ei].to, w, rnd)
			for _, x := range w {
				covered[x] = true
			}
			walks = append(walks, w)
		}
	}
	rep := &Report{}
	var mu sync.Mutex
	type traceInfo struct {
		lines []interface{}
		count int
		walk  []int
	}
	traces := map[string]*traceInfo{}
	var order []string
	coveredEdges := map[int]bool{}
	drifts := map[string]int{}
	var driftSample []string
	describe := func(w []int) []string {
		var out []string
		for _, ei := range w {
			e := g.edges[ei]
			out = append(out, fmt.Sprintf("%s.%d:%s", e.T, e.K, e.S))
		}
		return out
	}
	work := make(chan []int, 64)
	var wg sync.WaitGroup
	for i := 0; i < *workers; i++ {
		wg.Add(1)
		go func() {
			defer wg.Done()
			for w := range work {
				r := runConcWalk(p, g, w, names)
				if r.problem != "" && (r.probSig[:4] == "bloc") {
					// a stall under load is only a verdict if it happens again
					if again := runConcWalk(p, g, w, names); again.problem == "" {
						r = again
					}
				}
				b, _ := json.Marshal(r.lines)
				mu.Lock()
				rep.Evaluations++
				upto := len(w)
				if r.drift != "" {
					upto = r.driftAt
					drifts[r.drift[maxInt(0, len(r.drift)-60):]]++
					if len(driftSample) < 5 {
						driftSample = append(driftSample, fmt.Sprintf("%s | schedule %v", r.drift, describe(w)))
					}
				}
				for i := 0; i < upto && i < len(w); i++ {
					coveredEdges[w[i]] = true
				}
				if r.problem != "" {
					rep.violate("conc|"+r.probSig, fmt.Sprintf("%s | schedule %v", r.problem, describe(w)), map[string]interface{}{"check": "conc", "params": p, "schedule": describe(w)})
				} else {
					k := string(b)
					if t, ok := traces[k]; ok {
						t.count++
					} else {
						traces[k] = &traceInfo{r.lines, 1, w}
						order = append(order, k)
					}
				}
				mu.Unlock()
			}
		}()
	}
	for _, w := range walks {
		work <- w
	}
	close(work)
	wg.Wait()
	sort.Strings(order)
	var traceIndex []map[string]interface{}
	if *tracesOut != "" {
		f, err := os.Create(*tracesOut)
		if err != nil {
			fmt.Fprintln(os.Stderr, err)
			return 2
		}
		enc := json.NewEncoder(f)
		for i, k := range order {
			t := traces[k]
			_ = enc.Encode(concTLine{A: "reset", Trace: i + 1})
			for _, l := range t.lines {
				_ = enc.Encode(l)
			}
			traceIndex = append(traceIndex, map[string]interface{}{"trace": i + 1, "walks": t.count, "schedule": describe(t.walk), "history": t.lines})
		}
		f.Close()
	}
	rep.Distinct = len(order)
	nd := 0
	for _, c := range drifts {
		nd += c
	}
	rep.Extra = map[string]interface{}{"nodes": len(g.out), "edges": len(g.edges), "edges_replayed": len(coveredEdges), "schedules_in_model": g.paths[g.init],
		"exhaustive": exhaustive, "walks": len(walks), "drifted_walks": nd, "drift_samples": driftSample, "trace_index": traceIndex}
	if len(walks) > 0 {
		rep.Samples = append(rep.Samples, describe(walks[len(walks)/2]))
	}
	return rep.print()
}

func maxInt(a, b int) int {
	if a > b {
		return a
	}
	return b
}

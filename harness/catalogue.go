package main

import (
	"net"

	"github.com/datastax/go-cassandra-native-protocol/datatype"
	"github.com/datastax/go-cassandra-native-protocol/message"
	"github.com/datastax/go-cassandra-native-protocol/primitive"
)

// Versions lists every supported protocol version.
var Versions = []primitive.ProtocolVersion{
	primitive.ProtocolVersion2, primitive.ProtocolVersion3, primitive.ProtocolVersion4,
	primitive.ProtocolVersion5, primitive.ProtocolVersionDse1, primitive.ProtocolVersionDse2,
}

func versionName(v primitive.ProtocolVersion) string {
	switch v {
	case primitive.ProtocolVersion2:
		return "v2"
	case primitive.ProtocolVersion3:
		return "v3"
	case primitive.ProtocolVersion4:
		return "v4"
	case primitive.ProtocolVersion5:
		return "v5"
	case primitive.ProtocolVersionDse1:
		return "dse1"
	case primitive.ProtocolVersionDse2:
		return "dse2"
	}
	return "v?"
}

func versionByName(s string) primitive.ProtocolVersion {
	for _, v := range Versions {
		if versionName(v) == s {
			return v
		}
	}
	panic("unknown version name " + s)
}

// NamedMsg is one sample message of a given kind.
type NamedMsg struct {
	Kind string
	Msg  message.Message
}

func i32p(x int32) *int32 { return &x }
func i64p(x int64) *int64 { return &x }
func clp(x primitive.ConsistencyLevel) *primitive.ConsistencyLevel {
	return &x
}

func sampleColumns() []*message.ColumnMetadata {
	return []*message.ColumnMetadata{
		{Keyspace: "ks", Table: "tb", Name: "c1", Index: 0, Type: datatype.Int},
		{Keyspace: "ks", Table: "tb", Name: "c2", Index: 1, Type: datatype.NewList(datatype.Varchar)},
	}
}

func sampleQueryOptions(v primitive.ProtocolVersion) *message.QueryOptions {
	o := &message.QueryOptions{
		Consistency:       primitive.ConsistencyLevelLocalQuorum,
		PositionalValues:  []*primitive.Value{primitive.NewValue([]byte{1, 2}), primitive.NewNullValue()},
		SkipMetadata:      true,
		PageSize:          100,
		PagingState:       []byte{0xca, 0xfe},
		SerialConsistency: clp(primitive.ConsistencyLevelLocalSerial),
	}
	if v >= primitive.ProtocolVersion3 {
		o.DefaultTimestamp = i64p(123456789)
	}
	if v.SupportsQueryFlag(primitive.QueryFlagWithKeyspace) {
		o.Keyspace = "ks1"
	}
	if v.SupportsQueryFlag(primitive.QueryFlagNowInSeconds) {
		o.NowInSeconds = i32p(42)
	}
	if v.IsDse() {
		o.ContinuousPagingOptions = &message.ContinuousPagingOptions{MaxPages: 3, PagesPerSecond: 2}
		if v >= primitive.ProtocolVersionDse2 {
			o.ContinuousPagingOptions.NextPages = 4
		}
	}
	return o
}

// Catalogue returns one version-valid sample per message kind that exists in version v.
func Catalogue(v primitive.ProtocolVersion) []NamedMsg {
	var out []NamedMsg
	add := func(kind string, m message.Message) { out = append(out, NamedMsg{kind, m}) }
	inet4 := &primitive.Inet{Addr: net.IPv4(192, 168, 1, 1), Port: 9042}
	inet6 := &primitive.Inet{Addr: net.ParseIP("2001:db8::1"), Port: 9042}

	// requests
	add("STARTUP", message.NewStartup())
	add("OPTIONS", &message.Options{})
	add("QUERY", &message.Query{Query: "SELECT * FROM t", Options: sampleQueryOptions(v)})
	add("PREPARE", func() message.Message {
		p := &message.Prepare{Query: "SELECT 1"}
		if v.SupportsPrepareFlags() {
			p.Keyspace = "ks"
		}
		return p
	}())
	add("EXECUTE", func() message.Message {
		e := &message.Execute{QueryId: []byte{1, 2, 3}, Options: sampleQueryOptions(v)}
		if v.SupportsResultMetadataId() {
			e.ResultMetadataId = []byte{9, 8}
		}
		return e
	}())
	add("BATCH", func() message.Message {
		b := &message.Batch{
			Type: primitive.BatchTypeUnlogged,
			Children: []*message.BatchChild{
				{Query: "INSERT 1", Values: []*primitive.Value{primitive.NewValue([]byte{7})}},
				{Id: []byte{4, 5}, Values: []*primitive.Value{primitive.NewNullValue()}},
			},
			Consistency: primitive.ConsistencyLevelQuorum,
		}
		if v >= primitive.ProtocolVersion3 {
			b.SerialConsistency = clp(primitive.ConsistencyLevelSerial)
			b.DefaultTimestamp = i64p(77)
		}
		if v.SupportsQueryFlag(primitive.QueryFlagWithKeyspace) {
			b.Keyspace = "ks"
		}
		if v.SupportsQueryFlag(primitive.QueryFlagNowInSeconds) {
			b.NowInSeconds = i32p(5)
		}
		return b
	}())
	add("REGISTER", &message.Register{EventTypes: []primitive.EventType{primitive.EventTypeSchemaChange, primitive.EventTypeStatusChange}})
	add("AUTH_RESPONSE", &message.AuthResponse{Token: []byte{0, 'u', 0, 'p'}})
	if v.IsDse() {
		add("REVISE_CANCEL", &message.Revise{RevisionType: primitive.DseRevisionTypeCancelContinuousPaging, TargetStreamId: 7})
		if v >= primitive.ProtocolVersionDse2 {
			add("REVISE_MORE", &message.Revise{RevisionType: primitive.DseRevisionTypeMoreContinuousPages, TargetStreamId: 7, NextPages: 3})
		}
	}

	// responses
	add("READY", &message.Ready{})
	add("AUTHENTICATE", &message.Authenticate{Authenticator: "org.apache.cassandra.auth.PasswordAuthenticator"})
	add("SUPPORTED", &message.Supported{Options: map[string][]string{"COMPRESSION": {"lz4", "snappy"}, "CQL_VERSION": {"3.0.0"}}})
	add("AUTH_CHALLENGE", &message.AuthChallenge{Token: []byte{1, 2, 3}})
	add("AUTH_SUCCESS", &message.AuthSuccess{Token: []byte{4, 5}})

	add("ERROR_SERVER", &message.ServerError{ErrorMessage: "boom"})
	add("ERROR_PROTOCOL", &message.ProtocolError{ErrorMessage: "boom"})
	add("ERROR_AUTH", &message.AuthenticationError{ErrorMessage: "boom"})
	add("ERROR_OVERLOADED", &message.Overloaded{ErrorMessage: "boom"})
	add("ERROR_BOOTSTRAPPING", &message.IsBootstrapping{ErrorMessage: "boom"})
	add("ERROR_TRUNCATE", &message.TruncateError{ErrorMessage: "boom"})
	add("ERROR_SYNTAX", &message.SyntaxError{ErrorMessage: "boom"})
	add("ERROR_UNAUTHORIZED", &message.Unauthorized{ErrorMessage: "boom"})
	add("ERROR_INVALID", &message.Invalid{ErrorMessage: "boom"})
	add("ERROR_CONFIG", &message.ConfigError{ErrorMessage: "boom"})
	add("ERROR_UNAVAILABLE", &message.Unavailable{ErrorMessage: "boom", Consistency: primitive.ConsistencyLevelQuorum, Required: 3, Alive: 1})
	add("ERROR_READ_TIMEOUT", &message.ReadTimeout{ErrorMessage: "boom", Consistency: primitive.ConsistencyLevelOne, Received: 1, BlockFor: 2, DataPresent: true})
	add("ERROR_WRITE_TIMEOUT", &message.WriteTimeout{ErrorMessage: "boom", Consistency: primitive.ConsistencyLevelOne, Received: 1, BlockFor: 2, WriteType: primitive.WriteTypeBatchLog})
	if v >= primitive.ProtocolVersion4 {
		rf := &message.ReadFailure{ErrorMessage: "boom", Consistency: primitive.ConsistencyLevelTwo, Received: 1, BlockFor: 2, DataPresent: true}
		wf := &message.WriteFailure{ErrorMessage: "boom", Consistency: primitive.ConsistencyLevelTwo, Received: 1, BlockFor: 2, WriteType: primitive.WriteTypeSimple}
		if v.SupportsReadWriteFailureReasonMap() {
			rf.FailureReasons = []*primitive.FailureReason{{Endpoint: net.IPv4(10, 0, 0, 1), Code: primitive.FailureCodeTooManyTombstonesRead}}
			wf.FailureReasons = []*primitive.FailureReason{{Endpoint: net.IPv4(10, 0, 0, 2), Code: primitive.FailureCodeUnknown}}
		} else {
			rf.NumFailures = 1
			wf.NumFailures = 2
		}
		add("ERROR_READ_FAILURE", rf)
		add("ERROR_WRITE_FAILURE", wf)
		add("ERROR_FUNCTION_FAILURE", &message.FunctionFailure{ErrorMessage: "boom", Keyspace: "ks", Function: "fn", Arguments: []string{"int", "text"}})
	}
	add("ERROR_UNPREPARED", &message.Unprepared{ErrorMessage: "boom", Id: []byte{1, 2, 3, 4}})
	add("ERROR_ALREADY_EXISTS", &message.AlreadyExists{ErrorMessage: "boom", Keyspace: "ks", Table: "tb"})

	add("RESULT_VOID", &message.VoidResult{})
	add("RESULT_SET_KEYSPACE", &message.SetKeyspaceResult{Keyspace: "ks"})
	add("RESULT_SCHEMA_CHANGE", &message.SchemaChangeResult{ChangeType: primitive.SchemaChangeTypeCreated, Target: primitive.SchemaChangeTargetTable, Keyspace: "ks", Object: "tb"})
	add("RESULT_PREPARED", func() message.Message {
		p := &message.PreparedResult{
			PreparedQueryId:   []byte{1, 2, 3, 4},
			VariablesMetadata: &message.VariablesMetadata{Columns: sampleColumns()},
			ResultMetadata:    &message.RowsMetadata{ColumnCount: 2, Columns: sampleColumns()},
		}
		if v >= primitive.ProtocolVersion4 {
			p.VariablesMetadata.PkIndices = []uint16{0}
		}
		if v.SupportsResultMetadataId() {
			p.ResultMetadataId = []byte{5, 6}
		}
		return p
	}())
	add("RESULT_ROWS", &message.RowsResult{
		Metadata: &message.RowsMetadata{ColumnCount: 2, Columns: sampleColumns(), PagingState: []byte{0xbe, 0xef}},
		Data:     message.RowSet{message.Row{message.Column{0, 0, 0, 1}, nil}, message.Row{message.Column{0, 0, 0, 2}, message.Column{}}},
	})
	if v.IsDse() {
		add("RESULT_ROWS_CONTINUOUS", &message.RowsResult{
			Metadata: &message.RowsMetadata{ColumnCount: 2, Columns: sampleColumns(), ContinuousPageNumber: 3, LastContinuousPage: false},
			Data:     message.RowSet{message.Row{message.Column{0, 0, 0, 1}, message.Column{0, 0, 0, 0}}},
		})
	}

	add("EVENT_SCHEMA_CHANGE", &message.SchemaChangeEvent{ChangeType: primitive.SchemaChangeTypeDropped, Target: primitive.SchemaChangeTargetKeyspace, Keyspace: "ks"})
	add("EVENT_STATUS_CHANGE", &message.StatusChangeEvent{ChangeType: primitive.StatusChangeTypeUp, Address: inet4})
	add("EVENT_TOPOLOGY_CHANGE", &message.TopologyChangeEvent{ChangeType: primitive.TopologyChangeTypeNewNode, Address: inet6})
	return out
}

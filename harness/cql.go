package main

import (
	"bytes"
	"encoding/hex"
	"encoding/json"
	"flag"
	"fmt"
	"math"
	"math/big"
	"net"
	"os"
	"reflect"
	"sort"
	"strings"
	"time"

	"github.com/datastax/go-cassandra-native-protocol/datacodec"
	"github.com/datastax/go-cassandra-native-protocol/datatype"
	"github.com/datastax/go-cassandra-native-protocol/primitive"
)

func init() { subcommands["cql"] = cqlCheck }

// cases emitted by specs/CqlValue.tla
type cqlCase struct {
	Fam    string            `json:"fam"`
	Cql    string            `json:"cql"`
	Rep    string            `json:"rep"`
	Neg    bool              `json:"neg"`
	Mag    []int             `json:"mag"`
	Holds  bool              `json:"holds"`
	Enc    string            `json:"enc"`
	Dec    string            `json:"dec"`
	Bytes  []int             `json:"bytes"`
	Pref   string            `json:"pref"`
	PrefOk bool              `json:"prefok"`
	Months string            `json:"months"`
	Days   string            `json:"days"`
	Nanos  string            `json:"nanos"`
	Field  string            `json:"field"`
	Scale  int               `json:"scale"`
	Go     string            `json:"go"`
	Ok     bool              `json:"ok"`
	Kind   string            `json:"kind"`
	Elems  []json.RawMessage `json:"elems"`
	V2     bool              `json:"v2"`
	Reps   []string          `json:"reps"`
	Dests  []string          `json:"dests"`
	N      int               `json:"n"`
	Head   []int             `json:"head"`
	Elem   []int             `json:"elem"`
	Ents   [][]int           `json:"ents"`
}

func bigOf(neg bool, mag []int) *big.Int {
	n := new(big.Int)
	for i := len(mag) - 1; i >= 0; i-- {
		n.Lsh(n, 1)
		if mag[i] == 1 {
			n.Or(n, big.NewInt(1))
		}
	}
	if neg {
		n.Neg(n)
	}
	return n
}

var scalarCodecs = map[string]datacodec.Codec{"tinyint": datacodec.Tinyint, "smallint": datacodec.Smallint, "int": datacodec.Int, "bigint": datacodec.Bigint,
	"counter": datacodec.Counter, "varint": datacodec.Varint, "date": datacodec.Date, "time": datacodec.Time, "timestamp": datacodec.Timestamp,
	"boolean": datacodec.Boolean, "varchar": datacodec.Varchar, "ascii": datacodec.Ascii, "blob": datacodec.Blob, "uuid": datacodec.Uuid,
	"timeuuid": datacodec.Timeuuid, "inet": datacodec.Inet, "float": datacodec.Float, "double": datacodec.Double, "decimal": datacodec.Decimal,
	"duration": datacodec.Duration}

// materialiseInt builds the Go value of representation rep holding n (n is known to fit).
func materialiseInt(rep string, n *big.Int) interface{} {
	switch rep {
	case "int":
		return int(n.Int64())
	case "int8":
		return int8(n.Int64())
	case "int16":
		return int16(n.Int64())
	case "int32":
		return int32(n.Int64())
	case "int64":
		return n.Int64()
	case "uint":
		return uint(n.Uint64())
	case "uint8":
		return uint8(n.Uint64())
	case "uint16":
		return uint16(n.Uint64())
	case "uint32":
		return uint32(n.Uint64())
	case "uint64":
		return n.Uint64()
	case "bigint":
		return new(big.Int).Set(n)
	case "string":
		return n.String()
	}
	panic("unknown representation " + rep)
}

// pointerTo returns a pointer to a copy of v (for *big.Int: v itself).
func pointerTo(v interface{}) interface{} {
	if _, ok := v.(*big.Int); ok {
		return v
	}
	p := reflect.New(reflect.TypeOf(v))
	p.Elem().Set(reflect.ValueOf(v))
	return p.Interface()
}

// newDest returns a pointer to a non-zero pre-filled destination of the representation.
func newIntDest(rep string) interface{} {
	switch rep {
	case "bigint":
		return big.NewInt(77)
	case "string":
		s := "prefilled"
		return &s
	}
	v := materialiseInt(rep, big.NewInt(77))
	return pointerTo(v)
}

// valueOfDest reads back what a destination holds as a big.Int.
func destAsBig(dest interface{}) (*big.Int, bool) {
	switch d := dest.(type) {
	case *big.Int:
		return d, true
	case *string:
		n, ok := new(big.Int).SetString(*d, 10)
		return n, ok
	}
	v := reflect.ValueOf(dest).Elem()
	switch v.Kind() {
	case reflect.Int, reflect.Int8, reflect.Int16, reflect.Int32, reflect.Int64:
		return big.NewInt(v.Int()), true
	case reflect.Uint, reflect.Uint8, reflect.Uint16, reflect.Uint32, reflect.Uint64:
		return new(big.Int).SetUint64(v.Uint()), true
	}
	return nil, false
}

// preferredAsBig interprets the value a codec stored in an interface{} destination.
func preferredAsBig(cql string, x interface{}) (n *big.Int, typeName string) {
	typeName = fmt.Sprintf("%T", x)
	switch v := x.(type) {
	case int8:
		return big.NewInt(int64(v)), typeName
	case int16:
		return big.NewInt(int64(v)), typeName
	case int32:
		return big.NewInt(int64(v)), typeName
	case int64:
		return big.NewInt(v), typeName
	case *big.Int:
		return v, typeName
	case time.Duration:
		return big.NewInt(int64(v)), typeName
	case time.Time:
		if cql == "date" {
			secs := v.Unix()
			days := secs / 86400
			if secs%86400 != 0 {
				return nil, typeName + "(not midnight)"
			}
			return big.NewInt(days), typeName
		}
		ms := new(big.Int).Mul(big.NewInt(v.Unix()), big.NewInt(1000))
		ms.Add(ms, big.NewInt(int64(v.Nanosecond()/1e6)))
		return ms, typeName
	}
	return nil, typeName
}

var preferredTypeNames = map[string]string{"int8": "int8", "int16": "int16", "int32": "int32", "int64": "int64", "bigint": "*big.Int", "time": "time.Time", "duration": "time.Duration"}

type cqlRun struct {
	rep      *Report
	distinct map[string]bool
}

func (r *cqlRun) bad(props, sig, detail string, c interface{}) {
	for _, p := range strings.Split(props, ",") {
		r.rep.violate(p+"|cql|"+sig, detail, map[string]interface{}{"check": "cql", "case": c})
	}
}

func intsToB(xs []int) []byte { return intsToBytes(xs) }

func safeEncode(c datacodec.Codec, src interface{}, v primitive.ProtocolVersion) (b []byte, err error, panicked string) {
	defer func() {
		if r := recover(); r != nil {
			panicked = fmt.Sprint(r)
		}
	}()
	b, err = c.Encode(src, v)
	return
}

func safeDecode(c datacodec.Codec, src []byte, dest interface{}, v primitive.ProtocolVersion) (wasNull bool, err error, panicked string) {
	defer func() {
		if r := recover(); r != nil {
			panicked = fmt.Sprint(r)
		}
	}()
	wasNull, err = c.Decode(src, dest, v)
	return
}

func (r *cqlRun) intCase(c cqlCase) {
	codec := scalarCodecs[c.Cql]
	n := bigOf(c.Neg, c.Mag)
	want := intsToB(c.Bytes)
	tag := fmt.Sprintf("%s <- %s(%s)", c.Cql, c.Rep, n.String())
	for _, v := range []primitive.ProtocolVersion{primitive.ProtocolVersion3, primitive.ProtocolVersion5} {
		if c.Holds {
			src := materialiseInt(c.Rep, n)
			for _, form := range []string{"value", "pointer"} {
				s := src
				if form == "pointer" {
					s = pointerTo(src)
				}
				r.rep.Evaluations++
				b, err, p := safeEncode(codec, s, v)
				switch {
				case p != "":
					r.bad("C11,C13", "int-encode-panic|"+c.Cql+"|"+c.Rep, tag+": "+p, c)
				case c.Enc == "ok" && err != nil:
					r.bad("C11", "int-encode-refused|"+c.Cql+"|"+c.Rep, tag+" ("+form+"): the value is in range but Encode failed: "+err.Error(), c)
				case c.Enc == "ok" && !bytes.Equal(b, want):
					r.bad("C12,C13", "int-encode-bytes|"+c.Cql+"|"+c.Rep, fmt.Sprintf("%s (%s): encoded % x, specification % x", tag, form, b, want), c)
				case c.Enc == "err" && err == nil:
					r.bad("C13", "int-encode-silent|"+c.Cql+"|"+c.Rep, fmt.Sprintf("%s (%s): out of range for %s but Encode returned % x without error", tag, form, c.Cql, b), c)
				default:
					r.distinct["enc/"+c.Cql+"/"+c.Rep+"/"+n.String()] = true
				}
				// C11 proper: what the codec produced, decoded back into the same representation, is the value
				if err == nil && p == "" && b != nil {
					back := newIntDest(c.Rep)
					if wasNull, derr, dp := safeDecode(codec, b, back, v); dp != "" || derr != nil || wasNull {
						r.bad("C11", "int-roundtrip-decode|"+c.Cql+"|"+c.Rep, fmt.Sprintf("%s (%s): encoded to % x, which does not decode back into *%s: %v %s", tag, form, b, c.Rep, derr, dp), c)
					} else if got, ok := destAsBig(back); !ok || got.Cmp(n) != 0 {
						r.bad("C11", "int-roundtrip-value|"+c.Cql+"|"+c.Rep, fmt.Sprintf("%s (%s): encoded to % x, which decodes back as %v", tag, form, b, got), c)
					}
				}
			}
		}
		if c.Dec != "na" {
			dest := newIntDest(c.Rep)
			r.rep.Evaluations++
			wasNull, err, p := safeDecode(codec, want, dest, v)
			got, okRead := destAsBig(dest)
			switch {
			case p != "":
				r.bad("C11,C13", "int-decode-panic|"+c.Cql+"|"+c.Rep, tag+": "+p, c)
			case c.Dec == "ok" && err != nil:
				r.bad("C11,C12", "int-decode-refused|"+c.Cql+"|"+c.Rep, fmt.Sprintf("decoding % x (%s %s) into *%s failed: %v", want, c.Cql, n, c.Rep, err), c)
			case c.Dec == "ok" && (wasNull || !okRead || got.Cmp(n) != 0):
				r.bad("C11,C12,C13", "int-decode-value|"+c.Cql+"|"+c.Rep, fmt.Sprintf("decoding % x (%s %s) into *%s gave %v (wasNull=%v)", want, c.Cql, n, c.Rep, got, wasNull), c)
			case c.Dec == "err" && err == nil:
				r.bad("C13", "int-decode-silent|"+c.Cql+"|"+c.Rep, fmt.Sprintf("decoding % x (%s %s) into *%s cannot hold the value but returned %v without error", want, c.Cql, n, c.Rep, got), c)
			default:
				r.distinct["dec/"+c.Cql+"/"+c.Rep+"/"+n.String()] = true
			}
			// untyped destination: the documented preferred representation holding the same value
			if c.Rep == "int64" && c.PrefOk {
				var x interface{}
				_, err, p := safeDecode(codec, want, &x, v)
				if p != "" {
					r.bad("C11", "int-decode-untyped-panic|"+c.Cql, tag+": "+p, c)
				} else if err != nil {
					r.bad("C11", "int-decode-untyped-error|"+c.Cql, fmt.Sprintf("decoding % x into *interface{}: %v", want, err), c)
				} else if got, tn := preferredAsBig(c.Cql, x); tn != preferredTypeNames[c.Pref] || got == nil || got.Cmp(n) != 0 {
					r.bad("C11", "int-decode-untyped-value|"+c.Cql, fmt.Sprintf("decoding % x (%s %s) into *interface{} gave %s %v, documented preferred type %s", want, c.Cql, n, tn, x, preferredTypeNames[c.Pref]), c)
				}
			}
		}
	}
}

func (r *cqlRun) durationCase(c cqlCase) {
	want := intsToB(c.Bytes)
	v := primitive.ProtocolVersion5
	r.rep.Evaluations++
	if c.Fam == "duration-overflow" {
		var d datacodec.CqlDuration
		_, err, p := safeDecode(datacodec.Duration, want, &d, v)
		if p != "" {
			r.bad("C13", "duration-overflow-panic", p, c)
		} else if err == nil {
			r.bad("C13", "duration-overflow-silent|"+c.Field, fmt.Sprintf("duration % x has %s outside 32 bits but decoded to %+v without error", want, c.Field, d), c)
		} else {
			r.distinct["duration-overflow/"+c.Field] = true
		}
		return
	}
	var months, days, nanos int64
	fmt.Sscan(c.Months, &months)
	fmt.Sscan(c.Days, &days)
	fmt.Sscan(c.Nanos, &nanos)
	val := datacodec.CqlDuration{Months: int32(months), Days: int32(days), Nanos: time.Duration(nanos)}
	b, err, p := safeEncode(datacodec.Duration, val, v)
	if p != "" || err != nil {
		r.bad("C11,C12", "duration-encode", fmt.Sprintf("%+v: %v %s", val, err, p), c)
	} else if !bytes.Equal(b, want) {
		r.bad("C12", "duration-encode-bytes", fmt.Sprintf("%+v encoded % x, specification % x", val, b, want), c)
	}
	var d datacodec.CqlDuration
	if _, err, p := safeDecode(datacodec.Duration, want, &d, v); p != "" || err != nil {
		r.bad("C11,C12", "duration-decode", fmt.Sprintf("% x: %v %s", want, err, p), c)
	} else if d != val {
		r.bad("C11,C12,C13", "duration-decode-value", fmt.Sprintf("% x decoded to %+v, specification %+v", want, d, val), c)
	} else {
		r.distinct["duration/"+c.Months+"/"+c.Days+"/"+c.Nanos] = true
	}
}

func (r *cqlRun) decimalCase(c cqlCase) {
	want := intsToB(c.Bytes)
	n := bigOf(c.Neg, c.Mag)
	val := datacodec.CqlDecimal{Unscaled: n, Scale: int32(c.Scale)}
	v := primitive.ProtocolVersion4
	r.rep.Evaluations++
	b, err, p := safeEncode(datacodec.Decimal, val, v)
	if p != "" || err != nil {
		r.bad("C11,C12", "decimal-encode", fmt.Sprintf("%v e-%d: %v %s", n, c.Scale, err, p), c)
	} else if !bytes.Equal(b, want) {
		r.bad("C12", "decimal-encode-bytes", fmt.Sprintf("%v scale %d encoded % x, specification % x", n, c.Scale, b, want), c)
	}
	var d datacodec.CqlDecimal
	if _, err, p := safeDecode(datacodec.Decimal, want, &d, v); p != "" || err != nil {
		r.bad("C11,C12", "decimal-decode", fmt.Sprintf("% x: %v %s", want, err, p), c)
	} else if d.Unscaled == nil || d.Unscaled.Cmp(n) != 0 || int(d.Scale) != c.Scale {
		r.bad("C11,C12", "decimal-decode-value", fmt.Sprintf("% x decoded to %v scale %d", want, d.Unscaled, d.Scale), c)
	} else {
		r.distinct[fmt.Sprintf("decimal/%v/%d", n, c.Scale)] = true
	}
}

func parseFloatName(s string) float64 {
	switch s {
	case "+Inf":
		return math.Inf(1)
	case "-Inf":
		return math.Inf(-1)
	case "-0":
		return math.Copysign(0, -1)
	case "maxfloat32":
		return math.MaxFloat32
	case "minsubnormal32":
		return float64(math.SmallestNonzeroFloat32)
	case "maxfloat64":
		return math.MaxFloat64
	}
	var f float64
	fmt.Sscan(s, &f)
	return f
}

func (r *cqlRun) simpleCase(c cqlCase) {
	codec := scalarCodecs[c.Cql]
	want := intsToB(c.Bytes)
	v := primitive.ProtocolVersion4
	var val interface{}
	var dest interface{}
	eq := func() bool { return reflect.DeepEqual(reflect.ValueOf(dest).Elem().Interface(), val) }
	switch c.Cql {
	case "boolean":
		val, dest = c.Go == "true", new(bool)
	case "varchar", "ascii":
		str := c.Go
		if strings.HasPrefix(str, "hex:") { // non-ASCII text does not survive TLC's string handling: given as UTF-8 bytes
			b, _ := hex.DecodeString(str[4:])
			str = string(b)
		}
		val, dest = str, new(string)
	case "blob":
		b, _ := hex.DecodeString(c.Go)
		val, dest = b, new([]byte)
		eq = func() bool { return bytes.Equal(*dest.(*[]byte), b) }
	case "uuid", "timeuuid":
		u, err := primitive.ParseUuid(c.Go)
		if err != nil {
			panic(err)
		}
		val, dest = *u, new(primitive.UUID)
	case "inet":
		ip := net.ParseIP(c.Go)
		val, dest = ip, new(net.IP)
		eq = func() bool { return dest.(*net.IP).Equal(ip) }
	case "float":
		f := float32(parseFloatName(c.Go))
		val, dest = f, new(float32)
		eq = func() bool { return math.Float32bits(*dest.(*float32)) == math.Float32bits(f) }
	case "double":
		f := parseFloatName(c.Go)
		val, dest = f, new(float64)
		eq = func() bool { return math.Float64bits(*dest.(*float64)) == math.Float64bits(f) }
	}
	r.rep.Evaluations++
	b, err, p := safeEncode(codec, val, v)
	if p != "" || err != nil {
		r.bad("C11,C12", "simple-encode|"+c.Cql, fmt.Sprintf("%s %q: %v %s", c.Cql, c.Go, err, p), c)
	} else if !bytes.Equal(b, want) && !(len(b) == 0 && len(want) == 0) {
		r.bad("C12", "simple-encode-bytes|"+c.Cql, fmt.Sprintf("%s %q encoded % x, specification % x", c.Cql, c.Go, b, want), c)
	}
	src := want
	if src == nil {
		src = []byte{}
	}
	if wasNull, err, p := safeDecode(codec, src, dest, v); p != "" || err != nil {
		r.bad("C11,C12", "simple-decode|"+c.Cql, fmt.Sprintf("%s % x: %v %s", c.Cql, want, err, p), c)
	} else if len(want) > 0 && (wasNull || !eq()) {
		r.bad("C11,C12", "simple-decode-value|"+c.Cql, fmt.Sprintf("%s % x decoded to %v (wasNull=%v), specification %q", c.Cql, want, reflect.ValueOf(dest).Elem().Interface(), wasNull, c.Go), c)
	} else {
		r.distinct["simple/"+c.Cql+"/"+c.Go] = true
	}
}

func (r *cqlRun) narrowCase(c cqlCase) {
	f := parseFloatName(c.Go)
	r.rep.Evaluations++
	b, err, p := safeEncode(datacodec.Float, f, primitive.ProtocolVersion4)
	if p != "" {
		r.bad("C13", "narrow-panic", p, c)
	} else if c.Ok && err != nil {
		r.bad("C11", "narrow-refused", fmt.Sprintf("float64 %v is exactly a float32 but CQL float refused it: %v", f, err), c)
	} else if !c.Ok && err == nil {
		r.bad("C13", "narrow-silent", fmt.Sprintf("float64 %v is not a float32 but CQL float encoded it as % x", f, b), c)
	} else {
		r.distinct["narrow/"+c.Go] = true
	}
	// and decoding a CQL double into a float32 destination
	var d32 float32
	enc, _, _ := safeEncode(datacodec.Double, f, primitive.ProtocolVersion4)
	_, err, _ = safeDecode(datacodec.Double, enc, &d32, primitive.ProtocolVersion4)
	if !c.Ok && err == nil && !math.IsInf(f, 0) {
		r.bad("C13", "narrow-decode-silent", fmt.Sprintf("CQL double %v decoded into *float32 as %v without error", f, d32), c)
	}
}

// optional element: [] = null, [[bytes]] = value
func elemBytes(raw json.RawMessage) (b []byte, null bool) {
	var outer [][]int
	if err := json.Unmarshal(raw, &outer); err != nil {
		panic(err)
	}
	if len(outer) == 0 {
		return nil, true
	}
	b = intsToBytes(outer[0])
	if b == nil {
		b = []byte{}
	}
	return b, false
}

func i32ptr(b []byte) *int32 {
	v := int32(uint32(b[0])<<24 | uint32(b[1])<<16 | uint32(b[2])<<8 | uint32(b[3]))
	return &v
}

func (r *cqlRun) collCase(c cqlCase) {
	want := intsToB(c.Bytes)
	v := primitive.ProtocolVersion4
	if c.V2 {
		v = primitive.ProtocolVersion2
	}
	var codec datacodec.Codec
	var err error
	var sources []interface{}
	var newDest func() interface{}
	var same func(dest interface{}) bool
	type el struct {
		b    []byte
		null bool
	}
	var mapnSame func(dest interface{}) bool
	mapnPlain := false
	// a destination the caller has used before (a slice reused from row to row): same type, already populated
	var usedDest func() interface{}
	var els []el
	for _, e := range c.Elems {
		b, null := elemBytes(e)
		els = append(els, el{b, null})
	}
	switch c.Kind {
	case "list", "set":
		if c.Kind == "list" {
			codec, err = datacodec.NewList(datatype.NewList(datatype.Int))
		} else {
			codec, err = datacodec.NewSet(datatype.NewSet(datatype.Int))
		}
		ptrs := []*int32{}
		ifs := []interface{}{}
		for _, e := range els {
			if e.null {
				ptrs = append(ptrs, nil)
				ifs = append(ifs, nil)
			} else {
				ptrs = append(ptrs, i32ptr(e.b))
				ifs = append(ifs, *i32ptr(e.b))
			}
		}
		sources = []interface{}{ptrs, ifs, &ptrs}
		newDest = func() interface{} { var d []*int32; return &d }
		usedDest = func() interface{} {
			d := make([]*int32, 0, len(ptrs)+2)
			for i := 0; i < len(ptrs)+1; i++ {
				x := int32(90 + i)
				d = append(d, &x)
			}
			return &d
		}
		same = func(dest interface{}) bool {
			d := *dest.(*[]*int32)
			if len(d) != len(ptrs) {
				return false
			}
			for i := range d {
				if (d[i] == nil) != (ptrs[i] == nil) || (d[i] != nil && *d[i] != *ptrs[i]) {
					return false
				}
			}
			return true
		}
	case "map":
		codec, err = datacodec.NewMap(datatype.NewMap(datatype.Int, datatype.Varchar))
		m := map[int32]*string{}
		mi := map[interface{}]interface{}{}
		for i := 0; i+1 < len(els); i += 2 {
			k := *i32ptr(els[i].b)
			if els[i+1].null {
				m[k] = nil
				mi[k] = nil
			} else {
				s := string(els[i+1].b)
				m[k] = &s
				mi[k] = s
			}
		}
		sources = []interface{}{m, mi}
		newDest = func() interface{} { var d map[int32]*string; return &d }
		same = func(dest interface{}) bool {
			d := *dest.(*map[int32]*string)
			if len(d) != len(m) {
				return false
			}
			for k, v := range m {
				dv, ok := d[k]
				if !ok || (dv == nil) != (v == nil) || (v != nil && *dv != *v) {
					return false
				}
			}
			return true
		}
	case "mapn":
		// several entries: any order of the entries is admissible on the wire; the values must stay apart
		codec, err = datacodec.NewMap(datatype.NewMap(datatype.Int, datatype.Varchar))
		m := map[int32]*string{}
		mv := map[int32]string{}
		hasNull := false
		for i := 0; i+1 < len(els); i += 2 {
			k := *i32ptr(els[i].b)
			if els[i+1].null {
				m[k] = nil
				hasNull = true
			} else {
				sv := string(els[i+1].b)
				m[k] = &sv
				mv[k] = sv
			}
		}
		sources = []interface{}{m}
		if !hasNull {
			sources = append(sources, mv)
		}
		norm := func(x interface{}) (map[int32]string, bool) { // value "\x00nil" stands for a nil value
			out := map[int32]string{}
			rv := reflect.ValueOf(x)
			for rv.IsValid() && (rv.Kind() == reflect.Ptr || rv.Kind() == reflect.Interface) {
				if rv.IsNil() {
					return nil, false
				}
				rv = rv.Elem()
			}
			if !rv.IsValid() || rv.Kind() != reflect.Map {
				return nil, false
			}
			for _, k := range rv.MapKeys() {
				kv, vv := k, rv.MapIndex(k)
				for kv.Kind() == reflect.Ptr || kv.Kind() == reflect.Interface {
					kv = kv.Elem()
				}
				for vv.IsValid() && (vv.Kind() == reflect.Ptr || vv.Kind() == reflect.Interface) && !vv.IsNil() {
					vv = vv.Elem()
				}
				if !kv.IsValid() || !kv.CanInt() {
					return nil, false
				}
				if !vv.IsValid() || vv.Kind() != reflect.String {
					out[int32(kv.Int())] = "\x00nil"
				} else {
					out[int32(kv.Int())] = vv.String()
				}
			}
			return out, true
		}
		wantNorm, _ := norm(m)
		newDest = func() interface{} { var d map[int32]*string; return &d }
		same = func(dest interface{}) bool {
			g, ok := norm(dest)
			return ok && reflect.DeepEqual(g, wantNorm)
		}
		mapnSame = same
		mapnPlain = !hasNull
	case "udt2":
		udt, _ := datatype.NewUserDefined("ks", "t", []string{"a", "b"}, []datatype.DataType{datatype.Int, datatype.Int})
		codec, err = datacodec.NewUserDefined(udt)
		m := map[string]*int32{}
		for i, name := range []string{"a", "b"} {
			if els[i].null {
				m[name] = nil
			} else {
				m[name] = i32ptr(els[i].b)
			}
		}
		sources = []interface{}{m}
		eq := func(d map[string]*int32) bool {
			if len(d) != len(m) {
				return false
			}
			for k, v := range m {
				dv, ok := d[k]
				if !ok || (dv == nil) != (v == nil) || (v != nil && *dv != *v) {
					return false
				}
			}
			return true
		}
		newDest = func() interface{} { var d map[string]*int32; return &d }
		same = func(dest interface{}) bool { return eq(*dest.(*map[string]*int32)) }
	case "tuple", "udt":
		fields := []interface{}{}
		if els[0].null {
			fields = append(fields, nil)
		} else {
			fields = append(fields, *i32ptr(els[0].b))
		}
		if els[1].null {
			fields = append(fields, nil)
		} else {
			fields = append(fields, string(els[1].b))
		}
		if c.Kind == "tuple" {
			codec, err = datacodec.NewTuple(datatype.NewTuple(datatype.Int, datatype.Varchar))
			sources = []interface{}{fields}
			newDest = func() interface{} { var d []interface{}; return &d }
			usedDest = func() interface{} { d := []interface{}{int32(91), "used"}; return &d }
			same = func(dest interface{}) bool { return reflect.DeepEqual(*dest.(*[]interface{}), fields) }
		} else {
			udt, _ := datatype.NewUserDefined("ks", "t", []string{"a", "b"}, []datatype.DataType{datatype.Int, datatype.Varchar})
			codec, err = datacodec.NewUserDefined(udt)
			m := map[string]interface{}{"a": fields[0], "b": fields[1]}
			sources = []interface{}{m, fields}
			newDest = func() interface{} { var d map[string]interface{}; return &d }
			same = func(dest interface{}) bool { return reflect.DeepEqual(*dest.(*map[string]interface{}), m) }
		}
	case "listlist":
		codec, err = datacodec.NewList(datatype.NewList(datatype.NewList(datatype.Int)))
		inner, _ := datacodec.NewList(datatype.NewList(datatype.Int))
		var val [][]*int32
		for _, e := range els {
			if e.null {
				val = append(val, nil)
				continue
			}
			var in []*int32
			if _, err := inner.Decode(e.b, &in, v); err != nil {
				panic(fmt.Sprintf("inner list of the case does not decode: %v", err))
			}
			if in == nil {
				in = []*int32{}
			}
			val = append(val, in)
		}
		sources = []interface{}{val}
		newDest = func() interface{} { var d [][]*int32; return &d }
		same = func(dest interface{}) bool {
			d := *dest.(*[][]*int32)
			if len(d) != len(val) {
				return false
			}
			for i := range d {
				if (d[i] == nil) != (val[i] == nil) || len(d[i]) != len(val[i]) {
					return false
				}
				for j := range d[i] {
					if (d[i][j] == nil) != (val[i][j] == nil) || (d[i][j] != nil && *d[i][j] != *val[i][j]) {
						return false
					}
				}
			}
			return true
		}
	}
	if err != nil {
		panic(err)
	}
	tag := fmt.Sprintf("%s v2=%v elems=%s", c.Kind, c.V2, compactJSON(c.Elems))
	for si, src := range sources {
		r.rep.Evaluations++
		b, err, p := safeEncode(codec, src, v)
		switch {
		case p != "":
			r.bad("C11,C14", "coll-encode-panic|"+c.Kind, tag+": "+p, c)
		case c.Enc == "err" && err == nil:
			r.bad("C14", "coll-v2-null-accepted|"+c.Kind, fmt.Sprintf("%s: protocol v2 cannot express a null element but Encode returned % x", tag, b), c)
		case c.Enc == "ok" && err != nil:
			r.bad("C11,C14", "coll-encode-refused|"+c.Kind, fmt.Sprintf("%s (source form %d): %v", tag, si, err), c)
		case c.Enc == "ok" && c.Kind == "mapn" && permutationOf(b, intsToB(c.Head), c.Ents):
			r.distinct["coll-enc/"+tag] = true
		case c.Enc == "ok" && !bytes.Equal(b, want):
			r.bad("C12,C14", "coll-encode-bytes|"+c.Kind, fmt.Sprintf("%s (source form %d): encoded % x, specification % x", tag, si, b, want), c)
		default:
			r.distinct["coll-enc/"+tag] = true
		}
	}
	if c.Enc == "ok" {
		dest := newDest()
		r.rep.Evaluations++
		if wasNull, err, p := safeDecode(codec, want, dest, v); p != "" {
			r.bad("C11,C14", "coll-decode-panic|"+c.Kind, tag+": "+p, c)
		} else if err != nil {
			r.bad("C11,C12,C14", "coll-decode-refused|"+c.Kind, fmt.Sprintf("%s: decoding % x: %v", tag, want, err), c)
		} else if wasNull || !same(dest) {
			r.bad("C11,C12,C14", "coll-decode-value|"+c.Kind, fmt.Sprintf("%s: % x decoded to %s (wasNull=%v)", tag, want, describe(dest), wasNull), c)
		} else {
			r.distinct["coll-dec/"+tag] = true
		}
		if usedDest != nil {
			// slices are resized and overwritten element by element (unlike maps, which keep their entries): a null
			// element must come out as the zero value whatever the slot held before
			dest := usedDest()
			r.rep.Evaluations++
			if wasNull, err, p := safeDecode(codec, want, dest, v); p != "" || err != nil || wasNull || !same(dest) {
				r.bad("C11,C14", "coll-decode-used-dest|"+c.Kind, fmt.Sprintf("%s: % x decoded into an already populated slice gave %s (wasNull=%v err=%v %s)", tag, want, describe(dest), wasNull, err, p), c)
			}
		}
		// untyped destination: must not panic, must keep nulls
		var x interface{}
		if _, err, p := safeDecode(codec, want, &x, v); p != "" {
			r.bad("C11,C14", "coll-decode-untyped-panic|"+c.Kind, tag+": "+p, c)
		} else if err != nil {
			r.bad("C11", "coll-decode-untyped-refused|"+c.Kind, fmt.Sprintf("%s: %v", tag, err), c)
		} else if mapnSame != nil && !mapnSame(&x) {
			r.bad("C11", "coll-decode-untyped-value|"+c.Kind, fmt.Sprintf("%s: % x decoded into an untyped destination as %s", tag, want, describeDeep(x)), c)
		}
		if mapnSame != nil && mapnPlain {
			// the same map with plain (non-pointer) values
			var d map[int32]string
			if _, err, p := safeDecode(codec, want, &d, v); p != "" || err != nil || !mapnSame(&d) {
				r.bad("C11", "coll-decode-value|mapn-plain", fmt.Sprintf("%s: % x decoded into map[int32]string as %v (err %v %s)", tag, want, d, err, p), c)
			}
		}
	}
}

// permutationOf: b is head followed by the entries in some order.
func permutationOf(b, head []byte, ents [][]int) bool {
	if !bytes.HasPrefix(b, head) {
		return false
	}
	rest := b[len(head):]
	used := make([]bool, len(ents))
	for len(rest) > 0 {
		found := false
		for i, e := range ents {
			eb := intsToB(e)
			if !used[i] && bytes.HasPrefix(rest, eb) {
				used[i], found = true, true
				rest = rest[len(eb):]
				break
			}
		}
		if !found {
			return false
		}
	}
	for _, u := range used {
		if !u {
			return false
		}
	}
	return true
}

// describeDeep prints a decoded value with its pointers followed.
func describeDeep(x interface{}) string {
	rv := reflect.ValueOf(x)
	for rv.IsValid() && (rv.Kind() == reflect.Ptr || rv.Kind() == reflect.Interface) && !rv.IsNil() {
		rv = rv.Elem()
	}
	if rv.IsValid() && rv.Kind() == reflect.Map {
		out := []string{}
		for _, k := range rv.MapKeys() {
			kv, vv := k, rv.MapIndex(k)
			for (kv.Kind() == reflect.Ptr || kv.Kind() == reflect.Interface) && !kv.IsNil() {
				kv = kv.Elem()
			}
			for (vv.Kind() == reflect.Ptr || vv.Kind() == reflect.Interface) && !vv.IsNil() {
				vv = vv.Elem()
			}
			out = append(out, fmt.Sprintf("%v:%v", kv, vv))
		}
		sort.Strings(out)
		return fmt.Sprintf("%T{%s}", x, strings.Join(out, " "))
	}
	return fmt.Sprintf("%#v", x)
}

func compactJSON(raw []json.RawMessage) string {
	b, _ := json.Marshal(raw)
	return string(b)
}

func describe(dest interface{}) string {
	b, err := json.Marshal(reflect.ValueOf(dest).Elem().Interface())
	if err != nil {
		return fmt.Sprintf("%v", reflect.ValueOf(dest).Elem().Interface())
	}
	return string(b)
}

// ---- NULL table

type repSpec struct {
	zero    func() interface{} // pointer to a zero value (what Decode of NULL must leave)
	filled  func() interface{} // pointer to a non-zero value
	nilForm func() interface{} // typed nil of the pointer / slice form accepted as a source
}

func ptrNew(v interface{}) func() interface{} {
	return func() interface{} { return pointerTo(v) }
}

var repSpecs = map[string]repSpec{}

func init() {
	addNum := func(name string, zero, filled interface{}) {
		t := reflect.TypeOf(zero)
		repSpecs[name] = repSpec{ptrNew(zero), ptrNew(filled), func() interface{} { return reflect.Zero(reflect.PtrTo(t)).Interface() }}
	}
	addNum("int", int(0), int(7))
	addNum("int8", int8(0), int8(7))
	addNum("int16", int16(0), int16(7))
	addNum("int32", int32(0), int32(7))
	addNum("int64", int64(0), int64(7))
	addNum("uint", uint(0), uint(7))
	addNum("uint8", uint8(0), uint8(7))
	addNum("uint16", uint16(0), uint16(7))
	addNum("uint32", uint32(0), uint32(7))
	addNum("uint64", uint64(0), uint64(7))
	addNum("string", "", "prefilled")
	addNum("bool", false, true)
	addNum("float32", float32(0), float32(1.5))
	addNum("float64", float64(0), float64(1.5))
	addNum("time", time.Time{}, time.Unix(1000000, 0).UTC())
	addNum("duration", time.Duration(0), time.Duration(5))
	addNum("uuid", primitive.UUID{}, primitive.UUID{1, 2, 3})
	addNum("bytes16", [16]byte{}, [16]byte{1})
	addNum("decimal", datacodec.CqlDecimal{}, datacodec.CqlDecimal{Unscaled: big.NewInt(5), Scale: 2})
	addNum("cqlduration", datacodec.CqlDuration{}, datacodec.CqlDuration{Months: 1, Days: 2, Nanos: 3})
	repSpecs["bigint"] = repSpec{func() interface{} { return new(big.Int) }, func() interface{} { return big.NewInt(7) }, func() interface{} { return (*big.Int)(nil) }}
	repSpecs["bigfloat"] = repSpec{func() interface{} { return new(big.Float) }, func() interface{} { return big.NewFloat(1.5) }, func() interface{} { return (*big.Float)(nil) }}
	repSpecs["bytes"] = repSpec{func() interface{} { var b []byte; return &b }, func() interface{} { b := []byte{1, 2}; return &b }, func() interface{} { return []byte(nil) }}
	repSpecs["runes"] = repSpec{func() interface{} { var b []rune; return &b }, func() interface{} { b := []rune{'a'}; return &b }, func() interface{} { return []rune(nil) }}
	repSpecs["ip"] = repSpec{func() interface{} { var b net.IP; return &b }, func() interface{} { b := net.IPv4(1, 2, 3, 4); return &b }, func() interface{} { return net.IP(nil) }}
}

func isZeroDest(rep string, dest interface{}) bool {
	switch d := dest.(type) {
	case *big.Int:
		return d.Sign() == 0
	case *big.Float:
		return d.Sign() == 0
	case *datacodec.CqlDecimal:
		return d.Unscaled == nil && d.Scale == 0
	}
	v := reflect.ValueOf(dest).Elem()
	return v.IsZero()
}

func (r *cqlRun) nullCase(c cqlCase) {
	codec := scalarCodecs[c.Cql]
	sort.Strings(c.Reps)
	for _, v := range []primitive.ProtocolVersion{primitive.ProtocolVersion2, primitive.ProtocolVersion5} {
		r.rep.Evaluations++
		if b, err, p := safeEncode(codec, nil, v); p != "" || err != nil || b != nil {
			r.bad("C14", "null-encode-untyped|"+c.Cql, fmt.Sprintf("%s.Encode(nil) = (% x, %v) %s", c.Cql, b, err, p), c)
		}
		for _, rep := range c.Reps {
			spec, ok := repSpecs[rep]
			if !ok {
				panic("no Go factory for representation " + rep)
			}
			r.rep.Evaluations += 2
			src := spec.nilForm()
			if b, err, p := safeEncode(codec, src, v); p != "" {
				r.bad("C14", "null-encode-panic|"+c.Cql+"|"+rep, fmt.Sprintf("%s.Encode(%T nil): %s", c.Cql, src, p), c)
			} else if err != nil {
				r.bad("C14", "null-encode-error|"+c.Cql+"|"+rep, fmt.Sprintf("%s.Encode(%T nil): %v", c.Cql, src, err), c)
			} else if b != nil {
				r.bad("C14", "null-encode-notnull|"+c.Cql+"|"+rep, fmt.Sprintf("%s.Encode(%T nil) = % x, not NULL", c.Cql, src, b), c)
			}
			dest := spec.filled()
			if wasNull, err, p := safeDecode(codec, nil, dest, v); p != "" {
				r.bad("C14", "null-decode-panic|"+c.Cql+"|"+rep, fmt.Sprintf("%s.Decode(NULL, %T): %s", c.Cql, dest, p), c)
			} else if err != nil {
				r.bad("C14", "null-decode-error|"+c.Cql+"|"+rep, fmt.Sprintf("%s.Decode(NULL, %T): %v", c.Cql, dest, err), c)
			} else if !wasNull {
				r.bad("C14", "null-decode-notreported|"+c.Cql+"|"+rep, fmt.Sprintf("%s.Decode(NULL, %T): wasNull=false", c.Cql, dest), c)
			} else if !isZeroDest(rep, dest) {
				r.bad("C14", "null-decode-stale|"+c.Cql+"|"+rep, fmt.Sprintf("%s.Decode(NULL, %T) left %v in the destination", c.Cql, dest, reflect.ValueOf(dest).Elem().Interface()), c)
			} else {
				r.distinct["null/"+c.Cql+"/"+rep] = true
			}
		}
		// untyped destination pre-filled
		var x interface{} = "stale"
		if wasNull, err, p := safeDecode(codec, nil, &x, v); p != "" || err != nil || !wasNull || x != nil {
			r.bad("C14", "null-decode-untyped|"+c.Cql, fmt.Sprintf("%s.Decode(NULL, *interface{}) = wasNull %v err %v dest %v %s", c.Cql, wasNull, err, x, p), c)
		}
	}
}

func (r *cqlRun) nullCollCase(c cqlCase) {
	udt, _ := datatype.NewUserDefined("ks", "t", []string{"a", "b"}, []datatype.DataType{datatype.Int, datatype.Varchar})
	var dt datatype.DataType
	switch c.Kind {
	case "list":
		dt = datatype.NewList(datatype.Int)
	case "set":
		dt = datatype.NewSet(datatype.Int)
	case "map":
		dt = datatype.NewMap(datatype.Int, datatype.Varchar)
	case "tuple":
		dt = datatype.NewTuple(datatype.Int, datatype.Varchar)
	case "udt":
		dt = udt
	}
	codec, err := datacodec.NewCodec(dt)
	if err != nil {
		panic(err)
	}
	type pair struct {
		A int32
		B string
	}
	for _, v := range []primitive.ProtocolVersion{primitive.ProtocolVersion3, primitive.ProtocolVersion5} {
		r.rep.Evaluations++
		if b, err, p := safeEncode(codec, nil, v); p != "" || err != nil || b != nil {
			r.bad("C14", "nullcoll-encode-untyped|"+c.Kind, fmt.Sprintf("%s.Encode(nil) = (% x, %v) %s", c.Kind, b, err, p), c)
		}
		for _, dk := range c.Dests {
			var dest interface{}
			switch dk {
			case "slice":
				if c.Kind == "tuple" || c.Kind == "udt" {
					d := []interface{}{int32(5), "x"}
					dest = &d
				} else {
					d := []int32{5, 6}
					dest = &d
				}
			case "array":
				if c.Kind == "tuple" || c.Kind == "udt" {
					d := [2]interface{}{int32(5), "x"}
					dest = &d
				} else {
					d := [2]int32{5, 6}
					dest = &d
				}
			case "map":
				if c.Kind == "udt" {
					d := map[string]interface{}{"a": int32(5)}
					dest = &d
				} else {
					d := map[int32]string{5: "x"}
					dest = &d
				}
			case "struct":
				d := pair{5, "x"}
				dest = &d
			case "iface":
				var d interface{} = "stale"
				dest = &d
			}
			r.rep.Evaluations++
			wasNull, err, p := safeDecode(codec, nil, dest, v)
			switch {
			case p != "":
				r.bad("C14", "nullcoll-decode-panic|"+c.Kind+"|"+dk, fmt.Sprintf("%s.Decode(NULL, %T): %s", c.Kind, dest, p), c)
			case err != nil:
				r.bad("C14", "nullcoll-decode-error|"+c.Kind+"|"+dk, fmt.Sprintf("%s.Decode(NULL, %T): %v", c.Kind, dest, err), c)
			case !wasNull:
				r.bad("C14", "nullcoll-decode-notreported|"+c.Kind+"|"+dk, fmt.Sprintf("%s.Decode(NULL, %T): wasNull=false", c.Kind, dest), c)
			case !reflect.ValueOf(dest).Elem().IsZero():
				r.bad("C14", "nullcoll-decode-stale|"+c.Kind+"|"+dk, fmt.Sprintf("%s.Decode(NULL, %T) left %v in the destination", c.Kind, dest, reflect.ValueOf(dest).Elem().Interface()), c)
			default:
				r.distinct["nullcoll/"+c.Kind+"/"+dk] = true
			}
		}
	}
}

func (r *cqlRun) bigCollCase(c cqlCase) {
	v := primitive.ProtocolVersion4
	if c.V2 {
		v = primitive.ProtocolVersion2
	}
	codec, _ := datacodec.NewList(datatype.NewList(datatype.Int))
	want := append([]byte{}, intsToB(c.Head)...)
	elem := intsToB(c.Elem)
	for i := 0; i < c.N; i++ {
		want = append(want, elem...)
	}
	val := make([]int32, c.N)
	for i := range val {
		val[i] = 1
	}
	tag := fmt.Sprintf("list<int> of %d elements, v2=%v", c.N, c.V2)
	r.rep.Evaluations++
	b, err, p := safeEncode(codec, val, v)
	if p != "" || err != nil {
		r.bad("C11,C12", "bigcoll-encode", fmt.Sprintf("%s: %v %s", tag, err, p), c)
	} else if !bytes.Equal(b, want) {
		r.bad("C12", "bigcoll-encode-bytes", fmt.Sprintf("%s: first bytes % x, specification % x", tag, clip(b, 12), clip(want, 12)), c)
	}
	var back []int32
	if wasNull, err, p := safeDecode(codec, want, &back, v); p != "" {
		r.bad("C11,C12", "bigcoll-decode-panic", tag+": "+p, c)
	} else if err != nil {
		r.bad("C11,C12", "bigcoll-decode", fmt.Sprintf("%s: %v", tag, err), c)
	} else if wasNull || !reflect.DeepEqual(back, val) {
		r.bad("C11,C12", "bigcoll-decode-value", fmt.Sprintf("%s: decoded %d elements", tag, len(back)), c)
	} else {
		r.distinct[tag] = true
	}
}

func cqlCheck(args []string) int {
	fs := flag.NewFlagSet("cql", flag.ExitOnError)
	casePath := fs.String("cases", "", "cases from CqlValue.tla (ndjson)")
	_ = fs.Parse(args)
	run := &cqlRun{rep: &Report{}, distinct: map[string]bool{}}
	fams := map[string]int{}
	err := readNDJSON(*casePath, func(line []byte) error {
		var c cqlCase
		if err := json.Unmarshal(line, &c); err != nil {
			return err
		}
		fams[c.Fam]++
		switch c.Fam {
		case "int":
			run.intCase(c)
		case "duration", "duration-overflow":
			run.durationCase(c)
		case "decimal":
			run.decimalCase(c)
		case "simple":
			run.simpleCase(c)
		case "narrow":
			run.narrowCase(c)
		case "coll":
			run.collCase(c)
		case "null":
			run.nullCase(c)
		case "nullcoll":
			run.nullCollCase(c)
		case "bigcoll":
			run.bigCollCase(c)
		default:
			return fmt.Errorf("unknown case family %q", c.Fam)
		}
		if len(run.rep.Samples) < 5 && fams[c.Fam] == 3 {
			run.rep.Samples = append(run.rep.Samples, json.RawMessage(line))
		}
		return nil
	})
	if err != nil {
		fmt.Fprintln(os.Stderr, err)
		return 2
	}
	run.rep.Distinct = len(run.distinct)
	run.rep.Extra = map[string]interface{}{"families": fams}
	return run.rep.print()
}

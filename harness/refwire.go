package main

// refwire: a small, independent reference implementation of the v5 segment framing (header packing, Cassandra's
// CRC-24, the seeded CRC-32), written bit-serially from native_protocol_v5.spec §2 and deliberately sharing no code
// with the library (no hash/crc32, no crc package). It is used as the raw peer in the connection rigs and for bulk
// comparisons that TLC cannot carry (131072 lengths, 10^8 corruption patterns); every run first re-anchors it to
// the vectors TLC computes from specs/Segment.tla, so it cannot drift from the specification unnoticed.

const (
	refCrc24Init = 0x875060
	refCrc24Poly = 0x1974F0B
)

func refCrc24(header []byte) uint32 { return refCrc24From(refCrc24Init, header) }

// refCrc24Lin is the linear part of the checksum (zero initial value): crc(h^e) ^ crc(h) == refCrc24Lin(e).
func refCrc24Lin(e []byte) uint32 { return refCrc24From(0, e) }

func refCrc24From(crc uint32, bytes []byte) uint32 {
	for _, b := range bytes {
		crc ^= uint32(b) << 16
		for i := 0; i < 8; i++ {
			crc <<= 1
			if crc&0x1000000 != 0 {
				crc ^= refCrc24Poly
			}
		}
	}
	return crc
}

// refCrc32 is CRC-32/ISO-HDLC over FA 2D 55 CA followed by data, bit by bit.
func refCrc32(data []byte) uint32 {
	crc := uint32(0xFFFFFFFF)
	feed := func(b byte) {
		crc ^= uint32(b)
		for i := 0; i < 8; i++ {
			if crc&1 == 1 {
				crc = crc>>1 ^ 0xEDB88320
			} else {
				crc >>= 1
			}
		}
	}
	for _, b := range []byte{0xFA, 0x2D, 0x55, 0xCA} {
		feed(b)
	}
	for _, b := range data {
		feed(b)
	}
	return ^crc
}

func le(n uint64, width int) []byte {
	out := make([]byte, width)
	for i := range out {
		out[i] = byte(n >> (8 * uint(i)))
	}
	return out
}

func refHeaderUncompressed(length int, selfContained bool) []byte {
	v := uint64(length) & 0x1FFFF
	if selfContained {
		v |= 1 << 17
	}
	return le(v, 3)
}

func refHeaderCompressed(cLen, uLen int, selfContained bool) []byte {
	v := uint64(cLen)&0x1FFFF | (uint64(uLen)&0x1FFFF)<<17
	if selfContained {
		v |= 1 << 34
	}
	return le(v, 5)
}

// refSegmentUncompressed builds a whole uncompressed-format segment.
func refSegmentUncompressed(payload []byte, selfContained bool) []byte {
	h := refHeaderUncompressed(len(payload), selfContained)
	out := append([]byte{}, h...)
	out = append(out, le(uint64(refCrc24(h)), 3)...)
	out = append(out, payload...)
	return append(out, le(uint64(refCrc32(payload)), 4)...)
}

// refSegmentCompressed builds a compressed-format segment from the bytes to transmit and the uncompressed-length field
// (0 = payload sent raw).
func refSegmentCompressed(transmitted []byte, uLenField int, selfContained bool) []byte {
	h := refHeaderCompressed(len(transmitted), uLenField, selfContained)
	out := append([]byte{}, h...)
	out = append(out, le(uint64(refCrc24(h)), 3)...)
	out = append(out, transmitted...)
	return append(out, le(uint64(refCrc32(transmitted)), 4)...)
}

// refParsed is a segment split into its parts by the reference reader (no checksum verification).
type refParsed struct {
	Header      []byte
	Crc24       []byte
	Transmitted []byte
	Crc32       []byte
	CLen, ULen  int
	SelfCont    bool
	Pad         uint64
	Rest        []byte
}

func refParse(seg []byte, compressedFormat bool) (p refParsed, ok bool) {
	hl := 3
	if compressedFormat {
		hl = 5
	}
	if len(seg) < hl+3 {
		return p, false
	}
	var v uint64
	for i := 0; i < hl; i++ {
		v |= uint64(seg[i]) << (8 * uint(i))
	}
	p.Header, p.Crc24 = seg[:hl], seg[hl:hl+3]
	n := 0
	if compressedFormat {
		p.CLen = int(v & 0x1FFFF)
		p.ULen = int(v >> 17 & 0x1FFFF)
		p.SelfCont = v>>34&1 == 1
		p.Pad = v >> 35
		n = p.CLen
	} else {
		p.ULen = int(v & 0x1FFFF)
		p.SelfCont = v>>17&1 == 1
		p.Pad = v >> 18
		n = p.ULen
	}
	if len(seg) < hl+3+n+4 {
		return p, false
	}
	p.Transmitted = seg[hl+3 : hl+3+n]
	p.Crc32 = seg[hl+3+n : hl+3+n+4]
	p.Rest = seg[hl+3+n+4:]
	return p, true
}

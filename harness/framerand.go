package main

import (
	"bytes"
	"crypto/sha1"
	"encoding/hex"
	"encoding/json"
	"flag"
	"fmt"
	"io"
	"math/rand"
	"os"
	"reflect"
	"strings"

	"github.com/datastax/go-cassandra-native-protocol/client"
	"github.com/datastax/go-cassandra-native-protocol/frame"
	"github.com/datastax/go-cassandra-native-protocol/primitive"
)

// Random leg of C01 / C03 / C05 (binding T): streams of frames with random contents, written and read back through
// randomly chosen paths of the real codec; one line per event for specs/FrameStreamTrace.tla, which decides.

func init() { subcommands["framerand"] = frameRand }

var (
	plainStringT = reflect.TypeOf("")
	plainBytesT  = reflect.TypeOf([]byte(nil))
)

func randomText(rnd *rand.Rand, n int, compressible bool) string {
	var sb strings.Builder
	alphabet := []rune("abcdefghijklmnopqrstuvwxyz0123456789 _-.,éß€漢")
	if compressible {
		alphabet = alphabet[:3]
	}
	for sb.Len() < n {
		r := alphabet[rnd.Intn(len(alphabet))]
		if sb.Len()+len(string(r)) > n {
			r = 'x'
		}
		sb.WriteRune(r)
	}
	return sb.String()
}

// randomise replaces the contents of plain string and []byte fields reachable from v (non-empty ones only: empty vs
// absent is a distinction some encodings cannot carry, and the vectors already cover it).
func randomise(v reflect.Value, rnd *rand.Rand, depth int, maxStr int) {
	if depth > 8 {
		return
	}
	switch v.Kind() {
	case reflect.Ptr, reflect.Interface:
		if !v.IsNil() {
			randomise(v.Elem(), rnd, depth+1, maxStr)
		}
	case reflect.Struct:
		for i := 0; i < v.NumField(); i++ {
			f := v.Field(i)
			if !f.CanSet() {
				continue
			}
			randomise(f, rnd, depth+1, maxStr)
		}
	case reflect.String:
		if v.Type() == plainStringT && v.CanSet() && v.Len() > 0 {
			n := 1 + rnd.Intn(40)
			switch rnd.Intn(12) {
			case 0:
				n = 1 + rnd.Intn(maxStr)
			case 1:
				n = 1 + rnd.Intn(300)
			}
			v.SetString(randomText(rnd, n, rnd.Intn(2) == 0))
		}
	case reflect.Slice:
		if v.Type() == plainBytesT {
			if v.CanSet() && v.Len() > 0 {
				n := 1 + rnd.Intn(64)
				if rnd.Intn(10) == 0 {
					n = 1 + rnd.Intn(60000) // ([short bytes] fields hold at most 65535)
				}
				b := make([]byte, n)
				if rnd.Intn(2) == 0 {
					rnd.Read(b)
				}
				v.SetBytes(b)
			}
			return
		}
		for i := 0; i < v.Len(); i++ {
			randomise(v.Index(i), rnd, depth+1, maxStr)
		}
	}
}

func frameDigest(f *frame.Frame) string {
	h := sha1.Sum([]byte(canonAbs(projectFrame(f))))
	return hex.EncodeToString(h[:8])
}

func frameRand(args []string) int {
	fs := flag.NewFlagSet("framerand", flag.ExitOnError)
	vecPath := fs.String("vec", "", "wire vectors: the pool of concrete frames")
	out := fs.String("out", "", "trace for FrameStreamTrace.tla (ndjson)")
	count := fs.Int("n", 600, "streams")
	seedv := fs.Int64("seed", 1, "seed")
	_ = fs.Parse(args)
	rnd := rand.New(rand.NewSource(*seedv))
	var pool []*frame.Frame
	seen := map[string]bool{}
	if err := readNDJSON(*vecPath, func(line []byte) error {
		var v wireVec
		if err := json.Unmarshal(line, &v); err != nil {
			return err
		}
		if v.DecodeOnly {
			return nil
		}
		var abs interface{}
		_ = json.Unmarshal(v.Frame, &abs)
		am := abs.(map[string]interface{})
		key := fmt.Sprintf("%v/%v/%v/%d", am["v"], am["msg"].(map[string]interface{})["kind"], am["flags"], len(line)%3)
		if seen[key] {
			return nil
		}
		seen[key] = true
		f, err := buildFrame(abs)
		if err != nil {
			return err
		}
		pool = append(pool, f)
		return nil
	}); err != nil || len(pool) == 0 {
		fmt.Fprintln(os.Stderr, "pool:", err)
		return 2
	}
	of, err := os.Create(*out)
	if err != nil {
		fmt.Fprintln(os.Stderr, err)
		return 2
	}
	defer of.Close()
	enc := json.NewEncoder(of)
	rep := &Report{}
	comps := []primitive.Compression{primitive.CompressionNone, primitive.CompressionLz4, primitive.CompressionSnappy}
	distinct := map[string]bool{}
	skipped := 0
	for t := 1; t <= *count; t++ {
		comp := comps[rnd.Intn(len(comps))]
		codec := frame.NewRawCodecWithCompression(client.NewBodyCompressor(comp))
		stream := &bytes.Buffer{}
		_ = enc.Encode(map[string]interface{}{"a": "reset", "trace": t})
		k := 1 + rnd.Intn(5)
		written := 0
		for i := 0; i < k; i++ {
			f := pool[rnd.Intn(len(pool))].DeepCopy()
			randomise(reflect.ValueOf(f.Body.Message), rnd, 0, 65535)
			if comp != primitive.CompressionNone && f.Header.Version.SupportsCompression(comp) && rnd.Intn(4) > 0 {
				f.SetCompress(true)
			}
			// the randomised frame must itself be one the projection is stable on (a frame that does not survive
			// project(build) is outside the version-valid domain the vectors were drawn from)
			want := frameDigest(f)
			before := stream.Len()
			var werr error
			switch rnd.Intn(3) {
			case 0:
				werr = codec.EncodeFrame(f, stream)
			case 1:
				var rf *frame.RawFrame
				if rf, werr = codec.ConvertToRawFrame(f); werr == nil {
					werr = codec.EncodeRawFrame(rf, stream)
				}
			case 2:
				body := &bytes.Buffer{}
				if werr = codec.EncodeBody(f.Header, f.Body, body); werr == nil {
					f.Header.BodyLength = int32(body.Len())
					if werr = codec.EncodeHeader(f.Header, stream); werr == nil {
						_, werr = stream.Write(body.Bytes())
					}
				}
			}
			if werr != nil {
				// a randomised frame the encoder refuses is not part of the stream (e.g. a [string] grown past 65535 bytes)
				// the contents stay within what the notations can carry ([string] <= 65535, byte fields <= 60000), so a
				// refusal is a version-valid frame the encoder cannot encode
				stream.Truncate(before)
				skipped++
				_ = enc.Encode(map[string]interface{}{"a": "refused", "d": fmt.Sprintf("%v %v: %v", f.Header.Version, f.Header.OpCode, werr)})
				continue
			}
			written++
			_ = enc.Encode(map[string]interface{}{"a": "write", "d": want, "len": stream.Len() - before})
			distinct[fmt.Sprintf("%v/%v/%v", f.Header.Version, f.Header.OpCode, comp)] = true
		}
		data := append([]byte(nil), stream.Bytes()...)
		br := bytes.NewReader(data)
		var src io.Reader = br
		if rnd.Intn(2) == 0 {
			src = nonSeekReader{br}
		}
		consumed := func() int { return len(data) - br.Len() }
		for i := 0; i < written; i++ {
			rep.Evaluations++
			var got *frame.Frame
			var rerr error
			full := true
			func() {
				defer func() {
					if x := recover(); x != nil {
						rerr = fmt.Errorf("panic: %v", x)
					}
				}()
				switch rnd.Intn(5) {
				case 0:
					got, rerr = codec.DecodeFrame(src)
				case 1:
					var rf *frame.RawFrame
					if rf, rerr = codec.DecodeRawFrame(src); rerr == nil {
						got, rerr = codec.ConvertFromRawFrame(rf)
					}
				case 2:
					var h *frame.Header
					if h, rerr = codec.DecodeHeader(src); rerr == nil {
						var b *frame.Body
						if b, rerr = codec.DecodeBody(h, src); rerr == nil {
							got = &frame.Frame{Header: h, Body: b}
						}
					}
				case 3:
					var h *frame.Header
					if h, rerr = codec.DecodeHeader(src); rerr == nil {
						var raw []byte
						if raw, rerr = codec.DecodeRawBody(h, src); rerr == nil {
							var b *frame.Body
							if b, rerr = codec.DecodeBody(h, bytes.NewReader(raw)); rerr == nil {
								got = &frame.Frame{Header: h, Body: b}
							}
						}
					}
				case 4:
					var h *frame.Header
					if h, rerr = codec.DecodeHeader(src); rerr == nil {
						rerr = codec.DiscardBody(h, src)
						full = false
					}
				}
			}()
			if rerr != nil {
				// a read error is reported as a frame that differs (the stream was written by the codec itself)
				_ = enc.Encode(map[string]interface{}{"a": "read", "d": "error: " + rerr.Error(), "pos": consumed(), "full": true})
				break
			}
			d := ""
			if full {
				d = frameDigest(got)
			}
			_ = enc.Encode(map[string]interface{}{"a": "read", "d": d, "pos": consumed(), "full": full})
		}
		rest, _ := io.ReadAll(src)
		_ = enc.Encode(map[string]interface{}{"a": "end", "left": len(rest)})
	}
	rep.Distinct = len(distinct)
	rep.Extra = map[string]interface{}{"streams": *count, "frame_pool": len(pool), "refused_by_encoder": skipped}
	return rep.print()
}

package main

import (
	"bufio"
	"bytes"
	"encoding/json"
	"flag"
	"fmt"
	"io"
	"math/rand"
	"os"
	"strings"
	"sync"
	"testing/iotest"

	"github.com/datastax/go-cassandra-native-protocol/client"
	"github.com/datastax/go-cassandra-native-protocol/frame"
	"github.com/datastax/go-cassandra-native-protocol/message"
	"github.com/datastax/go-cassandra-native-protocol/primitive"
)

// Replay of specs/FrameStream.tla behaviours on real byte streams (binding R for C03 / C05): frames written
// back-to-back through the alternative write paths, read back through the alternative read paths from several kinds of
// byte source; after every step the number of bytes the reader has consumed must be exactly the frame boundary the
// specification is at, and every frame obtained must equal the frame written.

func init() { subcommands["framestream"] = frameStream }

type fsStep struct {
	A string `json:"a"`
	F int    `json:"f"`
	P string `json:"p"`
}

type fsRun struct {
	Steps []fsStep `json:"steps"`
}

// countingReader counts the bytes handed out by the bottom source.
type countingReader struct {
	r io.Reader
	n int
}

func (c *countingReader) Read(p []byte) (int, error) {
	k, err := c.r.Read(p)
	c.n += k
	return k, err
}

// chunkReader returns data in random small chunks (as a socket would).
type chunkReader struct {
	r   io.Reader
	rnd *rand.Rand
}

func (c *chunkReader) Read(p []byte) (int, error) {
	if len(p) == 0 {
		return 0, nil
	}
	n := 1 + c.rnd.Intn(7)
	if n > len(p) {
		n = len(p)
	}
	return c.r.Read(p[:n])
}

var fsSources = []string{"buffer", "reader", "bufio", "onebyte", "chunks", "nonseek"}
var fsComps = []primitive.Compression{primitive.CompressionNone, primitive.CompressionLz4, primitive.CompressionSnappy}

func frameStream(args []string) int {
	fs := flag.NewFlagSet("framestream", flag.ExitOnError)
	runsPath := fs.String("runs", "", "behaviours of FrameStream.tla (ndjson)")
	vecPath := fs.String("vec", "", "wire vectors: the pool of concrete frames")
	seedv := fs.Int64("seed", 1, "seed")
	interleaved := fs.Bool("interleaved", false, "the behaviours interleave writes and reads (appendable source only)")
	_ = fs.Parse(args)
	// pool of concrete frames, one per (version, kind, flags) class, taken from the TLC vectors
	type poolFrame struct {
		abs  interface{}
		want string
		f    *frame.Frame
	}
	var pool []poolFrame
	seen := map[string]bool{}
	if err := readNDJSON(*vecPath, func(line []byte) error {
		var v wireVec
		if err := json.Unmarshal(line, &v); err != nil {
			return err
		}
		if v.DecodeOnly {
			return nil
		}
		var abs interface{}
		_ = json.Unmarshal(v.Frame, &abs)
		am := abs.(map[string]interface{})
		key := fmt.Sprintf("%v/%v/%v", am["v"], am["msg"].(map[string]interface{})["kind"], am["flags"])
		if seen[key] {
			return nil
		}
		seen[key] = true
		f, err := buildFrame(abs)
		if err != nil {
			return err
		}
		pool = append(pool, poolFrame{abs, canonAbs(abs), f})
		return nil
	}); err != nil || len(pool) == 0 {
		fmt.Fprintln(os.Stderr, "pool:", err)
		return 2
	}
	var runs []fsRun
	if err := readNDJSON(*runsPath, func(line []byte) error {
		var r fsRun
		if err := json.Unmarshal(line, &r); err != nil {
			return err
		}
		runs = append(runs, r)
		return nil
	}); err != nil || len(runs) == 0 {
		fmt.Fprintln(os.Stderr, "runs:", err)
		return 2
	}
	rep := &Report{}
	var mu sync.Mutex
	distinct := map[string]bool{}
	var wg sync.WaitGroup
	work := make(chan int, 64)
	for w := 0; w < 16; w++ {
		wg.Add(1)
		go func() {
			defer wg.Done()
			for ri := range work {
				run := runs[ri]
				comp := fsComps[ri%len(fsComps)]
				srcKind := fsSources[(ri/len(fsComps))%len(fsSources)]
				if *interleaved {
					srcKind = "buffer"
				}
				rnd := rand.New(rand.NewSource(*seedv*7919 + int64(ri)))
				pick := func(f int) poolFrame {
					pf := pool[(ri*31+f*17+int(*seedv))%len(pool)]
					if f == 1 && ri%7 == 3 {
						// size class "big": identifier 1 stands for a frame whose body exceeds the 1 MiB blocks readers
						// and compressors work in (and is not a power of two): a QUERY of the same version
						text := strings.Repeat("SELECT something_long FROM a_table; ", 30000+ri%977) + strings.Repeat("x", ri%31)
						big := frame.NewFrame(pf.f.Header.Version, int16(1+ri%100), &message.Query{Query: text, Options: &message.QueryOptions{Consistency: primitive.ConsistencyLevelOne}})
						abs := projectFrame(big)
						var a interface{}
						_ = json.Unmarshal([]byte(canonAbs(abs)), &a)
						return poolFrame{a, canonAbs(abs), big}
					}
					return pf
				}
				rp := map[string]interface{}{"check": "framestream", "run": run.Steps, "compression": comp, "source": srcKind, "seed": *seedv, "index": ri}
				var viol []Violation
				bad := func(prop, sig, detail string) {
					viol = append(viol, Violation{prop + "|stream|" + sig, fmt.Sprintf("%s (source %s, compression %s, steps %v)", detail, srcKind, comp, run.Steps), rp})
				}
				func() {
					defer func() {
						if r := recover(); r != nil {
							bad("C03", "panic", fmt.Sprint(r))
						}
					}()
					codec := frame.NewRawCodecWithCompression(client.NewBodyCompressor(comp))
					stream := &bytes.Buffer{}
					var lens []int     // encoded length of each frame written
					var wants []string // expected abstract frame
					var hls []int
					var src io.Reader
					var bottom *countingReader
					var buffered func() int
					mkSource := func() {
						data := stream.Bytes()
						switch srcKind {
						case "buffer":
							src = stream // the *bytes.Buffer itself: codecs may special-case concrete reader types
						case "reader":
							br := bytes.NewReader(data)
							src = br
							buffered = func() int { return -(len(data) - br.Len()) } // position read directly
						case "bufio":
							bottom = &countingReader{r: bytes.NewReader(data)}
							b := bufio.NewReaderSize(bottom, 16)
							src = b
							buffered = b.Buffered
						case "onebyte":
							bottom = &countingReader{r: bytes.NewReader(data)}
							src = iotest.OneByteReader(bottom)
						case "chunks":
							bottom = &countingReader{r: bytes.NewReader(data)}
							src = &chunkReader{bottom, rnd}
						case "nonseek":
							bottom = &countingReader{r: bytes.NewReader(data)}
							src = nonSeekReader{bottom}
						}
					}
					written := 0
					consumed := func() int {
						if srcKind == "reader" {
							return -buffered()
						}
						if srcKind == "buffer" {
							return written - stream.Len()
						}
						n := bottom.n
						if buffered != nil {
							n -= buffered()
						}
						return n
					}
					if *interleaved {
						mkSource()
					}
					expectPos := 0
					nread := 0
					var hdr *frame.Header
					for si, st := range run.Steps {
						switch st.A {
						case "write":
							pf := pick(st.F)
							f := pf.f.DeepCopy()
							if comp != primitive.CompressionNone && f.Header.Version.SupportsCompression(comp) {
								f.SetCompress(true)
							}
							before := stream.Len()
							var err error
							switch st.P {
							case "frame":
								err = codec.EncodeFrame(f, stream)
							case "raw":
								var rf *frame.RawFrame
								if rf, err = codec.ConvertToRawFrame(f); err == nil {
									err = codec.EncodeRawFrame(rf, stream)
								}
							case "hdr+body":
								body := &bytes.Buffer{}
								if err = codec.EncodeBody(f.Header, f.Body, body); err == nil {
									f.Header.BodyLength = int32(body.Len())
									if err = codec.EncodeHeader(f.Header, stream); err == nil {
										_, err = stream.Write(body.Bytes())
									}
								}
							}
							if err != nil {
								bad("C05", "write-error|"+st.P, fmt.Sprintf("step %d: %v", si, err))
								return
							}
							lens = append(lens, stream.Len()-before)
							written += stream.Len() - before
							want := pf.want
							if f.Header.Flags.Contains(primitive.HeaderFlagCompressed) {
								var a interface{}
								_ = json.Unmarshal([]byte(canonAbs(pf.abs)), &a)
								a.(map[string]interface{})["flags"] = append(a.(map[string]interface{})["flags"].([]interface{}), "C")
								want = canonAbs(a)
							}
							wants = append(wants, want)
							hls = append(hls, f.Header.Version.FrameHeaderLengthInBytes())
						case "read", "header", "bodyop":
							if src == nil {
								mkSource()
							}
							var got *frame.Frame
							var err error
							switch {
							case st.A == "read" && st.P == "frame":
								got, err = codec.DecodeFrame(src)
								expectPos += lens[nread]
							case st.A == "read" && st.P == "rawframe":
								var rf *frame.RawFrame
								if rf, err = codec.DecodeRawFrame(src); err == nil {
									if len(rf.Body) != lens[nread]-hls[nread] {
										bad("C05", "rawframe-body-length", fmt.Sprintf("step %d: raw body of %d bytes, %d written", si, len(rf.Body), lens[nread]-hls[nread]))
									}
									got, err = codec.ConvertFromRawFrame(rf)
								}
								expectPos += lens[nread]
							case st.A == "header":
								hdr, err = codec.DecodeHeader(src)
								expectPos += hls[nread]
								if err == nil && int(hdr.BodyLength) != lens[nread]-hls[nread] {
									bad("C03", "header-bodylength", fmt.Sprintf("step %d: header declares %d body bytes, %d were written", si, hdr.BodyLength, lens[nread]-hls[nread]))
								}
							case st.A == "bodyop" && st.P == "body":
								var b *frame.Body
								if b, err = codec.DecodeBody(hdr, src); err == nil {
									got = &frame.Frame{Header: hdr, Body: b}
								}
								expectPos += lens[nread] - hls[nread]
							case st.A == "bodyop" && st.P == "rawbody":
								var b []byte
								if b, err = codec.DecodeRawBody(hdr, src); err == nil {
									if len(b) != lens[nread]-hls[nread] {
										bad("C05", "rawbody-length", fmt.Sprintf("step %d: %d bytes, %d written", si, len(b), lens[nread]-hls[nread]))
									}
									var bd *frame.Body
									if bd, err = codec.DecodeBody(hdr, bytes.NewReader(b)); err == nil {
										got = &frame.Frame{Header: hdr, Body: bd}
									}
								}
								expectPos += lens[nread] - hls[nread]
							case st.A == "bodyop" && st.P == "discard":
								err = codec.DiscardBody(hdr, src)
								expectPos += lens[nread] - hls[nread]
							}
							if err != nil {
								bad("C03", "read-error|"+st.A+"-"+st.P, fmt.Sprintf("step %d (frame #%d of the stream): %v", si, nread+1, err))
								return
							}
							if got != nil {
								if g := canonAbs(projectFrame(got)); g != wants[nread] {
									bad("C03", "read-value|"+st.A+"-"+st.P, fmt.Sprintf("step %d: frame #%d of the stream decoded differently: %s", si, nread+1, firstDiff(g, wants[nread])))
									return
								}
							}
							if c := consumed(); c != expectPos {
								bad("C03", "position|"+st.A+"-"+st.P, fmt.Sprintf("step %d: reader has consumed %d bytes, the frame boundary is at %d", si, c, expectPos))
								return
							}
							if st.A != "header" {
								nread++
							}
						}
					}
					// nothing left over
					if src != nil {
						rest, _ := io.ReadAll(src)
						if len(rest) != 0 {
							bad("C03", "leftover", fmt.Sprintf("%d bytes left after the last frame", len(rest)))
						}
					}
				}()
				mu.Lock()
				rep.Evaluations++
				for _, x := range viol {
					rep.violate(x.Sig, x.Detail, x.Replay)
				}
				if len(viol) == 0 {
					distinct[fmt.Sprintf("%s/%s/%d", srcKind, comp, ri)] = true
				}
				mu.Unlock()
			}
		}()
	}
	for i := range runs {
		work <- i
	}
	close(work)
	wg.Wait()
	rep.Distinct = len(distinct)
	rep.Extra = map[string]interface{}{"frame_pool": len(pool), "sources": fsSources}
	for i := 0; i < len(runs) && len(rep.Samples) < 3; i += len(runs)/3 + 1 {
		rep.Samples = append(rep.Samples, runs[i])
	}
	return rep.print()
}

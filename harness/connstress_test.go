package main

import (
	"context"
	"encoding/json"
	"fmt"
	"io"
	"net"
	"os"
	"runtime"
	"strconv"
	"strings"
	"sync"
	"sync/atomic"
	"testing"
	"time"

	"github.com/datastax/go-cassandra-native-protocol/client"
	"github.com/datastax/go-cassandra-native-protocol/frame"
	"github.com/datastax/go-cassandra-native-protocol/message"
	"github.com/datastax/go-cassandra-native-protocol/primitive"
)

// Free-running stress for the windows of C16 that are narrower than a gate (a field read and the channel operation that
// uses it): senders, event traffic and receivers run unsynchronised against Close / context cancel / loss of the peer,
// many times, on real connections over net.Pipe. What is checked is what C16 says must hold whatever the interleaving:
// nothing panics (a panic in a library goroutine kills this process: the driver sees the crash), every call returns,
// accepted requests end up closed with an error (or answered), later sends are refused, no goroutine survives.
// The schedules are the Go scheduler's, not TLC's: this is the complement of the forced-schedule replay
// (conc.go), bounded by time rather than by a model.

type stressEv struct {
	A     string `json:"a"`
	Id    int64  `json:"id"`
	Trace int    `json:"trace,omitempty"`
}

// stressTracer collects the trace points of one connection at a time (the iterations are sequential); the hook runs
// inside the critical section that makes the change, so the order of the list is the order of the changes.
type stressTracer struct {
	mu     sync.Mutex
	on     bool
	events []stressEv
	out    *os.File
	n      int
	quiet  bool // the iteration waited for everything to settle: the trace ends with a "quiet" line
	done   int // "close.done" points seen since begin: the Close that won has returned
}

func (st *stressTracer) install() {
	if path := os.Getenv("VERIF_TRACE_OUT"); path != "" {
		f, err := os.OpenFile(path, os.O_CREATE|os.O_WRONLY|os.O_APPEND, 0o644)
		if err == nil {
			st.out = f
		}
	}
	client.VerifHook = func(point string, a, b int64) {
		st.mu.Lock()
		if st.on {
			st.events = append(st.events, stressEv{A: point, Id: a})
		}
		if strings.HasSuffix(point, "close.done") {
			st.done++
		}
		st.mu.Unlock()
	}
}

// begin starts recording for every other iteration (the hook's own lock perturbs the schedule a little)
func (st *stressTracer) begin(it int) {
	st.mu.Lock()
	st.on = st.out != nil && it%2 == 0
	st.events = st.events[:0]
	st.done = 0
	st.quiet = false
	st.mu.Unlock()
}

// closeCompleted waits until the Close call that won the compare-and-swap (whoever made it: the test, the context
// watcher, a loop that lost the peer) has returned; false if it has not after 20 s.
func (st *stressTracer) closeCompleted() bool {
	deadline := time.Now().Add(20 * time.Second)
	for {
		st.mu.Lock()
		d := st.done
		st.mu.Unlock()
		if d > 0 {
			return true
		}
		if time.Now().After(deadline) {
			return false
		}
		time.Sleep(100 * time.Microsecond)
	}
}

func (st *stressTracer) end() {
	st.mu.Lock()
	defer st.mu.Unlock()
	if !st.on || st.out == nil {
		return
	}
	if st.quiet {
		st.events = append(st.events, stressEv{A: "quiet"})
	}
	st.on = false
	st.n++
	enc := json.NewEncoder(st.out)
	_ = enc.Encode(stressEv{A: "reset", Trace: st.n})
	for _, e := range st.events {
		_ = enc.Encode(e)
	}
}

type stressReport struct {
	Iterations int            `json:"iterations"`
	Kinds      map[string]int `json:"kinds"`
	Sends      int64          `json:"sends"`
	Accepted   int64          `json:"accepted"`
	Events     int64          `json:"events"`
	Problems   []string       `json:"problems"`
	Traces     int            `json:"traces"`
}

func TestConnCloseStress(t *testing.T) {
	n, _ := strconv.Atoi(os.Getenv("VERIF_STRESS"))
	if n == 0 {
		t.Skip("VERIF_STRESS not set")
	}
	seed, _ := strconv.Atoi(os.Getenv("VERIF_SEED"))
	rep := stressReport{Kinds: map[string]int{}}
	problem := func(s string) {
		if len(rep.Problems) < 20 {
			rep.Problems = append(rep.Problems, s)
		}
	}
	var pmu sync.Mutex
	kinds := []string{"close", "cancel", "drop-peer", "close-twice"}
	base := runtime.NumGoroutine()
	tracer := &stressTracer{}
	tracer.install()
	defer func() { client.VerifHook = nil }()
	for it := 0; it < n; it++ {
		kind := kinds[(it+seed)%len(kinds)]
		rep.Kinds[kind]++
		tracer.begin(it)
		func() {
			defer tracer.end()
			ctx, cancel := context.WithCancel(context.Background())
			defer cancel()
			c0, s0 := net.Pipe()
			maxInFlight := 1 + (it+seed)%8
			// every third connection has a read timeout of about a millisecond: the requests' timers fire while it is closed
			readTimeout := time.Hour
			if it%3 == 1 {
				readTimeout = time.Duration(200+(it*37+seed)%1500) * time.Microsecond
			}
			cl, err := client.VerifNewClientConnection(c0, ctx, nil, primitive.CompressionNone, maxInFlight, 2, readTimeout, nil)
			if err != nil {
				t.Fatal(err)
			}
			// the peer: swallows requests and pushes events (legacy framing, v4)
			var peerWG sync.WaitGroup
			peerWG.Add(2)
			// every other connection: the peer answers each request (responses race the close: delivery, release of the
			// stream id, completion of the request all meet the teardown); otherwise it swallows them
			answer := it%2 == 1
			var wmu sync.Mutex // the peer's two writers share the pipe
			go func() {
				defer peerWG.Done()
				if !answer {
					_, _ = io.Copy(io.Discard, s0)
					return
				}
				codec := frame.NewCodec()
				for {
					f, err := codec.DecodeFrame(s0)
					if err != nil {
						_, _ = io.Copy(io.Discard, s0)
						return
					}
					rsp := frame.NewFrame(primitive.ProtocolVersion4, f.Header.StreamId, &message.Supported{Options: map[string][]string{"CQL_VERSION": {"3.0.0"}}})
					wmu.Lock()
					err = codec.EncodeFrame(rsp, s0)
					wmu.Unlock()
					if err != nil {
						_, _ = io.Copy(io.Discard, s0)
						return
					}
				}
			}()
			stopEvents := make(chan struct{})
			go func() {
				defer peerWG.Done()
				codec := frame.NewCodec()
				ev := frame.NewFrame(primitive.ProtocolVersion4, -1, &message.StatusChangeEvent{ChangeType: primitive.StatusChangeTypeUp, Address: &primitive.Inet{Addr: net.IPv4(127, 0, 0, 1), Port: 9042}})
				for {
					select {
					case <-stopEvents:
						return
					default:
					}
					wmu.Lock()
					err := codec.EncodeFrame(ev, s0)
					wmu.Unlock()
					if err != nil {
						return
					}
					atomic.AddInt64(&rep.Events, 1)
				}
			}()
			var wg sync.WaitGroup
			var accepted []client.InFlightRequest
			var amu sync.Mutex
			stop := make(chan struct{})
			for g := 0; g < 3; g++ {
				wg.Add(1)
				go func(g int) {
					defer wg.Done()
					defer func() {
						if r := recover(); r != nil {
							pmu.Lock()
							problem(fmt.Sprintf("iteration %d (%s): Send panicked: %v", it, kind, r))
							pmu.Unlock()
						}
					}()
					for i := 0; ; i++ {
						select {
						case <-stop:
							return
						default:
						}
						f := frame.NewFrame(primitive.ProtocolVersion4, 0, &message.Options{})
						r, err := cl.Send(f)
						atomic.AddInt64(&rep.Sends, 1)
						if err == nil {
							atomic.AddInt64(&rep.Accepted, 1)
							amu.Lock()
							accepted = append(accepted, r)
							amu.Unlock()
						} else if cl.IsClosed() {
							return
						}
					}
				}(g)
			}
			// an event consumer
			wg.Add(1)
			go func() {
				defer wg.Done()
				defer func() {
					if r := recover(); r != nil {
						pmu.Lock()
						problem(fmt.Sprintf("iteration %d (%s): ReceiveEvent panicked: %v", it, kind, r))
						pmu.Unlock()
					}
				}()
				for {
					select {
					case <-stop:
						return
					default:
					}
					if ch := cl.EventChannel(); ch != nil {
						select {
						case <-ch:
						default:
						}
					}
					runtime.Gosched()
				}
			}()
			// let it run for a moment of varying length, then the fault
			for i := 0; i < (it*7+seed)%200; i++ {
				runtime.Gosched()
			}
			done := make(chan struct{})
			go func() {
				switch kind {
				case "close":
					_ = cl.Close()
				case "close-twice":
					go func() { _ = cl.Close() }()
					_ = cl.Close()
				case "cancel":
					cancel()
				case "drop-peer":
					_ = s0.Close()
				}
				close(done)
			}()
			select {
			case <-done:
			case <-time.After(20 * time.Second):
				pmu.Lock()
				problem(fmt.Sprintf("iteration %d (%s): the fault call did not return", it, kind))
				pmu.Unlock()
			}
			// the connection must reach the closed state by itself
			deadline := time.Now().Add(20 * time.Second)
			for !cl.IsClosed() && time.Now().Before(deadline) {
				time.Sleep(time.Millisecond)
			}
			if !cl.IsClosed() {
				pmu.Lock()
				problem(fmt.Sprintf("iteration %d (%s): connection not closed 20 s after the fault", it, kind))
				pmu.Unlock()
			}
			close(stop)
			close(stopEvents)
			_ = cl.Close()
			if !tracer.closeCompleted() {
				pmu.Lock()
				problem(fmt.Sprintf("iteration %d (%s): the Close that closed the connection has not returned after 20 s", it, kind))
				pmu.Unlock()
			}
			_ = s0.Close()
			_ = c0.Close()
			wg.Wait()
			peerWG.Wait()
			if _, err := cl.Send(frame.NewFrame(primitive.ProtocolVersion4, 0, &message.Options{})); err == nil {
				pmu.Lock()
				problem(fmt.Sprintf("iteration %d (%s): Send accepted on a closed connection", it, kind))
				pmu.Unlock()
			}
			tracer.mu.Lock()
			tracer.quiet = true
			tracer.mu.Unlock()
			// every accepted request completes (with an error, unless the peer answers)
			deadline = time.Now().Add(5 * time.Second)
			for _, r := range accepted {
				for !r.IsDone() && time.Now().Before(deadline) {
					time.Sleep(time.Millisecond)
				}
				if !r.IsDone() || (r.Err() == nil && !answer) {
					pmu.Lock()
					problem(fmt.Sprintf("iteration %d (%s): an accepted request (stream %d) is done=%v err=%v after the connection closed", it, kind, r.StreamId(), r.IsDone(), r.Err()))
					pmu.Unlock()
					break
				}
			}
		}()
		rep.Iterations++
	}
	// goroutines
	deadline := time.Now().Add(10 * time.Second)
	for runtime.NumGoroutine() > base && time.Now().Before(deadline) {
		time.Sleep(10 * time.Millisecond)
	}
	if left := runtime.NumGoroutine() - base; left > 0 {
		buf := make([]byte, 1<<16)
		buf = buf[:runtime.Stack(buf, true)]
		lib := 0
		for _, g := range strings.Split(string(buf), "\n\n") {
			if strings.Contains(g, "go-cassandra-native-protocol/client.") {
				lib++
			}
		}
		if lib > 0 {
			problem(fmt.Sprintf("%d goroutine(s) of the library survive %d closed connections", lib, rep.Iterations))
		}
	}
	rep.Traces = tracer.n
	b, _ := json.Marshal(rep)
	fmt.Println("STRESS " + string(b))
}

// TestServerConnCloseStress: the same for a server connection: a peer pushing requests, the application sending
// responses and receiving requests, against Close / cancel / loss of the peer.
func TestServerConnCloseStress(t *testing.T) {
	n, _ := strconv.Atoi(os.Getenv("VERIF_STRESS"))
	if n == 0 {
		t.Skip("VERIF_STRESS not set")
	}
	seed, _ := strconv.Atoi(os.Getenv("VERIF_SEED"))
	rep := stressReport{Kinds: map[string]int{}}
	var pmu sync.Mutex
	problem := func(s string) {
		pmu.Lock()
		if len(rep.Problems) < 20 {
			rep.Problems = append(rep.Problems, s)
		}
		pmu.Unlock()
	}
	kinds := []string{"close", "cancel", "drop-peer", "close-twice"}
	base := runtime.NumGoroutine()
	tracer := &stressTracer{}
	tracer.install()
	defer func() { client.VerifHook = nil }()
	for it := 0; it < n; it++ {
		kind := kinds[(it+seed)%len(kinds)]
		rep.Kinds[kind]++
		tracer.begin(it)
		func() {
			defer tracer.end()
			ctx, cancel := context.WithCancel(context.Background())
			defer cancel()
			c0, s0 := net.Pipe()
			var handlers []client.RequestHandler
			if it%2 == 0 {
				handlers = []client.RequestHandler{func(request *frame.Frame, conn *client.CqlServerConnection, ctx client.RequestHandlerContext) *frame.Frame {
					return frame.NewFrame(request.Header.Version, request.Header.StreamId, &message.Supported{Options: map[string][]string{"A": {"b"}}})
				}}
			}
			sv, err := client.VerifNewServerConnection(s0, ctx, nil, 1+(it+seed)%8, time.Hour, handlers, nil, func(*client.CqlServerConnection) {})
			if err != nil {
				t.Fatal(err)
			}
			var peerWG sync.WaitGroup
			peerWG.Add(2)
			go func() { defer peerWG.Done(); _, _ = io.Copy(io.Discard, c0) }()
			stopPeer := make(chan struct{})
			go func() {
				defer peerWG.Done()
				codec := frame.NewCodec()
				for i := 0; ; i++ {
					select {
					case <-stopPeer:
						return
					default:
					}
					if err := codec.EncodeFrame(frame.NewFrame(primitive.ProtocolVersion4, int16(1+i%100), &message.Options{}), c0); err != nil {
						return
					}
					atomic.AddInt64(&rep.Events, 1)
				}
			}()
			var wg sync.WaitGroup
			stop := make(chan struct{})
			for g := 0; g < 2; g++ {
				wg.Add(1)
				go func() { // the application answering
					defer wg.Done()
					defer func() {
						if r := recover(); r != nil {
							problem(fmt.Sprintf("iteration %d (%s): server Send panicked: %v", it, kind, r))
						}
					}()
					for {
						select {
						case <-stop:
							return
						default:
						}
						err := sv.Send(frame.NewFrame(primitive.ProtocolVersion4, 1, &message.Ready{}))
						atomic.AddInt64(&rep.Sends, 1)
						if err == nil {
							atomic.AddInt64(&rep.Accepted, 1)
						} else if sv.IsClosed() {
							return
						}
						runtime.Gosched()
					}
				}()
			}
			recvReturned := make(chan struct{})
			go func() { // the application receiving: must return when the connection goes away
				defer close(recvReturned)
				defer func() {
					if r := recover(); r != nil {
						problem(fmt.Sprintf("iteration %d (%s): server Receive panicked: %v", it, kind, r))
					}
				}()
				for {
					if _, err := sv.Receive(); err != nil {
						return
					}
				}
			}()
			for i := 0; i < (it*7+seed)%200; i++ {
				runtime.Gosched()
			}
			done := make(chan struct{})
			go func() {
				switch kind {
				case "close":
					_ = sv.Close()
				case "close-twice":
					go func() { _ = sv.Close() }()
					_ = sv.Close()
				case "cancel":
					cancel()
				case "drop-peer":
					_ = c0.Close()
				}
				close(done)
			}()
			select {
			case <-done:
			case <-time.After(20 * time.Second):
				problem(fmt.Sprintf("iteration %d (%s): the fault call did not return", it, kind))
			}
			deadline := time.Now().Add(20 * time.Second)
			for !sv.IsClosed() && time.Now().Before(deadline) {
				time.Sleep(time.Millisecond)
			}
			if !sv.IsClosed() {
				problem(fmt.Sprintf("iteration %d (%s): server connection not closed 20 s after the fault", it, kind))
			}
			select {
			case <-recvReturned:
			case <-time.After(20 * time.Second):
				problem(fmt.Sprintf("iteration %d (%s): a goroutine blocked in Receive did not return after the connection closed", it, kind))
			}
			close(stop)
			close(stopPeer)
			_ = sv.Close()
			if !tracer.closeCompleted() {
				problem(fmt.Sprintf("iteration %d (%s): the Close that closed the server connection has not returned after 20 s", it, kind))
			}
			_ = s0.Close()
			_ = c0.Close()
			wg.Wait()
			peerWG.Wait()
			if err := sv.Send(frame.NewFrame(primitive.ProtocolVersion4, 1, &message.Ready{})); err == nil {
				problem(fmt.Sprintf("iteration %d (%s): Send accepted on a closed server connection", it, kind))
			}
		}()
		rep.Iterations++
	}
	deadline := time.Now().Add(10 * time.Second)
	for runtime.NumGoroutine() > base && time.Now().Before(deadline) {
		time.Sleep(10 * time.Millisecond)
	}
	if runtime.NumGoroutine() > base {
		buf := make([]byte, 1<<16)
		buf = buf[:runtime.Stack(buf, true)]
		lib := 0
		for _, g := range strings.Split(string(buf), "\n\n") {
			if strings.Contains(g, "go-cassandra-native-protocol/client.") {
				lib++
			}
		}
		if lib > 0 {
			problem(fmt.Sprintf("%d goroutine(s) of the library survive %d closed server connections", lib, rep.Iterations))
		}
	}
	rep.Traces = tracer.n
	b, _ := json.Marshal(rep)
	fmt.Println("STRESS " + string(b))
}

// TestServerLifeStress: a CqlServer with many accepted connections is closed at the moment its peers drop (and, in
// other rounds, a moment before or after): Close must return, every connection must end up closed.
func TestServerLifeStress(t *testing.T) {
	n, _ := strconv.Atoi(os.Getenv("VERIF_STRESS"))
	if n == 0 {
		t.Skip("VERIF_STRESS not set")
	}
	seed, _ := strconv.Atoi(os.Getenv("VERIF_SEED"))
	var problems []string
	conns := 0
	for round := 0; round < n && len(problems) < 10; round++ {
		ctx, cancel := context.WithCancel(context.Background())
		srv := client.NewCqlServer("127.0.0.1:0", nil)
		srv.MaxConnections = 64
		srv.AcceptTimeout = 2 * time.Second
		if err := srv.Start(ctx); err != nil {
			t.Fatal(err)
		}
		k := 8 + (round+seed)%32
		var cls []*client.CqlClientConnection
		var svs []*client.CqlServerConnection
		for i := 0; i < k; i++ {
			cc := client.NewCqlClient(srv.VerifListenAddr(), nil)
			c, err := cc.Connect(ctx)
			if err != nil {
				problems = append(problems, fmt.Sprintf("round %d: connect: %v", round, err))
				break
			}
			cls = append(cls, c)
			if sc, err := srv.Accept(c); err != nil {
				problems = append(problems, fmt.Sprintf("round %d: Accept of a connected client: %v", round, err))
			} else {
				svs = append(svs, sc)
			}
		}
		conns += len(cls)
		var wg sync.WaitGroup
		for _, c := range cls {
			wg.Add(1)
			go func(c *client.CqlClientConnection) { defer wg.Done(); _ = c.Close() }(c)
		}
		for i := 0; i < (round*13+seed)%400; i++ {
			runtime.Gosched()
		}
		done := make(chan struct{})
		go func() { _ = srv.Close(); close(done) }()
		select {
		case <-done:
		case <-time.After(20 * time.Second):
			problems = append(problems, fmt.Sprintf("round %d: CqlServer.Close did not return within 20 s (%d peers dropping at the same moment)", round, len(cls)))
		}
		wg.Wait()
		deadline := time.Now().Add(5 * time.Second)
		for _, sc := range svs {
			for !sc.IsClosed() && time.Now().Before(deadline) {
				time.Sleep(time.Millisecond)
			}
			if !sc.IsClosed() {
				problems = append(problems, fmt.Sprintf("round %d: a server connection is still open after the server was closed and its peer dropped", round))
				break
			}
		}
		cancel()
	}
	b, _ := json.Marshal(map[string]interface{}{"rounds": n, "connections": conns, "problems": problems})
	fmt.Println("LSTRESS " + string(b))
}

// TestConnCloseDuringDelivery replays, on a real connection, the behaviour TLC finds in the as-found variant of
// ConnShutdown.tla (ConnShutdownAsFoundOrphan.cfg): the receive loop has unregistered a request for its final frame
// (parked at the gate just before handing the frame over), Close runs up to the cancellation of the connection's
// context and beyond, then the loop goes on. Whatever branch the select in onFrameReceived takes, the request must end
// up completed and Close must return.
func TestConnCloseDuringDelivery(t *testing.T) {
	n, _ := strconv.Atoi(os.Getenv("VERIF_STRESS"))
	if n == 0 {
		t.Skip("VERIF_STRESS not set")
	}
	var problems []string
	for it := 0; it < n && len(problems) < 5; it++ {
		atGate := make(chan struct{})
		release := make(chan struct{})
		cancelled := make(chan struct{})
		var once, once2 sync.Once
		client.VerifGate = func(point string, a int64) {
			switch point {
			case "in.released":
				parked := false
				once.Do(func() { parked = true })
				if parked {
					close(atGate)
					<-release
				}
			case "conn.close.chans":
				once2.Do(func() { close(cancelled) })
			}
		}
		ctx, cancel := context.WithCancel(context.Background())
		c0, s0 := net.Pipe()
		cl, err := client.VerifNewClientConnection(c0, ctx, nil, primitive.CompressionNone, 4, 2, time.Hour, nil)
		if err != nil {
			t.Fatal(err)
		}
		go func() { // the peer answers every request
			codec := frame.NewCodec()
			for {
				f, err := codec.DecodeFrame(s0)
				if err != nil {
					return
				}
				if codec.EncodeFrame(frame.NewFrame(primitive.ProtocolVersion4, f.Header.StreamId, &message.Ready{}), s0) != nil {
					return
				}
			}
		}()
		req, err := cl.Send(frame.NewFrame(primitive.ProtocolVersion4, 0, &message.Options{}))
		if err != nil {
			t.Fatal(err)
		}
		select {
		case <-atGate:
		case <-time.After(10 * time.Second):
			t.Fatal("the receive loop never reached the gate before handing the response over")
		}
		closeDone := make(chan struct{})
		go func() { _ = cl.Close(); close(closeDone) }()
		select {
		case <-cancelled: // Close has cancelled the context, closed the transport and the channels
		case <-time.After(10 * time.Second):
			problems = append(problems, fmt.Sprintf("iteration %d: Close did not get as far as closing its channels", it))
		}
		close(release)
		select {
		case <-closeDone:
		case <-time.After(10 * time.Second):
			problems = append(problems, fmt.Sprintf("iteration %d: Close did not return after the receive loop went on", it))
		}
		deadline := time.Now().Add(2 * time.Second)
		for !req.IsDone() && time.Now().Before(deadline) {
			time.Sleep(time.Millisecond)
		}
		if !req.IsDone() {
			problems = append(problems, fmt.Sprintf("iteration %d: the request whose final response arrived while the connection was being closed is never completed (done=false err=%v): its receiver blocks for ever", it, req.Err()))
		}
		client.VerifGate = nil
		cancel()
		_ = s0.Close()
	}
	b, _ := json.Marshal(map[string]interface{}{"iterations": n, "problems": problems})
	fmt.Println("GSTRESS " + string(b))
}

package main

import (
	"encoding/json"
	"flag"
	"fmt"
	"go/ast"
	"go/parser"
	"go/token"
	"math/rand"
	"os"
	"sort"
	"strconv"
	"strings"

	"github.com/datastax/go-cassandra-native-protocol/primitive"
)

func init() { subcommands["c19"] = c19 }

// Tables as emitted by specs/Tables.tla (AsJson).
type tblCode struct {
	Code     int    `json:"code"`
	Name     string `json:"name"`
	Dir      string `json:"dir"`
	Dse      bool   `json:"dse"`
	Versions []int  `json:"versions"`
}
type tblNamed struct {
	Name     string `json:"name"`
	Versions []int  `json:"versions"`
}
type tables struct {
	Versions      map[string]string `json:"versions"`
	Opcodes       []tblCode         `json:"opcodes"`
	Consistencies []tblCode         `json:"consistencies"`
	Serial        []int             `json:"serial"`
	Local         []int             `json:"local"`
	Errors        []tblCode         `json:"errors"`
	Fatal         []int             `json:"fatal"`
	Results       []tblCode         `json:"results"`
	DataTypes     []tblCode         `json:"datatypes"`
	Primitive     []int             `json:"primitive"`
	WriteTypes    []string          `json:"writetypes"`
	EventTypes    []string          `json:"eventtypes"`
	SchemaTypes   []string          `json:"schematypes"`
	SchemaTargets []tblNamed        `json:"schematargets"`
	TopologyTypes []tblNamed        `json:"topologytypes"`
	StatusTypes   []string          `json:"statustypes"`
	Compressions  []tblNamed        `json:"compressions"`
	BatchTypes    []tblCode         `json:"batchtypes"`
	BatchChild    []int             `json:"batchchild"`
	FailureCodes  []tblCode         `json:"failurecodes"`
	RevisionTypes []tblCode         `json:"revisiontypes"`
	QueryFlags    []tblNamed        `json:"queryflags"`
	Features      []tblNamed        `json:"features"`
	HeaderLen     []struct {
		V int `json:"v"`
		N int `json:"n"`
	} `json:"headerlen"`
}

type declConst struct {
	Type, Name string
	IsString   bool
	Num        uint64
	Str        string
}

// parseConstants lists every typed constant declared in primitive/constants.go: `Name = Type(literal)` or
// `Name Type = literal`.
func parseConstants(path string) ([]declConst, error) {
	fset := token.NewFileSet()
	f, err := parser.ParseFile(fset, path, nil, 0)
	if err != nil {
		return nil, err
	}
	var out []declConst
	lit := func(e ast.Expr) (isStr bool, num uint64, str string, ok bool) {
		if b, isLit := e.(*ast.BasicLit); isLit {
			switch b.Kind {
			case token.INT:
				n, err := strconv.ParseUint(strings.ReplaceAll(b.Value, "_", ""), 0, 64)
				return false, n, "", err == nil
			case token.STRING:
				s, err := strconv.Unquote(b.Value)
				return true, 0, s, err == nil
			}
		}
		return false, 0, "", false
	}
	for _, d := range f.Decls {
		gd, ok := d.(*ast.GenDecl)
		if !ok || gd.Tok != token.CONST {
			continue
		}
		for _, sp := range gd.Specs {
			vs := sp.(*ast.ValueSpec)
			for i, name := range vs.Names {
				if i >= len(vs.Values) {
					continue
				}
				var typ string
				var val ast.Expr
				if vs.Type != nil {
					if id, ok := vs.Type.(*ast.Ident); ok {
						typ, val = id.Name, vs.Values[i]
					}
				} else if call, ok := vs.Values[i].(*ast.CallExpr); ok && len(call.Args) == 1 {
					if id, ok := call.Fun.(*ast.Ident); ok {
						typ, val = id.Name, call.Args[0]
					}
				}
				if typ == "" {
					continue
				}
				if isStr, num, str, ok := lit(val); ok {
					out = append(out, declConst{typ, name.Name, isStr, num, str})
				}
			}
		}
	}
	return out, nil
}

type c19run struct {
	rep      *Report
	distinct map[string]bool
}

func (r *c19run) check(ok bool, sig, detail string) {
	r.rep.Evaluations++
	if !ok {
		r.rep.violate("c19|"+sig, detail, map[string]string{"check": "c19", "case": detail})
	}
}

func specific(s string) bool { return !strings.Contains(s, "?") && s != "" }

func hasInt(xs []int, v int) bool {
	for _, x := range xs {
		if x == v {
			return true
		}
	}
	return false
}

func c19(args []string) int {
	fs := flag.NewFlagSet("c19", flag.ExitOnError)
	tpath := fs.String("tables", "", "tables JSON emitted by Tables.tla")
	cpath := fs.String("constants", "/repo/primitive/constants.go", "constants source")
	seedv := fs.Int64("seed", 1, "seed")
	nrand := fs.Int("random", 200000, "random 32-bit values per type")
	_ = fs.Parse(args)
	raw, err := os.ReadFile(*tpath)
	if err != nil {
		fmt.Fprintln(os.Stderr, err)
		return 2
	}
	var tb tables
	if err := json.Unmarshal(raw, &tb); err != nil {
		fmt.Fprintln(os.Stderr, "tables:", err)
		return 2
	}
	decls, err := parseConstants(*cpath)
	if err != nil {
		fmt.Fprintln(os.Stderr, "constants:", err)
		return 2
	}
	rnd := rand.New(rand.NewSource(*seedv))
	run := &c19run{rep: &Report{}, distinct: map[string]bool{}}
	rep := run.rep

	declNum := map[string]map[uint64]string{}
	declStr := map[string]map[string]string{}
	for _, d := range decls {
		if d.IsString {
			if declStr[d.Type] == nil {
				declStr[d.Type] = map[string]string{}
			}
			declStr[d.Type][d.Str] = d.Name
		} else {
			if declNum[d.Type] == nil {
				declNum[d.Type] = map[uint64]string{}
			}
			declNum[d.Type][d.Num] = d.Name
		}
	}

	// ---- A. numeric code types: validity checks accept exactly the declared constants, names are specific
	type numType struct {
		name    string
		bits    int
		isValid func(uint64) bool
		str     func(uint64) string // nil if the type has no String()
		check   func(uint64) error  // nil if there is no Check* helper
	}
	numTypes := []numType{
		{"OpCode", 8, func(x uint64) bool { return primitive.OpCode(x).IsValid() }, func(x uint64) string { return primitive.OpCode(x).String() },
			func(x uint64) error { return primitive.CheckValidOpCode(primitive.OpCode(x)) }},
		{"ProtocolVersion", 8, func(x uint64) bool { return primitive.ProtocolVersion(x).IsSupported() }, func(x uint64) string { return primitive.ProtocolVersion(x).String() },
			func(x uint64) error { return primitive.CheckSupportedProtocolVersion(primitive.ProtocolVersion(x)) }},
		{"ResultType", 32, func(x uint64) bool { return primitive.ResultType(x).IsValid() }, func(x uint64) string { return primitive.ResultType(x).String() },
			func(x uint64) error { return primitive.CheckValidResultType(primitive.ResultType(x)) }},
		{"ErrorCode", 32, func(x uint64) bool { return primitive.ErrorCode(x).IsValid() }, func(x uint64) string { return primitive.ErrorCode(x).String() }, nil},
		{"ConsistencyLevel", 16, func(x uint64) bool { return primitive.ConsistencyLevel(x).IsValid() }, func(x uint64) string { return primitive.ConsistencyLevel(x).String() },
			func(x uint64) error { return primitive.CheckValidConsistencyLevel(primitive.ConsistencyLevel(x)) }},
		{"DataTypeCode", 16, func(x uint64) bool { return primitive.DataTypeCode(x).IsValid() }, func(x uint64) string { return primitive.DataTypeCode(x).String() },
			func(x uint64) error {
				return primitive.CheckValidDataTypeCode(primitive.DataTypeCode(x), primitive.ProtocolVersion5)
			}},
		{"BatchType", 8, func(x uint64) bool { return primitive.BatchType(x).IsValid() }, func(x uint64) string { return primitive.BatchType(x).String() },
			func(x uint64) error { return primitive.CheckValidBatchType(primitive.BatchType(x)) }},
		{"BatchChildType", 8, func(x uint64) bool { return primitive.BatchChildType(x).IsValid() }, func(x uint64) string { return primitive.BatchChildType(x).String() }, nil},
		{"DseRevisionType", 32, func(x uint64) bool { return primitive.DseRevisionType(x).IsValid() }, func(x uint64) string { return primitive.DseRevisionType(x).String() },
			func(x uint64) error {
				return primitive.CheckValidDseRevisionType(primitive.DseRevisionType(x), primitive.ProtocolVersionDse2)
			}},
		{"FailureCode", 16, func(x uint64) bool { return primitive.FailureCode(x).IsValid() }, func(x uint64) string { return primitive.FailureCode(x).String() },
			func(x uint64) error { return primitive.CheckValidFailureCode(primitive.FailureCode(x)) }},
	}
	known := map[string]bool{}
	for _, nt := range numTypes {
		known[nt.name] = true
		declared := declNum[nt.name]
		if len(declared) == 0 {
			rep.violate("c19|no-constants|"+nt.name, "no constants found for type "+nt.name, nil)
			continue
		}
		var domain []uint64
		if nt.bits <= 16 {
			for x := uint64(0); x < 1<<uint(nt.bits); x++ {
				domain = append(domain, x)
			}
		} else {
			for x := uint64(0); x < 1<<16; x++ {
				domain = append(domain, x)
			}
			for v := range declared {
				domain = append(domain, v, v+1, (v-1)&0xffffffff, v|0x80000000, v<<8&0xffffffff, v<<16&0xffffffff)
			}
			for b := 0; b < 32; b++ {
				domain = append(domain, 1<<uint(b), (1<<uint(b))-1)
			}
			domain = append(domain, 0xffffffff)
			for i := 0; i < *nrand; i++ {
				domain = append(domain, uint64(rnd.Uint32()))
			}
		}
		names := map[string]uint64{}
		for _, x := range domain {
			_, isDecl := declared[x]
			tag := fmt.Sprintf("%s(%#x)", nt.name, x)
			run.check(nt.isValid(x) == isDecl, nt.name+"|IsValid", fmt.Sprintf("%s: IsValid=%v but declared=%v", tag, nt.isValid(x), isDecl))
			if nt.str != nil {
				s := nt.str(x)
				run.check(specific(s) == isDecl, nt.name+"|String", fmt.Sprintf("%s: String()=%q but declared=%v", tag, s, isDecl))
				if isDecl {
					if prev, dup := names[s]; dup && prev != x {
						run.check(false, nt.name+"|String-dup", fmt.Sprintf("%s and %#x both print %q", tag, prev, s))
					}
					names[s] = x
				}
			}
			if nt.check != nil {
				run.check((nt.check(x) == nil) == isDecl, nt.name+"|Check", fmt.Sprintf("%s: Check error=%v but declared=%v", tag, nt.check(x), isDecl))
			}
			if isDecl {
				run.distinct[tag] = true
			}
		}
	}

	// ---- B. string code types
	type strType struct {
		name    string
		isValid func(string) bool
		check   func(string) error
	}
	strTypes := []strType{
		{"WriteType", func(s string) bool { return primitive.WriteType(s).IsValid() }, func(s string) error { return primitive.CheckValidWriteType(primitive.WriteType(s)) }},
		{"EventType", func(s string) bool { return primitive.EventType(s).IsValid() }, func(s string) error { return primitive.CheckValidEventType(primitive.EventType(s)) }},
		{"SchemaChangeType", func(s string) bool { return primitive.SchemaChangeType(s).IsValid() }, func(s string) error { return primitive.CheckValidSchemaChangeType(primitive.SchemaChangeType(s)) }},
		{"SchemaChangeTarget", func(s string) bool { return primitive.SchemaChangeTarget(s).IsValid() }, func(s string) error {
			return primitive.CheckValidSchemaChangeTarget(primitive.SchemaChangeTarget(s), primitive.ProtocolVersion5)
		}},
		{"TopologyChangeType", func(s string) bool { return primitive.TopologyChangeType(s).IsValid() }, func(s string) error {
			return primitive.CheckValidTopologyChangeType(primitive.TopologyChangeType(s), primitive.ProtocolVersion5)
		}},
		{"StatusChangeType", func(s string) bool { return primitive.StatusChangeType(s).IsValid() }, func(s string) error { return primitive.CheckValidStatusChangeType(primitive.StatusChangeType(s)) }},
		{"Compression", func(s string) bool { return primitive.Compression(s).IsValid() }, nil},
	}
	var allNames []string
	for _, m := range declStr {
		for s := range m {
			allNames = append(allNames, s)
		}
	}
	sort.Strings(allNames)
	for _, st := range strTypes {
		known[st.name] = true
		declared := declStr[st.name]
		if len(declared) == 0 {
			rep.violate("c19|no-constants|"+st.name, "no constants found for type "+st.name, nil)
			continue
		}
		cands := map[string]bool{"": true, " ": true, "x": true}
		for _, s := range allNames {
			cands[s] = true
			cands[strings.ToLower(s)] = true
			cands[s+" "] = true
			cands[" "+s] = true
			cands[s+"S"] = true
			if len(s) > 1 {
				cands[s[:len(s)-1]] = true
				cands[s[1:]] = true
			}
			cands[strings.ReplaceAll(s, "_", "")] = true
			cands[strings.ReplaceAll(s, "_", "-")] = true
		}
		for s := range cands {
			_, isDecl := declared[s]
			tag := fmt.Sprintf("%s(%q)", st.name, s)
			run.check(st.isValid(s) == isDecl, st.name+"|IsValid", fmt.Sprintf("%s: IsValid=%v but declared=%v", tag, st.isValid(s), isDecl))
			if st.check != nil {
				run.check((st.check(s) == nil) == isDecl, st.name+"|Check", fmt.Sprintf("%s: Check error=%v but declared=%v", tag, st.check(s), isDecl))
			}
			if isDecl {
				run.distinct[tag] = true
			}
		}
	}
	for t := range declNum {
		if !known[t] && !strings.HasSuffix(t, "Flag") && t != "ValueType" {
			rep.Notes = append(rep.Notes, "constants of type "+t+" are not covered by a validity check in the harness")
		}
	}

	// ---- C. declared constants vs the documents' tables (informational: the library may lag the documents)
	docSets := map[string][]tblCode{"OpCode": tb.Opcodes, "ConsistencyLevel": tb.Consistencies, "ErrorCode": tb.Errors, "ResultType": tb.Results,
		"DataTypeCode": tb.DataTypes, "BatchType": tb.BatchTypes, "FailureCode": tb.FailureCodes, "DseRevisionType": tb.RevisionTypes}
	for t, set := range docSets {
		doc := map[uint64]string{}
		for _, c := range set {
			doc[uint64(c.Code)] = c.Name
		}
		for v, n := range declNum[t] {
			if _, ok := doc[v]; !ok {
				rep.Notes = append(rep.Notes, fmt.Sprintf("%s %s=%#x is declared but not in the documents' table", t, n, v))
			}
		}
		for v, n := range doc {
			if _, ok := declNum[t][v]; !ok {
				rep.Notes = append(rep.Notes, fmt.Sprintf("%s %s=%#x is in the documents' table but not declared", t, n, v))
			}
		}
	}
	docStr := map[string][]string{"WriteType": tb.WriteTypes, "EventType": tb.EventTypes, "SchemaChangeType": tb.SchemaTypes, "StatusChangeType": tb.StatusTypes}
	for _, x := range tb.SchemaTargets {
		docStr["SchemaChangeTarget"] = append(docStr["SchemaChangeTarget"], x.Name)
	}
	for _, x := range tb.TopologyTypes {
		docStr["TopologyChangeType"] = append(docStr["TopologyChangeType"], x.Name)
	}
	for _, x := range tb.Compressions {
		docStr["Compression"] = append(docStr["Compression"], x.Name)
	}
	for t, names := range docStr {
		for _, n := range names {
			if _, ok := declStr[t][n]; !ok {
				rep.Notes = append(rep.Notes, fmt.Sprintf("%s %q is in the documents' table but not declared", t, n))
			}
		}
		for n := range declStr[t] {
			found := false
			for _, d := range names {
				found = found || d == n
			}
			if !found {
				rep.Notes = append(rep.Notes, fmt.Sprintf("%s %q is declared but not in the documents' table", t, n))
			}
		}
	}

	// ---- D. opcodes: exactly one direction, as in the documents
	opByCode := map[int]tblCode{}
	for _, o := range tb.Opcodes {
		opByCode[o.Code] = o
	}
	for x := 0; x < 256; x++ {
		op := primitive.OpCode(x)
		doc, inDoc := opByCode[x]
		tag := fmt.Sprintf("OpCode(%#x)", x)
		if op.IsValid() {
			run.check(op.IsRequest() != op.IsResponse(), "OpCode|one-direction", fmt.Sprintf("%s: IsRequest=%v IsResponse=%v", tag, op.IsRequest(), op.IsResponse()))
		} else {
			run.check(!op.IsRequest() && !op.IsResponse(), "OpCode|direction-of-invalid", fmt.Sprintf("%s invalid but has a direction", tag))
		}
		run.check((primitive.CheckRequestOpCode(op) == nil) == op.IsRequest(), "OpCode|CheckRequest", tag)
		run.check((primitive.CheckResponseOpCode(op) == nil) == op.IsResponse(), "OpCode|CheckResponse", tag)
		if inDoc {
			run.check(op.IsRequest() == (doc.Dir == "req") && op.IsResponse() == (doc.Dir == "rsp"), "OpCode|direction-vs-documents",
				fmt.Sprintf("%s %s: documents say %s, library IsRequest=%v IsResponse=%v", tag, doc.Name, doc.Dir, op.IsRequest(), op.IsResponse()))
			run.check(op.IsDse() == doc.Dse, "OpCode|IsDse", fmt.Sprintf("%s %s: documents dse=%v", tag, doc.Name, doc.Dse))
		} else {
			run.check(!op.IsDse(), "OpCode|IsDse", tag+" undocumented but IsDse")
		}
	}

	// ---- E. versions and capability predicates vs the documents' feature tables
	supported := map[int]bool{}
	for k := range tb.Versions {
		n, _ := strconv.Atoi(k)
		supported[n] = true
	}
	feature := map[string][]int{}
	for _, f := range tb.Features {
		feature[f.Name] = f.Versions
	}
	named := func(xs []tblNamed) map[string][]int {
		m := map[string][]int{}
		for _, x := range xs {
			m[x.Name] = x.Versions
		}
		return m
	}
	qf, targets, topo, comps := named(tb.QueryFlags), named(tb.SchemaTargets), named(tb.TopologyTypes), named(tb.Compressions)
	qfBits := map[string]primitive.QueryFlag{"Values": primitive.QueryFlagValues, "SkipMetadata": primitive.QueryFlagSkipMetadata,
		"PageSize": primitive.QueryFlagPageSize, "PagingState": primitive.QueryFlagPagingState, "SerialConsistency": primitive.QueryFlagSerialConsistency,
		"DefaultTimestamp": primitive.QueryFlagDefaultTimestamp, "ValueNames": primitive.QueryFlagValueNames, "WithKeyspace": primitive.QueryFlagWithKeyspace,
		"NowInSeconds": primitive.QueryFlagNowInSeconds, "DsePageSizeBytes": primitive.QueryFlagDsePageSizeBytes,
		"DseContinuousPaging": primitive.QueryFlagDseWithContinuousPagingOptions}
	hdr := map[int]int{}
	for _, h := range tb.HeaderLen {
		hdr[h.V] = h.N
	}
	for x := 0; x < 256; x++ {
		v := primitive.ProtocolVersion(x)
		tag := fmt.Sprintf("ProtocolVersion(%d)", x)
		isDse := supported[x] && x >= 64
		run.check(v.IsSupported() == supported[x], "ProtocolVersion|IsSupported", tag)
		run.check(v.IsOss() == (supported[x] && !isDse), "ProtocolVersion|IsOss", tag)
		run.check(v.IsDse() == isDse, "ProtocolVersion|IsDse", tag)
		run.check((primitive.CheckDseProtocolVersion(v) == nil) == isDse, "ProtocolVersion|CheckDse", tag)
		run.check(!v.IsBeta(), "ProtocolVersion|IsBeta", tag+": no beta version is defined")
		// every predicate must at least be total on unsupported version numbers
		func() {
			defer func() {
				if r := recover(); r != nil {
					run.check(false, "ProtocolVersion|predicate-panic", fmt.Sprintf("%s: %v", tag, r))
				}
			}()
			_ = v.Uses4BytesCollectionLength()
			_ = v.Uses4BytesQueryFlags()
			_ = v.SupportsBatchQueryFlags()
			_ = v.SupportsPrepareFlags()
			_ = v.SupportsResultMetadataId()
			_ = v.SupportsReadWriteFailureReasonMap()
			_ = v.SupportsWriteTimeoutContentions()
			_ = v.FrameHeaderLengthInBytes()
			_ = v.SupportsModernFramingLayout()
			_ = v.SupportsUnsetValues()
		}()
		if !supported[x] {
			continue
		}
		pred := func(name string, got bool, featureName string) {
			want := hasInt(feature[featureName], x)
			run.check(got == want, "capability|"+name, fmt.Sprintf("%s.%s()=%v but the documents' table says %s=%v", tag, name, got, featureName, want))
			run.distinct[tag+"."+name] = true
		}
		pred("Uses4BytesCollectionLength", v.Uses4BytesCollectionLength(), "Coll32")
		pred("Uses4BytesQueryFlags", v.Uses4BytesQueryFlags(), "QueryFlags32")
		pred("SupportsBatchQueryFlags", v.SupportsBatchQueryFlags(), "BatchFlags")
		pred("SupportsPrepareFlags", v.SupportsPrepareFlags(), "PrepareFlags")
		pred("SupportsResultMetadataId", v.SupportsResultMetadataId(), "ResultMetadataId")
		pred("SupportsReadWriteFailureReasonMap", v.SupportsReadWriteFailureReasonMap(), "ReasonMap")
		pred("SupportsWriteTimeoutContentions", v.SupportsWriteTimeoutContentions(), "Contentions")
		pred("SupportsModernFramingLayout", v.SupportsModernFramingLayout(), "ModernFraming")
		pred("SupportsUnsetValues", v.SupportsUnsetValues(), "UnsetValues")
		run.check(v.FrameHeaderLengthInBytes() == hdr[x], "capability|FrameHeaderLengthInBytes", fmt.Sprintf("%s: %d vs documents %d", tag, v.FrameHeaderLengthInBytes(), hdr[x]))
		for name, bit := range qfBits {
			want := hasInt(qf[name], x)
			run.check(v.SupportsQueryFlag(bit) == want, "capability|SupportsQueryFlag|"+name, fmt.Sprintf("%s.SupportsQueryFlag(%s)=%v, documents %v", tag, name, v.SupportsQueryFlag(bit), want))
			run.distinct[tag+".SupportsQueryFlag."+name] = true
		}
		for b := 0; b < 32; b++ { // bits that are no query flag
			bit := primitive.QueryFlag(1) << uint(b)
			isFlag := false
			for _, kb := range qfBits {
				isFlag = isFlag || kb == bit
			}
			if !isFlag {
				run.check(!v.SupportsQueryFlag(bit), "capability|SupportsQueryFlag|undefined-bit", fmt.Sprintf("%s bit %d", tag, b))
			}
		}
		strArgs := append([]string{"", "x", "keyspace", "Lz4", "lz4"}, allNames...)
		for _, s := range strArgs {
			run.check(v.SupportsSchemaChangeTarget(primitive.SchemaChangeTarget(s)) == hasInt(targets[s], x), "capability|SupportsSchemaChangeTarget",
				fmt.Sprintf("%s target %q: library %v documents %v", tag, s, v.SupportsSchemaChangeTarget(primitive.SchemaChangeTarget(s)), hasInt(targets[s], x)))
			run.check(v.SupportsTopologyChangeType(primitive.TopologyChangeType(s)) == hasInt(topo[s], x), "capability|SupportsTopologyChangeType",
				fmt.Sprintf("%s type %q: library %v documents %v", tag, s, v.SupportsTopologyChangeType(primitive.TopologyChangeType(s)), hasInt(topo[s], x)))
			run.check(v.SupportsCompression(primitive.Compression(s)) == hasInt(comps[s], x), "capability|SupportsCompression",
				fmt.Sprintf("%s compression %q: library %v documents %v", tag, s, v.SupportsCompression(primitive.Compression(s)), hasInt(comps[s], x)))
			run.check((primitive.CheckValidSchemaChangeTarget(primitive.SchemaChangeTarget(s), v) == nil) == hasInt(targets[s], x), "capability|CheckValidSchemaChangeTarget", tag+" "+s)
			run.check((primitive.CheckValidTopologyChangeType(primitive.TopologyChangeType(s), v) == nil) == hasInt(topo[s], x), "capability|CheckValidTopologyChangeType", tag+" "+s)
		}
		for c := 0; c < 70000; c++ {
			want := false
			for _, r := range tb.RevisionTypes {
				if r.Code == c {
					want = hasInt(r.Versions, x)
				}
			}
			got := v.SupportsDseRevisionType(primitive.DseRevisionType(c))
			if got != want || c < 4 {
				run.check(got == want, "capability|SupportsDseRevisionType", fmt.Sprintf("%s revision type %d: library %v documents %v", tag, c, got, want))
			}
			if (primitive.CheckValidDseRevisionType(primitive.DseRevisionType(c), v) == nil) != want {
				run.check(false, "capability|CheckValidDseRevisionType", fmt.Sprintf("%s revision type %d", tag, c))
			}
		}
	}
	// supported-version list helpers
	var sup []int
	for _, v := range primitive.SupportedProtocolVersions() {
		sup = append(sup, int(v))
	}
	run.check(len(sup) == len(supported), "ProtocolVersion|SupportedProtocolVersions", fmt.Sprint(sup))
	for _, v := range sup {
		run.check(supported[v], "ProtocolVersion|SupportedProtocolVersions", fmt.Sprint(v))
	}

	// classification predicates
	for x := 0; x < 65536; x++ {
		c := primitive.ConsistencyLevel(x)
		run.check(c.IsSerial() == hasInt(tb.Serial, x), "ConsistencyLevel|IsSerial", fmt.Sprint(x))
		run.check(c.IsLocal() == hasInt(tb.Local, x), "ConsistencyLevel|IsLocal", fmt.Sprint(x))
		run.check(c.IsNonSerial() == (c.IsValid() && !hasInt(tb.Serial, x)), "ConsistencyLevel|IsNonSerial", fmt.Sprint(x))
		run.check(c.IsNonLocal() == (c.IsValid() && !hasInt(tb.Local, x)), "ConsistencyLevel|IsNonLocal", fmt.Sprint(x))
		run.check((primitive.CheckSerialConsistencyLevel(c) == nil) == hasInt(tb.Serial, x), "ConsistencyLevel|CheckSerial", fmt.Sprint(x))
		d := primitive.DataTypeCode(x)
		run.check(d.IsPrimitive() == (x == 0 || hasInt(tb.Primitive, x)), "DataTypeCode|IsPrimitive", fmt.Sprint(x))
		e := primitive.ErrorCode(x)
		run.check(e.IsFatalError() == hasInt(tb.Fatal, x), "ErrorCode|IsFatalError", fmt.Sprint(x))
		if e.IsValid() {
			n := 0
			for _, b := range []bool{e.IsFatalError(), e.IsRequestExecutionError(), e.IsQueryValidationError()} {
				if b {
					n++
				}
			}
			run.check(n == 1, "ErrorCode|one-class", fmt.Sprintf("error code %#x is in %d classes", x, n))
			run.check(e.IsRequestExecutionError() == (x>>12 == 1) && e.IsQueryValidationError() == (x>>12 == 2), "ErrorCode|class-by-range", fmt.Sprintf("%#x", x))
		} else {
			run.check(!e.IsFatalError() && !e.IsRequestExecutionError() && !e.IsQueryValidationError(), "ErrorCode|class-of-invalid", fmt.Sprintf("%#x", x))
		}
	}

	rep.Distinct = len(run.distinct)
	for i, d := range decls {
		if i%17 == 0 && len(rep.Samples) < 6 {
			rep.Samples = append(rep.Samples, d)
		}
	}
	rep.Extra = map[string]interface{}{"declared_constants": len(decls)}
	return rep.print()
}

package main

import (
	"bufio"
	"context"
	"encoding/json"
	"fmt"
	"os"
	"runtime"
	"sort"
	"strconv"
	"strings"
	"testing"
	"testing/synctest"
	"time"

	"github.com/datastax/go-cassandra-native-protocol/client"
	"github.com/datastax/go-cassandra-native-protocol/frame"
	"github.com/datastax/go-cassandra-native-protocol/message"
	"github.com/datastax/go-cassandra-native-protocol/primitive"
)

// Sequential replay of InFlightSeq.tla histories on the real in-flight handler (binding R, DESIGN 2.1).
//
// Input (env VERIF_HIST): ndjson lines {"h":[steps...],"s":{projection}} -- one per state explored by TLC with the
// history variable kept in the state. The lines form a trie; every maximal history is executed once, inside a
// synctest bubble, and after each step the projection of the real handler is compared with the projection the
// spec reached after the same prefix. Divergent runs are recorded as traces (VERIF_TRACE_OUT) for validation
// against InFlightAbs by TLC; they are not verdicts by themselves.

const ifQuantum = time.Second

type ifParams struct {
	N          int `json:"N"`
	MaxPending int `json:"MaxPending"`
	TimeoutQ   int `json:"TimeoutQ"`
}

type ifReqProj struct {
	Id      int    `json:"id"`
	Managed bool   `json:"managed"`
	Pending int    `json:"pending"`
	Done    bool   `json:"done"`
	Err     string `json:"err"`
}

type ifProj struct {
	Free   []int          `json:"free"`
	Closed bool           `json:"closed"`
	Last   string         `json:"last"`
	Table  map[string]int `json:"table"`
	Reqs   []ifReqProj    `json:"reqs"`
}

// parseIfProj reads the spec's projection; TLC's ToJson renders functions over 1..n as arrays.
func parseIfProj(raw json.RawMessage) (ifProj, error) {
	var aux struct {
		Free   []int           `json:"free"`
		Closed bool            `json:"closed"`
		Last   string          `json:"last"`
		Table  json.RawMessage `json:"table"`
		Reqs   []ifReqProj     `json:"reqs"`
	}
	if err := json.Unmarshal(raw, &aux); err != nil {
		return ifProj{}, err
	}
	p := ifProj{Free: aux.Free, Closed: aux.Closed, Last: aux.Last, Reqs: aux.Reqs, Table: map[string]int{}}
	if len(aux.Table) > 0 && aux.Table[0] == '[' {
		var arr []int
		if err := json.Unmarshal(aux.Table, &arr); err != nil {
			return p, err
		}
		for i, v := range arr {
			p.Table[strconv.Itoa(i+1)] = v
		}
	} else if len(aux.Table) > 0 {
		if err := json.Unmarshal(aux.Table, &p.Table); err != nil {
			return p, err
		}
	}
	return p, nil
}

func (p ifProj) canon() string {
	if p.Free == nil {
		p.Free = []int{}
	}
	if p.Reqs == nil {
		p.Reqs = []ifReqProj{}
	}
	if p.Table == nil {
		p.Table = map[string]int{}
	}
	b, _ := json.Marshal(p)
	return string(b)
}

func classifyErr(err error) string {
	if err == nil {
		return "none"
	}
	s := err.Error()
	switch {
	case strings.Contains(s, "timed out"):
		return "timeout"
	case strings.Contains(s, "too many pending"):
		return "overflow"
	case strings.Contains(s, "request closed"):
		return "reqclosed"
	case strings.Contains(s, "handler closed"):
		return "closed"
	case strings.Contains(s, "no stream id available"):
		return "noid"
	case strings.Contains(s, "too many in-flight"):
		return "full"
	case strings.Contains(s, "already in use"):
		return "inuse"
	case strings.Contains(s, "unknown stream id"):
		return "unknown"
	case strings.Contains(s, "release failed"):
		return "releasefailed"
	}
	return "other"
}

// ifDriver executes steps on one real handler.
type ifDriver struct {
	p       ifParams
	h       *client.VerifInFlightHandler
	cancel  context.CancelFunc
	reqs    []client.InFlightRequest
	tagOf   map[client.InFlightRequest]int
	frameNo map[*frame.Frame]int
	nframe  int
	last    string
	nstep   int
}

func newIfDriver(p ifParams) *ifDriver {
	ctx, cancel := context.WithCancel(context.Background())
	return &ifDriver{
		p:       p,
		h:       client.VerifNewInFlightHandler(ctx, p.N, p.MaxPending, time.Duration(p.TimeoutQ)*ifQuantum),
		cancel:  cancel,
		tagOf:   map[client.InFlightRequest]int{},
		frameNo: map[*frame.Frame]int{},
	}
}

func (d *ifDriver) step(s string) (res string, err error) {
	d.nstep++
	switch {
	case s == "M" || strings.HasPrefix(s, "E"):
		var id int16
		if s != "M" {
			k, e := strconv.Atoi(s[1:])
			if e != nil {
				return "", fmt.Errorf("bad step %q", s)
			}
			id = int16(k)
		}
		f := frame.NewFrame(primitive.ProtocolVersion4, id, &message.Options{})
		r, e := d.h.Enqueue(f)
		if e != nil {
			res = "err:" + classifyErr(e)
		} else {
			d.reqs = append(d.reqs, r)
			d.tagOf[r] = len(d.reqs)
			res = "ok:" + strconv.Itoa(int(r.StreamId()))
			if f.Header.StreamId != r.StreamId() {
				res += ":frameid" + strconv.Itoa(int(f.Header.StreamId))
			}
		}
	case strings.HasPrefix(s, "D"):
		isLast := strings.HasSuffix(s, "L")
		k, e := strconv.Atoi(s[1 : len(s)-1])
		if e != nil {
			return "", fmt.Errorf("bad step %q", s)
		}
		f := responseFrame(int16(k), isLast, d.nstep)
		// the spec numbers a frame only when it is handed to a registered request
		if !d.h.IsClosed() && d.h.InFlightRequestFor(int16(k)) != nil {
			d.nframe++
			d.frameNo[f] = d.nframe
		}
		if e := d.h.Deliver(f); e != nil {
			res = "err:" + classifyErr(e)
		} else {
			res = "ok"
		}
	case strings.HasPrefix(s, "R"):
		k, e := strconv.Atoi(s[1:])
		if e != nil || k < 1 || k > len(d.reqs) {
			return "", fmt.Errorf("bad step %q (have %d requests)", s, len(d.reqs))
		}
		r := d.reqs[k-1]
		select {
		case f, ok := <-r.Incoming():
			if ok {
				res = "frame:" + strconv.Itoa(d.frameNo[f])
			} else {
				res = "closed:" + classifyErr(r.Err())
			}
		default:
			res = "wouldblock"
		}
	case s == "C":
		d.h.Close()
		res = "ok"
	case s == "T":
		time.Sleep(ifQuantum)
		res = "ok"
	default:
		return "", fmt.Errorf("unknown step %q", s)
	}
	synctest.Wait()
	d.last = res
	return res, nil
}

func (d *ifDriver) project() ifProj {
	p := ifProj{Closed: d.h.IsClosed(), Last: d.last, Table: map[string]int{}, Free: []int{}, Reqs: []ifReqProj{}}
	if !p.Closed {
		ids, ok := d.h.FreeIds()
		if !ok {
			p.Free = []int{-999}
		}
		for _, id := range ids {
			p.Free = append(p.Free, int(id))
		}
	}
	ids := d.h.InFlightIds()
	sort.Slice(ids, func(i, j int) bool { return ids[i] < ids[j] })
	for _, id := range ids {
		r := d.h.InFlightRequestFor(id)
		p.Table[strconv.Itoa(int(id))] = d.tagOf[r] // 0 if the table holds an object Send never returned
	}
	for _, r := range d.reqs {
		st := client.VerifProjectRequest(r)
		e := classifyErr(st.Err)
		// interface contract (client.go InFlightRequest): Err() non-nil only once done, channel closed iff done
		if st.Done != st.InternalNil {
			e += ":internal-chan-mismatch"
		}
		if r.IsDone() != st.Done || (r.Err() == nil) != (st.Err == nil) {
			e += ":accessor-mismatch"
		}
		p.Reqs = append(p.Reqs, ifReqProj{Id: int(st.StreamId), Managed: st.Managed, Pending: st.Pending, Done: st.Done, Err: e})
	}
	return p
}

// finish cancels everything and lets timers drain so the bubble can end; returns surviving goroutines.
func (d *ifDriver) finish(baseline int) int {
	d.h.Close()
	synctest.Wait()
	left := settledGoroutines() - baseline
	d.cancel()
	time.Sleep(time.Duration(d.p.TimeoutQ+2) * ifQuantum)
	synctest.Wait()
	return left
}

// settledGoroutines counts goroutines once the count is stable: a goroutine that has returned may still be
// counted for an instant after synctest.Wait() reports the bubble idle.
func settledGoroutines() int {
	n := runtime.NumGoroutine()
	for i := 0; i < 200; i++ {
		runtime.Gosched()
		m := runtime.NumGoroutine()
		if m < n {
			n = m
			i = 0
		}
	}
	return n
}

type ifHistLine struct {
	H []string        `json:"h"`
	S json.RawMessage `json:"s"`
}

type ifTraceStep struct {
	Step string `json:"step"`
	Res  string `json:"res"`
	Obs  ifProj `json:"obs"`
}

// ifTLine is one line of the trace format read by specs/InFlightTrace.tla.
type ifTLine struct {
	A     string  `json:"a"`
	Trace int     `json:"trace,omitempty"`
	K     int     `json:"k"`
	Last  bool    `json:"last"`
	Ok    bool    `json:"ok"`
	Rid   int     `json:"rid"`
	Obs   *ifTObs `json:"obs,omitempty"`
}

type ifTObs struct {
	Closed bool     `json:"closed"`
	Free   []int    `json:"free"`
	Table  [][2]int `json:"table"`
	Reqs   []ifTReq `json:"reqs"`
}

type ifTReq struct {
	Id      int  `json:"id"`
	Managed bool `json:"managed"`
	Pending int  `json:"pending"`
	Done    bool `json:"done"`
	Failed  bool `json:"failed"`
}

// toTLine converts a recorded step into the trace-validation format (only error / no error survives).
func (st ifTraceStep) toTLine() ifTLine {
	l := ifTLine{A: st.Step[:1]}
	switch l.A {
	case "E":
		l.K, _ = strconv.Atoi(st.Step[1:])
	case "D":
		l.K, _ = strconv.Atoi(st.Step[1 : len(st.Step)-1])
		l.Last = strings.HasSuffix(st.Step, "L")
	case "R":
		l.K, _ = strconv.Atoi(st.Step[1:])
	}
	parts := strings.Split(st.Res, ":")
	switch {
	case parts[0] == "ok":
		l.Ok = true
		if len(parts) > 1 {
			l.Rid, _ = strconv.Atoi(parts[1])
		}
	case parts[0] == "frame":
		l.Ok = true
		l.Rid, _ = strconv.Atoi(parts[1])
	case parts[0] == "closed":
		if parts[1] != "none" {
			l.Rid = 1
		}
	}
	o := &ifTObs{Closed: st.Obs.Closed, Free: st.Obs.Free, Table: [][2]int{}, Reqs: []ifTReq{}}
	if o.Free == nil {
		o.Free = []int{}
	}
	keys := make([]string, 0, len(st.Obs.Table))
	for k := range st.Obs.Table {
		keys = append(keys, k)
	}
	sort.Strings(keys)
	for _, k := range keys {
		id, _ := strconv.Atoi(k)
		o.Table = append(o.Table, [2]int{id, st.Obs.Table[k]})
	}
	for _, r := range st.Obs.Reqs {
		o.Reqs = append(o.Reqs, ifTReq{r.Id, r.Managed, r.Pending, r.Done, !strings.HasPrefix(r.Err, "none")})
	}
	l.Obs = o
	return l
}

type ifDivergence struct {
	Hist   []string      `json:"hist"`
	At     int           `json:"at"`
	Spec   string        `json:"spec"`
	Real   string        `json:"real"`
	Trace  []ifTraceStep `json:"trace"`
	TLines []ifTLine     `json:"tlines"`
	Panic  string        `json:"panic,omitempty"`
	Leak   int           `json:"leak,omitempty"`
}

func runHistory(t *testing.T, p ifParams, h []string, expect map[string]string, checked map[string]bool) (div *ifDivergence) {
	synctest.Test(t, func(t *testing.T) {
		baseline := settledGoroutines()
		d := newIfDriver(p)
		var trace []ifTraceStep
		defer func() {
			// a panic of the library on the calling goroutine: attributed to the step being executed
			if r := recover(); r != nil {
				div = &ifDivergence{Hist: h, At: len(trace), Panic: fmt.Sprint(r), Trace: trace}
				d.cancel()
				time.Sleep(time.Duration(d.p.TimeoutQ+2) * ifQuantum)
			}
		}()
		for i, s := range h {
			res, err := d.step(s)
			if err != nil {
				if div != nil && strings.HasPrefix(s, "R") {
					// the run has already left the model (a send the model accepts was refused): the caller has no such
					// request to poll; what was executed so far is judged as it stands
					break
				}
				t.Fatalf("history %v: %v", h, err)
			}
			obs := d.project()
			trace = append(trace, ifTraceStep{s, res, obs})
			key := strings.Join(h[:i+1], ",")
			want, known := expect[key]
			if !known {
				t.Fatalf("history prefix %s missing from the TLC output", key)
			}
			checked[key] = true
			if got := obs.canon(); got != want && div == nil {
				div = &ifDivergence{Hist: h, At: i, Spec: want, Real: got}
			}
		}
		if div != nil {
			div.Trace = trace
		}
		if left := d.finish(baseline); left > 0 {
			if div == nil {
				div = &ifDivergence{Hist: h, At: len(h), Trace: trace}
			}
			div.Leak = left
		}
	})
	return div
}

func TestInflightSeqReplay(t *testing.T) {
	histPath := os.Getenv("VERIF_HIST")
	if histPath == "" {
		t.Skip("VERIF_HIST not set")
	}
	var p ifParams
	if err := json.Unmarshal([]byte(os.Getenv("VERIF_PARAMS")), &p); err != nil {
		t.Fatalf("VERIF_PARAMS: %v", err)
	}
	shard, _ := strconv.Atoi(os.Getenv("VERIF_SHARD"))
	nshards, _ := strconv.Atoi(os.Getenv("VERIF_NSHARDS"))
	if nshards == 0 {
		nshards = 1
	}
	// load the trie: history string -> expected canonical projection
	expect := map[string]string{}
	isPrefix := map[string]bool{}
	var all [][]string
	err := readNDJSON(histPath, func(line []byte) error {
		var hl ifHistLine
		if err := json.Unmarshal(line, &hl); err != nil {
			return err
		}
		pr, err := parseIfProj(hl.S)
		if err != nil {
			return err
		}
		key := strings.Join(hl.H, ",")
		expect[key] = pr.canon()
		if len(hl.H) > 0 {
			isPrefix[strings.Join(hl.H[:len(hl.H)-1], ",")] = true
		}
		all = append(all, hl.H)
		return nil
	})
	if err != nil {
		t.Fatalf("reading histories: %v", err)
	}
	var leaves [][]string
	for _, h := range all {
		if !isPrefix[strings.Join(h, ",")] {
			leaves = append(leaves, h)
		}
	}
	sort.Slice(leaves, func(i, j int) bool { return strings.Join(leaves[i], ",") < strings.Join(leaves[j], ",") })

	rep := &Report{}
	var divergences []ifDivergence
	checked := map[string]bool{}
	for li, h := range leaves {
		if li%nshards != shard {
			continue
		}
		rep.Evaluations++
		div := runHistory(t, p, h, expect, checked)
		if div != nil && div.Leak > 0 {
			// a goroutine count is a global, racy observation: a real leak reproduces every time
			for retry := 0; retry < 2 && div.Leak > 0; retry++ {
				again := runHistory(t, p, h, expect, checked)
				if again == nil || again.Leak == 0 {
					div.Leak = 0
				}
			}
			if div.Leak == 0 && div.Panic == "" && div.Real == "" {
				div = nil
			}
		}
		if div != nil {
			for _, st := range div.Trace {
				div.TLines = append(div.TLines, st.toTLine())
			}
		}
		if div != nil && len(divergences) < 2000 {
			divergences = append(divergences, *div)
		}
		if len(rep.Samples) < 2 && len(h) >= 4 && strings.Contains(strings.Join(h, ","), "M") {
			rep.Samples = append(rep.Samples, map[string]interface{}{"history": h, "expected_final": json.RawMessage(expect[strings.Join(h, ",")])})
		}
	}
	rep.Distinct = len(checked)
	rep.Extra = map[string]interface{}{"leaves": len(leaves), "lines": len(all), "divergent": len(divergences)}
	if out := os.Getenv("VERIF_DIV_OUT"); out != "" {
		f, err := os.Create(out)
		if err != nil {
			t.Fatal(err)
		}
		w := bufio.NewWriter(f)
		for _, dv := range divergences {
			b, _ := json.Marshal(dv)
			w.Write(b)
			w.WriteByte('\n')
		}
		w.Flush()
		f.Close()
	}
	b, _ := json.Marshal(rep)
	fmt.Println("REPORT " + string(b))
}

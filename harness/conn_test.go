package main

import (
	"bytes"
	"context"
	"encoding/binary"
	"encoding/json"
	"fmt"
	"net"
	"os"
	"strconv"
	"strings"
	"sync"
	"testing"
	"testing/synctest"
	"time"

	"github.com/datastax/go-cassandra-native-protocol/client"
	"github.com/datastax/go-cassandra-native-protocol/frame"
	"github.com/datastax/go-cassandra-native-protocol/message"
	"github.com/datastax/go-cassandra-native-protocol/primitive"
	"github.com/pierrec/lz4/v4"
)

// Replay of specs/Conn.tla sessions on real connections (binding R for C15, transport part of C10 / C16).
// Rigs: "lib-lib" (library client and library server on the two ends of a net.Pipe, bytes tapped and parsed by the raw
// reader), "lib-raw" (library client against the raw peer), "raw-lib" (raw peer against the library server).
// The raw peer speaks the protocol with refwire (segments, checksums) and packs / splits envelopes as the session says.

type connUnit struct {
	K    string            `json:"k"`
	Envs []json.RawMessage `json:"envs"`
}

type connStep struct {
	A    string     `json:"a"`
	Kind string     `json:"kind"`
	Ids  []int      `json:"ids"`
	Pack []connUnit `json:"pack"`
}

type connSession struct {
	Steps []connStep `json:"steps"`
}

type connConfig struct {
	Rig    string `json:"rig"`
	Modern bool   `json:"modern"`
	Auth   bool   `json:"auth"`
	Big    []int  `json:"big"`
	Spread bool   `json:"spread"` // one (version, compression) per session, round-robin, instead of all of them
}

// ---------------------------------------------------------------------------------------------- raw side

// tapConn records what is written to the connection.
type tapConn struct {
	net.Conn
	mu       sync.Mutex
	out      bytes.Buffer
	closeErr error // returned by Close after the transport has been closed (a TLS connection after the peer is gone does this)
}

func (t *tapConn) Close() error {
	err := t.Conn.Close()
	if t.closeErr != nil {
		return t.closeErr
	}
	return err
}

func (t *tapConn) Write(p []byte) (int, error) {
	t.mu.Lock()
	t.out.Write(p)
	t.mu.Unlock()
	return t.Conn.Write(p)
}

// rawEnd is the raw peer's end of a connection: a pump goroutine drains the socket so that the other side never blocks.
type rawEnd struct {
	conn    net.Conn
	mu      sync.Mutex
	in      bytes.Buffer
	modern  bool
	comp    primitive.Compression
	version primitive.ProtocolVersion
	acc     []byte // multi-part accumulation
	accWant int
	closed  bool
}

func newRawEnd(conn net.Conn, v primitive.ProtocolVersion, comp primitive.Compression) *rawEnd {
	r := &rawEnd{conn: conn, version: v, comp: comp}
	go func() {
		buf := make([]byte, 65536)
		for {
			n, err := conn.Read(buf)
			r.mu.Lock()
			r.in.Write(buf[:n])
			if err != nil {
				r.closed = true
			}
			r.mu.Unlock()
			if err != nil {
				return
			}
		}
	}()
	return r
}

func (r *rawEnd) legacyCodec() frame.RawCodec {
	return frame.NewRawCodecWithCompression(client.NewBodyCompressor(r.comp))
}

// envelopeBytes encodes a frame as it must appear on the wire in the current mode.
func (r *rawEnd) envelopeBytes(f *frame.Frame) ([]byte, error) {
	f = f.DeepCopy()
	buf := &bytes.Buffer{}
	if r.modern {
		f.Header.Flags = f.Header.Flags.Remove(primitive.HeaderFlagCompressed)
		err := frame.NewRawCodec().EncodeFrame(f, buf)
		return buf.Bytes(), err
	}
	if r.comp != primitive.CompressionNone {
		f.SetCompress(true)
	}
	err := r.legacyCodec().EncodeFrame(f, buf)
	return buf.Bytes(), err
}

// segmentBytes wraps a payload in a segment of the negotiated format.
func (r *rawEnd) segmentBytes(payload []byte, selfContained bool, tryCompress bool) []byte {
	if r.comp != primitive.CompressionLz4 {
		return refSegmentUncompressed(payload, selfContained)
	}
	if tryCompress && len(payload) > 0 && len(payload) < 60000 {
		dst := make([]byte, lz4.CompressBlockBound(len(payload)))
		if n, err := lz4.CompressBlock(payload, dst, nil); err == nil && n > 0 && n < len(payload) {
			return refSegmentCompressed(dst[:n], len(payload), selfContained)
		}
	}
	return refSegmentCompressed(payload, 0, selfContained) // sent raw: uncompressed-length field 0
}

// parsed is one unit read from the wire by the raw reader.
type parsedUnit struct {
	kind   string // "frame" | "seg" | "part"
	frames []*frame.Frame
	notes  []string // wire-conformance problems
}

// readUnit parses the next unit from the buffered input; ok=false if the bytes are not (yet) complete.
func (r *rawEnd) readUnit() (u parsedUnit, ok bool, err error) {
	r.mu.Lock()
	defer r.mu.Unlock()
	data := r.in.Bytes()
	if !r.modern {
		hl := r.version.FrameHeaderLengthInBytes()
		if len(data) < hl {
			return u, false, nil
		}
		n := int(int32(binary.BigEndian.Uint32(data[hl-4 : hl])))
		if n < 0 || len(data) < hl+n {
			return u, false, nil
		}
		f, err := r.legacyCodec().DecodeFrame(bytes.NewReader(data[:hl+n]))
		if err != nil {
			return u, false, fmt.Errorf("legacy frame does not decode: %w", err)
		}
		r.in.Next(hl + n)
		if r.comp != primitive.CompressionNone && !f.Header.Flags.Contains(primitive.HeaderFlagCompressed) && f.Header.OpCode != primitive.OpCodeStartup &&
			f.Header.OpCode != primitive.OpCodeOptions && f.Header.OpCode != primitive.OpCodeReady && n > 0 {
			// not an error of the protocol (compression of a frame is optional): informational only
			_ = n
		}
		return parsedUnit{kind: "frame", frames: []*frame.Frame{f}}, true, nil
	}
	compressed := r.comp == primitive.CompressionLz4
	p, complete := refParse(data, compressed)
	if !complete {
		return u, false, nil
	}
	total := len(data) - len(p.Rest)
	if !bytes.Equal(p.Crc24, le(uint64(refCrc24(p.Header)), 3)) {
		return u, false, fmt.Errorf("segment header CRC-24 mismatch (header % x)", p.Header)
	}
	if !bytes.Equal(p.Crc32, le(uint64(refCrc32(p.Transmitted)), 4)) {
		return u, false, fmt.Errorf("segment payload CRC-32 mismatch")
	}
	payload := p.Transmitted
	if compressed && p.ULen > 0 {
		out := make([]byte, p.ULen)
		m, err := lz4.UncompressBlock(p.Transmitted, out)
		if err != nil || m != p.ULen {
			return u, false, fmt.Errorf("segment LZ4 block does not decompress to the declared %d bytes: %v", p.ULen, err)
		}
		payload = out
	}
	r.in.Next(total)
	if !p.SelfCont {
		u.kind = "part"
		if r.accWant == 0 {
			if len(payload) < 9 {
				return u, true, fmt.Errorf("first part of a split envelope shorter than a header")
			}
			r.accWant = 9 + int(int32(binary.BigEndian.Uint32(payload[5:9])))
		}
		r.acc = append(r.acc, payload...)
		if len(r.acc) >= r.accWant {
			f, err := frame.NewRawCodec().DecodeFrame(bytes.NewReader(r.acc))
			if err != nil {
				return u, true, fmt.Errorf("reassembled envelope does not decode: %w", err)
			}
			if len(r.acc) != r.accWant {
				u.notes = append(u.notes, fmt.Sprintf("split envelope: %d bytes accumulated, %d declared", len(r.acc), r.accWant))
			}
			u.frames = append(u.frames, f)
			r.acc, r.accWant = nil, 0
		}
		return u, true, nil
	}
	u.kind = "seg"
	rd := bytes.NewReader(payload)
	for rd.Len() > 0 {
		at := len(payload) - rd.Len()
		if at+2 <= len(payload) && payload[at+1]&byte(primitive.HeaderFlagCompressed) != 0 {
			u.notes = append(u.notes, "an envelope inside a segment carries the COMPRESSED flag (v5 §2: envelopes in segments are not compressed individually)")
			// decode it the way the flag says so that the comparison can go on
			f, err := frame.NewRawCodecWithCompression(client.NewBodyCompressor(r.comp)).DecodeFrame(rd)
			if err != nil {
				return u, true, fmt.Errorf("compressed envelope inside a segment does not decode: %w", err)
			}
			u.frames = append(u.frames, f)
			continue
		}
		f, err := frame.NewRawCodec().DecodeFrame(rd)
		if err != nil {
			return u, true, fmt.Errorf("envelope inside a segment does not decode: %w", err)
		}
		u.frames = append(u.frames, f)
	}
	return u, true, nil
}

// cutPoints chooses where a raw peer cuts an envelope of n bytes into `parts` segments (each at most 131071 bytes). The
// shapes cycle with the variant: evenly; inside the 9-byte envelope header; exactly at its end; one byte before the end
// of the envelope; first segment full; an uneven first cut. A shape that does not fit the size falls back to even cuts.
const maxSegPayload = 131071

var cutShapes = []string{"even", "hdr", "hdr9", "tail1", "maxfirst", "uneven"}

func cutPoints(n, parts, variant int) []int {
	even := func() []int {
		c := []int{0}
		for k := 1; k < parts; k++ {
			c = append(c, n*k/parts)
		}
		return append(c, n)
	}
	var c []int
	first := -1
	switch cutShapes[variant%len(cutShapes)] {
	case "hdr":
		first = 1 + (variant/len(cutShapes))%8
	case "hdr9":
		first = 9
	case "uneven":
		first = 100000 + variant%1000
	case "maxfirst":
		first = maxSegPayload
	case "tail1":
		if parts == 2 {
			c = []int{0, n - 1, n}
		} else {
			c = []int{0, (n - 1) / 2, n - 1, n}
		}
	}
	if first > 0 && first < n-parts {
		if parts == 2 {
			c = []int{0, first, n}
		} else {
			rest := n - first
			c = []int{0, first, first + (rest+1)/2, n}
			if rest > maxSegPayload {
				c = []int{0, first, first + maxSegPayload, n}
			}
		}
	}
	ok := c != nil
	for i := 1; ok && i < len(c); i++ {
		ok = c[i] > c[i-1] && c[i]-c[i-1] <= maxSegPayload
	}
	if !ok {
		return even()
	}
	return c
}

// ---------------------------------------------------------------------------------------------- frames of a session

func connRequest(v primitive.ProtocolVersion, id int, big bool, variant int) *frame.Frame {
	q := "SELECT * FROM t WHERE k = " + strconv.Itoa(id)
	if big {
		q += " /* " + strings.Repeat("x", 200000+id) + " */"
	}
	var msg message.Message
	if !big && variant%7 == 3 {
		// answered by READY: the one message that is unframed during the handshake and framed afterwards
		return frame.NewFrame(v, int16(id), &message.Register{EventTypes: []primitive.EventType{primitive.EventTypeSchemaChange, primitive.EventTypeStatusChange}})
	}
	switch variant % 3 {
	case 0:
		msg = &message.Query{Query: q, Options: &message.QueryOptions{Consistency: primitive.ConsistencyLevelOne, PositionalValues: []*primitive.Value{primitive.NewValue([]byte{byte(id)})}}}
	case 1:
		msg = &message.Prepare{Query: q}
	default:
		e := &message.Execute{QueryId: []byte{1, byte(id)}, Options: &message.QueryOptions{Consistency: primitive.ConsistencyLevelQuorum, PageSize: 10}}
		if v.SupportsResultMetadataId() {
			e.ResultMetadataId = []byte{9}
		}
		if big {
			e.Options.PositionalValues = []*primitive.Value{primitive.NewValue(bytes.Repeat([]byte{byte(id)}, 200000+id))}
		}
		msg = e
	}
	return frame.NewFrame(v, int16(id), msg)
}

func connResponse(v primitive.ProtocolVersion, streamId int16, id int, big bool, variant int) *frame.Frame {
	n := 3
	if big {
		n = 11000
	}
	var msg message.Message
	if !big && variant%7 == 3 {
		return frame.NewFrame(v, streamId, &message.Ready{})
	}
	switch variant % 3 {
	case 0:
		rows := message.RowSet{}
		for i := 0; i < n; i++ {
			rows = append(rows, message.Row{message.Column{byte(id), byte(i), byte(i >> 8), 7}, message.Column("value")})
		}
		msg = &message.RowsResult{Metadata: &message.RowsMetadata{ColumnCount: 2, Columns: sampleColumns()}, Data: rows}
	case 1:
		m := "error " + strconv.Itoa(id)
		if big {
			m = strings.Repeat("e", 65000)
			// a single [string] cannot exceed 65535 bytes: make the envelope big with a rows result instead
			rows := message.RowSet{}
			for i := 0; i < n; i++ {
				rows = append(rows, message.Row{message.Column(m[:8]), nil})
			}
			msg = &message.RowsResult{Metadata: &message.RowsMetadata{ColumnCount: 2, Columns: sampleColumns()}, Data: rows}
		} else {
			msg = &message.Unavailable{ErrorMessage: m, Consistency: primitive.ConsistencyLevelOne, Required: 2, Alive: 1}
		}
	default:
		if big {
			rows := message.RowSet{}
			for i := 0; i < n; i++ {
				rows = append(rows, message.Row{message.Column{1}, message.Column{2, 3}})
			}
			msg = &message.RowsResult{Metadata: &message.RowsMetadata{ColumnCount: 2, Columns: sampleColumns()}, Data: rows}
		} else {
			msg = &message.VoidResult{}
		}
	}
	return frame.NewFrame(v, streamId, msg)
}

func sameFrame(a, b *frame.Frame) (bool, string) {
	x, y := projectFrame(a), projectFrame(b)
	// the compressed flag is a property of the hop, not of the envelope
	strip := func(m obj) {
		fl := arr{}
		for _, f := range m["flags"].(arr) {
			if f != "C" {
				fl = append(fl, f)
			}
		}
		m["flags"] = fl
	}
	strip(x)
	strip(y)
	g, w := canonAbs(x), canonAbs(y)
	if g == w {
		return true, ""
	}
	return false, firstDiff(g, w)
}

// ---------------------------------------------------------------------------------------------- the replay

type connViolation struct {
	Sig, Detail string
}

func runConnSession(t *testing.T, cfg connConfig, sess connSession, v primitive.ProtocolVersion, comp primitive.Compression, variant int) (viol []connViolation) {
	bad := func(sig, detail string) { viol = append(viol, connViolation{sig, detail}) }
	synctest.Test(t, func(t *testing.T) {
		defer func() {
			if r := recover(); r != nil {
				bad("panic", fmt.Sprint(r))
			}
		}()
		baseline0 := settledGoroutines()
		ctx, cancel := context.WithCancel(context.Background())
		defer cancel()
		c0, s0 := net.Pipe()
		ctap, stap := &tapConn{Conn: c0}, &tapConn{Conn: s0}
		if variant%4 == 3 {
			// every fourth session: transports whose Close reports an error (the teardown must still be complete)
			ctap.closeErr = fmt.Errorf("close_notify: broken pipe")
			stap.closeErr = fmt.Errorf("close_notify: broken pipe")
		}
		var creds *client.AuthCredentials
		if cfg.Auth {
			creds = &client.AuthCredentials{Username: "u", Password: "p"}
		}
		var cl *client.CqlClientConnection
		var sv *client.CqlServerConnection
		var rawC, rawS *rawEnd
		var err error
		if cfg.Rig != "raw-lib" {
			if cl, err = client.VerifNewClientConnection(ctap, ctx, creds, comp, 16, 4, 30*time.Second, nil); err != nil {
				t.Fatalf("client: %v", err)
			}
		} else {
			rawC = newRawEnd(ctap, v, comp)
		}
		if cfg.Rig != "lib-raw" {
			if sv, err = client.VerifNewServerConnection(stap, ctx, creds, 16, time.Hour, nil, nil, func(*client.CqlServerConnection) {}); err != nil {
				t.Fatalf("server: %v", err)
			}
		} else {
			rawS = newRawEnd(stap, v, comp)
		}
		big := map[int]bool{}
		for _, b := range cfg.Big {
			big[b] = true
		}
		reqFrames := map[int]*frame.Frame{}
		rspFrames := map[int]*frame.Frame{}
		inflight := map[int]client.InFlightRequest{}
		streamOf := map[int]int16{}
		var srvGot []*frame.Frame // requests the server application has received, in order
		var cliGot []*frame.Frame // responses the (raw) client has received
		handshakeDone := false

		// do runs f in its own goroutine and reports whether it finished once the bubble is idle
		do := func(f func()) bool {
			done := false
			go func() { f(); done = true }()
			synctest.Wait()
			return done
		}
		writeUnits := func(r *rawEnd, pack []connUnit, frames map[int]*frame.Frame) {
			for ui, u := range pack {
				var out []byte
				switch u.K {
				case "frame", "seg":
					var payload []byte
					for _, e := range u.Envs {
						var id int
						_ = json.Unmarshal(e, &id)
						b, err := r.envelopeBytes(frames[id])
						if err != nil {
							t.Fatalf("raw peer cannot encode its own frame: %v", err)
						}
						payload = append(payload, b...)
					}
					if u.K == "frame" {
						out = payload
					} else {
						out = r.segmentBytes(payload, true, (variant+ui)%2 == 0)
					}
				case "part":
					var p struct{ Id, I, N int }
					_ = json.Unmarshal(u.Envs[0], &p)
					b, _ := r.envelopeBytes(frames[p.Id])
					cuts := cutPoints(len(b), p.N, variant+p.Id)
					seg := b[cuts[p.I-1]:cuts[p.I]]
					if len(seg) > 131071 {
						t.Fatalf("harness: part of %d bytes", len(seg))
					}
					out = r.segmentBytes(seg, false, false)
				}
				w := out
				if !do(func() { _, _ = r.conn.Write(w) }) {
					bad("raw-write-blocked", fmt.Sprintf("the library side does not read: unit %d of %v", ui, pack))
					return
				}
			}
		}
		handshake := func() {
			if handshakeDone {
				return
			}
			handshakeDone = true
			var cerr, serr error
			cdone, sdone := false, false
			if cl != nil {
				go func() { cerr = cl.InitiateHandshake(v, 1); cdone = true }()
			}
			if sv != nil {
				go func() { serr = sv.AcceptHandshake(); sdone = true }()
			}
			synctest.Wait()
			if rawS != nil { // raw server: STARTUP -> READY | AUTHENTICATE -> AUTH_RESPONSE -> AUTH_SUCCESS
				u, ok, err := rawS.readUnit()
				if !ok || err != nil || len(u.frames) != 1 || u.frames[0].Header.OpCode != primitive.OpCodeStartup {
					bad("handshake-startup", fmt.Sprintf("raw server did not get a legacy STARTUP frame: ok=%v err=%v", ok, err))
					return
				}
				st := u.frames[0]
				if got := st.Body.Message.(*message.Startup).GetCompression(); comp != primitive.CompressionNone && !strings.EqualFold(string(got), string(comp)) {
					bad("handshake-compression-option", fmt.Sprintf("STARTUP announces compression %q, the client was configured with %q", got, comp))
				}
				var ans message.Message = &message.Ready{}
				if cfg.Auth {
					ans = &message.Authenticate{Authenticator: "org.apache.cassandra.auth.PasswordAuthenticator"}
				}
				b, _ := rawS.envelopeBytes(frame.NewFrame(v, st.Header.StreamId, ans))
				if !do(func() { _, _ = rawS.conn.Write(b) }) {
					bad("handshake-answer-blocked", "client does not read the answer to STARTUP")
					return
				}
				rawS.modern = cfg.Modern
				if cfg.Auth {
					u, ok, err := rawS.readUnit()
					if !ok || err != nil || len(u.frames) != 1 || u.frames[0].Header.OpCode != primitive.OpCodeAuthResponse {
						bad("handshake-auth-response", fmt.Sprintf("raw server did not get AUTH_RESPONSE in the %s framing: ok=%v err=%v", map[bool]string{true: "segment", false: "legacy"}[cfg.Modern], ok, err))
						return
					}
					for _, n := range u.notes {
						bad("wire|"+n[:20], n)
					}
					eb, _ := rawS.envelopeBytes(frame.NewFrame(v, u.frames[0].Header.StreamId, &message.AuthSuccess{}))
					out := eb
					if rawS.modern {
						out = rawS.segmentBytes(eb, true, false)
					}
					if !do(func() { _, _ = rawS.conn.Write(out) }) {
						bad("handshake-auth-success-blocked", "client does not read AUTH_SUCCESS")
						return
					}
				}
				synctest.Wait()
			}
			if rawC != nil { // raw client
				st := message.NewStartup()
				if comp != primitive.CompressionNone {
					st.SetCompression(comp)
				}
				sb := &bytes.Buffer{}
				_ = frame.NewRawCodec().EncodeFrame(frame.NewFrame(v, 1, st), sb) // STARTUP is never compressed
				if !do(func() { _, _ = rawC.conn.Write(sb.Bytes()) }) {
					bad("handshake-startup-blocked", "server does not read STARTUP")
					return
				}
				u, ok, err := rawC.readUnit()
				wantOp := primitive.OpCodeReady
				if cfg.Auth {
					wantOp = primitive.OpCodeAuthenticate
				}
				if !ok || err != nil || len(u.frames) != 1 || u.frames[0].Header.OpCode != wantOp {
					bad("handshake-answer", fmt.Sprintf("raw client did not get a legacy %v frame: ok=%v err=%v", wantOp, ok, err))
					return
				}
				rawC.modern = cfg.Modern
				if cfg.Auth {
					tok := []byte{0, 'u', 0, 'p'}
					eb, _ := rawC.envelopeBytes(frame.NewFrame(v, 1, &message.AuthResponse{Token: tok}))
					out := eb
					if rawC.modern {
						out = rawC.segmentBytes(eb, true, false)
					}
					if !do(func() { _, _ = rawC.conn.Write(out) }) {
						bad("handshake-auth-response-blocked", "server does not read AUTH_RESPONSE")
						return
					}
					u, ok, err := rawC.readUnit()
					if !ok || err != nil || len(u.frames) != 1 || u.frames[0].Header.OpCode != primitive.OpCodeAuthSuccess {
						bad("handshake-auth-success", fmt.Sprintf("raw client did not get AUTH_SUCCESS in the %s framing: ok=%v err=%v", map[bool]string{true: "segment", false: "legacy"}[cfg.Modern], ok, err))
						return
					}
					for _, n := range u.notes {
						bad("wire|"+n[:20], n)
					}
				}
			}
			synctest.Wait()
			if cl != nil && (!cdone || cerr != nil) {
				bad("handshake-client", fmt.Sprintf("InitiateHandshake done=%v err=%v", cdone, cerr))
			}
			if sv != nil && (!sdone || serr != nil) {
				bad("handshake-server", fmt.Sprintf("AcceptHandshake done=%v err=%v", sdone, serr))
			}
			if cl != nil && cl.VerifModernLayout() != cfg.Modern {
				bad("client-framing-mode", fmt.Sprintf("client modern framing = %v after the handshake of %v", cl.VerifModernLayout(), v))
			}
			if sv != nil && sv.VerifModernLayout() != cfg.Modern {
				bad("server-framing-mode", fmt.Sprintf("server modern framing = %v after the handshake of %v", sv.VerifModernLayout(), v))
			}
			if sv != nil && comp != primitive.CompressionNone && !strings.EqualFold(string(sv.VerifCompression()), string(comp)) {
				bad("server-compression", fmt.Sprintf("server adopted compression %q, STARTUP announced %q", sv.VerifCompression(), comp))
			}
		}

		deliveredBy := func(u connUnit) int {
			switch u.K {
			case "part":
				var p struct{ Id, I, N int }
				_ = json.Unmarshal(u.Envs[0], &p)
				if p.I == p.N {
					return 1
				}
				return 0
			}
			return len(u.Envs)
		}
		var c2sUnits, s2cUnits []connUnit // what is in flight, as the specification sees it
		nReqGot, nRspGot := 0, 0
		var rspOrder []int
		var reqOrder []int
		faulted := false
		baseline := settledGoroutines()
		_ = baseline
		for si, st := range sess.Steps {
			if len(viol) > 0 {
				break
			}
			switch st.A {
			case "c-startup", "s-answer", "c-read-answer", "s-auth-success", "c-read-auth-success":
				handshake()
			case "fault":
				// C16: a fault between two steps. A receiver is parked on each side first, so that "blocked receivers return"
				// is exercised; then the fault; then the termination clauses.
				midHandshake := !handshakeDone
				var hsClientDone, hsServerDone bool
				if midHandshake {
					handshakeDone = true
					if cl != nil {
						go func() { _ = cl.InitiateHandshake(v, 1); hsClientDone = true }()
					}
					if sv != nil {
						go func() { _ = sv.AcceptHandshake(); hsServerDone = true }()
					}
					if si%2 == 0 {
						synctest.Wait() // let the handshake get as far as it can without the raw side
					}
				}
				srvRecvReturned, cliRecvReturned := true, true
				var parked client.InFlightRequest
				if sv != nil && !midHandshake {
					srvRecvReturned = false
					go func() { _, _ = sv.Receive(); srvRecvReturned = true }()
				}
				if cl != nil {
					for _, id := range reqOrder {
						if r, ok := inflight[id]; ok && !r.IsDone() {
							parked = r
							break
						}
					}
					if parked != nil {
						cliRecvReturned = false
						go func() { _, _ = cl.Receive(parked); cliRecvReturned = true }()
					}
				}
				synctest.Wait()
				closeReturned := true
				switch st.Kind {
				case "close-client":
					if cl != nil {
						closeReturned = do(func() { _ = cl.Close() })
					} else {
						_ = c0.Close()
					}
				case "close-server":
					if sv != nil {
						closeReturned = do(func() { _ = sv.Close() })
					} else {
						_ = s0.Close()
					}
				case "cancel":
					cancel()
				case "drop":
					_ = c0.Close()
					_ = s0.Close()
				}
				synctest.Wait()
				// let read timeouts and idle timers run out: nothing may depend on them to terminate, but they may fire
				time.Sleep(2 * time.Second)
				synctest.Wait()
				if !closeReturned {
					bad("fault|"+st.Kind+"|close-blocked", fmt.Sprintf("step %d: Close did not return", si))
				}
				if cl != nil {
					if !cl.IsClosed() {
						bad("fault|"+st.Kind+"|client-not-closed", fmt.Sprintf("step %d: the client connection is still open after %s", si, st.Kind))
					}
					for _, id := range reqOrder {
						r, ok := inflight[id]
						if !ok {
							continue
						}
						answered := false
						for _, got := range rspOrder[:nRspGot] {
							answered = answered || got == id
						}
						if answered {
							continue
						}
						// drain what may have been delivered, then the channel must be closed, done and with an error
						open := false
					drain:
						for {
							select {
							case _, ok := <-r.Incoming():
								if !ok {
									break drain
								}
							default:
								open = true
								break drain
							}
						}
						if open || !r.IsDone() {
							bad("fault|"+st.Kind+"|pending-request-open", fmt.Sprintf("step %d: request %d (stream %d) was awaiting a response: channel closed=%v IsDone=%v", si, id, r.StreamId(), !open, r.IsDone()))
						} else if r.Err() == nil && !responseSentFor(id, rspOrder) {
							bad("fault|"+st.Kind+"|pending-request-no-error", fmt.Sprintf("step %d: request %d completed without an error although no response was ever sent", si, id))
						}
					}
					if _, err := cl.Send(connRequest(v, 99, false, 0)); err == nil {
						bad("fault|"+st.Kind+"|client-send-accepted", fmt.Sprintf("step %d: Send succeeded on a closed client connection", si))
					}
					if !do(func() { _ = cl.Close() }) {
						bad("fault|"+st.Kind+"|second-close-blocked", "a second Close did not return")
					}
					if midHandshake && !hsClientDone {
						bad("fault|"+st.Kind+"|handshake-client-blocked", fmt.Sprintf("step %d: InitiateHandshake is still blocked", si))
					}
				}
				if sv != nil {
					if !sv.IsClosed() {
						bad("fault|"+st.Kind+"|server-not-closed", fmt.Sprintf("step %d: the server connection is still open after %s", si, st.Kind))
					}
					if err := sv.Send(connResponse(v, 1, 1, false, 0)); err == nil {
						bad("fault|"+st.Kind+"|server-send-accepted", fmt.Sprintf("step %d: Send succeeded on a closed server connection", si))
					}
					if !do(func() { _ = sv.Close() }) {
						bad("fault|"+st.Kind+"|second-close-blocked", "a second Close did not return")
					}
					if midHandshake && !hsServerDone {
						bad("fault|"+st.Kind+"|handshake-server-blocked", fmt.Sprintf("step %d: AcceptHandshake is still blocked", si))
					}
				}
				if !srvRecvReturned {
					bad("fault|"+st.Kind+"|server-receiver-blocked", fmt.Sprintf("step %d: a goroutine blocked in CqlServerConnection.Receive did not return", si))
				}
				if !cliRecvReturned {
					bad("fault|"+st.Kind+"|client-receiver-blocked", fmt.Sprintf("step %d: a goroutine blocked in Receive on a pending request did not return", si))
				}
				faulted = true
			case "c-send":
				for k, id := range st.Ids {
					reqFrames[id] = connRequest(v, id, big[id] && cl == nil, variant+id+k)
					reqOrder = append(reqOrder, id)
				}
				if cl != nil {
					for _, id := range st.Ids {
						f := reqFrames[id].DeepCopy()
						if variant%2 == 0 {
							f.Header.StreamId = 0 // managed stream id
						}
						if (variant+id)%3 != 0 && (comp != primitive.CompressionNone || cfg.Modern) {
							f.SetCompress(true) // the caller asks for compression: a matter of the hop, never of a segment's envelopes
						}
						r, err := cl.Send(f)
						if err != nil {
							bad("client-send", fmt.Sprintf("step %d: Send(request %d): %v", si, id, err))
							break
						}
						inflight[id] = r
						streamOf[id] = r.StreamId()
						reqFrames[id].Header.StreamId = r.StreamId()
					}
					synctest.Wait()
				} else {
					for _, id := range st.Ids {
						streamOf[id] = int16(id)
					}
					writeUnits(rawC, st.Pack, reqFrames)
				}
				c2sUnits = append(c2sUnits, st.Pack...)
			case "c-send-dup":
				// C09 / C10: the application re-uses the stream id of a request still awaiting its response: refused, nothing disturbed
				if cl != nil && variant%2 == 1 {
					id := st.Ids[0]
					f := connRequest(v, id, false, variant+1)
					f.Header.StreamId = streamOf[id]
					if r, err := cl.Send(f); err == nil {
						bad("C10|duplicate-stream-id-accepted", fmt.Sprintf("step %d: a second Send with stream id %d was accepted (request %d is still awaiting its response); it got stream id %d", si, streamOf[id], id, r.StreamId()))
					}
					synctest.Wait()
					if r := inflight[id]; r.IsDone() {
						bad("C10|duplicate-send-completed-the-original", fmt.Sprintf("step %d: the refused duplicate Send completed the original request %d (stream id %d): err=%v", si, id, streamOf[id], r.Err()))
					}
				}
			case "s-read":
				u := c2sUnits[0]
				c2sUnits = c2sUnits[1:]
				n := deliveredBy(u)
				if sv != nil {
					for k := 0; k < n; k++ {
						var f *frame.Frame
						var err error
						if !do(func() { f, err = sv.Receive() }) || err != nil {
							bad("server-receive", fmt.Sprintf("step %d: the server application did not receive request #%d (err=%v)", si, nReqGot+1, err))
							break
						}
						srvGot = append(srvGot, f)
					}
				} else {
					pu, ok, err := rawS.readUnit()
					if !ok || err != nil {
						bad("raw-server-read", fmt.Sprintf("step %d: no complete %s on the wire: %v", si, u.K, err))
						break
					}
					if pu.kind != u.K {
						bad("wire|unit-kind", fmt.Sprintf("step %d: the client sent a %q unit, the specification says %q", si, pu.kind, u.K))
					}
					for _, nn := range pu.notes {
						bad("wire|envelope-flag", nn)
					}
					srvGot = append(srvGot, pu.frames...)
					if len(pu.frames) != n {
						bad("raw-server-count", fmt.Sprintf("step %d: unit carried %d envelopes, %d expected", si, len(pu.frames), n))
					}
				}
				for ; nReqGot < len(srvGot); nReqGot++ {
					id := reqOrder[nReqGot]
					if ok, why := sameFrame(srvGot[nReqGot], reqFrames[id]); !ok {
						bad("request-differs", fmt.Sprintf("step %d: request %d arrived different from what was sent: %s", si, id, why))
					}
				}
			case "s-send":
				for k, id := range st.Ids {
					switch {
					case id < 0: // C10: an event pushed by the server (stream id -1)
						rspFrames[id] = frame.NewFrame(v, -1, &message.StatusChangeEvent{ChangeType: primitive.StatusChangeTypeDown,
							Address: &primitive.Inet{Addr: net.IPv4(10, 0, 0, byte(-id)), Port: 9042}})
					case id > 100: // C10: a response for a stream id no request carries
						rspFrames[id] = connResponse(v, int16(60+id-100), id, false, variant+id+k) // (fits the one-byte stream ids of v2)
					default:
						rspFrames[id] = connResponse(v, streamOf[id], id, big[id] && sv == nil, variant+id+k)
					}
					rspOrder = append(rspOrder, id)
				}
				if sv != nil {
					for _, id := range st.Ids {
						out := rspFrames[id].DeepCopy()
						if (variant+id)%3 != 1 && (comp != primitive.CompressionNone || cfg.Modern) {
							out.SetCompress(true)
						}
						if err := sv.Send(out); err != nil {
							bad("server-send", fmt.Sprintf("step %d: Send(response %d): %v", si, id, err))
						}
					}
					synctest.Wait()
				} else {
					writeUnits(rawS, st.Pack, rspFrames)
				}
				s2cUnits = append(s2cUnits, st.Pack...)
			case "c-read":
				u := s2cUnits[0]
				s2cUnits = s2cUnits[1:]
				n := deliveredBy(u)
				if cl != nil {
					for k := 0; k < n; k++ {
						id := rspOrder[nRspGot]
						var f *frame.Frame
						var err error
						if id < 0 { // an event: on the event channel, equal to what was pushed
							synctest.Wait()
							select {
							case ev, ok := <-cl.EventChannel():
								if !ok || ev == nil {
									bad("C10|event-channel-closed", fmt.Sprintf("step %d: the event channel is closed", si))
								} else if same, why := sameFrame(ev, rspFrames[id]); !same {
									bad("C10|event-differs", fmt.Sprintf("step %d: event %d arrived different from what was pushed: %s", si, -id, why))
								}
							default:
								bad("C10|event-not-delivered", fmt.Sprintf("step %d: event %d pushed by the server is not on the client's event channel", si, -id))
							}
							nRspGot++
							continue
						}
						if id > 100 { // a response nobody waits for: dropped, the connection lives on
							synctest.Wait()
							if cl.IsClosed() {
								bad("C10|spurious-response-closed-connection", fmt.Sprintf("step %d: a response for an unknown stream id closed the connection", si))
							}
							nRspGot++
							continue
						}
						if !do(func() { f, err = cl.Receive(inflight[id]) }) || err != nil || f == nil {
							bad("client-receive", fmt.Sprintf("step %d: request %d did not get its response (err=%v, frame=%v)", si, id, err, f != nil))
							break
						}
						if ok, why := sameFrame(f, rspFrames[id]); !ok {
							bad("response-differs", fmt.Sprintf("step %d: response to request %d arrived different from what was sent: %s", si, id, why))
						}
						nRspGot++
					}
				} else {
					pu, ok, err := rawC.readUnit()
					if !ok || err != nil {
						bad("raw-client-read", fmt.Sprintf("step %d: no complete %s on the wire: %v", si, u.K, err))
						break
					}
					if pu.kind != u.K {
						bad("wire|unit-kind", fmt.Sprintf("step %d: the server sent a %q unit, the specification says %q", si, pu.kind, u.K))
					}
					for _, nn := range pu.notes {
						bad("wire|envelope-flag", nn)
					}
					cliGot = append(cliGot, pu.frames...)
					for ; nRspGot < len(cliGot); nRspGot++ {
						id := rspOrder[nRspGot]
						if ok, why := sameFrame(cliGot[nRspGot], rspFrames[id]); !ok {
							bad("response-differs", fmt.Sprintf("step %d: response %d arrived different from what was sent: %s", si, id, why))
						}
					}
				}
			}
		}
		// C10: exactly once: no request holds a frame nobody accounted for, no event is left over
		if cl != nil && !faulted && len(viol) == 0 {
			synctest.Wait()
			for id, r := range inflight {
				select {
				case f, ok := <-r.Incoming():
					if ok && f != nil {
						bad("C10|extra-frame-in-request", fmt.Sprintf("request %d (stream %d) holds a frame beyond its response: %v", id, r.StreamId(), f.Header))
					}
				default:
				}
			}
			if ch := cl.EventChannel(); ch != nil {
				select {
				case ev, ok := <-ch:
					if ok && ev != nil {
						bad("C10|extra-event", fmt.Sprintf("an event nobody pushed (or a response) is on the event channel: %v", ev.Header))
					}
				default:
				}
			}
		}
		// lib-lib: parse the tapped bytes with the raw reader: the wire itself must conform
		if cfg.Rig == "lib-lib" && len(viol) == 0 {
			for dir, tap := range map[string]*tapConn{"client->server": ctap, "server->client": stap} {
				tap.mu.Lock()
				data := append([]byte{}, tap.out.Bytes()...)
				tap.mu.Unlock()
				rd := &rawEnd{version: v, comp: comp}
				rd.in.Write(data)
				nunits := 0
				for rd.in.Len() > 0 {
					if nunits >= 1 {
						rd.modern = cfg.Modern // everything after STARTUP, resp. after its answer
					}
					pu, ok, err := rd.readUnit()
					if !ok || err != nil {
						bad("wire|tap-parse|"+dir, fmt.Sprintf("bytes on the wire (%s) after %d units do not parse as the %v framing: %v", dir, nunits, map[bool]string{true: "segment", false: "legacy"}[rd.modern], err))
						break
					}
					for _, nn := range pu.notes {
						bad("wire|envelope-flag", dir+": "+nn)
					}
					nunits++
				}
			}
		}
		if faulted {
			_ = c0.Close()
			_ = s0.Close()
			cancel()
			synctest.Wait()
			time.Sleep(3 * time.Hour) // idle timeouts, read timeouts: everything that may still be armed
			synctest.Wait()
			// the raw ends' pump goroutines exit when their pipe end is closed; whatever else is left belongs to the library
			if left := settledGoroutines() - baseline0; left > 0 {
				bad("fault|goroutines-survive", fmt.Sprintf("%d goroutine(s) of the connection survive the fault and the closes", left))
			}
		}
		// shut down: close and let the bubble drain
		if cl != nil {
			_ = cl.Close()
		}
		if sv != nil {
			_ = sv.Close()
		}
		_ = c0.Close()
		_ = s0.Close()
		cancel()
		synctest.Wait()
	})
	return viol
}

func hasLeak(viol []connViolation) bool {
	for _, x := range viol {
		if strings.HasSuffix(x.Sig, "goroutines-survive") {
			return true
		}
	}
	return false
}

func dropLeak(viol []connViolation) []connViolation {
	var out []connViolation
	for _, x := range viol {
		if !strings.HasSuffix(x.Sig, "goroutines-survive") {
			out = append(out, x)
		}
	}
	return out
}

func responseSentFor(id int, rspOrder []int) bool {
	for _, x := range rspOrder {
		if x == id {
			return true
		}
	}
	return false
}

func connVersions(modern bool) []primitive.ProtocolVersion {
	if modern {
		return []primitive.ProtocolVersion{primitive.ProtocolVersion5}
	}
	return []primitive.ProtocolVersion{primitive.ProtocolVersion2, primitive.ProtocolVersion3, primitive.ProtocolVersion4, primitive.ProtocolVersionDse1, primitive.ProtocolVersionDse2}
}

func TestConnReplay(t *testing.T) {
	path := os.Getenv("VERIF_SESSIONS")
	if path == "" {
		t.Skip("VERIF_SESSIONS not set")
	}
	var cfg connConfig
	if err := json.Unmarshal([]byte(os.Getenv("VERIF_CONN")), &cfg); err != nil {
		t.Fatalf("VERIF_CONN: %v", err)
	}
	shard, _ := strconv.Atoi(os.Getenv("VERIF_SHARD"))
	nshards, _ := strconv.Atoi(os.Getenv("VERIF_NSHARDS"))
	if nshards == 0 {
		nshards = 1
	}
	var sessions []connSession
	if err := readNDJSON(path, func(line []byte) error {
		var s connSession
		if err := json.Unmarshal(line, &s); err != nil {
			return err
		}
		sessions = append(sessions, s)
		return nil
	}); err != nil {
		t.Fatal(err)
	}
	rep := &Report{}
	distinct := map[string]bool{}
	n := 0
	for si, sess := range sessions {
		combo := 0
		for _, v := range connVersions(cfg.Modern) {
			for _, comp := range []primitive.Compression{primitive.CompressionNone, primitive.CompressionLz4, primitive.CompressionSnappy} {
				if !v.SupportsCompression(comp) || (cfg.Modern && comp == primitive.CompressionSnappy) {
					continue
				}
				combo++
				if cfg.Spread && (si+combo)%7 != 0 {
					continue
				}
				n++
				if n%nshards != shard {
					continue
				}
				rep.Evaluations++
				viol := runConnSession(t, cfg, sess, v, comp, si)
				// a goroutine count is a global, racy observation (see inflight_seq_test.go): a real leak reproduces every time
				for retry := 0; retry < 2 && hasLeak(viol); retry++ {
					if again := runConnSession(t, cfg, sess, v, comp, si); !hasLeak(again) {
						viol = dropLeak(viol)
					}
				}
				key := fmt.Sprintf("%s/%s/%s/auth=%v/session%d", cfg.Rig, versionName(v), comp, cfg.Auth, si)
				for _, x := range viol {
					rep.violate("conn|"+cfg.Rig+"|"+x.Sig, fmt.Sprintf("%s: %s", key, x.Detail),
						map[string]interface{}{"check": "conn", "config": cfg, "version": versionName(v), "compression": comp, "session": sess.Steps})
				}
				if len(viol) == 0 {
					distinct[key] = true
				}
			}
		}
		if len(rep.Samples) < 2 && len(sess.Steps) > 8 {
			rep.Samples = append(rep.Samples, sess)
		}
	}
	rep.Distinct = len(distinct)
	b, _ := json.Marshal(rep)
	fmt.Println("REPORT " + string(b))
}

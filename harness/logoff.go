package main

import "github.com/rs/zerolog"

func init() {
	zerolog.SetGlobalLevel(zerolog.Disabled)
}

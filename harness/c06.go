package main

import (
	"bytes"
	"encoding/json"
	"flag"
	"fmt"
	"math/rand"
	"os"
	"sync"

	"github.com/datastax/go-cassandra-native-protocol/client"
	"github.com/datastax/go-cassandra-native-protocol/primitive"
	"github.com/datastax/go-cassandra-native-protocol/segment"
)

func init() {
	subcommands["c06"] = c06
}

// contentOf builds payload bytes by class; the first five classes are defined identically in specs/SegmentVec.tla.
func contentOf(class string, n int, rnd *rand.Rand) []byte {
	b := make([]byte, n)
	switch class {
	case "zeros":
	case "ones":
		for i := range b {
			b[i] = 255
		}
	case "inc":
		for i := range b {
			b[i] = byte(i % 256)
		}
	case "p3":
		p := []byte{171, 205, 239}
		for i := range b {
			b[i] = p[i%3]
		}
	case "mix":
		for k := range b {
			i := k + 1
			b[k] = byte((i*37 + (i/3)*101 + 13) % 256)
		}
	case "rep64":
		for i := range b {
			b[i] = byte((i % 64) * 3)
		}
	case "text":
		words := []string{"SELECT ", "* ", "FROM ", "system.local ", "WHERE ", "key", "=", "'local' ", "AND ", "token(id) > ? "}
		i := 0
		for i < n {
			w := words[rnd.Intn(len(words))]
			i += copy(b[i:], w)
		}
	case "rand":
		rnd.Read(b)
	case "sparse": // mostly zeros with random islands: very high but not maximal ratio
		for i := 0; i < n/97+1 && n > 0; i++ {
			b[rnd.Intn(n)] = byte(rnd.Intn(256))
		}
	default:
		panic("unknown content class " + class)
	}
	return b
}

type segVec struct {
	Case struct {
		Kind  string `json:"kind"`
		Class string `json:"class"`
		Len   int    `json:"len"`
		CLen  int    `json:"cLen"`
		ULen  int    `json:"uLen"`
		Sc    bool   `json:"sc"`
	} `json:"case"`
	Bytes []int `json:"bytes"`
}

func intsToBytes(xs []int) []byte {
	b := make([]byte, len(xs))
	for i, x := range xs {
		b[i] = byte(x)
	}
	return b
}

func bytesToInts(b []byte) []int {
	xs := make([]int, len(b))
	for i, x := range b {
		xs[i] = int(x)
	}
	return xs
}

// segEvent is one recorded execution of the real segment codec, validated by specs/SegmentTrace.tla.
type segEvent struct {
	N       int    `json:"n"`    // payload length
	T       int    `json:"t"`    // transmitted length
	Sc      bool   `json:"sc"`   // self-contained
	Comp    string `json:"comp"` // "none" | "lz4"
	H       []int  `json:"h"`    // header bytes
	Crc     []int  `json:"crc"`  // CRC-24 bytes
	PCrc    []int  `json:"pcrc"` // CRC-32 bytes
	Payload []int  `json:"payload"`
	HasP    bool   `json:"hasp"` // payload (as transmitted) included
	Class   string `json:"class"`
}

func encodeSeg(codec segment.Codec, payload []byte, sc bool) ([]byte, error) {
	seg := &segment.Segment{Header: &segment.Header{IsSelfContained: sc}, Payload: &segment.Payload{UncompressedData: payload}}
	buf := &bytes.Buffer{}
	err := codec.EncodeSegment(seg, buf)
	return buf.Bytes(), err
}

func c06(args []string) int {
	fs := flag.NewFlagSet("c06", flag.ExitOnError)
	vecPath := fs.String("vec", "", "vectors from SegmentVec.tla (ndjson)")
	evOut := fs.String("events", "", "where to write recorded events for SegmentTrace.tla")
	seedv := fs.Int64("seed", 1, "seed")
	stride := fs.Int("stride", 257, "sweep stride over lengths 0..131071 (1 = all lengths)")
	maxEvents := fs.Int("max-events", 3000, "events sampled for TLC validation")
	_ = fs.Parse(args)
	rnd := rand.New(rand.NewSource(*seedv))
	rep := &Report{}
	plain := segment.NewCodec()
	lz4 := segment.NewCodecWithCompression(client.NewPayloadCompressor(primitive.CompressionLz4))
	distinct := map[string]bool{}
	bad := func(sig, detail string, replay interface{}) { rep.violate("c06|"+sig, detail, replay) }

	// ---- V: vectors computed by TLC from Segment.tla
	anchor := 0
	err := readNDJSON(*vecPath, func(line []byte) error {
		var v segVec
		if err := json.Unmarshal(line, &v); err != nil {
			return err
		}
		want := intsToBytes(v.Bytes)
		c := v.Case
		rp := map[string]interface{}{"check": "c06-vector", "case": c}
		rep.Evaluations++
		switch c.Kind {
		case "hdrU":
			payload := contentOf("zeros", c.Len, rnd)
			got, err := encodeSeg(plain, payload, c.Sc)
			if err != nil {
				bad("encode-error", fmt.Sprintf("len %d: %v", c.Len, err), rp)
				break
			}
			if !bytes.Equal(got[:6], want) {
				bad("header-bytes", fmt.Sprintf("len %d sc %v: header+crc24 % x, specification % x", c.Len, c.Sc, got[:6], want), rp)
			}
			if ref := refSegmentUncompressed(payload, c.Sc); !bytes.Equal(ref[:6], want) {
				return fmt.Errorf("refwire disagrees with TLC on header for len %d", c.Len)
			}
			anchor++
			distinct[fmt.Sprintf("hdrU/%d/%v", c.Len, c.Sc)] = true
		case "hdrC":
			// the reference packer must agree with the specification on compressed-format headers
			h := refHeaderCompressed(c.CLen, c.ULen, c.Sc)
			ref := append(append([]byte{}, h...), le(uint64(refCrc24(h)), 3)...)
			if !bytes.Equal(ref, want) {
				return fmt.Errorf("refwire disagrees with TLC on compressed header (%d,%d,%v)", c.CLen, c.ULen, c.Sc)
			}
			anchor++
			if c.ULen == 0 { // raw fallback with this transmitted length: the real LZ4 codec must accept it
				payload := contentOf("rand", c.CLen, rnd)
				seg := refSegmentCompressed(payload, 0, c.Sc)
				if !bytes.Equal(seg[:8], want) {
					return fmt.Errorf("refwire segment header mismatch")
				}
				d, err := lz4.DecodeSegment(bytes.NewReader(seg))
				if err != nil {
					bad("decode-raw-fallback", fmt.Sprintf("cLen %d uLen 0: %v", c.CLen, err), rp)
				} else if !bytes.Equal(d.Payload.UncompressedData, payload) || d.Header.IsSelfContained != c.Sc {
					bad("decode-raw-fallback-payload", fmt.Sprintf("cLen %d uLen 0: wrong payload or flag", c.CLen), rp)
				} else if int(d.Header.UncompressedPayloadLength) != c.CLen {
					bad("decode-raw-fallback-length", fmt.Sprintf("cLen %d: header says uncompressed length %d", c.CLen, d.Header.UncompressedPayloadLength), rp)
				}
				distinct[fmt.Sprintf("hdrC/%d/%v", c.CLen, c.Sc)] = true
			}
		case "full", "raw":
			payload := contentOf(c.Class, c.Len, rnd)
			codec := plain
			if c.Kind == "raw" {
				codec = lz4
			}
			got, err := encodeSeg(codec, payload, c.Sc)
			if err != nil {
				bad("encode-error", fmt.Sprintf("%s len %d: %v", c.Kind, c.Len, err), rp)
				break
			}
			if !bytes.Equal(got, want) {
				bad(c.Kind+"-bytes", fmt.Sprintf("%s %s len %d sc %v: emitted % x, specification % x", c.Kind, c.Class, c.Len, c.Sc, got, want), rp)
			}
			d, err := codec.DecodeSegment(bytes.NewReader(want))
			if err != nil {
				bad(c.Kind+"-decode-spec-bytes", fmt.Sprintf("%s len %d: %v", c.Class, c.Len, err), rp)
			} else if !bytes.Equal(d.Payload.UncompressedData, payload) || d.Header.IsSelfContained != c.Sc || int(d.Header.UncompressedPayloadLength) != c.Len {
				bad(c.Kind+"-decode-spec-bytes-value", fmt.Sprintf("%s len %d", c.Class, c.Len), rp)
			}
			var ref []byte
			if c.Kind == "raw" {
				ref = refSegmentCompressed(payload, 0, c.Sc)
			} else {
				ref = refSegmentUncompressed(payload, c.Sc)
			}
			if !bytes.Equal(ref, want) {
				return fmt.Errorf("refwire disagrees with TLC on %s segment %s/%d", c.Kind, c.Class, c.Len)
			}
			anchor++
			distinct[fmt.Sprintf("%s/%s/%d/%v", c.Kind, c.Class, c.Len, c.Sc)] = true
		case "refuse":
			payload := make([]byte, c.Len)
			for name, codec := range map[string]segment.Codec{"none": plain, "lz4": lz4} {
				out, err := encodeSeg(codec, payload, true)
				if err == nil {
					bad("oversize-accepted", fmt.Sprintf("payload of %d bytes accepted by %s codec (%d bytes emitted)", c.Len, name, len(out)), rp)
				}
			}
			distinct[fmt.Sprintf("refuse/%d", c.Len)] = true
		}
		return nil
	})
	if err != nil {
		fmt.Fprintln(os.Stderr, err)
		return 2
	}
	if anchor == 0 {
		fmt.Fprintln(os.Stderr, "no vectors")
		return 2
	}

	// ---- sweep over lengths: round trip, layout against the (anchored) reference, events for TLC
	var lengths []int
	seen := map[int]bool{}
	add := func(n int) {
		if n >= 0 && n <= segment.MaxPayloadLength && !seen[n] {
			seen[n] = true
			lengths = append(lengths, n)
		}
	}
	for n := 0; n <= segment.MaxPayloadLength; n += *stride {
		add(n)
	}
	for k := 0; k <= 17; k++ {
		for d := -2; d <= 2; d++ {
			add(1<<uint(k) + d)
		}
	}
	for n := 0; n < 70; n++ {
		add(n)
	}
	add(segment.MaxPayloadLength)
	add(segment.MaxPayloadLength - 1)
	classes := []string{"zeros", "rep64", "text", "rand", "sparse", "mix"}
	type job struct {
		n     int
		class string
		sc    bool
		seed  int64
	}
	var jobs []job
	for i, n := range lengths {
		for ci, cl := range classes {
			if *stride > 1 && n >= 70 && (i+ci)%3 != 0 && n != segment.MaxPayloadLength {
				continue // quick tier: a third of the class x length grid
			}
			jobs = append(jobs, job{n, cl, (i+ci)%2 == 0, rnd.Int63()})
		}
	}
	var mu sync.Mutex
	var events []segEvent
	evEvery := len(jobs)*2 / *maxEvents + 1
	var wg sync.WaitGroup
	work := make(chan int, 64)
	for w := 0; w < 16; w++ {
		wg.Add(1)
		go func() {
			defer wg.Done()
			for ji := range work {
				j := jobs[ji]
				r := rand.New(rand.NewSource(j.seed))
				payload := contentOf(j.class, j.n, r)
				for _, comp := range []string{"none", "lz4"} {
					codec := plain
					if comp == "lz4" {
						codec = lz4
					}
					rp := map[string]interface{}{"check": "c06-sweep", "len": j.n, "class": j.class, "sc": j.sc, "comp": comp, "seed": j.seed}
					tag := fmt.Sprintf("%s len %d %s sc=%v", comp, j.n, j.class, j.sc)
					var problem, sig string
					var ev *segEvent
					func() {
						defer func() {
							if x := recover(); x != nil {
								sig, problem = "panic", fmt.Sprint(x)
							}
						}()
						enc, err := encodeSeg(codec, payload, j.sc)
						if err != nil {
							sig, problem = "encode-error", err.Error()
							return
						}
						p, ok := refParse(enc, comp == "lz4")
						if !ok || len(p.Rest) != 0 {
							sig, problem = "layout", "emitted bytes do not parse as one segment of the declared lengths"
							return
						}
						// layout against the reference, re-anchored to TLC above
						if !bytes.Equal(p.Crc24, le(uint64(refCrc24(p.Header)), 3)) {
							sig, problem = "crc24", fmt.Sprintf("header % x crc24 % x", p.Header, p.Crc24)
							return
						}
						if !bytes.Equal(p.Crc32, le(uint64(refCrc32(p.Transmitted)), 4)) {
							sig, problem = "crc32", fmt.Sprintf("crc32 % x", p.Crc32)
							return
						}
						if p.Pad != 0 || p.SelfCont != j.sc {
							sig, problem = "header-flag", fmt.Sprintf("header % x", p.Header)
							return
						}
						if comp == "none" {
							if p.ULen != j.n || !bytes.Equal(p.Transmitted, payload) {
								sig, problem = "header-length", fmt.Sprintf("header % x", p.Header)
								return
							}
						} else if p.ULen == 0 {
							if p.CLen != j.n || !bytes.Equal(p.Transmitted, payload) {
								sig, problem = "raw-fallback", fmt.Sprintf("header % x for %d payload bytes", p.Header, j.n)
								return
							}
						} else {
							if p.ULen != j.n {
								sig, problem = "header-length", fmt.Sprintf("header % x declares uncompressed %d", p.Header, p.ULen)
								return
							}
							// the transmitted block must be an LZ4 block of the payload (opened with the LZ4 library itself)
							out := make([]byte, j.n)
							if m, err := lz4Uncompress(p.Transmitted, out); err != nil || m != j.n || !bytes.Equal(out, payload) {
								sig, problem = "lz4-block", fmt.Sprintf("transmitted block does not decompress to the payload: %v", err)
								return
							}
						}
						dec, err := codec.DecodeSegment(bytes.NewReader(enc))
						if err != nil {
							sig, problem = "roundtrip-decode-error", err.Error()
							return
						}
						if !bytes.Equal(dec.Payload.UncompressedData, payload) {
							sig, problem = "roundtrip-payload", "decoded payload differs"
							return
						}
						if dec.Header.IsSelfContained != j.sc {
							sig, problem = "roundtrip-flag", "self-contained flag differs"
							return
						}
						if int(dec.Header.UncompressedPayloadLength) != j.n {
							sig, problem = "roundtrip-length", fmt.Sprintf("decoded header uncompressed length %d", dec.Header.UncompressedPayloadLength)
							return
						}
						if comp == "lz4" && p.ULen != 0 && int(dec.Header.CompressedPayloadLength) != p.CLen {
							sig, problem = "roundtrip-length", fmt.Sprintf("decoded header compressed length %d vs %d on the wire", dec.Header.CompressedPayloadLength, p.CLen)
							return
						}
						if ji%evEvery == 0 || j.n < 70 {
							e := segEvent{N: j.n, T: len(p.Transmitted), Sc: j.sc, Comp: comp, H: bytesToInts(p.Header), Crc: bytesToInts(p.Crc24),
								PCrc: bytesToInts(p.Crc32), Class: j.class, Payload: []int{}}
							if len(p.Transmitted) <= 48 {
								e.HasP, e.Payload = true, bytesToInts(p.Transmitted)
							}
							ev = &e
						}
					}()
					mu.Lock()
					rep.Evaluations++
					if problem != "" && comp == "lz4" && sig != "panic" && !lz4DependencyRoundTrips(payload) {
						bad("lz4-dependency-corrupts-block", tag+": "+sig+": "+problem+" (pierrec/lz4 CompressBlock->UncompressBlock does not reproduce this input)", rp)
					} else if problem != "" {
						bad("sweep|"+comp+"|"+sig, tag+": "+problem, rp)
					} else {
						distinct[fmt.Sprintf("sweep/%s/%d/%s", comp, j.n, j.class)] = true
					}
					if ev != nil {
						events = append(events, *ev)
					}
					mu.Unlock()
				}
			}
		}()
	}
	for i := range jobs {
		work <- i
	}
	close(work)
	wg.Wait()
	if *evOut != "" {
		f, err := os.Create(*evOut)
		if err != nil {
			fmt.Fprintln(os.Stderr, err)
			return 2
		}
		for _, e := range events {
			b, _ := json.Marshal(e)
			f.Write(b)
			f.Write([]byte("\n"))
		}
		f.Close()
	}
	rep.Distinct = len(distinct)
	rep.Extra = map[string]interface{}{"vectors_anchoring_refwire": anchor, "sweep_jobs": len(jobs) * 2, "lengths": len(lengths), "events": len(events)}
	for i := 0; i < len(events) && len(rep.Samples) < 3; i += len(events)/3 + 1 {
		rep.Samples = append(rep.Samples, events[i])
	}
	return rep.print()
}

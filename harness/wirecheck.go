package main

import (
	"bytes"
	"encoding/json"
	"flag"
	"fmt"
	"io"
	"os"
	"strings"
	"sync"

	"github.com/datastax/go-cassandra-native-protocol/client"
	"github.com/datastax/go-cassandra-native-protocol/frame"
	"github.com/datastax/go-cassandra-native-protocol/message"
	"github.com/datastax/go-cassandra-native-protocol/primitive"
)

func init() {
	subcommands["wire"] = wireCheck
	subcommands["wire-headers"] = wireHeaders
}

type wireVec struct {
	Frame      json.RawMessage `json:"frame"`
	Chunks     []chunk         `json:"chunks"`
	BodyLen    int             `json:"bodylen"`
	DecodeOnly bool            `json:"decodeonly"`
}

// nonSeekReader hides Seek so that DiscardBody takes its copying path.
type nonSeekReader struct{ r io.Reader }

func (n nonSeekReader) Read(p []byte) (int, error) { return n.r.Read(p) }

type wireResult struct {
	viol []Violation
	key  string
}

func msgCodecFor(op primitive.OpCode) message.Codec {
	for _, c := range message.DefaultMessageCodecs {
		if c.GetOpCode() == op {
			return c
		}
	}
	return nil
}

func safely(f func()) (panicked string) {
	defer func() {
		if r := recover(); r != nil {
			panicked = fmt.Sprint(r)
		}
	}()
	f()
	return ""
}

// checkVector runs every C01/C02/C03/C05 clause on one TLC vector. Violation signatures start with the property id.
func checkVector(vec wireVec) (out []Violation, infra error) {
	var abs interface{}
	if err := json.Unmarshal(vec.Frame, &abs); err != nil {
		return nil, err
	}
	want := canonAbs(abs)
	am := abs.(map[string]interface{})
	kind := am["msg"].(map[string]interface{})["kind"].(string)
	vname := fmt.Sprintf("v%v", am["v"])
	tag := vname + "/" + kind
	rp := map[string]interface{}{"check": "wire-vector", "frame": abs}
	bad := func(prop, sig, detail string) {
		out = append(out, Violation{prop + "|" + sig, tag + ": " + detail + " | frame " + describeAbs(abs), rp})
	}
	if vec.DecodeOnly {
		// a frame the library's type model cannot express: only "specification-formatted bytes decode to the message they denote"
		spec := flattenChunks(vec.Chunks)
		if p := safely(func() {
			d, err := frame.NewCodec().DecodeFrame(bytes.NewReader(spec))
			if err != nil {
				bad("C02", "specbytes-decode-error|"+kind+"|decode-only", err.Error())
			} else if got := canonAbs(projectFrame(d)); got != want {
				bad("C02", "specbytes-value|"+kind+"|decode-only", firstDiff(got, want))
			}
		}); p != "" {
			bad("C02", "specbytes-decode-panic|"+kind+"|decode-only", p)
		}
		return out, nil
	}
	f0, err := buildFrame(abs)
	if err != nil {
		return nil, fmt.Errorf("%s: %v", tag, err)
	}
	if got := canonAbs(projectFrame(f0)); got != want {
		return nil, fmt.Errorf("%s: harness translation is not the identity: built %s from %s", tag, got, want)
	}
	v := f0.Header.Version
	hl := v.FrameHeaderLengthInBytes()
	plain := frame.NewCodec()
	raw := frame.NewRawCodec()

	// ---- encode (no compression): C02 bytes, C03 lengths
	var enc []byte
	if p := safely(func() {
		f := f0.DeepCopy()
		buf := &bytes.Buffer{}
		if err := plain.EncodeFrame(f, buf); err != nil {
			bad("C01", "encode-error|"+kind, "version-valid frame refused by EncodeFrame: "+err.Error())
			return
		}
		enc = buf.Bytes()
		end, fields, ok, why := matchChunks(vec.Chunks, enc, 0)
		if !ok {
			bad("C02", "bytes|"+kind, "emitted bytes differ from the specification: "+why)
		} else if end != len(enc) {
			bad("C02", "bytes-trailing|"+kind, fmt.Sprintf("%d bytes emitted beyond the specified %d", len(enc)-end, end))
		}
		_ = fields
		if int(f.Header.BodyLength) != len(enc)-hl {
			bad("C03", "declared-length|"+kind, fmt.Sprintf("Header.BodyLength %d but %d body bytes emitted", f.Header.BodyLength, len(enc)-hl))
		}
		if len(enc) >= hl {
			declared := int(int32(uint32(enc[hl-4])<<24 | uint32(enc[hl-3])<<16 | uint32(enc[hl-2])<<8 | uint32(enc[hl-1])))
			if declared != len(enc)-hl {
				bad("C03", "declared-length-on-wire|"+kind, fmt.Sprintf("length field on the wire %d but %d body bytes follow", declared, len(enc)-hl))
			}
		}
		// the message's own length calculator against its own encoder
		if mc := msgCodecFor(f0.Header.OpCode); mc != nil {
			mb := &bytes.Buffer{}
			if err := mc.Encode(f0.Body.Message, mb, v); err == nil {
				if n, err := mc.EncodedLength(f0.Body.Message, v); err != nil {
					bad("C03", "encoded-length-error|"+kind, err.Error())
				} else if n != mb.Len() {
					bad("C03", "encoded-length|"+kind, fmt.Sprintf("EncodedLength says %d, encoder wrote %d", n, mb.Len()))
				}
			}
		}
	}); p != "" {
		bad("C01", "encode-panic|"+kind, p)
	}
	if enc == nil {
		return out, nil
	}

	// ---- decode what was encoded: C01 round trip, C03 consumption
	decodeAndCompare := func(prop, what string, codec frame.Codec, data []byte) {
		if p := safely(func() {
			r := bytes.NewReader(data)
			d, err := codec.DecodeFrame(r)
			if err != nil {
				bad(prop, what+"-decode-error|"+kind, err.Error())
				return
			}
			if r.Len() != 0 {
				bad("C03", what+"-consumed|"+kind, fmt.Sprintf("decoder left %d of %d bytes unread", r.Len(), len(data)))
			}
			if int(d.Header.BodyLength) != len(data)-hl {
				bad("C03", what+"-decoded-bodylength|"+kind, fmt.Sprintf("decoded Header.BodyLength %d, body is %d bytes", d.Header.BodyLength, len(data)-hl))
			}
			if got := canonAbs(projectFrame(d)); got != want {
				bad(prop, what+"-value|"+kind, "decoded frame differs: "+firstDiff(got, want))
			}
		}); p != "" {
			bad(prop, what+"-decode-panic|"+kind, p)
		}
	}
	decodeAndCompare("C01", "roundtrip", plain, enc)

	// ---- C02: specification-formatted bytes (every admissible ordering / alternative, bounded) decode to the message
	for i, spec := range allFlattenings(vec.Chunks, 6) {
		// the length field belongs to the alternative chosen: make it consistent with this flattening
		n := len(spec) - hl
		spec[hl-4], spec[hl-3], spec[hl-2], spec[hl-1] = byte(n>>24), byte(n>>16), byte(n>>8), byte(n)
		if i > 0 || !bytes.Equal(spec, enc) {
			decodeAndCompare("C02", "specbytes", plain, spec)
		}
	}

	// ---- compression: C01 round trip with LZ4 / Snappy where the version allows and the opcode is compressible
	for _, comp := range []primitive.Compression{primitive.CompressionLz4, primitive.CompressionSnappy} {
		if !v.SupportsCompression(comp) {
			continue
		}
		fc := f0.DeepCopy()
		fc.SetCompress(true)
		if !fc.Header.Flags.Contains(primitive.HeaderFlagCompressed) {
			continue
		}
		codec := frame.NewCodecWithCompression(client.NewBodyCompressor(comp))
		if p := safely(func() {
			buf := &bytes.Buffer{}
			if err := codec.EncodeFrame(fc, buf); err != nil {
				bad("C01", "compressed-encode-error|"+kind, string(comp)+": "+err.Error())
				return
			}
			data := buf.Bytes()
			if int(fc.Header.BodyLength) != len(data)-hl {
				bad("C03", "compressed-declared-length|"+kind, fmt.Sprintf("%s: Header.BodyLength %d but %d body bytes emitted", comp, fc.Header.BodyLength, len(data)-hl))
			}
			// header bytes other than flags and length are those of the uncompressed frame
			if data[0] != enc[0] || data[1] != enc[1]|0x01 || !bytes.Equal(data[2:hl-4], enc[2:hl-4]) {
				bad("C02", "compressed-header|"+kind, fmt.Sprintf("%s: header % x vs uncompressed % x", comp, data[:hl], enc[:hl]))
			}
			r := bytes.NewReader(data)
			d, err := codec.DecodeFrame(r)
			if err != nil {
				bad("C01", "compressed-decode-error|"+kind, string(comp)+": "+err.Error())
				return
			}
			if r.Len() != 0 {
				bad("C03", "compressed-consumed|"+kind, fmt.Sprintf("%s: decoder left %d bytes unread", comp, r.Len()))
			}
			d.Header.Flags = d.Header.Flags.Remove(primitive.HeaderFlagCompressed)
			if got := canonAbs(projectFrame(d)); got != want {
				bad("C01", "compressed-value|"+kind, string(comp)+": decoded frame differs: "+firstDiff(got, want))
			}
		}); p != "" {
			bad("C01", "compressed-panic|"+kind, string(comp)+": "+p)
		}
	}

	// ---- C05: partial operations agree with the full codec
	if p := safely(func() {
		// DecodeRawFrame + ConvertFromRawFrame
		r := bytes.NewReader(enc)
		rf, err := raw.DecodeRawFrame(r)
		if err != nil {
			bad("C05", "rawframe-decode-error|"+kind, err.Error())
		} else {
			if r.Len() != 0 || len(rf.Body) != len(enc)-hl || !bytes.Equal(rf.Body, enc[hl:]) {
				bad("C05", "rawframe-body|"+kind, fmt.Sprintf("raw body %d bytes, %d left unread", len(rf.Body), r.Len()))
			}
			if cf, err := raw.ConvertFromRawFrame(rf); err != nil {
				bad("C05", "convert-from-raw-error|"+kind, err.Error())
			} else if got := canonAbs(projectFrame(cf)); got != want {
				bad("C05", "convert-from-raw-value|"+kind, firstDiff(got, want))
			}
			// re-encoding the raw frame gives the same bytes
			b2 := &bytes.Buffer{}
			if err := raw.EncodeRawFrame(rf, b2); err != nil {
				bad("C05", "rawframe-encode-error|"+kind, err.Error())
			} else if !bytes.Equal(b2.Bytes(), enc) {
				bad("C05", "rawframe-reencode|"+kind, "EncodeRawFrame(DecodeRawFrame(x)) differs from x")
			}
		}
		// DecodeHeader + {DecodeBody, DecodeRawBody, DiscardBody seekable / not seekable}
		for _, path := range []string{"body", "rawbody", "discard-seek", "discard-copy"} {
			var src io.Reader
			br := bytes.NewReader(append(append([]byte{}, enc...), 0xEE, 0xEE, 0xEE)) // bytes of a following frame
			src = br
			if path == "discard-copy" {
				src = nonSeekReader{br}
			}
			h, err := raw.DecodeHeader(src)
			if err != nil {
				bad("C05", "header-decode-error|"+kind, err.Error())
				continue
			}
			if int(h.BodyLength) != len(enc)-hl {
				bad("C05", "header-bodylength|"+kind, fmt.Sprintf("decoded header says %d, body is %d", h.BodyLength, len(enc)-hl))
			}
			switch path {
			case "body":
				b, err := raw.DecodeBody(h, src)
				if err != nil {
					bad("C05", "header+body-error|"+kind, err.Error())
				} else if got := canonAbs(projectFrame(&frame.Frame{Header: h, Body: b})); got != want {
					bad("C05", "header+body-value|"+kind, firstDiff(got, want))
				}
			case "rawbody":
				b, err := raw.DecodeRawBody(h, src)
				if err != nil {
					bad("C05", "header+rawbody-error|"+kind, err.Error())
				} else if !bytes.Equal(b, enc[hl:]) {
					bad("C05", "header+rawbody-bytes|"+kind, "raw body differs from the emitted body")
				}
			default:
				if err := raw.DiscardBody(h, src); err != nil {
					bad("C05", path+"-error|"+kind, err.Error())
				}
			}
			if br.Len() != 3 {
				bad("C05", "position-after-"+path+"|"+kind, fmt.Sprintf("%d bytes left, 3 expected (the next frame's)", br.Len()))
			}
		}
		// ConvertToRawFrame + EncodeRawFrame; EncodeHeader + EncodeBody
		f := f0.DeepCopy()
		if rf, err := raw.ConvertToRawFrame(f); err != nil {
			bad("C05", "convert-to-raw-error|"+kind, err.Error())
		} else {
			b := &bytes.Buffer{}
			if err := raw.EncodeRawFrame(rf, b); err != nil {
				bad("C05", "convert-to-raw-encode-error|"+kind, err.Error())
			} else if _, _, ok, why := matchChunks(vec.Chunks, b.Bytes(), 0); !ok {
				bad("C05", "convert-to-raw-bytes|"+kind, why)
			} else {
				decodeAndCompare("C05", "convert-to-raw", plain, b.Bytes())
			}
		}
		f = f0.DeepCopy()
		f.Header.BodyLength = int32(len(enc) - hl)
		b := &bytes.Buffer{}
		if err := raw.EncodeHeader(f.Header, b); err != nil {
			bad("C05", "encode-header-error|"+kind, err.Error())
		} else if err := raw.EncodeBody(f.Header, f.Body, b); err != nil {
			bad("C05", "encode-body-error|"+kind, err.Error())
		} else if _, _, ok, why := matchChunks(vec.Chunks, b.Bytes(), 0); !ok {
			bad("C05", "header+body-bytes|"+kind, why)
		}
	}); p != "" {
		bad("C05", "panic|"+kind, p)
	}
	return out, nil
}

func firstDiff(got, want string) string {
	i := 0
	for i < len(got) && i < len(want) && got[i] == want[i] {
		i++
	}
	lo := i - 60
	if lo < 0 {
		lo = 0
	}
	hiG, hiW := i+100, i+100
	if hiG > len(got) {
		hiG = len(got)
	}
	if hiW > len(want) {
		hiW = len(want)
	}
	return fmt.Sprintf("got ...%s... want ...%s...", strings.ReplaceAll(got[lo:hiG], "\"", "'"), strings.ReplaceAll(want[lo:hiW], "\"", "'"))
}

func wireCheck(args []string) int {
	fs := flag.NewFlagSet("wire", flag.ExitOnError)
	vecPath := fs.String("vec", "", "vectors from WireShapes.tla (ndjson)")
	_ = fs.Parse(args)
	var vecs []wireVec
	if err := readNDJSON(*vecPath, func(line []byte) error {
		var v wireVec
		if err := json.Unmarshal(line, &v); err != nil {
			return err
		}
		vecs = append(vecs, v)
		return nil
	}); err != nil || len(vecs) == 0 {
		fmt.Fprintln(os.Stderr, "vectors:", err)
		return 2
	}
	rep := &Report{}
	var mu sync.Mutex
	var infra error
	var wg sync.WaitGroup
	work := make(chan int, 64)
	kinds := map[string]int{}
	for w := 0; w < 16; w++ {
		wg.Add(1)
		go func() {
			defer wg.Done()
			for i := range work {
				viol, err := checkVector(vecs[i])
				mu.Lock()
				if err != nil && infra == nil {
					infra = err
				}
				rep.Evaluations++
				for _, x := range viol {
					rep.violate(x.Sig, x.Detail, x.Replay)
				}
				mu.Unlock()
			}
		}()
	}
	for i := range vecs {
		work <- i
	}
	close(work)
	wg.Wait()
	if infra != nil {
		fmt.Fprintln(os.Stderr, "harness fault:", infra)
		return 2
	}
	for _, v := range vecs {
		var a struct {
			V   int `json:"v"`
			Msg struct {
				Kind string `json:"kind"`
			} `json:"msg"`
		}
		_ = json.Unmarshal(v.Frame, &a)
		kinds[fmt.Sprintf("%d/%s", a.V, a.Msg.Kind)]++
	}
	rep.Distinct = len(vecs)
	rep.Extra = map[string]interface{}{"version_kind_pairs": len(kinds)}
	for i := 0; i < len(vecs) && len(rep.Samples) < 3; i += len(vecs)/3 + 1 {
		var a interface{}
		_ = json.Unmarshal(vecs[i].Frame, &a)
		rep.Samples = append(rep.Samples, map[string]interface{}{"frame": json.RawMessage(canonAbs(a)), "spec_bytes": fmt.Sprintf("% x", flattenChunks(vecs[i].Chunks))})
	}
	return rep.print()
}

// wireHeaders: all 2^16 (version byte, opcode) header combinations against the verdict table from WireHeader.tla.
func wireHeaders(args []string) int {
	fs := flag.NewFlagSet("wire-headers", flag.ExitOnError)
	tablePath := fs.String("table", "", "accepted opcodes per version byte (ndjson lines {vb, ops})")
	_ = fs.Parse(args)
	accept := map[int]map[int]bool{}
	if err := readNDJSON(*tablePath, func(line []byte) error {
		var r struct {
			Vb  int   `json:"vb"`
			Ops []int `json:"ops"`
		}
		if err := json.Unmarshal(line, &r); err != nil {
			return err
		}
		accept[r.Vb] = map[int]bool{}
		for _, o := range r.Ops {
			accept[r.Vb][o] = true
		}
		return nil
	}); err != nil || len(accept) != 256 {
		fmt.Fprintln(os.Stderr, "header table:", err, len(accept))
		return 2
	}
	rep := &Report{}
	raw := frame.NewRawCodec()
	distinct := 0
	for vb := 0; vb < 256; vb++ {
		for op := 0; op < 256; op++ {
			for _, wide := range []bool{false, true} {
				// stream id width follows the version: build both layouts and use the one the documents prescribe when
				// the version is known (v2: 8-bit), otherwise try both (an unsupported version must be rejected either way)
				ver := vb & 0x7f
				known := ver >= 2 && ver <= 5 || ver == 65 || ver == 66
				if known && wide != (ver != 2) {
					continue
				}
				var hdr []byte
				if wide {
					hdr = []byte{byte(vb), 0, 0, 1, byte(op), 0, 0, 0, 0}
				} else {
					hdr = []byte{byte(vb), 0, 1, byte(op), 0, 0, 0, 0}
				}
				rep.Evaluations++
				want := accept[vb][op]
				var h *frame.Header
				var err error
				if p := safely(func() { h, err = raw.DecodeHeader(bytes.NewReader(hdr)) }); p != "" {
					rep.violate("C02|header-panic", fmt.Sprintf("version byte %#02x opcode %#02x: %s", vb, op, p), map[string]interface{}{"check": "wire-headers", "vb": vb, "op": op})
					continue
				}
				got := err == nil
				if got != want {
					rep.violate(fmt.Sprintf("C02|header-verdict|%v", want), fmt.Sprintf("version byte %#02x opcode %#02x: library accepts=%v, specification accepts=%v (%v)", vb, op, got, want, err),
						map[string]interface{}{"check": "wire-headers", "vb": vb, "op": op})
				} else if got {
					distinct++
					if h.IsResponse != (vb&0x80 != 0) || int(h.Version) != ver || int(h.OpCode) != op || h.StreamId != 1 {
						rep.violate("C02|header-fields", fmt.Sprintf("version byte %#02x opcode %#02x decoded as %v", vb, op, h), map[string]interface{}{"check": "wire-headers", "vb": vb, "op": op})
					}
				}
			}
		}
	}
	rep.Distinct = distinct
	rep.Samples = append(rep.Samples, map[string]interface{}{"vb": 0x84, "op": 8, "expect": "accept"}, map[string]interface{}{"vb": 0x04, "op": 8, "expect": "reject (response opcode in a request)"})
	return rep.print()
}

package main

// C17 - deep copies are equal to and independent of their originals.
//
// harness c17: (a) scans /repo/*/deepcopy_generated.go and /repo/primitive/uuid.go for every type with a DeepCopy*
// method and matches the result against the compiled registry; (b) generates reflective random values that populate
// every field (plus nil / empty / mixed variants, every Message / DataType implementation in every interface slot,
// the Catalogue samples); (c) calls the REAL deep-copy methods; (d) extracts both object graphs with reflect+unsafe
// and writes one snapshot event per sampled (value, copy) pair in the format of specs/Heap.tla (HeapTrace.tla judges
// them), and performs the mutation test directly on every pair: every mutable location reachable from one side is
// overwritten, the other side must not change (both directions); (e) prints a Report.

import (
	"bufio"
	"encoding/json"
	"flag"
	"fmt"
	"go/ast"
	"go/parser"
	"go/token"
	"math/rand"
	"os"
	"path/filepath"
	"reflect"
	"sort"
	"strconv"
	"strings"
	"unsafe"

	"github.com/datastax/go-cassandra-native-protocol/datatype"
	"github.com/datastax/go-cassandra-native-protocol/frame"
	"github.com/datastax/go-cassandra-native-protocol/message"
	"github.com/datastax/go-cassandra-native-protocol/primitive"
	"github.com/datastax/go-cassandra-native-protocol/segment"
)

func init() { subcommands["c17"] = c17 }

// ---------------------------------------------------------------------------------------------------------------
// compiled registry: "pkg.Type" -> constructor of a zero value + invocation of its deep-copy methods

type c17Entry struct {
	name string
	typ  reflect.Type
	zero func() reflect.Value // pointer to a fresh zero value
	// deepCopy invokes the named DeepCopy* method on ptr (a *T, possibly nil) and returns the copy as a *T
	deepCopy func(ptr reflect.Value, method string) (reflect.Value, error)
}

var c17Registry = map[string]*c17Entry{}

func c17Register(samples ...interface{}) {
	for _, s := range samples {
		t := reflect.TypeOf(s)
		name := filepath.Base(t.PkgPath()) + "." + t.Name()
		e := &c17Entry{name: name, typ: t}
		e.zero = func() reflect.Value { return reflect.New(t) }
		e.deepCopy = func(ptr reflect.Value, method string) (reflect.Value, error) {
			m := ptr.MethodByName(method)
			if !m.IsValid() {
				return reflect.Value{}, fmt.Errorf("no method %s", method)
			}
			mt := m.Type()
			if method == "DeepCopyInto" {
				if mt.NumIn() != 1 || mt.In(0) != reflect.PtrTo(t) {
					return reflect.Value{}, fmt.Errorf("unexpected signature %s", mt)
				}
				out := reflect.New(t)
				m.Call([]reflect.Value{out})
				return out, nil
			}
			if mt.NumIn() != 0 || mt.NumOut() != 1 {
				return reflect.Value{}, fmt.Errorf("unexpected signature %s", mt)
			}
			res := m.Call(nil)[0]
			if res.Kind() == reflect.Interface {
				if res.IsNil() {
					return reflect.Zero(reflect.PtrTo(t)), nil
				}
				res = res.Elem()
			}
			if res.Type() != reflect.PtrTo(t) {
				return res, fmt.Errorf("copy has dynamic type %s, want *%s", res.Type(), name)
			}
			return res, nil
		}
		c17Registry[name] = e
	}
}

func init() {
	c17Register(frame.Frame{}, frame.RawFrame{}, frame.Header{}, frame.Body{})
	c17Register(segment.Segment{}, segment.Header{}, segment.Payload{})
	c17Register(primitive.Value{}, primitive.Inet{}, primitive.FailureReason{}, primitive.UUID{})
	c17Register(datatype.Custom{}, datatype.List{}, datatype.Map{}, datatype.PrimitiveType{}, datatype.Set{},
		datatype.Tuple{}, datatype.UserDefined{})
	c17Register(message.AlreadyExists{}, message.AuthChallenge{}, message.AuthResponse{}, message.AuthSuccess{},
		message.Authenticate{}, message.AuthenticationError{}, message.Batch{}, message.BatchChild{},
		message.ColumnMetadata{}, message.ConfigError{}, message.ContinuousPagingOptions{}, message.Execute{},
		message.FunctionFailure{}, message.Invalid{}, message.IsBootstrapping{}, message.Options{},
		message.Overloaded{}, message.Prepare{}, message.PreparedResult{}, message.ProtocolError{}, message.Query{},
		message.QueryOptions{}, message.ReadFailure{}, message.ReadTimeout{}, message.Ready{}, message.Register{},
		message.Revise{}, message.RowsMetadata{}, message.RowsResult{}, message.SchemaChangeEvent{},
		message.SchemaChangeResult{}, message.ServerError{}, message.SetKeyspaceResult{}, message.Startup{},
		message.StatusChangeEvent{}, message.Supported{}, message.SyntaxError{}, message.TopologyChangeEvent{},
		message.TruncateError{}, message.Unauthorized{}, message.Unavailable{}, message.Unprepared{},
		message.VariablesMetadata{}, message.VoidResult{}, message.WriteFailure{}, message.WriteTimeout{})
}

var (
	c17MsgIface = reflect.TypeOf((*message.Message)(nil)).Elem()
	c17DtIface  = reflect.TypeOf((*datatype.DataType)(nil)).Elem()
)

// c17Scan parses the generated files and returns "pkg.Type" -> sorted DeepCopy* method names.
func c17Scan(repo string) (map[string][]string, []string, error) {
	files, _ := filepath.Glob(filepath.Join(repo, "*", "deepcopy_generated.go"))
	files = append(files, filepath.Join(repo, "primitive", "uuid.go"))
	sort.Strings(files)
	found := map[string][]string{}
	fset := token.NewFileSet()
	for _, f := range files {
		af, err := parser.ParseFile(fset, f, nil, 0)
		if err != nil {
			return nil, files, err
		}
		for _, d := range af.Decls {
			fd, ok := d.(*ast.FuncDecl)
			if !ok || fd.Recv == nil || len(fd.Recv.List) != 1 || !strings.HasPrefix(fd.Name.Name, "DeepCopy") {
				continue
			}
			rt := fd.Recv.List[0].Type
			if st, ok := rt.(*ast.StarExpr); ok {
				rt = st.X
			}
			id, ok := rt.(*ast.Ident)
			if !ok {
				continue
			}
			key := af.Name.Name + "." + id.Name
			found[key] = append(found[key], fd.Name.Name)
		}
	}
	for k := range found {
		sort.Strings(found[k])
	}
	return found, files, nil
}

// ---------------------------------------------------------------------------------------------------------------
// reflective access helpers

// c17Field returns field i of struct v, made settable through unsafe when v is addressable (unexported fields such as
// datatype.PrimitiveType.code are populated, walked and mutated like any other).
func c17Field(v reflect.Value, i int) reflect.Value {
	f := v.Field(i)
	if !f.CanSet() && f.CanAddr() {
		f = reflect.NewAt(f.Type(), unsafe.Pointer(f.UnsafeAddr())).Elem()
	}
	return f
}

func c17IsScalar(k reflect.Kind) bool {
	switch k {
	case reflect.Bool, reflect.Int, reflect.Int8, reflect.Int16, reflect.Int32, reflect.Int64, reflect.Uint, reflect.Uint8,
		reflect.Uint16, reflect.Uint32, reflect.Uint64, reflect.Uintptr, reflect.Float32, reflect.Float64, reflect.String:
		return true
	}
	return false
}

func c17ScalarText(v reflect.Value) string {
	switch v.Kind() {
	case reflect.Bool:
		return strconv.FormatBool(v.Bool())
	case reflect.Int, reflect.Int8, reflect.Int16, reflect.Int32, reflect.Int64:
		return strconv.FormatInt(v.Int(), 10)
	case reflect.Uint, reflect.Uint8, reflect.Uint16, reflect.Uint32, reflect.Uint64, reflect.Uintptr:
		return strconv.FormatUint(v.Uint(), 10)
	case reflect.Float32, reflect.Float64:
		return strconv.FormatFloat(v.Float(), 'g', -1, 64)
	case reflect.String:
		return v.String()
	}
	panic("c17: not a scalar: " + v.Kind().String())
}

func c17SortedKeys(m reflect.Value) []reflect.Value {
	keys := m.MapKeys()
	sort.Slice(keys, func(i, j int) bool { return c17KeyText(keys[i]) < c17KeyText(keys[j]) })
	return keys
}

func c17KeyText(k reflect.Value) string {
	if c17IsScalar(k.Kind()) {
		return c17ScalarText(k)
	}
	return fmt.Sprintf("%#v", k)
}

// ---------------------------------------------------------------------------------------------------------------
// generator

const (
	c17Full = iota
	c17Nil
	c17Empty
	c17Mixed
	c17Random
)

var c17ModeNames = []string{"full", "nil", "empty", "mixed", "random"}

type c17Gen struct {
	rnd      *rand.Rand
	mode     int
	base     int // which implementation the first interface slot of each interface type receives
	slot     map[reflect.Type]int
	msgImpls []reflect.Type
	dtImpls  []reflect.Type // leaf implementations first
	dtLeaves int
	strN     int
	notes    map[string]bool
}

const (
	refNil = iota
	refEmpty
	refFull
)

func (g *c17Gen) choice() int {
	switch g.mode {
	case c17Nil:
		return refNil
	case c17Empty:
		return refEmpty
	case c17Mixed:
		return g.rnd.Intn(3)
	case c17Random:
		switch x := g.rnd.Intn(100); {
		case x < 8:
			return refNil
		case x < 15:
			return refEmpty
		}
	}
	return refFull
}

func (g *c17Gen) str() string {
	const al = "abcdefghijklmnopqrstuvwxyz0123456789_"
	n := 1 + g.rnd.Intn(6)
	b := make([]byte, n)
	for i := range b {
		b[i] = al[g.rnd.Intn(len(al))]
	}
	g.strN++
	return string(b) + strconv.Itoa(g.strN) // distinct, so map keys never collide
}

// fill populates v (settable) completely; dt is the DataType nesting depth.
func (g *c17Gen) fill(v reflect.Value, dt int) {
	t := v.Type()
	switch v.Kind() {
	case reflect.Bool:
		v.SetBool(g.rnd.Intn(2) == 0)
	case reflect.Int, reflect.Int8, reflect.Int16, reflect.Int32, reflect.Int64:
		x := int64(1 + g.rnd.Intn(100))
		if g.rnd.Intn(4) == 0 {
			x = -x
		}
		v.SetInt(x)
	case reflect.Uint, reflect.Uint8, reflect.Uint16, reflect.Uint32, reflect.Uint64, reflect.Uintptr:
		v.SetUint(uint64(1 + g.rnd.Intn(200)))
	case reflect.Float32, reflect.Float64:
		v.SetFloat(1 + g.rnd.Float64())
	case reflect.String:
		if g.mode == c17Empty || (g.mode == c17Mixed && g.rnd.Intn(4) == 0) {
			v.SetString("")
		} else {
			v.SetString(g.str())
		}
	case reflect.Ptr:
		if g.choice() == refNil {
			v.Set(reflect.Zero(t))
			return
		}
		p := reflect.New(t.Elem())
		g.fill(p.Elem(), dt)
		v.Set(p)
	case reflect.Slice:
		switch g.choice() {
		case refNil:
			v.Set(reflect.Zero(t))
			return
		case refEmpty:
			v.Set(reflect.MakeSlice(t, 0, g.rnd.Intn(3))) // empty, sometimes with spare capacity
			return
		}
		n := 1 + g.rnd.Intn(3)
		if dt > 0 && n > 2 {
			n = 2
		}
		s := reflect.MakeSlice(t, n, n+g.rnd.Intn(3)) // spare capacity: a copy must not alias it either
		for i := 0; i < n; i++ {
			g.fill(s.Index(i), dt)
		}
		v.Set(s)
	case reflect.Array:
		for i := 0; i < v.Len(); i++ {
			g.fill(v.Index(i), dt)
		}
	case reflect.Map:
		switch g.choice() {
		case refNil:
			v.Set(reflect.Zero(t))
			return
		case refEmpty:
			v.Set(reflect.MakeMap(t))
			return
		}
		m := reflect.MakeMap(t)
		n := 1 + g.rnd.Intn(3)
		for i := 0; i < n; i++ {
			k := reflect.New(t.Key()).Elem()
			saved := g.mode
			if g.mode != c17Random {
				g.mode = c17Full // keys are always populated
			}
			g.fill(k, dt)
			g.mode = saved
			e := reflect.New(t.Elem()).Elem()
			g.fill(e, dt)
			m.SetMapIndex(k, e)
		}
		v.Set(m)
	case reflect.Struct:
		for i := 0; i < v.NumField(); i++ {
			f := c17Field(v, i)
			if !f.CanSet() {
				g.notes["field "+t.String()+"."+t.Field(i).Name+" cannot be populated"] = true
				continue
			}
			g.fill(f, dt)
		}
	case reflect.Interface:
		g.fillIface(v, dt)
	default:
		g.notes["kind "+v.Kind().String()+" of "+t.String()+" is not generated"] = true
	}
}

func (g *c17Gen) fillIface(v reflect.Value, dt int) {
	t := v.Type()
	var impls []reflect.Type
	switch t {
	case c17MsgIface:
		impls = g.msgImpls
	case c17DtIface:
		impls = g.dtImpls
		if dt >= 3 {
			impls = g.dtImpls[:g.dtLeaves]
		}
	default:
		g.notes["interface type "+t.String()+" has no known implementations: left nil"] = true
		return
	}
	if g.choice() == refNil {
		v.Set(reflect.Zero(t))
		return
	}
	n := g.slot[t]
	g.slot[t] = n + 1
	impl := impls[(g.base+n)%len(impls)]
	p := reflect.New(impl)
	if t == c17DtIface {
		dt++
	}
	g.fill(p.Elem(), dt)
	v.Set(p)
}

// c17IfaceFanout returns, for a static type, the largest number of implementations of an interface type that can
// occur (transitively) below it: that many extra values are generated so that the first slot receives each in turn.
func c17IfaceFanout(t reflect.Type, nMsg, nDt int, seen map[reflect.Type]bool) int {
	if seen[t] {
		return 0
	}
	seen[t] = true
	max := func(a, b int) int {
		if a > b {
			return a
		}
		return b
	}
	switch t.Kind() {
	case reflect.Interface:
		if t == c17MsgIface {
			return nMsg
		}
		if t == c17DtIface {
			return nDt
		}
	case reflect.Ptr, reflect.Slice, reflect.Array:
		return c17IfaceFanout(t.Elem(), nMsg, nDt, seen)
	case reflect.Map:
		return max(c17IfaceFanout(t.Key(), nMsg, nDt, seen), c17IfaceFanout(t.Elem(), nMsg, nDt, seen))
	case reflect.Struct:
		r := 0
		for i := 0; i < t.NumField(); i++ {
			r = max(r, c17IfaceFanout(t.Field(i).Type, nMsg, nDt, seen))
		}
		return r
	}
	return 0
}

// ---------------------------------------------------------------------------------------------------------------
// observation: a digest of everything that can be read through a value (nil-ness, lengths, dynamic types, contents)

type c17Hash struct{ a, b uint64 }

func (h *c17Hash) byte(x byte) {
	h.a = (h.a ^ uint64(x)) * 1099511628211
	h.b = (h.b+uint64(x))*6364136223846793005 + 1442695040888963407
}
func (h *c17Hash) u64(x uint64) {
	for i := 0; i < 8; i++ {
		h.byte(byte(x >> (8 * i)))
	}
}
func (h *c17Hash) str(s string) {
	h.u64(uint64(len(s)))
	for i := 0; i < len(s); i++ {
		h.byte(s[i])
	}
}

func c17Digest(v reflect.Value) c17Hash {
	h := c17Hash{14695981039346656037, 1}
	c17DigestInto(&h, v)
	return h
}

func c17DigestInto(h *c17Hash, v reflect.Value) {
	h.byte(byte(v.Kind()))
	switch v.Kind() {
	case reflect.Ptr:
		if v.IsNil() {
			h.byte(0)
			return
		}
		h.byte(1)
		c17DigestInto(h, v.Elem())
	case reflect.Slice:
		if v.IsNil() {
			h.byte(0)
			return
		}
		h.byte(1)
		fallthrough
	case reflect.Array:
		n := v.Len()
		h.u64(uint64(n))
		for i := 0; i < n; i++ {
			c17DigestInto(h, v.Index(i))
		}
	case reflect.Map:
		if v.IsNil() {
			h.byte(0)
			return
		}
		h.byte(1)
		h.u64(uint64(v.Len()))
		for _, k := range c17SortedKeys(v) {
			c17DigestInto(h, k)
			c17DigestInto(h, v.MapIndex(k))
		}
	case reflect.Struct:
		for i := 0; i < v.NumField(); i++ {
			c17DigestInto(h, v.Field(i))
		}
	case reflect.Interface:
		if v.IsNil() {
			h.byte(0)
			return
		}
		h.byte(1)
		h.str(v.Elem().Type().String())
		c17DigestInto(h, v.Elem())
	default:
		h.str(c17ScalarText(v))
	}
}

// c17FirstDiff compares two values structurally (nil and empty are different, capacity is ignored) and returns the
// generalised path of the first difference.
func c17FirstDiff(a, b reflect.Value, path string) (string, string, bool) {
	if a.Type() != b.Type() {
		return path, fmt.Sprintf("type %s vs %s", a.Type(), b.Type()), true
	}
	switch a.Kind() {
	case reflect.Ptr:
		if a.IsNil() != b.IsNil() {
			return path, fmt.Sprintf("nil=%v vs nil=%v", a.IsNil(), b.IsNil()), true
		}
		if a.IsNil() {
			return "", "", false
		}
		return c17FirstDiff(a.Elem(), b.Elem(), path)
	case reflect.Slice:
		if a.IsNil() != b.IsNil() {
			return path, fmt.Sprintf("nil=%v (len %d) vs nil=%v (len %d)", a.IsNil(), a.Len(), b.IsNil(), b.Len()), true
		}
		fallthrough
	case reflect.Array:
		if a.Len() != b.Len() {
			return path, fmt.Sprintf("len %d vs %d", a.Len(), b.Len()), true
		}
		for i := 0; i < a.Len(); i++ {
			if p, d, bad := c17FirstDiff(a.Index(i), b.Index(i), path+"[]"); bad {
				return p, d, true
			}
		}
	case reflect.Map:
		if a.IsNil() != b.IsNil() || a.Len() != b.Len() {
			return path, fmt.Sprintf("nil=%v len %d vs nil=%v len %d", a.IsNil(), a.Len(), b.IsNil(), b.Len()), true
		}
		for _, k := range c17SortedKeys(a) {
			bv := b.MapIndex(k)
			if !bv.IsValid() {
				return path + "{}", "key " + c17KeyText(k) + " missing in the copy", true
			}
			if p, d, bad := c17FirstDiff(a.MapIndex(k), bv, path+"{}"); bad {
				return p, d, true
			}
		}
	case reflect.Struct:
		for i := 0; i < a.NumField(); i++ {
			if p, d, bad := c17FirstDiff(a.Field(i), b.Field(i), c17Join(path, a.Type().Field(i).Name)); bad {
				return p, d, true
			}
		}
	case reflect.Interface:
		if a.IsNil() != b.IsNil() {
			return path, fmt.Sprintf("nil=%v vs nil=%v", a.IsNil(), b.IsNil()), true
		}
		if a.IsNil() {
			return "", "", false
		}
		return c17FirstDiff(a.Elem(), b.Elem(), path)
	default:
		if x, y := c17ScalarText(a), c17ScalarText(b); x != y {
			return path, fmt.Sprintf("%q vs %q", x, y), true
		}
	}
	return "", "", false
}

func c17Join(path, field string) string {
	if path == "" {
		return field
	}
	return path + "." + field
}

// ---------------------------------------------------------------------------------------------------------------
// mutable locations

// c17Different overwrites v (settable) with a value that is observably different.
func c17Different(v reflect.Value) {
	t := v.Type()
	switch v.Kind() {
	case reflect.Bool:
		v.SetBool(!v.Bool())
	case reflect.Int, reflect.Int8, reflect.Int16, reflect.Int32, reflect.Int64:
		v.SetInt(v.Int() ^ 1)
	case reflect.Uint, reflect.Uint8, reflect.Uint16, reflect.Uint32, reflect.Uint64, reflect.Uintptr:
		v.SetUint(v.Uint() ^ 1)
	case reflect.Float32, reflect.Float64:
		v.SetFloat(v.Float() + 1)
	case reflect.String:
		v.SetString(v.String() + "~")
	case reflect.Ptr:
		if v.IsNil() {
			v.Set(reflect.New(t.Elem()))
		} else {
			v.Set(reflect.Zero(t))
		}
	case reflect.Slice:
		if v.IsNil() {
			v.Set(reflect.MakeSlice(t, 1, 1))
		} else {
			v.Set(reflect.Zero(t))
		}
	case reflect.Map:
		if v.IsNil() {
			v.Set(reflect.MakeMap(t))
		} else {
			v.Set(reflect.Zero(t))
		}
	case reflect.Interface:
		if !v.IsNil() {
			v.Set(reflect.Zero(t))
		}
	case reflect.Array:
		if v.Len() > 0 {
			c17Different(v.Index(0))
		}
	case reflect.Struct:
		for i := 0; i < v.NumField(); i++ {
			if f := c17Field(v, i); f.CanSet() {
				c17Different(f)
				return
			}
		}
	}
}

// c17Locations calls visit(path, apply) for every mutable location reachable from v: scalars, slice / array
// elements, map entries (overwrite, delete, insert), and the words holding pointers, slice headers, maps, interfaces.
// apply performs the mutation and returns the function that undoes it.
func c17Locations(v reflect.Value, path string, visit func(path string, apply func() func())) {
	slot := func(suffix string) {
		if !v.CanSet() {
			return
		}
		vv := v
		visit(path+suffix, func() func() {
			old := reflect.New(vv.Type()).Elem()
			old.Set(vv)
			c17Different(vv)
			return func() { vv.Set(old) }
		})
	}
	switch v.Kind() {
	case reflect.Ptr:
		slot("(ptr)")
		if !v.IsNil() {
			c17Locations(v.Elem(), path, visit)
		}
	case reflect.Slice:
		slot("(hdr)")
		for i := 0; i < v.Len(); i++ {
			c17Locations(v.Index(i), path+"[]", visit)
		}
	case reflect.Array:
		for i := 0; i < v.Len(); i++ {
			c17Locations(v.Index(i), path+"[]", visit)
		}
	case reflect.Struct:
		for i := 0; i < v.NumField(); i++ {
			c17Locations(c17Field(v, i), c17Join(path, v.Type().Field(i).Name), visit)
		}
	case reflect.Interface:
		if v.IsNil() {
			return
		}
		slot("(iface)")
		c17Locations(v.Elem(), path, visit)
	case reflect.Map:
		slot("(map)")
		if v.IsNil() {
			return
		}
		m := v
		for _, k := range c17SortedKeys(m) {
			k := k
			val := m.MapIndex(k)
			visit(path+"{}", func() func() {
				nv := reflect.New(val.Type()).Elem()
				nv.Set(val)
				c17Different(nv)
				m.SetMapIndex(k, nv)
				return func() { m.SetMapIndex(k, val) }
			})
			visit(path+"{}(del)", func() func() {
				m.SetMapIndex(k, reflect.Value{})
				return func() { m.SetMapIndex(k, val) }
			})
			// what the entry refers to (backing arrays, pointees) is reachable although the entry is not addressable
			c17Locations(val, path+"{}", visit)
		}
		if m.Type().Key().Kind() == reflect.String {
			visit(path+"{}(add)", func() func() {
				nk := reflect.New(m.Type().Key()).Elem()
				nk.SetString("~c17 new key~")
				m.SetMapIndex(nk, reflect.Zero(m.Type().Elem()))
				return func() { m.SetMapIndex(nk, reflect.Value{}) }
			})
		}
	default:
		slot("")
	}
}

// ---------------------------------------------------------------------------------------------------------------
// snapshot of the two object graphs in the format of specs/Heap.tla

type c17Node struct {
	Kind  string         `json:"kind"`
	Type  string         `json:"type"`
	Val   string         `json:"val"`
	Len   int            `json:"len"`
	IsNil bool           `json:"isnil"`
	Mut   bool           `json:"mut"`
	Lo    int            `json:"lo"`
	Hi    int            `json:"hi"`
	Blo   int            `json:"blo"`
	Bhi   int            `json:"bhi"`
	Out   map[string]int `json:"out"`

	lo, hi, blo, bhi uintptr
}

type c17Key struct {
	lo, hi uintptr
	typ    string
}

type c17Snap struct {
	nodes  []*c17Node
	index  map[c17Key]int
	second bool     // walking the second root
	firstN int      // number of nodes the first root produced
	hits   []string // generalised paths at which the second walk reached a (mutable) node of the first: the sharing points
}

func (s *c17Snap) add(n *c17Node) int {
	s.nodes = append(s.nodes, n)
	return len(s.nodes) // node numbers are 1-based (TLA+ sequences)
}

func (s *c17Snap) walk(v reflect.Value, path string) int {
	t := v.Type()
	n := &c17Node{Type: t.String(), Mut: true, Out: map[string]int{}}
	if v.CanAddr() && t.Size() > 0 {
		n.lo = v.UnsafeAddr()
		n.hi = n.lo + t.Size()
		key := c17Key{n.lo, n.hi, n.Type}
		if id, ok := s.index[key]; ok {
			if s.second && id <= s.firstN {
				s.hits = append(s.hits, path)
			}
			return id // the same typed memory reached twice is ONE node: this is how sharing shows
		}
		id := s.add(n)
		s.index[key] = id
		s.describe(n, v, path)
		return id
	}
	id := s.add(n)
	s.describe(n, v, path)
	return id
}

func (s *c17Snap) describe(n *c17Node, v reflect.Value, path string) {
	switch v.Kind() {
	case reflect.Ptr:
		n.Kind = "ptr"
		n.IsNil = v.IsNil()
		if !n.IsNil {
			n.Out["deref"] = s.walk(v.Elem(), path)
		}
	case reflect.Slice:
		n.Kind = "slice"
		n.IsNil = v.IsNil()
		n.Len = v.Len()
		if sz := uintptr(v.Cap()) * v.Type().Elem().Size(); sz > 0 {
			n.blo = v.Pointer()
			n.bhi = n.blo + sz
		}
		for i := 0; i < v.Len(); i++ {
			n.Out["i:"+strconv.Itoa(i)] = s.walk(v.Index(i), path+"[]")
		}
	case reflect.Array:
		n.Kind = "struct"
		n.Len = v.Len()
		for i := 0; i < v.Len(); i++ {
			n.Out["i:"+strconv.Itoa(i)] = s.walk(v.Index(i), path+"[]")
		}
	case reflect.Struct:
		n.Kind = "struct"
		for i := 0; i < v.NumField(); i++ {
			n.Out["f:"+v.Type().Field(i).Name] = s.walk(v.Field(i), c17Join(path, v.Type().Field(i).Name))
		}
	case reflect.Map:
		n.Kind = "map"
		n.IsNil = v.IsNil()
		n.Len = v.Len()
		if !n.IsNil {
			n.blo = v.Pointer()
			n.bhi = n.blo + unsafe.Sizeof(uintptr(0))
			for _, k := range c17SortedKeys(v) {
				n.Out["k:"+c17KeyText(k)] = s.walk(v.MapIndex(k), path+"{}")
			}
		}
	case reflect.Interface:
		n.Kind = "iface"
		n.IsNil = v.IsNil()
		if !n.IsNil {
			n.Val = v.Elem().Type().String()
			n.Out["dyn"] = s.walk(v.Elem(), path)
		}
	case reflect.String:
		n.Kind = "scalar"
		str := v.String()
		n.Val = str
		n.Len = len(str)
		if len(str) > 0 {
			d := &c17Node{Kind: "scalar", Type: "strdata", Val: str, Len: len(str), Mut: false, Out: map[string]int{}}
			d.lo = uintptr(unsafe.Pointer(unsafe.StringData(str)))
			d.hi = d.lo + uintptr(len(str))
			key := c17Key{d.lo, d.hi, d.Type}
			id, ok := s.index[key]
			if !ok {
				id = s.add(d)
				s.index[key] = id
			}
			n.Out["data"] = id
		}
	default:
		n.Kind = "scalar"
		n.Val = c17ScalarText(v)
	}
}

// overlaps reports whether a mutable region of a node numbered above nA overlaps a mutable region of a node
// numbered up to nA (a pre-screen that selects pairs for TLC; it judges nothing).
func (s *c17Snap) overlaps(nA int) bool {
	type iv struct {
		lo, hi uintptr
		first  bool
	}
	var ivs []iv
	for i, n := range s.nodes {
		if !n.Mut {
			continue
		}
		if n.lo < n.hi {
			ivs = append(ivs, iv{n.lo, n.hi, i < nA})
		}
		if n.blo < n.bhi {
			ivs = append(ivs, iv{n.blo, n.bhi, i < nA})
		}
	}
	sort.Slice(ivs, func(i, j int) bool { return ivs[i].lo < ivs[j].lo })
	var endFirst, endSecond uintptr
	for _, x := range ivs {
		if x.first {
			if x.lo < endSecond {
				return true
			}
			if x.hi > endFirst {
				endFirst = x.hi
			}
		} else {
			if x.lo < endFirst {
				return true
			}
			if x.hi > endSecond {
				endSecond = x.hi
			}
		}
	}
	return false
}

// renumber maps the real region end points to 1, 2, 3, ... in address order (0 = no storage); every overlap
// relation between regions is preserved, and the numbers fit TLC's 32-bit integers.
func (s *c17Snap) renumber() {
	pts := map[uintptr]bool{}
	for _, n := range s.nodes {
		if n.lo < n.hi {
			pts[n.lo], pts[n.hi] = true, true
		}
		if n.blo < n.bhi {
			pts[n.blo], pts[n.bhi] = true, true
		}
	}
	sorted := make([]uintptr, 0, len(pts))
	for p := range pts {
		sorted = append(sorted, p)
	}
	sort.Slice(sorted, func(i, j int) bool { return sorted[i] < sorted[j] })
	rank := make(map[uintptr]int, len(sorted))
	for i, p := range sorted {
		rank[p] = i + 1
	}
	for _, n := range s.nodes {
		n.Lo, n.Hi, n.Blo, n.Bhi = 0, 0, 0, 0
		if n.lo < n.hi {
			n.Lo, n.Hi = rank[n.lo], rank[n.hi]
		}
		if n.blo < n.bhi {
			n.Blo, n.Bhi = rank[n.blo], rank[n.bhi]
		}
	}
}

// ---------------------------------------------------------------------------------------------------------------
// driver

type c17Job struct {
	entry   *c17Entry
	value   int
	variant string
	build   func(rnd *rand.Rand) reflect.Value // returns a *T (possibly nil)
}

func c17(args []string) int {
	fs := flag.NewFlagSet("c17", flag.ExitOnError)
	eventsPath := fs.String("events", "", "where to write snapshot events (ndjson)")
	maxEvents := fs.Int("max-events", 400, "at most this many snapshot events")
	seedv := fs.Int64("seed", 1, "seed")
	perType := fs.Int("values-per-type", 5, "random values per type (interface-bearing types get one more per implementation)")
	repo := fs.String("repo", "", "library source tree to scan (default $VERIF_REPO or /repo)")
	_ = fs.Parse(args)
	if *repo == "" {
		*repo = os.Getenv("VERIF_REPO")
	}
	if *repo == "" {
		*repo = "/repo"
	}
	rep := &Report{Extra: map[string]interface{}{}}

	// (a) scan
	scanned, files, err := c17Scan(*repo)
	if err != nil || len(scanned) == 0 {
		fmt.Fprintf(os.Stderr, "c17: scan of %s found no deep-copy methods (files %v): %v\n", *repo, files, err)
		return 2
	}
	var names []string
	for name := range scanned {
		if _, ok := c17Registry[name]; ok {
			names = append(names, name)
		} else {
			rep.Notes = append(rep.Notes, fmt.Sprintf("scan found type %s with methods %v that the compiled registry of harness/c17.go does not know: NOT exercised", name, scanned[name]))
		}
	}
	for name := range c17Registry {
		if _, ok := scanned[name]; !ok {
			rep.Notes = append(rep.Notes, "registry type "+name+" has no deep-copy method in the scanned files: not exercised")
		}
	}
	sort.Strings(names)
	sort.Strings(rep.Notes)

	var msgImpls, dtLeaf, dtNested []reflect.Type
	for _, name := range names {
		e := c17Registry[name]
		pt := reflect.PtrTo(e.typ)
		if pt.Implements(c17MsgIface) {
			msgImpls = append(msgImpls, e.typ)
		}
		if pt.Implements(c17DtIface) {
			if c17IfaceFanout(e.typ, 1, 1, map[reflect.Type]bool{}) == 0 {
				dtLeaf = append(dtLeaf, e.typ)
			} else {
				dtNested = append(dtNested, e.typ)
			}
		}
	}
	dtImpls := append(append([]reflect.Type{}, dtLeaf...), dtNested...)
	if len(msgImpls) == 0 || len(dtLeaf) == 0 {
		fmt.Fprintln(os.Stderr, "c17: no Message / leaf DataType implementations among the scanned types")
		return 2
	}
	notes := map[string]bool{}
	newGen := func(rnd *rand.Rand, mode, base int) *c17Gen {
		return &c17Gen{rnd: rnd, mode: mode, base: base, slot: map[reflect.Type]int{}, msgImpls: msgImpls, dtImpls: dtImpls,
			dtLeaves: len(dtLeaf), notes: notes}
	}

	// (b) the jobs
	var jobs []c17Job
	catalogue := 0
	for _, name := range names {
		e := c17Registry[name]
		add := func(variant string, build func(rnd *rand.Rand) reflect.Value) {
			jobs = append(jobs, c17Job{e, len(jobs), variant, build})
		}
		random := func(mode, base int) func(rnd *rand.Rand) reflect.Value {
			return func(rnd *rand.Rand) reflect.Value {
				p := e.zero()
				newGen(rnd, mode, base).fill(p.Elem(), 0)
				return p
			}
		}
		for k := 0; k < *perType; k++ {
			mode := c17Random
			if k < c17Random {
				mode = k
			}
			add(c17ModeNames[mode], random(mode, k))
		}
		fan := c17IfaceFanout(e.typ, len(msgImpls), len(dtImpls), map[reflect.Type]bool{})
		for k := 0; k < fan; k++ {
			add("impl#"+strconv.Itoa(k), random(c17Full, k))
		}
		add("nil-receiver", func(*rand.Rand) reflect.Value { return reflect.Zero(reflect.PtrTo(e.typ)) })
	}
	// the Catalogue samples: each as a value of its own type, inside a populated frame.Body, inside a frame.Frame
	for _, ver := range Versions {
		n := len(Catalogue(ver))
		for i := 0; i < n; i++ {
			ver, i := ver, i
			kind := Catalogue(ver)[i].Kind
			mt := reflect.TypeOf(Catalogue(ver)[i].Msg).Elem()
			tag := "catalogue:" + versionName(ver) + ":" + kind
			if e, ok := c17Registry[filepath.Base(mt.PkgPath())+"."+mt.Name()]; ok && scanned[e.name] != nil {
				jobs = append(jobs, c17Job{e, len(jobs), tag, func(*rand.Rand) reflect.Value {
					return reflect.ValueOf(Catalogue(ver)[i].Msg)
				}})
				catalogue++
			}
			if e, ok := c17Registry["frame.Body"]; ok && scanned[e.name] != nil {
				jobs = append(jobs, c17Job{e, len(jobs), tag, func(rnd *rand.Rand) reflect.Value {
					b := &frame.Body{}
					newGen(rnd, c17Full, 0).fill(reflect.ValueOf(b).Elem(), 0)
					b.Message = Catalogue(ver)[i].Msg
					return reflect.ValueOf(b)
				}})
				catalogue++
			}
			if e, ok := c17Registry["frame.Frame"]; ok && scanned[e.name] != nil {
				jobs = append(jobs, c17Job{e, len(jobs), tag, func(rnd *rand.Rand) reflect.Value {
					f := &frame.Frame{}
					newGen(rnd, c17Full, 0).fill(reflect.ValueOf(f).Elem(), 0)
					f.Body.Message = Catalogue(ver)[i].Msg
					return reflect.ValueOf(f)
				}})
				catalogue++
			}
		}
	}
	for i := range jobs {
		jobs[i].value = i
	}
	totalPairs := 0
	for _, j := range jobs {
		totalPairs += len(scanned[j.entry.name])
	}
	stride := 1
	if *maxEvents > 0 && totalPairs > *maxEvents {
		stride = (totalPairs + *maxEvents - 1) / *maxEvents
	}

	var evw *bufio.Writer
	if *eventsPath != "" {
		f, err := os.Create(*eventsPath)
		if err != nil {
			fmt.Fprintln(os.Stderr, "c17:", err)
			return 2
		}
		defer f.Close()
		evw = bufio.NewWriterSize(f, 1<<20)
		defer evw.Flush()
	}

	// (c) (d) run
	distinct := map[string]bool{}
	seenSig := map[string]bool{}
	typesDone := map[string]bool{}
	extraPerType := map[string]int{}
	methodsDone := map[string]bool{}
	var pairs, locations, mutations, events, eventNodes, extraEvents, maxNodes int
	kinds := map[string]int{}
	violate := func(sig, detail string, j c17Job, method string, jobSeed int64) {
		if seenSig[sig] {
			return
		}
		seenSig[sig] = true
		rep.violate(sig, detail, map[string]interface{}{"check": "c17", "type": j.entry.name, "method": method,
			"variant": j.variant, "value": j.value, "seed": *seedv, "job_seed": jobSeed, "values_per_type": *perType})
	}
	for _, j := range jobs {
		jobSeed := *seedv*1000003 + int64(j.value)
		orig := j.build(rand.New(rand.NewSource(jobSeed)))
		rep.Evaluations++
		typesDone[j.entry.name] = true
		isNilRecv := orig.IsNil()
		for _, method := range scanned[j.entry.name] {
			pairIdx := pairs
			pairs++
			if isNilRecv && method == "DeepCopyInto" {
				continue // dereferences its receiver by construction
			}
			methodsDone[j.entry.name+"."+method] = true
			bad := false
			pre := c17Digest(orig)
			var cp reflect.Value
			var cerr error
			func() {
				defer func() {
					if r := recover(); r != nil {
						cerr = fmt.Errorf("panic: %v", r)
					}
				}()
				cp, cerr = j.entry.deepCopy(orig, method)
			}()
			if cerr != nil {
				sig := "c17|" + j.entry.name + "|" + method + "|not-equal"
				if strings.HasPrefix(cerr.Error(), "no method") || strings.HasPrefix(cerr.Error(), "unexpected signature") {
					rep.Notes = append(rep.Notes, fmt.Sprintf("%s.%s: %v: not exercised", j.entry.name, method, cerr))
					delete(methodsDone, j.entry.name+"."+method)
					continue
				}
				violate(sig, fmt.Sprintf("%s.%s on a %s value: %v", j.entry.name, method, j.variant, cerr), j, method, jobSeed)
				continue
			}
			if c17Digest(orig) != pre {
				bad = true
				violate("c17|"+j.entry.name+"|(original)|not-equal", fmt.Sprintf("%s.%s modified its receiver (%s value)", j.entry.name, method, j.variant), j, method, jobSeed)
			}
			if p, d, differs := c17FirstDiff(orig, cp, ""); differs {
				bad = true
				violate("c17|"+j.entry.name+"|"+p+"|not-equal", fmt.Sprintf("%s.%s: copy differs from the original at %s: %s (%s value)", j.entry.name, method, p, d, j.variant), j, method, jobSeed)
			}
			// snapshot of both graphs; recorded for TLC when the pair is in the stride sample, when the checks above
			// failed, or when the pre-screen below sees mutable regions of the two sides overlapping (which the
			// mutation test cannot observe where it concerns spare capacity beyond len) -- TLC stays the judge
			s := &c17Snap{index: map[c17Key]int{}}
			a := s.walk(orig, "")
			nA := len(s.nodes)
			s.second, s.firstN = true, nA
			b := s.walk(cp, "")
			if len(s.hits) > 0 || s.overlaps(nA) {
				bad = true
			}
			// a location below a sharing point is reported as that point (one signature per defect, not one per field)
			sharedAt := func(path string) string {
				best, found := "", false
				for _, h := range s.hits {
					if path == h || (strings.HasPrefix(path, h) && strings.ContainsAny(path[len(h):len(h)+1], ".[{(")) {
						if !found || len(h) < len(best) {
							best, found = h, true
						}
					}
				}
				if found {
					return best
				}
				for _, suf := range []string{"{}(del)", "{}(add)", "{}"} {
					if strings.HasSuffix(path, suf) {
						return strings.TrimSuffix(path, suf)
					}
				}
				return path
			}
			// the mutation test, both directions
			for dir := 0; dir < 2; dir++ {
				mutated, observed, what := cp, orig, "the copy"
				if dir == 1 {
					mutated, observed, what = orig, cp, "the original"
				}
				ref := c17Digest(observed)
				self := c17Digest(mutated)
				c17Locations(mutated, "", func(path string, apply func() func()) {
					if dir == 0 {
						locations++
						distinct[j.entry.name+"|"+path] = true
					}
					mutations++
					undo := apply()
					got := c17Digest(observed)
					changed := c17Digest(mutated) != self
					undo()
					if got != ref {
						bad = true
						violate("c17|"+j.entry.name+"|"+sharedAt(path)+"|shared", fmt.Sprintf("%s.%s: overwriting %s through %s is visible through the other (%s value)",
							j.entry.name, method, path, what, j.variant), j, method, jobSeed)
					}
					if !changed && !strings.HasSuffix(path, "(iface)") {
						notes["mutation at "+j.entry.name+"|"+path+" did not change the mutated side"] = true
					}
				})
				if c17Digest(mutated) != self || c17Digest(observed) != ref {
					fmt.Fprintf(os.Stderr, "c17: machinery fault: %s %s value %d was not restored after the mutation pass\n", j.entry.name, j.variant, j.value)
					return 2
				}
			}
			if evw != nil && (pairIdx%stride == 0 || (bad && extraEvents < 120 && extraPerType[j.entry.name] < 3)) {
				if pairIdx%stride != 0 {
					extraEvents++
					extraPerType[j.entry.name]++
				}
				s.renumber()
				events++
				eventNodes += len(s.nodes)
				if len(s.nodes) > maxNodes {
					maxNodes = len(s.nodes)
				}
				for _, n := range s.nodes {
					kinds[n.Kind]++
				}
				line, err := json.Marshal(map[string]interface{}{"i": events, "type": j.entry.name, "method": method, "variant": j.variant,
					"value": j.value, "seed": *seedv, "a": a, "b": b, "nodes": s.nodes})
				if err != nil {
					fmt.Fprintln(os.Stderr, "c17:", err)
					return 2
				}
				evw.Write(line)
				evw.WriteByte('\n')
				if len(rep.Samples) < 4 && (events%97 == 1) {
					rep.Samples = append(rep.Samples, map[string]interface{}{"type": j.entry.name, "method": method, "variant": j.variant,
						"graph_nodes": len(s.nodes)})
				}
			}
		}
	}
	for n := range notes {
		rep.Notes = append(rep.Notes, n)
	}
	sort.Strings(rep.Notes)
	rep.Distinct = len(distinct)
	rep.Extra["types_scanned"] = len(scanned)
	rep.Extra["types_exercised"] = len(typesDone)
	rep.Extra["methods_exercised"] = len(methodsDone)
	rep.Extra["files_scanned"] = len(files)
	rep.Extra["pairs"] = pairs
	rep.Extra["locations_mutated_copy_side"] = locations
	rep.Extra["mutations_both_directions"] = mutations
	rep.Extra["message_implementations"] = len(msgImpls)
	rep.Extra["datatype_implementations"] = len(dtImpls)
	rep.Extra["catalogue_values"] = catalogue
	rep.Extra["events"] = events
	rep.Extra["event_nodes"] = eventNodes
	rep.Extra["event_max_nodes"] = maxNodes
	rep.Extra["event_node_kinds"] = kinds
	rep.Extra["event_stride"] = stride
	return rep.print()
}

package main

import (
	"context"
	"encoding/json"
	"fmt"
	"os"
	"runtime"
	"sort"
	"strconv"
	"sync"
	"sync/atomic"
	"testing"
	"time"

	"github.com/datastax/go-cassandra-native-protocol/client"
	"github.com/datastax/go-cassandra-native-protocol/frame"
	"github.com/datastax/go-cassandra-native-protocol/message"
	"github.com/datastax/go-cassandra-native-protocol/primitive"
)

// Free-running executions of the real in-flight handler (no gates): the windows inside a gate-to-gate step are only
// reachable this way. Two kinds of record are produced for TLC:
//   - "small" rounds (few callers, few operations): the call/return history, each event stamped from one atomic counter
//     (call before invoking, return after returning - the logged interval contains the real one, so linearizability of
//     the logged history is implied by that of the real one): validated against InFlightAbs by InFlightLin.tla;
//   - "big" rounds (N >= 64, bursts that fill and drain the table): the trace points emitted under the handler's lock
//     (inflight.add / inflight.remove with the table size, req.close): validated by InFlightHook.tla.

type hsEvent struct {
	seq  int64
	line concTLine
}

func TestHandlerStress(t *testing.T) {
	rounds, _ := strconv.Atoi(os.Getenv("VERIF_STRESS"))
	if rounds == 0 {
		t.Skip("VERIF_STRESS not set")
	}
	seed, _ := strconv.Atoi(os.Getenv("VERIF_SEED"))
	histOut, hookOut := os.Getenv("VERIF_HIST_OUT"), os.Getenv("VERIF_HOOK_OUT")
	var histF, hookF *os.File
	if histOut != "" {
		histF, _ = os.Create(histOut)
		defer histF.Close()
	}
	if hookOut != "" {
		hookF, _ = os.Create(hookOut)
		defer hookF.Close()
	}
	// hook recorder (big rounds)
	var hmu sync.Mutex
	var hooks []stressEv
	hookOn := false
	client.VerifHook = func(point string, a, b int64) {
		hmu.Lock()
		if hookOn && point != "req.close" {
			hooks = append(hooks, stressEv{A: point, Id: a, Trace: int(b)})
		}
		hmu.Unlock()
	}
	defer func() { client.VerifHook = nil }()
	distinct := map[string]int{}
	var order []string
	problems := []string{}
	var ops, accepted, refused, hookTraces, hookEvents int64

	// ---- hand-off rounds: a page (or the final frame) is handed to its request at the very moment the request is
	// completed by something else - the handler closing, or the request's read timeout. The window lies between
	// onFrameReceived reading the request's channel and sending on it: a send on a closed channel kills the process
	// (the driver reports the crash); afterwards the request must be completed, and failed unless its final frame got in.
	var handoffs int64
	for round := 0; round < rounds*4; round++ {
		ctx, cancel := context.WithCancel(context.Background())
		timeout := time.Hour
		byTimer := round%2 == 1
		if byTimer {
			timeout = time.Duration(20+round%7*10) * time.Microsecond
		}
		h := client.VerifNewInFlightHandler(ctx, 1, 4, timeout)
		req, err := h.Enqueue(frame.NewFrame(primitive.ProtocolVersion4, 0, &message.Options{}))
		if err != nil {
			problems = append(problems, fmt.Sprintf("hand-off round %d: first send refused: %v", round, err))
			cancel()
			continue
		}
		final := round%4 >= 2
		var start int32
		var wg sync.WaitGroup
		wg.Add(2)
		go func() {
			defer wg.Done()
			for atomic.LoadInt32(&start) == 0 {
			}
			if byTimer {
				// pages until the timeout has fired between two of them
				for i := 0; i < 50 && !req.IsDone(); i++ {
					_ = h.Deliver(responseFrame(1, false, i))
					for spin := 0; spin < (round%13)*(i%5)*40; spin++ {
						runtime.Gosched()
					}
				}
			} else {
				_ = h.Deliver(responseFrame(1, final, round))
			}
		}()
		go func() {
			defer wg.Done()
			for atomic.LoadInt32(&start) == 0 {
			}
			if !byTimer {
				h.Close()
			}
		}()
		atomic.StoreInt32(&start, 1)
		wg.Wait()
		if byTimer {
			for i := 0; i < 2000 && !req.IsDone(); i++ {
				time.Sleep(50 * time.Microsecond)
			}
		}
		h.Close()
		atomic.AddInt64(&handoffs, 1)
		if !req.IsDone() {
			problems = append(problems, fmt.Sprintf("hand-off round %d: the request is not completed after close", round))
		} else if req.Err() == nil && !(final && !byTimer) {
			problems = append(problems, fmt.Sprintf("hand-off round %d: the request was completed without an error although its final frame never arrived", round))
		}
		cancel()
	}

	// ---- small rounds: histories
	for round := 0; round < rounds; round++ {
		n := 1 + (round+seed)%2 // N = 1 or 2
		callers := 1 + (round/2+seed)%2
		sends := 2 + (round/4)%2
		pages := (round / 8) % 2 // non-final pages before the final one
		ctx, cancel := context.WithCancel(context.Background())
		h := client.VerifNewInFlightHandler(ctx, n, 2, time.Hour)
		var seq int64
		var emu sync.Mutex
		var events []hsEvent
		log := func(l concTLine) {
			s := atomic.AddInt64(&seq, 1)
			emu.Lock()
			events = append(events, hsEvent{s, l})
			emu.Unlock()
		}
		toAnswer := make(chan int16, 64)
		var frameMu sync.Mutex
		marks := map[*frame.Frame]int{}
		var wg sync.WaitGroup
		type accReq struct {
			t   string
			c   int
			req client.InFlightRequest
		}
		var accMu sync.Mutex
		var acc []accReq
		for c := 0; c < callers; c++ {
			wg.Add(1)
			go func(c int) {
				defer wg.Done()
				name := string(rune('a' + c))
				calls := 0
				for i := 0; i < sends; i++ {
					calls++
					sendCall := calls
					log(concTLine{A: "call", T: name, Op: "M"})
					req, err := h.Enqueue(frame.NewFrame(primitive.ProtocolVersion4, 0, &message.Options{}))
					atomic.AddInt64(&ops, 1)
					l := concTLine{A: "ret", T: name, Ok: err == nil}
					if err == nil {
						l.Rid = int(req.StreamId())
					}
					log(l)
					if err != nil {
						atomic.AddInt64(&refused, 1)
						runtime.Gosched()
						continue
					}
					atomic.AddInt64(&accepted, 1)
					accMu.Lock()
					acc = append(acc, accReq{name, sendCall, req})
					accMu.Unlock()
					toAnswer <- req.StreamId()
					// the caller waits for its whole response, then goes on at once
					for got := 0; got <= pages; got++ {
						calls++
						log(concTLine{A: "call", T: name, Op: "R", K: sendCall})
						f, ok := <-req.Incoming()
						l := concTLine{A: "ret", T: name, Ok: ok}
						if ok {
							frameMu.Lock()
							l.Rid = marks[f]
							frameMu.Unlock()
						}
						log(l)
						if !ok {
							break
						}
					}
				}
			}(c)
		}
		// the connection's receive loop
		done := make(chan struct{})
		go func() {
			defer close(done)
			k := 0
			for id := range toAnswer {
				for p := 0; p <= pages; p++ {
					k++
					f := responseFrame(id, p == pages, k)
					mark := 900 + k
					frameMu.Lock()
					marks[f] = mark
					frameMu.Unlock()
					log(concTLine{A: "call", T: "r", Op: "D", K: int(id), Last: p == pages, Mark: mark})
					err := h.Deliver(f)
					atomic.AddInt64(&ops, 1)
					log(concTLine{A: "ret", T: "r", Ok: err == nil})
				}
			}
		}()
		wg.Wait()
		close(toAnswer)
		<-done
		// final observation
		obs := concObsLine{A: "obs", Free: []int{}, Reqs: []concTReqO{}}
		if f, ok := h.FreeIds(); ok {
			for _, x := range f {
				obs.Free = append(obs.Free, int(x))
			}
		}
		for _, a := range acc {
			st := client.VerifProjectRequest(a.req)
			o := concTReqO{T: a.t, C: a.c, Id: int(st.StreamId), Managed: st.Managed, Done: st.Done, Failed: st.Err != nil, Frames: []int{}}
			if st.Pending != 0 {
				problems = append(problems, fmt.Sprintf("round %d: request of %s still holds %d unread frames", round, a.t, st.Pending))
			}
			obs.Reqs = append(obs.Reqs, o)
		}
		cancel()
		sort.Slice(events, func(i, j int) bool { return events[i].seq < events[j].seq })
		lines := make([]interface{}, 0, len(events)+1)
		for _, e := range events {
			lines = append(lines, e.line)
		}
		lines = append(lines, obs)
		b, _ := json.Marshal(lines)
		key := fmt.Sprintf("%d/%s", n, b)
		if _, ok := distinct[key]; !ok {
			order = append(order, key)
		}
		distinct[key]++
	}
	if histF != nil {
		enc := json.NewEncoder(histF)
		for i, k := range order {
			var n int
			var rest string
			for j := 0; j < len(k); j++ {
				if k[j] == '/' {
					n, _ = strconv.Atoi(k[:j])
					rest = k[j+1:]
					break
				}
			}
			var lines []json.RawMessage
			_ = json.Unmarshal([]byte(rest), &lines)
			_ = enc.Encode(map[string]interface{}{"a": "reset", "trace": i + 1, "n": n, "walks": distinct[k]})
			for _, l := range lines {
				_ = enc.Encode(l)
			}
		}
	}

	// ---- big rounds: trace points under the handler's lock. Each round is a series of bursts: the table is filled to
	// its limit (N >= 64), then answered down to empty while racing senders fire at the moment it drains - the boundary
	// states (table empty / full, pool empty / full) are where registration and removal meet.
	bigRounds := rounds / 60
	if bigRounds < 3 {
		bigRounds = 3
	}
	for round := 0; round < bigRounds; round++ {
		n := 64 + 16*((round+seed)%3)
		ctx, cancel := context.WithCancel(context.Background())
		h := client.VerifNewInFlightHandler(ctx, n, 1, time.Hour)
		hmu.Lock()
		hooks = hooks[:0]
		hookOn = round%3 == 0 // the trace points of every third round go to TLC (the recorder's own lock slows the others down)
		hmu.Unlock()
		var lost int64
		var all []client.InFlightRequest
		var outstanding []client.InFlightRequest
		var rmu sync.Mutex
		var gate int64
		racers := 3
		bursts := 150
		var wg sync.WaitGroup
		for c := 0; c < racers; c++ {
			wg.Add(1)
			go func(c int) {
				defer wg.Done()
				rnd := uint32(round*97 + c*31 + seed + 1)
				for b := int64(1); b <= int64(bursts); b++ {
					for atomic.LoadInt64(&gate) < b {
						runtime.Gosched()
					}
					rnd = rnd*1664525 + 1013904223
					for i := uint32(0); i < (rnd>>16)%3000; i++ { // up to a few microseconds: about one Deliver
						atomic.LoadInt64(&gate)
					}
					req, err := h.Enqueue(frame.NewFrame(primitive.ProtocolVersion4, 0, &message.Options{}))
					atomic.AddInt64(&ops, 1)
					if err == nil {
						atomic.AddInt64(&accepted, 1)
						rmu.Lock()
						outstanding = append(outstanding, req)
						rmu.Unlock()
					} else {
						atomic.AddInt64(&refused, 1)
					}
				}
			}(c)
		}
		k := 0
		for b := 1; b <= bursts; b++ {
			// fill
			for {
				req, err := h.Enqueue(frame.NewFrame(primitive.ProtocolVersion4, 0, &message.Options{}))
				atomic.AddInt64(&ops, 1)
				if err != nil {
					atomic.AddInt64(&refused, 1)
					break
				}
				atomic.AddInt64(&accepted, 1)
				rmu.Lock()
				outstanding = append(outstanding, req)
				rmu.Unlock()
			}
			// drain: everything outstanding, the racers released just before the last answer
			rmu.Lock()
			batch := outstanding
			outstanding = nil
			rmu.Unlock()
			for i, req := range batch {
				if i == len(batch)-1 {
					atomic.StoreInt64(&gate, int64(b))
				}
				k++
				if err := h.Deliver(responseFrame(req.StreamId(), true, k)); err != nil {
					lost++
				}
				atomic.AddInt64(&ops, 1)
			}
			all = append(all, batch...)
		}
		wg.Wait()
		rmu.Lock()
		batch := outstanding
		rmu.Unlock()
		for _, req := range batch {
			k++
			if err := h.Deliver(responseFrame(req.StreamId(), true, k)); err != nil {
				lost++
			}
		}
		all = append(all, batch...)
		hmu.Lock()
		hookOn = false
		evs := append([]stressEv(nil), hooks...)
		hmu.Unlock()
		if lost > 0 {
			problems = append(problems, fmt.Sprintf("big round %d (N=%d): %d responses to accepted requests were refused by the handler", round, n, lost))
		}
		for _, r := range all {
			if !r.IsDone() || r.Err() != nil {
				problems = append(problems, fmt.Sprintf("big round %d (N=%d): an answered request (stream %d) is done=%v err=%v", round, n, r.StreamId(), r.IsDone(), r.Err()))
				break
			}
		}
		if f, ok := h.FreeIds(); !ok || len(f) != n {
			problems = append(problems, fmt.Sprintf("big round %d (N=%d): %d ids in the pool after every request was answered", round, n, len(f)))
		}
		cancel()
		if hookF != nil && len(evs) > 0 {
			enc := json.NewEncoder(hookF)
			hookTraces++
			_ = enc.Encode(map[string]interface{}{"a": "reset", "trace": hookTraces, "id": 0, "len": 0, "n": n})
			for _, e := range evs {
				_ = enc.Encode(map[string]interface{}{"a": e.A, "id": e.Id, "len": e.Trace})
				hookEvents++
			}
		}
	}
	if len(problems) > 20 {
		problems = problems[:20]
	}
	b, _ := json.Marshal(map[string]interface{}{"rounds": rounds, "big_rounds": bigRounds, "ops": ops, "accepted": accepted, "refused": refused,
		"distinct_histories": len(order), "hook_traces": hookTraces, "hook_events": hookEvents, "handoff_rounds": handoffs, "problems": problems})
	fmt.Println("HSTRESS " + string(b))
}

package main

import (
	"encoding/json"
	"flag"
	"fmt"
	"math/big"
	"math/rand"
	"os"
	"time"

	"github.com/datastax/go-cassandra-native-protocol/primitive"
)

// Random leg of C11 / C12 / C13 (binding T): conversions of random integers by the real codecs are recorded, one line
// per conversion, for specs/CqlValueTrace.tla. The harness decides nothing about ranges or bytes: it only reports what
// the codec did. The one thing it checks itself is C11's literal statement: what Encode produced, decoded back into
// the same representation, is the value.

func init() { subcommands["cqlrand"] = cqlRand }

type cqlRandLine struct {
	D     string `json:"d"`
	Cql   string `json:"cql"`
	Rep   string `json:"rep"`
	Neg   bool   `json:"neg"`
	Mag   []int  `json:"mag"`
	Ok    bool   `json:"ok"`
	Bytes []int  `json:"bytes"`
}

func magOf(n *big.Int) []int {
	a := new(big.Int).Abs(n)
	out := make([]int, 0, a.BitLen())
	for i := 0; i < a.BitLen(); i++ {
		out = append(out, int(a.Bit(i)))
	}
	return out
}

// repCanHold: can the Go representation hold n at all (otherwise there is no Go value to encode).
func repCanHold(rep string, n *big.Int) bool {
	switch rep {
	case "bigint", "string":
		return true
	case "int", "int64":
		return n.IsInt64()
	case "uint", "uint64":
		return n.IsUint64()
	case "int8":
		return n.IsInt64() && n.Int64() >= -128 && n.Int64() <= 127
	case "int16":
		return n.IsInt64() && n.Int64() >= -32768 && n.Int64() <= 32767
	case "int32":
		return n.IsInt64() && n.Int64() >= -2147483648 && n.Int64() <= 2147483647
	case "uint8":
		return n.IsUint64() && n.Uint64() <= 255
	case "uint16":
		return n.IsUint64() && n.Uint64() <= 65535
	case "uint32":
		return n.IsUint64() && n.Uint64() <= 4294967295
	}
	return false
}

func cqlRand(args []string) int {
	fs := flag.NewFlagSet("cqlrand", flag.ExitOnError)
	count := fs.Int("n", 4000, "conversions in each direction")
	seedv := fs.Int64("seed", 1, "seed")
	out := fs.String("out", "", "trace for CqlValueTrace.tla (ndjson)")
	_ = fs.Parse(args)
	rnd := rand.New(rand.NewSource(*seedv))
	f, err := os.Create(*out)
	if err != nil {
		fmt.Fprintln(os.Stderr, err)
		return 2
	}
	defer f.Close()
	enc := json.NewEncoder(f)
	rep := &Report{}
	types := []string{"tinyint", "smallint", "int", "bigint", "counter", "varint", "date", "time", "timestamp"}
	width := map[string]int{"tinyint": 1, "smallint": 2, "int": 4, "bigint": 8, "counter": 8, "time": 8, "timestamp": 8}
	numeric := []string{"int", "int8", "int16", "int32", "int64", "uint", "uint8", "uint16", "uint32", "uint64"}
	repsOf := func(t string) []string {
		r := append([]string{}, numeric...)
		switch t {
		case "bigint", "counter", "varint":
			r = append(r, "bigint", "string")
		case "tinyint", "smallint", "int":
			r = append(r, "string")
		}
		return r
	}
	randomBig := func(maxBits int) *big.Int {
		bits := rnd.Intn(maxBits + 1)
		n := new(big.Int)
		if bits > 0 {
			n.Rand(rnd, new(big.Int).Lsh(big.NewInt(1), uint(bits)))
			if rnd.Intn(3) > 0 {
				n.SetBit(n, bits-1, 1) // mostly exactly `bits` bits long
			}
		}
		if rnd.Intn(2) == 0 {
			n.Neg(n)
		}
		return n
	}
	distinct := map[string]bool{}
	versions := []primitive.ProtocolVersion{primitive.ProtocolVersion3, primitive.ProtocolVersion4, primitive.ProtocolVersion5}
	for i := 0; i < *count; i++ {
		t := types[rnd.Intn(len(types))]
		v := versions[rnd.Intn(len(versions))]
		codec := scalarCodecs[t]
		maxBits := 70
		if t == "varint" {
			maxBits = 130
		} else if w, ok := width[t]; ok && rnd.Intn(2) == 0 {
			maxBits = 8*w + 1 // around the type's own width
		}
		// ---- encode direction
		n := randomBig(maxBits)
		reps := repsOf(t)
		r := reps[rnd.Intn(len(reps))]
		for tries := 0; !repCanHold(r, n) && tries < 20; tries++ {
			r = reps[rnd.Intn(len(reps))]
		}
		if repCanHold(r, n) {
			src := materialiseInt(r, n)
			if rnd.Intn(2) == 0 {
				src = pointerTo(src)
			}
			rep.Evaluations++
			b, err, p := safeEncode(codec, src, v)
			if p != "" {
				rep.violate("C13|cqlrand|encode-panic|"+t+"|"+r, fmt.Sprintf("%s <- %s(%s): %s", t, r, n, p), map[string]interface{}{"check": "cqlrand", "seed": *seedv, "i": i})
			} else {
				_ = enc.Encode(cqlRandLine{D: "enc", Cql: t, Rep: r, Neg: n.Sign() < 0, Mag: magOf(n), Ok: err == nil, Bytes: bytesToInts(b)})
				if err == nil {
					back := newIntDest(r)
					if wasNull, derr, dp := safeDecode(codec, b, back, v); dp != "" || derr != nil || wasNull {
						rep.violate("C11|cqlrand|roundtrip-decode|"+t+"|"+r, fmt.Sprintf("%s <- %s(%s): encoded to % x, which does not decode back into *%s: %v %s", t, r, n, b, r, derr, dp),
							map[string]interface{}{"check": "cqlrand", "seed": *seedv, "i": i})
					} else if got, ok := destAsBig(back); !ok || got.Cmp(n) != 0 {
						rep.violate("C11|cqlrand|roundtrip-value|"+t+"|"+r, fmt.Sprintf("%s <- %s(%s): encoded to % x, which decodes back as %v", t, r, n, b, got),
							map[string]interface{}{"check": "cqlrand", "seed": *seedv, "i": i})
					} else {
						distinct[fmt.Sprintf("%s/%s/%d", t, r, n.BitLen())] = true
					}
				}
			}
		}
		// ---- timestamp <-> time.Time: random instants, half of them on a whole second, both sides of the epoch
		if t == "timestamp" {
			ms := rnd.Int63n(1<<50) - 1<<49
			if rnd.Intn(2) == 0 {
				ms -= ms % 1000
			}
			tm := time.UnixMilli(ms).UTC()
			rep.Evaluations++
			b, err, p := safeEncode(codec, tm, v)
			var back time.Time
			var any interface{}
			if p != "" || err != nil {
				rep.violate("C11|cqlrand|time-encode|timestamp", fmt.Sprintf("timestamp <- time.Time(%d ms): %v %s", ms, err, p), map[string]interface{}{"check": "cqlrand", "seed": *seedv, "i": i})
			} else if _, derr, dp := safeDecode(codec, b, &back, v); dp != "" || derr != nil || !back.Equal(tm) {
				rep.violate("C11|cqlrand|time-roundtrip|timestamp|time", fmt.Sprintf("timestamp <- time.Time(%d ms) encoded to % x, which decodes back as %v (%d ms) %v %s", ms, b, back, back.UnixMilli(), derr, dp), map[string]interface{}{"check": "cqlrand", "seed": *seedv, "i": i})
			} else if _, derr, dp := safeDecode(codec, b, &any, v); dp != "" || derr != nil {
				rep.violate("C11|cqlrand|time-roundtrip|timestamp|any", fmt.Sprintf("timestamp %d ms (% x) into *interface{}: %v %s", ms, b, derr, dp), map[string]interface{}{"check": "cqlrand", "seed": *seedv, "i": i})
			} else if got, ok := any.(time.Time); !ok || !got.Equal(tm) {
				rep.violate("C11|cqlrand|time-roundtrip|timestamp|any", fmt.Sprintf("timestamp %d ms (% x) into *interface{} gives %v", ms, b, any), map[string]interface{}{"check": "cqlrand", "seed": *seedv, "i": i})
			}
		}
		// ---- decode direction: random bytes of the type's width (date is offset-coded: encode direction only)
		if t != "date" {
			w, fixed := width[t]
			if !fixed {
				w = 1 + rnd.Intn(17)
			}
			raw := make([]byte, w)
			rnd.Read(raw)
			switch rnd.Intn(4) {
			case 0: // small magnitudes: sign extension bytes
				fill := byte(0)
				if rnd.Intn(2) == 0 {
					fill = 0xff
				}
				for k := 0; k < w-1-rnd.Intn(w); k++ {
					raw[k] = fill
				}
			}
			dr := reps[rnd.Intn(len(reps))]
			dest := newIntDest(dr)
			rep.Evaluations++
			_, derr, dp := safeDecode(codec, raw, dest, v)
			if dp != "" {
				rep.violate("C13|cqlrand|decode-panic|"+t+"|"+dr, fmt.Sprintf("% x (%s) into *%s: %s", raw, t, dr, dp), map[string]interface{}{"check": "cqlrand", "seed": *seedv, "i": i})
			} else {
				l := cqlRandLine{D: "dec", Cql: t, Rep: dr, Ok: derr == nil, Bytes: bytesToInts(raw), Mag: []int{}}
				if derr == nil {
					if got, ok := destAsBig(dest); ok {
						l.Neg, l.Mag = got.Sign() < 0, magOf(got)
					} else {
						l.Mag = []int{1, 0, 1, 0, 1, 0, 1, 0, 1, 0, 1, 0, 1, 0, 1, 0, 1, 0, 1, 0, 1, 0, 1, 0, 1, 0, 1, 0, 1, 0, 1, 0, 1, 0, 1, 0, 1, 0, 1, 0, 1, 0, 1} // unreadable destination: no value equals this
					}
				}
				_ = enc.Encode(l)
			}
		}
	}
	rep.Distinct = len(distinct)
	return rep.print()
}

package main

import (
	"bytes"
	"encoding/json"
	"flag"
	"fmt"
	"math/bits"
	"math/rand"
	"os"
	"sync"
	"sync/atomic"

	"github.com/datastax/go-cassandra-native-protocol/client"
	"github.com/datastax/go-cassandra-native-protocol/crc"
	"github.com/datastax/go-cassandra-native-protocol/primitive"
	"github.com/datastax/go-cassandra-native-protocol/segment"
)

func init() { subcommands["c07"] = c07 }

type corDesc struct {
	Fmt    string `json:"fmt"`
	PayLen int    `json:"paylen"`
	Bits   []int  `json:"bits"`
	Reject bool   `json:"reject"`
}

func flipBits(seg []byte, positions []int) []byte {
	out := append([]byte{}, seg...)
	for _, k := range positions {
		out[k/8] ^= 1 << uint(k%8)
	}
	return out
}

// decodeRejects feeds bytes to the real decoder; the property demands an error AND no payload.
func decodeRejects(codec segment.Codec, data []byte) (rejected bool, problem string) {
	defer func() {
		if r := recover(); r != nil {
			rejected, problem = false, fmt.Sprintf("panic: %v", r)
		}
	}()
	seg, err := codec.DecodeSegment(bytes.NewReader(data))
	if err == nil {
		return false, "accepted"
	}
	if seg != nil {
		return false, "error returned together with a segment"
	}
	// the same corrupted bytes presented again (a retransmission), twice in a row to one codec of the same kind: a
	// codec has no memory, what it refused once it refuses again
	if mk := c07Fresh[codec]; mk != nil {
		again := mk()
		for i := 0; i < 2; i++ {
			seg, err := again.DecodeSegment(bytes.NewReader(data))
			if err == nil {
				return false, fmt.Sprintf("accepted when presented again (presentation %d to one codec)", i+1)
			}
			if seg != nil {
				return false, "error returned together with a segment"
			}
		}
	}
	return true, ""
}

// c07Fresh: shared codec -> constructor of a codec of the same kind.
var c07Fresh = map[segment.Codec]func() segment.Codec{}

func c07(args []string) int {
	fs := flag.NewFlagSet("c07", flag.ExitOnError)
	descPath := fs.String("desc", "", "corruption descriptors from SegmentCorrupt.tla (ndjson)")
	seedv := fs.Int64("seed", 1, "seed")
	thorough := fs.Bool("thorough", false, "exhaustive weights 5..7 on the 64-bit header and big payloads")
	_ = fs.Parse(args)
	rnd := rand.New(rand.NewSource(*seedv))
	rep := &Report{}
	plain := segment.NewCodec()
	lz4c := segment.NewCodecWithCompression(client.NewPayloadCompressor(primitive.CompressionLz4))
	c07Fresh[plain] = func() segment.Codec { return segment.NewCodec() }
	c07Fresh[lz4c] = func() segment.Codec {
		return segment.NewCodecWithCompression(client.NewPayloadCompressor(primitive.CompressionLz4))
	}
	var evals int64
	var mu sync.Mutex
	distinct := 0
	bad := func(sig, detail string, replay interface{}) {
		mu.Lock()
		rep.violate("c07|"+sig, detail, replay)
		mu.Unlock()
	}

	// a real encoded segment of each format; incompressible content so that the LZ4 codec sends it raw (the header format is
	// what matters here), plus compressible ones further below
	mkSeg := func(format string, n int, class string) ([]byte, segment.Codec) {
		payload := contentOf(class, n, rnd)
		codec := plain
		if format == "lz4" {
			codec = lz4c
		}
		enc, err := encodeSeg(codec, payload, true)
		if err != nil {
			panic(err)
		}
		return enc, codec
	}

	// ---- V: descriptors emitted by TLC with the verdict the property prescribes
	segCache := map[string][]byte{}
	err := readNDJSON(*descPath, func(line []byte) error {
		var d corDesc
		if err := json.Unmarshal(line, &d); err != nil {
			return err
		}
		key := fmt.Sprintf("%s/%d", d.Fmt, d.PayLen)
		codec := plain
		if d.Fmt == "lz4" {
			codec = lz4c
		}
		seg, ok := segCache[key]
		if !ok {
			seg, _ = mkSeg(d.Fmt, d.PayLen, "rand")
			segCache[key] = seg
			if ok, why := decodeRejects(codec, seg); ok {
				return fmt.Errorf("uncorrupted segment rejected: %s", why)
			}
		}
		if !d.Reject {
			return nil // outside the guaranteed range: no verdict
		}
		evals++
		if ok, why := decodeRejects(codec, flipBits(seg, d.Bits)); !ok {
			bad("descriptor|"+d.Fmt+"|"+why, fmt.Sprintf("%s segment with %d payload bytes, bits %v flipped: %s", d.Fmt, d.PayLen, d.Bits, why),
				map[string]interface{}{"check": "c07-descriptor", "desc": d})
		} else {
			distinct++
		}
		return nil
	})
	if err != nil {
		fmt.Fprintln(os.Stderr, err)
		return 2
	}

	// ---- linearity of the real CRC-24 (what lets the weight-5..7 enumeration work on syndromes)
	lin := func(e uint64, n int) uint32 { return crc.ChecksumKoopman(e, n) ^ crc.ChecksumKoopman(0, n) }
	for i := 0; i < 200000; i++ {
		n := 3 + 2*rnd.Intn(2)
		mask := uint64(1)<<(8*uint(n)) - 1
		h, e := rnd.Uint64()&mask, rnd.Uint64()&mask
		if i%3 == 0 {
			e = 1 << uint(rnd.Intn(8*n))
		}
		evals++
		if crc.ChecksumKoopman(h^e, n)^crc.ChecksumKoopman(h, n) != lin(e, n) {
			bad("crc24-not-linear", fmt.Sprintf("h=%x e=%x n=%d", h, e, n), map[string]interface{}{"check": "c07-linear", "h": h, "e": e, "n": n})
			break
		}
		// and it agrees with the reference (anchored to TLC by c06)
		if crc.ChecksumKoopman(h, n) != refCrc24(le(h, n)) {
			bad("crc24-value", fmt.Sprintf("ChecksumKoopman(%x,%d)", h, n), map[string]interface{}{"check": "c07-crc24", "h": h, "n": n})
			break
		}
	}

	// ---- header + CRC-24: exhaustive direct decoding for weights 1..4; weights 5..7 through syndromes of the real CRC
	for _, format := range []string{"none", "lz4"} {
		hl := 3
		if format == "lz4" {
			hl = 5
		}
		nbits := 8 * (hl + 3)
		for _, cfg := range []struct {
			n     int
			class string
		}{{0, "zeros"}, {5, "rand"}, {300, "zeros"}, {4096, "text"}} {
			seg, codec := mkSeg(format, cfg.n, cfg.class)
			if ok, why := decodeRejects(codec, seg); ok {
				fmt.Fprintf(os.Stderr, "uncorrupted %s segment rejected: %s\n", format, why)
				return 2
			}
			maxW := 4
			if cfg.n > 5 {
				maxW = 3 // other header values: by linearity the verdict cannot depend on them; weight 3 re-checks that
			}
			// enumerate combinations with Gosper's hack, partitioned over workers by the lowest set bit
			var wg sync.WaitGroup
			for w := 1; w <= maxW; w++ {
				for low := 0; low < nbits; low++ {
					wg.Add(1)
					go func(w, low int) {
						defer wg.Done()
						local := int64(0)
						enumCombos(nbits, w, low, func(mask uint64) {
							local++
							buf := append([]byte{}, seg...)
							for m := mask; m != 0; m &= m - 1 {
								k := bits.TrailingZeros64(m)
								buf[k/8] ^= 1 << uint(k%8)
							}
							if ok, why := decodeRejects(codec, buf); !ok {
								bad("header|"+format+"|"+why, fmt.Sprintf("%s segment (%d payload bytes): header bits %x flipped (weight %d): %s", format, cfg.n, mask, w, why),
									map[string]interface{}{"check": "c07-header", "format": format, "paylen": cfg.n, "mask": fmt.Sprintf("%x", mask)})
							}
						})
						atomic.AddInt64(&evals, local)
					}(w, low)
				}
			}
			wg.Wait()
		}
		// syndromes: syn[k] for each of the nbits positions, from the REAL checksum function
		syn := make([]uint32, nbits)
		for k := 0; k < nbits; k++ {
			if k < 8*hl {
				syn[k] = lin(1<<uint(k), hl)
			} else {
				syn[k] = 1 << uint(k-8*hl)
			}
		}
		maxW := 7
		if format == "lz4" && !*thorough {
			maxW = 6 // C(64,7) = 6.2*10^8 is left to the thorough tier
		}
		var wg sync.WaitGroup
		for w := 5; w <= maxW; w++ {
			for low := 0; low < nbits; low++ {
				wg.Add(1)
				go func(w, low int) {
					defer wg.Done()
					local := int64(0)
					enumSyndromes(syn, w, low, func(mask uint64) {
						bad("header|"+format+"|undetected-syndrome", fmt.Sprintf("%s header: error pattern %x of weight %d has a zero CRC-24 syndrome (undetectable)", format, mask, w),
							map[string]interface{}{"check": "c07-syndrome", "format": format, "mask": fmt.Sprintf("%x", mask)})
					}, &local)
					atomic.AddInt64(&evals, local)
				}(w, low)
			}
		}
		wg.Wait()
		// random weights 5..7 directly on the real decoder
		seg, codec := mkSeg(format, 16, "rand")
		for i := 0; i < 300000; i++ {
			w := 5 + rnd.Intn(3)
			var mask uint64
			for bits.OnesCount64(mask) < w {
				mask |= 1 << uint(rnd.Intn(nbits))
			}
			buf := append([]byte{}, seg...)
			for m := mask; m != 0; m &= m - 1 {
				k := bits.TrailingZeros64(m)
				buf[k/8] ^= 1 << uint(k%8)
			}
			evals++
			if ok, why := decodeRejects(codec, buf); !ok {
				bad("header|"+format+"|"+why, fmt.Sprintf("%s header bits %x flipped (weight %d): %s", format, mask, w, why),
					map[string]interface{}{"check": "c07-header", "format": format, "paylen": 16, "mask": fmt.Sprintf("%x", mask)})
			}
		}
		distinct += maxW
	}

	// ---- payload + CRC-32: single flips, all pairs (small payloads), bursts <= 32 at every offset
	type pcase struct {
		format string
		n      int
		class  string
		pairs  bool
	}
	pcases := []pcase{{"none", 0, "rand", true}, {"lz4", 0, "rand", true}, {"none", 1, "rand", true}, {"none", 16, "rand", true}, {"none", 64, "text", true}, {"lz4", 12, "rand", true},
		{"lz4", 200, "zeros", true}, {"none", 200, "mix", true}, {"none", 4096, "rand", false}, {"lz4", 4096, "text", false}}
	if *thorough {
		pcases = append(pcases, pcase{"none", 256, "rand", true}, pcase{"none", 131071, "rand", false}, pcase{"lz4", 131071, "rep64", false}, pcase{"lz4", 65000, "text", false})
	}
	for _, pc := range pcases {
		seg, codec := mkSeg(pc.format, pc.n, pc.class)
		hl := 3
		if pc.format == "lz4" {
			hl = 5
		}
		start := 8 * (hl + 3)
		end := 8 * len(seg)
		try := func(positions []int, kind string) {
			if ok, why := decodeRejects(codec, flipBits(seg, positions)); !ok {
				p := positions
				if len(p) > 8 {
					p = append(append([]int{}, positions[:4]...), positions[len(positions)-2:]...)
				}
				bad("payload|"+pc.format+"|"+kind+"|"+why, fmt.Sprintf("%s segment, %d payload bytes (%s): %s at bits %v (of %d): %s", pc.format, pc.n, pc.class, kind, p, end, why),
					map[string]interface{}{"check": "c07-payload", "format": pc.format, "paylen": pc.n, "class": pc.class, "bits": positions})
			}
		}
		var wg sync.WaitGroup
		sem := make(chan struct{}, 16)
		par := func(f func()) {
			wg.Add(1)
			sem <- struct{}{}
			go func() { defer wg.Done(); f(); <-sem }()
		}
		step := 1
		if end-start > 200000 && !*thorough {
			step = 7
		}
		for a := start; a < end; a += step {
			a := a
			par(func() {
				try([]int{a}, "single-flip")
				atomic.AddInt64(&evals, 1)
				if pc.pairs {
					for b := a + 1; b < end; b++ {
						try([]int{a, b}, "double-flip")
					}
					atomic.AddInt64(&evals, int64(end-a-1))
				} else {
					r := rand.New(rand.NewSource(int64(a) + *seedv))
					for i := 0; i < 3; i++ {
						b := start + r.Intn(end-start)
						if b != a {
							try([]int{a, b}, "double-flip")
						}
					}
					atomic.AddInt64(&evals, 3)
				}
				// bursts starting at a: every length 2..32, interiors: ends only, full, alternating, two random
				if pc.n <= 4096 || a%64 == 0 {
					r := rand.New(rand.NewSource(int64(a)*31 + *seedv))
					for l := 2; l <= 32 && a+l <= end; l++ {
						for kind := 0; kind < 5; kind++ {
							pos := []int{a}
							for k := a + 1; k < a+l-1; k++ {
								switch kind {
								case 1:
									pos = append(pos, k)
								case 2:
									if (k-a)%2 == 0 {
										pos = append(pos, k)
									}
								case 3, 4:
									if r.Intn(2) == 0 {
										pos = append(pos, k)
									}
								}
							}
							pos = append(pos, a+l-1)
							try(pos, "burst")
							atomic.AddInt64(&evals, 1)
						}
					}
				}
			})
		}
		wg.Wait()
		distinct++
	}
	rep.Evaluations = int(evals)
	rep.Distinct = distinct
	rep.Samples = append(rep.Samples, map[string]interface{}{"kind": "header-error-pattern", "format": "lz4", "mask": "0x8000000000000001", "expect": "rejected"},
		map[string]interface{}{"kind": "payload-burst", "format": "none", "paylen": 64, "bits": []int{48, 49, 79}, "expect": "rejected"})
	return rep.print()
}

// enumCombos calls f for every nbits-bit mask of weight w whose lowest set bit is `low`.
func enumCombos(nbits, w, low int, f func(uint64)) {
	if w == 1 {
		f(1 << uint(low))
		return
	}
	rest := nbits - low - 1 // positions above low
	if rest < w-1 {
		return
	}
	// combinations of w-1 among `rest` positions (Gosper)
	c := uint64(1)<<uint(w-1) - 1
	limit := uint64(1) << uint(rest)
	for c < limit {
		f(1<<uint(low) | c<<uint(low+1))
		t := c | (c - 1)
		c = (t + 1) | (((^t & -^t) - 1) >> uint(bits.TrailingZeros64(c)+1))
		if c == 0 {
			break
		}
	}
}

// enumSyndromes enumerates the same masks but only XORs per-bit syndromes; f is called for undetectable patterns.
func enumSyndromes(syn []uint32, w, low int, f func(uint64), count *int64) {
	nbits := len(syn)
	rest := nbits - low - 1
	if rest < w-1 {
		return
	}
	idx := make([]int, w-1)
	for i := range idx {
		idx[i] = low + 1 + i
	}
	n := int64(0)
	for {
		s := syn[low]
		for _, k := range idx {
			s ^= syn[k]
		}
		n++
		if s == 0 {
			mask := uint64(1) << uint(low)
			for _, k := range idx {
				mask |= 1 << uint(k)
			}
			f(mask)
		}
		// next combination
		i := len(idx) - 1
		for i >= 0 && idx[i] == nbits-len(idx)+i {
			i--
		}
		if i < 0 {
			break
		}
		idx[i]++
		for j := i + 1; j < len(idx); j++ {
			idx[j] = idx[j-1] + 1
		}
	}
	*count = n
}

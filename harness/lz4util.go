package main

import "github.com/pierrec/lz4/v4"

// lz4Uncompress opens an LZ4 block with the LZ4 library itself (trusted base: used to check that what the codec
// transmitted is a block of the payload, not to decide any property of the library's own decompression path).
func lz4Uncompress(src, dst []byte) (int, error) {
	if len(dst) == 0 {
		dst = make([]byte, 1)
		n, err := lz4.UncompressBlock(src, dst)
		return n, err
	}
	return lz4.UncompressBlock(src, dst)
}

// lz4DependencyRoundTrips reports whether the LZ4 dependency itself (pierrec/lz4 CompressBlock -> UncompressBlock)
// reproduces the input. It is the discriminator for the known finding "the pinned pierrec/lz4 v4.0.3 corrupts some
// blocks larger than 64 KiB": a failure of the library's LZ4 path on an input for which this returns false is that
// finding; any failure on an input the dependency handles correctly is a different violation.
func lz4DependencyRoundTrips(payload []byte) bool {
	if len(payload) == 0 {
		return true
	}
	dst := make([]byte, lz4.CompressBlockBound(len(payload)))
	w, err := lz4.CompressBlock(payload, dst, nil)
	if err != nil {
		return false
	}
	if w == 0 { // incompressible
		return true
	}
	out := make([]byte, len(payload))
	m, err := lz4.UncompressBlock(dst[:w], out)
	if err != nil || m != len(payload) {
		return false
	}
	for i := range out {
		if out[i] != payload[i] {
			return false
		}
	}
	return true
}

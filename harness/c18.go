package main

// C18 - codecs can be shared by concurrent goroutines (DESIGN §4 C18, specs/SharedCodec.tla, specs/SharedCodecTrace.tla).
//
// Phase 0 builds K operations on ONE set of shared codec instances. Every operation builds its argument afresh for every
// call from the caller's own objects (a private c18World, private copies of byte inputs), so that concurrent calls are
// "on distinct frames or values" as the property says: the only things goroutines have in common are the codec instances
// and whatever package-level state the library keeps behind them.
// Phase 1 runs every operation sequentially (three passes in different orders) and records F(op, arg) = result.
// Phase 2 runs all operations from M goroutines at once, R rounds, each goroutine in its own seeded order, all released
// by one barrier; every result is compared with F here (fast path) and a sample of the calls - always including every
// call whose result differs - is written as ndjson events, which TLC validates against SharedCodec.tla.
// The binary is built with -race by the check driver; race reports are collected from the GORACE log by lib/checks/c18.py.

import (
	"bufio"
	"bytes"
	"encoding/hex"
	"encoding/json"
	"flag"
	"fmt"
	"hash/crc32"
	"hash/fnv"
	"io"
	"math"
	"math/big"
	"math/rand"
	"net"
	"os"
	"reflect"
	"regexp"
	"runtime"
	"runtime/pprof"
	"sort"
	"strings"
	"sync"
	"sync/atomic"
	"time"

	"github.com/datastax/go-cassandra-native-protocol/client"
	"github.com/datastax/go-cassandra-native-protocol/datacodec"
	"github.com/datastax/go-cassandra-native-protocol/datatype"
	"github.com/datastax/go-cassandra-native-protocol/frame"
	"github.com/datastax/go-cassandra-native-protocol/message"
	"github.com/datastax/go-cassandra-native-protocol/primitive"
	"github.com/datastax/go-cassandra-native-protocol/segment"
)

func init() { subcommands["c18"] = c18 }

// ---------------------------------------------------------------------------------------------------------------------
// canonical form of results

const c18NotCalled = math.MaxUint32 // marks an operation a goroutine did not perform in a round (-heavy-share)

const c18Mask = 1<<30 - 1 // digests written for TLC fit 30 bits (TLC integers are 32-bit)

func c18Hash(s string) uint64 {
	h := fnv.New64a()
	_, _ = h.Write([]byte(s))
	return h.Sum64()
}

var c18Castagnoli = crc32.MakeTable(crc32.Castagnoli)

// c18HashBytes summarises a (possibly large) byte string inside a result text. Two hardware CRC-32s rather than FNV: the
// byte loop of hash/fnv is instrumented by the race detector (one call per byte; it was 15 % of the run), the CRC
// routines are assembly.
func c18HashBytes(b []byte) uint64 {
	return uint64(crc32.ChecksumIEEE(b))<<32 | uint64(crc32.Checksum(b, c18Castagnoli))
}

// c18Bytes is the canonical text of a byte string: short ones in full, long ones as length + hash + head.
func c18Bytes(b []byte) string {
	if b == nil {
		return "nil[]byte"
	}
	if len(b) <= 48 {
		return "x" + hex.EncodeToString(b)
	}
	return fmt.Sprintf("bytes(len=%d crc=%016x head=%s)", len(b), c18HashBytes(b), hex.EncodeToString(b[:16]))
}

var c18Addr = regexp.MustCompile(`0xc[0-9a-f]{9}`)

// c18Err is the class of an error: its text, with heap addresses (if a message ever prints one) blanked.
func c18Err(err error) string {
	return "err:" + c18Addr.ReplaceAllString(err.Error(), "0xADDR")
}

// c18Dump writes a canonical, address-free rendering of v: pointers are followed, maps are sorted, nil and empty
// slices are told apart, floats are printed by bit pattern.
func c18Dump(x interface{}) string {
	sb := &strings.Builder{}
	c18DumpValue(sb, reflect.ValueOf(x), 0)
	return sb.String()
}

func c18DumpValue(sb *strings.Builder, v reflect.Value, depth int) {
	if !v.IsValid() {
		sb.WriteString("nil")
		return
	}
	if depth > 40 {
		sb.WriteString("<deep>")
		return
	}
	if v.CanInterface() {
		switch x := v.Interface().(type) {
		case *big.Int:
			if x == nil {
				sb.WriteString("nil*big")
			} else {
				sb.WriteString("big(" + x.String() + ")")
			}
			return
		case time.Time:
			fmt.Fprintf(sb, "time(%d.%09d %s)", x.Unix(), x.Nanosecond(), x.Location().String())
			return
		case net.IP:
			sb.WriteString("ip(" + c18Bytes(x) + ")")
			return
		case []byte:
			sb.WriteString(c18Bytes(x))
			return
		}
	}
	switch v.Kind() {
	case reflect.Ptr:
		if v.IsNil() {
			sb.WriteString("nil*")
			return
		}
		sb.WriteString("&")
		c18DumpValue(sb, v.Elem(), depth+1)
	case reflect.Interface:
		if v.IsNil() {
			sb.WriteString("nil")
			return
		}
		sb.WriteString("(" + v.Elem().Type().String() + ")")
		c18DumpValue(sb, v.Elem(), depth+1)
	case reflect.Struct:
		sb.WriteString(v.Type().String() + "{")
		for i := 0; i < v.NumField(); i++ {
			if i > 0 {
				sb.WriteString(" ")
			}
			sb.WriteString(v.Type().Field(i).Name + ":")
			c18DumpValue(sb, v.Field(i), depth+1)
		}
		sb.WriteString("}")
	case reflect.Slice:
		if v.IsNil() {
			sb.WriteString("nil[]")
			return
		}
		if v.Type().Elem().Kind() == reflect.Uint8 {
			sb.WriteString(c18Bytes(v.Bytes()))
			return
		}
		fallthrough
	case reflect.Array:
		sb.WriteString("[")
		for i := 0; i < v.Len(); i++ {
			if i > 0 {
				sb.WriteString(" ")
			}
			c18DumpValue(sb, v.Index(i), depth+1)
		}
		sb.WriteString("]")
	case reflect.Map:
		if v.IsNil() {
			sb.WriteString("nil-map")
			return
		}
		entries := make([]string, 0, v.Len())
		it := v.MapRange()
		for it.Next() {
			e := &strings.Builder{}
			c18DumpValue(e, it.Key(), depth+1)
			e.WriteString("=>")
			c18DumpValue(e, it.Value(), depth+1)
			entries = append(entries, e.String())
		}
		sort.Strings(entries)
		sb.WriteString("map{" + strings.Join(entries, ", ") + "}")
	case reflect.String:
		fmt.Fprintf(sb, "%q", v.String())
	case reflect.Bool:
		fmt.Fprintf(sb, "%v", v.Bool())
	case reflect.Int, reflect.Int8, reflect.Int16, reflect.Int32, reflect.Int64:
		fmt.Fprintf(sb, "%d", v.Int())
	case reflect.Uint, reflect.Uint8, reflect.Uint16, reflect.Uint32, reflect.Uint64, reflect.Uintptr:
		fmt.Fprintf(sb, "%d", v.Uint())
	case reflect.Float32, reflect.Float64:
		fmt.Fprintf(sb, "f%016x", math.Float64bits(v.Float()))
	default:
		sb.WriteString("<" + v.Type().String() + ">")
	}
}

// c18MultiMap reports whether x contains a map with two or more entries: the encoding of such an object may list the
// entries in any order (DESIGN §2.2), so the result of encoding it is compared after decoding.
func c18MultiMap(v reflect.Value, depth int) bool {
	if !v.IsValid() || depth > 40 {
		return false
	}
	switch v.Kind() {
	case reflect.Ptr, reflect.Interface:
		return !v.IsNil() && c18MultiMap(v.Elem(), depth+1)
	case reflect.Struct:
		if v.Type() == reflect.TypeOf(big.Int{}) || v.Type() == reflect.TypeOf(time.Time{}) {
			return false
		}
		for i := 0; i < v.NumField(); i++ {
			if c18MultiMap(v.Field(i), depth+1) {
				return true
			}
		}
	case reflect.Slice, reflect.Array:
		if v.Type().Elem().Kind() == reflect.Uint8 {
			return false
		}
		for i := 0; i < v.Len(); i++ {
			if c18MultiMap(v.Index(i), depth+1) {
				return true
			}
		}
	case reflect.Map:
		if v.Len() >= 2 {
			return true
		}
		it := v.MapRange()
		for it.Next() {
			if c18MultiMap(it.Key(), depth+1) || c18MultiMap(it.Value(), depth+1) {
				return true
			}
		}
	}
	return false
}

func c18Copy(b []byte) []byte { return append(make([]byte, 0, len(b)), b...) }

// ---------------------------------------------------------------------------------------------------------------------
// the caller's private objects and the shared instances

// c18World holds objects that belong to ONE caller: its own sample messages. A goroutine builds a new one every round.
type c18World struct {
	cat map[primitive.ProtocolVersion][]NamedMsg
}

func newC18World() *c18World {
	w := &c18World{cat: map[primitive.ProtocolVersion][]NamedMsg{}}
	for _, v := range Versions {
		w.cat[v] = Catalogue(v)
	}
	return w
}

type c18FrameCodec struct {
	name     string
	codec    frame.Codec
	raw      frame.RawCodec // nil when the instance was obtained as a plain frame.Codec
	compress bool
}

type c18SegCodec struct {
	name  string
	codec segment.Codec
	max   int
}

type c18ValueCodec struct {
	name    string
	codec   datacodec.Codec
	samples []func() interface{} // each call builds its own source value
	dests   []func() interface{} // each call builds its own destination
}

// c18Shared are the instances every goroutine uses at once.
type c18Shared struct {
	frames     []c18FrameCodec
	segs       []c18SegCodec
	msgCodecs  map[primitive.OpCode]message.Codec
	bodyLz4    frame.BodyCompressor
	bodySnappy frame.BodyCompressor
	payLz4     segment.PayloadCompressor
	values     []c18ValueCodec
}

func newC18Shared() *c18Shared {
	sh := &c18Shared{
		bodyLz4:    client.NewBodyCompressor(primitive.CompressionLz4),
		bodySnappy: client.NewBodyCompressor(primitive.CompressionSnappy),
		payLz4:     client.NewPayloadCompressor(primitive.CompressionLz4),
		msgCodecs:  map[primitive.OpCode]message.Codec{},
	}
	raw := frame.NewRawCodec()
	lz4 := frame.NewRawCodecWithCompression(sh.bodyLz4)
	snappy := frame.NewRawCodecWithCompression(sh.bodySnappy)
	sh.frames = []c18FrameCodec{
		{"plain", frame.NewCodec(), nil, false},
		{"raw", raw, raw, false},
		{"lz4", lz4, lz4, true},
		{"snappy", snappy, snappy, true},
	}
	sh.segs = []c18SegCodec{
		{"plain", segment.NewCodec(), 131071},
		{"lz4", segment.NewCodecWithCompression(sh.payLz4), 60000}, // the pinned LZ4 dependency corrupts some >64 KiB inputs (known, C08)
	}
	for _, mc := range message.DefaultMessageCodecs {
		sh.msgCodecs[mc.GetOpCode()] = mc
	}
	sh.values = c18ValueCodecs()
	return sh
}

type c18Udt struct {
	A int32               `cassandra:"a"`
	B []string            `cassandra:"b"`
	C map[string]*big.Int `cassandra:"c"`
}

type c18Tuple struct {
	X int32
	Y string
	Z float64
}

func c18Big(s string) *big.Int {
	n, ok := new(big.Int).SetString(s, 10)
	if !ok {
		panic("bad big int " + s)
	}
	return n
}

func c18MustCodec(dt datatype.DataType, err0 error) datacodec.Codec {
	if err0 != nil {
		panic(err0)
	}
	c, err := datacodec.NewCodec(dt)
	if err != nil {
		panic(fmt.Sprintf("datacodec.NewCodec(%v): %v", dt, err))
	}
	return c
}

func c18ValueCodecs() []c18ValueCodec {
	type S = []func() interface{}
	k := func(x interface{}) func() interface{} { return func() interface{} { return x } } // immutable scalars only
	ts := time.Date(2021, 10, 11, 12, 13, 14, 123000000, time.UTC)
	longText := strings.Repeat("shared codec ", 40)
	uuid := primitive.UUID{0xc0, 0xd1, 0xd2, 0x1e, 0xbb, 0x01, 0x41, 0x96, 0x86, 0xdb, 0xbc, 0x31, 0x7b, 0xc1, 0x79, 0x6a}
	strDests := S{func() interface{} { return new(string) }, func() interface{} { return new([]byte) }, func() interface{} { return new(interface{}) }}
	intDests := S{func() interface{} { return new(int64) }, func() interface{} { return new(int32) }, func() interface{} { return new(int8) },
		func() interface{} { return new(uint16) }, func() interface{} { return new(big.Int) }, func() interface{} { return new(interface{}) }}
	intSamples := func(big64 int64) S {
		return S{k(int64(big64)), k(int(-42)), k(int8(7)), func() interface{} { return big.NewInt(99) }, func() interface{} { x := int32(-5); return &x }, k(nil)}
	}
	out := []c18ValueCodec{
		{"Ascii", datacodec.Ascii, S{k("hello"), k(""), k(longText), func() interface{} { return []byte("abc") }}, strDests},
		{"Varchar", datacodec.Varchar, S{k("héllo wörld"), k(longText), func() interface{} { s := "ptr"; return &s }, k(nil)}, strDests},
		{"Bigint", datacodec.Bigint, intSamples(math.MinInt64 + 5), intDests},
		{"Counter", datacodec.Counter, intSamples(1 << 40), intDests},
		{"Int", datacodec.Int, intSamples(-123456), intDests},
		{"Smallint", datacodec.Smallint, intSamples(-1234), intDests},
		{"Tinyint", datacodec.Tinyint, intSamples(-12), intDests},
		{"Varint", datacodec.Varint, S{func() interface{} { return c18Big("1267650600228229401496703205376123") },
			func() interface{} { return c18Big("-340282366920938463463374607431768211457") }, k(int64(-1)), k(uint64(math.MaxUint64)),
			k("123456789012345678901234567890"), func() interface{} { return big.NewInt(0) }},
			S{func() interface{} { return new(big.Int) }, func() interface{} { return new(int64) }, func() interface{} { return new(string) },
				func() interface{} { return new(interface{}) }}},
		{"Decimal", datacodec.Decimal, S{func() interface{} { return datacodec.CqlDecimal{Unscaled: big.NewInt(12345), Scale: 2} },
			func() interface{} {
				return &datacodec.CqlDecimal{Unscaled: c18Big("-1180591620717411303424001"), Scale: -3}
			}, k(nil)},
			S{func() interface{} { return new(datacodec.CqlDecimal) }, func() interface{} { return new(interface{}) }}},
		{"Double", datacodec.Double, S{k(3.141592653589793), k(float32(1.5)), k(math.Inf(-1)), k(nil)},
			S{func() interface{} { return new(float64) }, func() interface{} { return new(float32) }, func() interface{} { return new(interface{}) }}},
		{"Float", datacodec.Float, S{k(float32(2.5)), k(float32(-0.0)), k(nil)},
			S{func() interface{} { return new(float32) }, func() interface{} { return new(float64) }, func() interface{} { return new(interface{}) }}},
		{"Boolean", datacodec.Boolean, S{k(true), k(false), k(int(1)), k(nil)},
			S{func() interface{} { return new(bool) }, func() interface{} { return new(int) }, func() interface{} { return new(interface{}) }}},
		{"Blob", datacodec.Blob, S{func() interface{} { return []byte{0, 1, 2, 253, 254, 255} }, func() interface{} { return []byte{} }, k("text as blob"),
			func() interface{} { return bytes.Repeat([]byte{0xab, 0xcd}, 500) }}, strDests},
		{"PassThrough", datacodec.PassThrough, S{func() interface{} { return []byte{9, 8, 7} }}, strDests},
		{"Date", datacodec.Date, S{k(ts), k(int32(18000)), k("2021-01-02"), k(nil)},
			S{func() interface{} { return new(time.Time) }, func() interface{} { return new(int32) }, func() interface{} { return new(string) },
				func() interface{} { return new(interface{}) }}},
		{"Time", datacodec.Time, S{k(12*time.Hour + 34*time.Minute + 56*time.Second + 789*time.Millisecond), k(int64(1_000_000_000)), k(ts), k("12:34:56.789"), k(nil)},
			S{func() interface{} { return new(time.Duration) }, func() interface{} { return new(int64) }, func() interface{} { return new(string) },
				func() interface{} { return new(time.Time) }, func() interface{} { return new(interface{}) }}},
		{"Timestamp", datacodec.Timestamp, S{k(ts), k(int64(-1234567890123)), k("2021-10-11T12:13:14.123Z"), k(nil)},
			S{func() interface{} { return new(time.Time) }, func() interface{} { return new(int64) }, func() interface{} { return new(string) },
				func() interface{} { return new(interface{}) }}},
		{"Duration", datacodec.Duration, S{k(datacodec.CqlDuration{Months: 1, Days: 2, Nanos: 3 * time.Second}),
			func() interface{} { return &datacodec.CqlDuration{Months: -12, Days: -30, Nanos: -time.Hour} }, k(nil)},
			S{func() interface{} { return new(datacodec.CqlDuration) }, func() interface{} { return new(interface{}) }}},
		{"Inet", datacodec.Inet, S{func() interface{} { return net.IPv4(192, 168, 1, 1) }, func() interface{} { return net.ParseIP("2001:db8::1") },
			func() interface{} { return []byte{10, 0, 0, 1} }, k("127.0.0.1"), k(nil)},
			S{func() interface{} { return new(net.IP) }, func() interface{} { return new([]byte) }, func() interface{} { return new(string) },
				func() interface{} { return new(interface{}) }}},
		{"Uuid", datacodec.Uuid, S{k(uuid), func() interface{} { u := uuid; return &u }, func() interface{} { return c18Copy(uuid[:]) }, k("c0d1d21e-bb01-4196-86db-bc317bc1796a"), k(nil)},
			S{func() interface{} { return new(primitive.UUID) }, func() interface{} { return new([]byte) }, func() interface{} { return new(string) },
				func() interface{} { return new(interface{}) }}},
		{"Timeuuid", datacodec.Timeuuid, S{k(uuid), func() interface{} { return c18Copy(uuid[:]) }},
			S{func() interface{} { return new(primitive.UUID) }, func() interface{} { return new(interface{}) }}},
	}

	// composed codecs, built once with datacodec.NewCodec and shared
	listInt := c18MustCodec(datatype.NewList(datatype.Int), nil)
	setVarchar := c18MustCodec(datatype.NewSet(datatype.Varchar), nil)
	listVarint := c18MustCodec(datatype.NewList(datatype.Varint), nil)
	listDecimal := c18MustCodec(datatype.NewList(datatype.Decimal), nil)
	listList := c18MustCodec(datatype.NewList(datatype.NewList(datatype.Int)), nil)
	mapTextBigint := c18MustCodec(datatype.NewMap(datatype.Varchar, datatype.Bigint), nil)
	mapIntList := c18MustCodec(datatype.NewMap(datatype.Int, datatype.NewList(datatype.Varchar)), nil)
	mapUuidTs := c18MustCodec(datatype.NewMap(datatype.Uuid, datatype.Timestamp), nil)
	tupleT := datatype.NewTuple(datatype.Int, datatype.Varchar, datatype.Double)
	tuple := c18MustCodec(tupleT, nil)
	udtT, udtErr := datatype.NewUserDefined("ks", "shared_udt", []string{"a", "b", "c"},
		[]datatype.DataType{datatype.Int, datatype.NewList(datatype.Varchar), datatype.NewMap(datatype.Varchar, datatype.Varint)})
	udt := c18MustCodec(udtT, udtErr)
	listUdt := c18MustCodec(datatype.NewList(udtT), nil)
	listTuple := c18MustCodec(datatype.NewList(tupleT), nil)
	custom := c18MustCodec(datatype.NewCustom("org.example.SharedType"), nil)
	iface := func() interface{} { return new(interface{}) }
	mkUdtMap := func(n int32) map[string]interface{} {
		return map[string]interface{}{"a": n, "b": []string{"x", fmt.Sprint("y", n)}, "c": map[string]*big.Int{"k": c18Big("170141183460469231731687303715884105727")}}
	}
	out = append(out,
		c18ValueCodec{"list<int>", listInt, S{func() interface{} { return []int32{1, -2, 3, math.MaxInt32} }, func() interface{} { return []int{} },
			func() interface{} { return [3]int64{7, 8, 9} }, func() interface{} { return []*int32{i32p(5), nil} }, k(nil)},
			S{func() interface{} { return new([]int32) }, func() interface{} { return new([]int64) }, func() interface{} { return new([4]int32) }, iface}},
		c18ValueCodec{"set<varchar>", setVarchar, S{func() interface{} { return []string{"a", "bb", longText} }, func() interface{} { return []interface{}{"p", "q"} }},
			S{func() interface{} { return new([]string) }, func() interface{} { return new([]interface{}) }, iface}},
		c18ValueCodec{"list<varint>", listVarint, S{func() interface{} {
			return []*big.Int{c18Big("1267650600228229401496703205376"), big.NewInt(-129), big.NewInt(0)}
		}, func() interface{} { return []int64{1, -1, 255} }},
			S{func() interface{} { return new([]*big.Int) }, func() interface{} { return new([]int64) }, iface}},
		c18ValueCodec{"list<decimal>", listDecimal, S{func() interface{} {
			return []datacodec.CqlDecimal{{Unscaled: big.NewInt(-1), Scale: 1}, {Unscaled: c18Big("99999999999999999999999"), Scale: 10}}
		}}, S{func() interface{} { return new([]datacodec.CqlDecimal) }, iface}},
		c18ValueCodec{"list<list<int>>", listList, S{func() interface{} { return [][]int32{{1, 2}, {}, {3}} }},
			S{func() interface{} { return new([][]int32) }, iface}},
		c18ValueCodec{"map<varchar,bigint>", mapTextBigint, S{func() interface{} { return map[string]int64{"one": 1} },
			func() interface{} { return map[string]int64{"a": 1, "b": -2, "c": 3, "d": math.MaxInt64} }, func() interface{} { return map[string]int64{} }, k(nil)},
			S{func() interface{} { return new(map[string]int64) }, func() interface{} { return new(map[string]*int64) }, iface}},
		c18ValueCodec{"map<int,list<varchar>>", mapIntList, S{func() interface{} { return map[int32][]string{7: {"x", "y"}} },
			func() interface{} { return map[int32][]string{1: {"a"}, 2: {}, 3: {"b", "c"}} }},
			S{func() interface{} { return new(map[int32][]string) }, iface}},
		c18ValueCodec{"map<uuid,timestamp>", mapUuidTs, S{func() interface{} { return map[primitive.UUID]time.Time{uuid: ts} }},
			S{func() interface{} { return new(map[primitive.UUID]time.Time) }, func() interface{} { return new(map[primitive.UUID]int64) }, iface}},
		c18ValueCodec{"tuple<int,varchar,double>", tuple, S{func() interface{} { return []interface{}{int32(1), "x", 2.5} },
			func() interface{} { return c18Tuple{-7, longText, math.Pi} }, func() interface{} { return []interface{}{nil, nil, nil} }},
			S{func() interface{} { return new([]interface{}) }, func() interface{} { return new(c18Tuple) }, iface}},
		c18ValueCodec{"udt<a:int,b:list<varchar>,c:map<varchar,varint>>", udt, S{func() interface{} { return mkUdtMap(11) },
			func() interface{} {
				return c18Udt{A: 3, B: []string{"s", "t"}, C: map[string]*big.Int{"m": big.NewInt(-255), "n": big.NewInt(256)}}
			},
			func() interface{} { return &c18Udt{A: 4} }},
			S{func() interface{} { return new(map[string]interface{}) }, func() interface{} { return new(c18Udt) }, iface}},
		c18ValueCodec{"list<udt>", listUdt, S{func() interface{} { return []map[string]interface{}{mkUdtMap(1), mkUdtMap(2)} },
			func() interface{} { return []c18Udt{{A: 1, B: []string{"q"}}, {A: 2}} }},
			S{func() interface{} { return new([]c18Udt) }, func() interface{} { return new([]map[string]interface{}) }, iface}},
		c18ValueCodec{"list<tuple>", listTuple, S{func() interface{} { return []c18Tuple{{1, "a", 1.5}, {2, "b", -2.5}} }},
			S{func() interface{} { return new([]c18Tuple) }, iface}},
		c18ValueCodec{"custom", custom, S{func() interface{} { return []byte{0xde, 0xad, 0xbe, 0xef} }, k("custom text")}, strDests},
	)
	return out
}

// ---------------------------------------------------------------------------------------------------------------------
// operations

type c18Op struct {
	Kind string // operation kind, part of the violation signature, e.g. "frame.EncodeFrame"
	Op   string // the "op" of the events: kind / codec instance / protocol version
	Desc string // what exactly is called, for people
	Arg  uint32 // digest of the argument (30 bits), unique within Op
	// Heavy marks the operations that run the LZ4 block compressor. Each such call takes a 128 KiB match table from a
	// pool that the race detector deliberately starves; every fresh table makes the race runtime remap its shadow
	// (mmap + madvise, TLB shootdowns on all cores). Measured: the 14 % of operations that were LZ4 compressions took
	// 80 % of the wall time. They are therefore thinned when built (see c18LZ4Keep) and can be shared out between the
	// goroutines with -heavy-share.
	Heavy bool
	run   func(w *c18World) string
}

type c18Builder struct {
	ops   []*c18Op
	taken map[string]bool
}

// add registers one operation; argText identifies the argument (it is only hashed).
func (b *c18Builder) add(kind, inst, ver, desc, argText string, run func(w *c18World) string) {
	op := &c18Op{Kind: kind, Op: kind + "/" + inst + "/" + ver, Desc: desc}
	a := uint32(c18Hash(argText) & c18Mask)
	for b.taken[fmt.Sprintf("%s#%d", op.Op, a)] {
		a = (a + 1) & c18Mask
	}
	b.taken[fmt.Sprintf("%s#%d", op.Op, a)] = true
	op.Arg = a
	op.run = func(w *c18World) (res string) {
		defer func() {
			if r := recover(); r != nil {
				res = "panic:" + c18Addr.ReplaceAllString(fmt.Sprint(r), "0xADDR")
			}
		}()
		return run(w)
	}
	b.ops = append(b.ops, op)
}

// heavy marks the operation just added as one that runs the LZ4 block compressor.
func (b *c18Builder) heavy(is bool) {
	if is {
		b.ops[len(b.ops)-1].Heavy = true
	}
}

// c18LZ4Keep thins the LZ4-compressing frame operations: message i of the vi-th version keeps them when (i + vi) is a
// multiple of 4, so every version has some; frameOps also keeps them, in the last version, for every message kind
// that was not picked in an earlier one, so every kind has them somewhere. The decoding operations on LZ4 frames are
// kept for every message of every version.
func c18LZ4Keep(i, vi int) bool { return (i+vi)%4 == 0 }

func c18EncResult(out []byte, err error) string {
	if err != nil {
		return c18Err(err)
	}
	return fmt.Sprintf("bytes(len=%d crc=%016x head=%s)", len(out), c18HashBytes(out), hex.EncodeToString(out[:c18min(len(out), 24)]))
}

func c18min(a, b int) int {
	if a < b {
		return a
	}
	return b
}

var c18TracingId = primitive.UUID{1, 2, 3, 4, 5, 6, 7, 8, 9, 10, 11, 12, 13, 14, 15, 16}

// c18Frame builds the caller's own frame number i of version v, in one of four shapes.
func c18Frame(w *c18World, v primitive.ProtocolVersion, i int, compress bool) *frame.Frame {
	msg := w.cat[v][i].Msg
	f := frame.NewFrame(v, int16(i+1), msg)
	switch i % 4 {
	case 1:
		if msg.IsResponse() {
			id := c18TracingId
			f.SetTracingId(&id)
		} else {
			f.RequestTracingId(true)
		}
	case 2:
		if v >= primitive.ProtocolVersion4 {
			f.SetCustomPayload(map[string][]byte{"k1": {1, 2}, "k2": {3}})
		}
	case 3:
		if v >= primitive.ProtocolVersion4 && msg.IsResponse() {
			f.SetWarnings([]string{"w1", "second warning"})
		}
	}
	if compress {
		f.SetCompress(true) // refuses by itself where compression is not legal (STARTUP, OPTIONS, READY)
	}
	return f
}

func c18Reader(b []byte, asBuffer bool) io.Reader {
	if asBuffer {
		return bytes.NewBuffer(b)
	}
	return bytes.NewReader(b)
}

func (b *c18Builder) frameOps(sh *c18Shared, w0 *c18World) {
	lz4Kinds := map[string]bool{} // message kinds whose frames are LZ4-compressed by some operation
	for vi, v := range Versions {
		vn := versionName(v)
		for i, nm := range w0.cat[v] {
			v, i, nm := v, i, nm
			for _, fc := range sh.frames {
				fc := fc
				f0 := c18Frame(w0, v, i, fc.compress)
				flagged := f0.Header.Flags.Contains(primitive.HeaderFlagCompressed)
				what := fmt.Sprintf("%s %s frame #%d (shape %d, compressed flag %v) on the shared %q frame codec", vn, nm.Kind, i, i%4, flagged, fc.name)
				argText := c18Dump(f0)
				unordered := c18MultiMap(reflect.ValueOf(f0), 0)
				lz4Heavy := fc.name == "lz4" && flagged
				encodeToo := !lz4Heavy || c18LZ4Keep(i, vi) || (vi == len(Versions)-1 && !lz4Kinds[nm.Kind])
				if lz4Heavy && encodeToo {
					lz4Kinds[nm.Kind] = true
				}
				if encodeToo {
					b.c18EncodeFrameOp(fc, v, i, what, argText, unordered)
					b.heavy(lz4Heavy)
				}
				// the bytes the decode operations start from (built here, once, sequentially)
				buf0 := &bytes.Buffer{}
				if err := fc.codec.EncodeFrame(c18Frame(w0, v, i, fc.compress), buf0); err != nil {
					continue
				}
				enc0 := buf0.Bytes()
				hdrLen := v.FrameHeaderLengthInBytes()
				asBuffer := i%2 == 0
				b.add("frame.DecodeFrame", fc.name, vn, "DecodeFrame: "+what, hex.EncodeToString(enc0), func(w *c18World) string {
					fr, err := fc.codec.DecodeFrame(c18Reader(c18Copy(enc0), asBuffer))
					if err != nil {
						return c18Err(err)
					}
					return c18Dump(fr)
				})
				if fc.raw == nil || (fc.compress && i%3 != 2) {
					// the header-only / raw-body operations are exercised for every message on the "raw" instance, and for
					// every third message on the compressing instances (see c18Op.Heavy for what an LZ4 compression costs here)
					continue
				}
				rc := fc.raw
				hdr0, err := rc.DecodeHeader(bytes.NewReader(enc0))
				if err != nil {
					continue
				}
				header0 := *hdr0
				if encodeToo {
					b.add("frame.ConvertToRawFrame", fc.name, vn, "ConvertToRawFrame: "+what, argText, func(w *c18World) string {
						rf, err := rc.ConvertToRawFrame(c18Frame(w, v, i, fc.compress))
						if err != nil {
							return c18Err(err)
						}
						if unordered {
							back, err := rc.ConvertFromRawFrame(rf)
							if err != nil {
								return "reopen-" + c18Err(err)
							}
							back.Header.BodyLength = 0
							return "means " + c18Dump(back)
						}
						return c18Dump(rf)
					})
					b.heavy(lz4Heavy)
				}
				mkRaw := func() *frame.RawFrame {
					h := header0
					return &frame.RawFrame{Header: &h, Body: c18Copy(enc0[hdrLen:])}
				}
				b.add("frame.ConvertFromRawFrame", fc.name, vn, "ConvertFromRawFrame: "+what, hex.EncodeToString(enc0), func(w *c18World) string {
					fr, err := rc.ConvertFromRawFrame(mkRaw())
					if err != nil {
						return c18Err(err)
					}
					return c18Dump(fr)
				})
				b.add("frame.EncodeRawFrame", fc.name, vn, "EncodeRawFrame: "+what, hex.EncodeToString(enc0), func(w *c18World) string {
					buf := &bytes.Buffer{}
					err := rc.EncodeRawFrame(mkRaw(), buf)
					return c18EncResult(buf.Bytes(), err)
				})
				b.add("frame.DecodeRawFrame", fc.name, vn, "DecodeRawFrame: "+what, hex.EncodeToString(enc0), func(w *c18World) string {
					rf, err := rc.DecodeRawFrame(c18Reader(c18Copy(enc0), asBuffer))
					if err != nil {
						return c18Err(err)
					}
					return c18Dump(rf)
				})
				b.add("frame.DecodeHeader+DecodeBody", fc.name, vn, "DecodeHeader then DecodeBody: "+what, hex.EncodeToString(enc0), func(w *c18World) string {
					src := c18Reader(c18Copy(enc0), asBuffer)
					h, err := rc.DecodeHeader(src)
					if err != nil {
						return c18Err(err)
					}
					body, err := rc.DecodeBody(h, src)
					if err != nil {
						return c18Dump(h) + " " + c18Err(err)
					}
					return c18Dump(h) + " " + c18Dump(body)
				})
				b.add("frame.DecodeHeader+DiscardBody", fc.name, vn, "DecodeHeader then DiscardBody: "+what, hex.EncodeToString(enc0), func(w *c18World) string {
					src := bytes.NewReader(append(c18Copy(enc0), 0xEE))
					h, err := rc.DecodeHeader(src)
					if err != nil {
						return c18Err(err)
					}
					if err := rc.DiscardBody(h, src); err != nil {
						return c18Dump(h) + " " + c18Err(err)
					}
					return fmt.Sprintf("%s left=%d", c18Dump(h), src.Len())
				})
				if !encodeToo {
					continue
				}
				b.add("frame.EncodeHeader+EncodeBody", fc.name, vn, "EncodeHeader then EncodeBody: "+what, argText, func(w *c18World) string {
					f := c18Frame(w, v, i, fc.compress)
					body := &bytes.Buffer{}
					if err := rc.EncodeBody(f.Header, f.Body, body); err != nil {
						return c18Err(err)
					}
					f.Header.BodyLength = int32(body.Len())
					hdr := &bytes.Buffer{}
					if err := rc.EncodeHeader(f.Header, hdr); err != nil {
						return c18Err(err)
					}
					if unordered {
						back, err := rc.DecodeBody(f.Header, bytes.NewReader(body.Bytes()))
						if err != nil {
							return "reopen-" + c18Err(err)
						}
						return fmt.Sprintf("header %s body means %s", c18Bytes(hdr.Bytes()[:hdr.Len()-4]), c18Dump(back))
					}
					return "header " + c18Bytes(hdr.Bytes()) + " body " + c18EncResult(body.Bytes(), nil)
				})
				b.heavy(lz4Heavy)
			}
		}
	}
}

func (b *c18Builder) c18EncodeFrameOp(fc c18FrameCodec, v primitive.ProtocolVersion, i int, what, argText string, unordered bool) {
	b.add("frame.EncodeFrame", fc.name, versionName(v), "EncodeFrame: "+what, argText, func(w *c18World) string {
		f := c18Frame(w, v, i, fc.compress)
		buf := &bytes.Buffer{}
		if err := fc.codec.EncodeFrame(f, buf); err != nil {
			return c18Err(err)
		}
		if unordered { // map entries may be written in any order: compare what the bytes mean
			back, err := fc.codec.DecodeFrame(bytes.NewReader(buf.Bytes()))
			if err != nil {
				return "reopen-" + c18Err(err)
			}
			back.Header.BodyLength = 0 // the compressed length depends on the order too
			return "means " + c18Dump(back)
		}
		return fmt.Sprintf("bodylength=%d %s", f.Header.BodyLength, c18EncResult(buf.Bytes(), nil))
	})
}

func (b *c18Builder) messageOps(sh *c18Shared, w0 *c18World) {
	for _, v := range Versions {
		vn := versionName(v)
		for i, nm := range w0.cat[v] {
			v, i, nm := v, i, nm
			mc := sh.msgCodecs[nm.Msg.GetOpCode()]
			if mc == nil {
				continue
			}
			what := fmt.Sprintf("%s %s message #%d on message.DefaultMessageCodecs[opcode %v]", vn, nm.Kind, i, nm.Msg.GetOpCode())
			argText := c18Dump(nm.Msg)
			unordered := c18MultiMap(reflect.ValueOf(nm.Msg), 0)
			b.add("message.Encode", "default", vn, "Encode: "+what, argText, func(w *c18World) string {
				buf := &bytes.Buffer{}
				if err := mc.Encode(w.cat[v][i].Msg, buf, v); err != nil {
					return c18Err(err)
				}
				if unordered {
					back, err := mc.Decode(bytes.NewReader(buf.Bytes()), v)
					if err != nil {
						return "reopen-" + c18Err(err)
					}
					return "means " + c18Dump(back)
				}
				return c18EncResult(buf.Bytes(), nil)
			})
			b.add("message.EncodedLength", "default", vn, "EncodedLength: "+what, argText, func(w *c18World) string {
				n, err := mc.EncodedLength(w.cat[v][i].Msg, v)
				if err != nil {
					return c18Err(err)
				}
				return fmt.Sprint("length=", n)
			})
			buf0 := &bytes.Buffer{}
			if err := mc.Encode(nm.Msg, buf0, v); err != nil {
				continue
			}
			enc0 := buf0.Bytes()
			b.add("message.Decode", "default", vn, "Decode: "+what, hex.EncodeToString(enc0), func(w *c18World) string {
				m, err := mc.Decode(c18Reader(c18Copy(enc0), i%2 == 0), v)
				if err != nil {
					return c18Err(err)
				}
				return c18Dump(m)
			})
		}
	}
}

type c18Payload struct {
	class string
	data  []byte // master copy, never handed to the library
}

func c18Payloads(seed int64) []c18Payload {
	// Large buffers are kept few: under the race detector every allocation of some tens of KiB remaps shadow memory
	// (mmap / madvise, TLB shootdowns on all cores), which serialises the goroutines and hides the interleavings the
	// check is after. Measured: with four classes at each of 32 KiB .. 128 KiB one round took 25 s instead of 3 s.
	rnd := rand.New(rand.NewSource(seed ^ 0x18c18))
	var out []c18Payload
	classes := []string{"text", "rand", "sparse", "rep64"}
	for si, n := range []int{0, 1, 17, 255, 1500, 4096, 9000, 32768, 59000, 131071} {
		for ci, class := range classes {
			if n > 9000 && ci != si%len(classes) {
				continue
			}
			out = append(out, c18Payload{class, contentOf(class, n, rnd)})
		}
	}
	return out
}

func (b *c18Builder) segmentOps(sh *c18Shared, payloads []c18Payload) {
	for pi, p := range payloads {
		pi, p := pi, p
		for _, sc := range sh.segs {
			sc := sc
			if len(p.data) > sc.max {
				continue
			}
			selfContained := pi%3 != 0
			what := fmt.Sprintf("segment with a %d-byte %q payload (self-contained %v) on the shared %q segment codec", len(p.data), p.class, selfContained, sc.name)
			if sc.name != "lz4" || pi%2 == 0 || len(p.data) > 9000 {
				b.add("segment.EncodeSegment", sc.name, "v5", "EncodeSegment: "+what, fmt.Sprintf("%v:%x", selfContained, p.data), func(w *c18World) string {
					out, err := encodeSeg(sc.codec, c18Copy(p.data), selfContained)
					return c18EncResult(out, err)
				})
				b.heavy(sc.name == "lz4")
			}
			enc0, err := encodeSeg(sc.codec, c18Copy(p.data), selfContained)
			if err != nil {
				continue
			}
			b.add("segment.DecodeSegment", sc.name, "v5", "DecodeSegment: "+what, hex.EncodeToString(enc0), func(w *c18World) string {
				seg, err := sc.codec.DecodeSegment(c18Reader(c18Copy(enc0), pi%2 == 0))
				if err != nil {
					return c18Err(err)
				}
				return c18Dump(seg)
			})
		}
	}
}

func (b *c18Builder) compressorOps(sh *c18Shared, payloads []c18Payload) {
	type bodyC struct {
		name string
		c    frame.BodyCompressor
	}
	for pi, p := range payloads {
		pi, p := pi, p
		if len(p.data) > 60000 {
			continue
		}
		for _, bc := range []bodyC{{"lz4", sh.bodyLz4}, {"snappy", sh.bodySnappy}} {
			bc := bc
			what := fmt.Sprintf("%d-byte %q input on the shared %s body compressor (client.NewBodyCompressor)", len(p.data), p.class, bc.name)
			if bc.name != "lz4" || pi%3 == 0 {
				b.add("compressor.CompressWithLength", bc.name, "-", "CompressWithLength: "+what, hex.EncodeToString(p.data), func(w *c18World) string {
					out := &bytes.Buffer{}
					err := bc.c.CompressWithLength(c18Reader(c18Copy(p.data), pi%2 == 0), out)
					return c18EncResult(out.Bytes(), err)
				})
				b.heavy(bc.name == "lz4")
			}
			out0 := &bytes.Buffer{}
			if err := bc.c.CompressWithLength(bytes.NewBuffer(c18Copy(p.data)), out0); err != nil {
				continue
			}
			enc0 := out0.Bytes()
			b.add("compressor.DecompressWithLength", bc.name, "-", "DecompressWithLength of the compressed "+what, hex.EncodeToString(enc0), func(w *c18World) string {
				out := &bytes.Buffer{}
				err := bc.c.DecompressWithLength(c18Reader(c18Copy(enc0), pi%2 == 1), out)
				return c18EncResult(out.Bytes(), err)
			})
		}
		what := fmt.Sprintf("%d-byte %q input on the shared lz4 payload compressor (client.NewPayloadCompressor)", len(p.data), p.class)
		if pi%3 == 1 {
			b.add("compressor.Compress", "lz4", "-", "Compress: "+what, hex.EncodeToString(p.data), func(w *c18World) string {
				out := &bytes.Buffer{}
				err := sh.payLz4.Compress(c18Reader(c18Copy(p.data), pi%2 == 0), out)
				return c18EncResult(out.Bytes(), err)
			})
			b.heavy(true)
		}
		out0 := &bytes.Buffer{}
		if err := sh.payLz4.Compress(bytes.NewBuffer(c18Copy(p.data)), out0); err != nil || len(p.data) == 0 {
			continue
		}
		enc0 := out0.Bytes()
		b.add("compressor.Decompress", "lz4", "-", "Decompress of the compressed "+what, hex.EncodeToString(enc0), func(w *c18World) string {
			out := &bytes.Buffer{}
			err := sh.payLz4.Decompress(c18Reader(c18Copy(enc0), pi%2 == 1), out)
			return c18EncResult(out.Bytes(), err)
		})
	}
}

func (b *c18Builder) valueOps(sh *c18Shared) {
	// v2 writes collection sizes as [short], v3 and later as [int]; v5 and DSE v2 add the duration type
	versions := []primitive.ProtocolVersion{primitive.ProtocolVersion2, primitive.ProtocolVersion4, primitive.ProtocolVersion5, primitive.ProtocolVersionDse2}
	for _, vc := range sh.values {
		vc := vc
		for _, v := range versions {
			v := v
			vn := versionName(v)
			for si, mk := range vc.samples {
				si, mk := si, mk
				src0 := mk()
				unordered := c18MultiMap(reflect.ValueOf(src0), 0)
				what := fmt.Sprintf("%s sample #%d (%T) with %s on the shared datacodec %s codec", vc.name, si, src0, vn, vc.name)
				b.add("datacodec.Encode", vc.name, vn, "Encode: "+what, fmt.Sprintf("%d:%s", si, c18Dump(src0)), func(w *c18World) string {
					out, err := vc.codec.Encode(mk(), v)
					if err != nil {
						return c18Err(err)
					}
					if unordered {
						var back interface{}
						wasNull, err := vc.codec.Decode(out, &back, v)
						if err != nil {
							return "reopen-" + c18Err(err)
						}
						return fmt.Sprintf("len=%d null=%v means %s", len(out), wasNull, c18Dump(back)) // CQL values are never compressed: the length is order-independent
					}
					if out == nil {
						return "nil (CQL NULL)"
					}
					return c18EncResult(out, nil)
				})
				enc0, err := vc.codec.Encode(mk(), v)
				if err != nil {
					continue
				}
				for di, mkDest := range vc.dests {
					di, mkDest := di, mkDest
					b.add("datacodec.Decode", vc.name, vn, fmt.Sprintf("Decode into %T of the encoded %s", mkDest(), what),
						fmt.Sprintf("%d:%d:%x:%v", si, di, enc0, enc0 == nil), func(w *c18World) string {
							dest := mkDest()
							var src []byte
							if enc0 != nil {
								src = c18Copy(enc0)
							}
							wasNull, err := vc.codec.Decode(src, dest, v)
							if err != nil {
								return c18Err(err)
							}
							return fmt.Sprintf("null=%v %s", wasNull, c18Dump(dest))
						})
				}
			}
		}
	}
}

// ---------------------------------------------------------------------------------------------------------------------
// driver

type c18Event struct {
	K   string `json:"k"`
	T   *int   `json:"t,omitempty"`
	Op  string `json:"op"`
	Arg uint32 `json:"arg"`
	Res uint32 `json:"res"`
}

type c18Mismatch struct {
	op, round, thread int
	got               string
	res               uint32
}

func c18Trunc(s string, n int) string {
	if len(s) <= n {
		return s
	}
	return s[:n] + fmt.Sprintf("...(%d more)", len(s)-n)
}

func c18(args []string) int {
	fs := flag.NewFlagSet("c18", flag.ExitOnError)
	evOut := fs.String("events", "", "where to write the def/ret events for SharedCodecTrace.tla (ndjson)")
	seedv := fs.Int64("seed", 1, "seed")
	M := fs.Int("goroutines", 16, "goroutines sharing the codecs")
	R := fs.Int("rounds", 3, "rounds (each goroutine performs every operation once per round)")
	maxEvents := fs.Int("max-events", 20000, "concurrent calls sampled into the event file (calls whose result differs are always included)")
	heavyShare := fs.Int("heavy-share", 1, "N: in each round a goroutine performs the LZ4-compressing operations number i with (i+goroutine+round) a multiple of N; 1 = every goroutine performs ALL operations every round")
	procs := fs.Int("procs", 8, "GOMAXPROCS. Under the race detector this workload scales negatively beyond ~8 threads: large allocations (LZ4 match tables, big buffers) make the race runtime remap shadow memory, and the TLB shootdowns hit every running thread; measured on 16 cores, 32 goroutines x 4 rounds: 19 s with 4, 21 s with 8, 53 s with 16")
	raceLog := fs.String("race-log", "", "the log_path given in GORACE; once this process's race log outgrows -race-log-limit the concurrent phase stops early (every further report costs ~0.1 s and adds nothing to the verdict)")
	raceLogLimit := fs.Int64("race-log-limit", 200<<10, "bytes of race reports after which the concurrent phase stops")
	cpuProf := fs.String("cpuprofile", "", "write a CPU profile of the concurrent phase here (debugging)")
	only := fs.String("ops", "", "restrict to operations whose op name matches this regular expression (debugging / replay)")
	skip := fs.String("skip", "", "leave out operations whose op name matches this regular expression (debugging)")
	_ = fs.Parse(args)
	if *evOut == "" || *M < 2 || *R < 1 {
		fmt.Fprintln(os.Stderr, "c18: -events is required, -goroutines >= 2, -rounds >= 1")
		return 2
	}
	if *procs > 0 {
		runtime.GOMAXPROCS(*procs)
	}
	rep := &Report{Extra: map[string]interface{}{}}
	t0 := time.Now()

	// ---- phase 0: shared instances and operations
	sh := newC18Shared()
	b := &c18Builder{taken: map[string]bool{}}
	w0 := newC18World()
	payloads := c18Payloads(*seedv)
	b.frameOps(sh, w0)
	b.messageOps(sh, w0)
	b.segmentOps(sh, payloads)
	b.compressorOps(sh, payloads)
	b.valueOps(sh)
	ops := b.ops
	if *only != "" || *skip != "" {
		var sel []*c18Op
		for _, op := range ops {
			if (*only == "" || regexp.MustCompile(*only).MatchString(op.Op)) && (*skip == "" || !regexp.MustCompile(*skip).MatchString(op.Op)) {
				sel = append(sel, op)
			}
		}
		ops = sel
	}
	K := len(ops)
	if K == 0 {
		fmt.Fprintln(os.Stderr, "c18: no operations")
		return 2
	}

	// ---- phase 0b: cold start. Codecs that build something lazily on first use (per-type tables of struct fields, ...)
	// are first used by several goroutines AT ONCE: every round makes a fresh, wide Go struct type that no code has
	// seen before and releases M goroutines that decode a UDT into it and encode one from it; every result must be
	// what the same call returns afterwards, when made alone.
	for _, p := range c18ColdStart(*M, 30) {
		rep.violate("c18|udt-struct|cold-start", p, map[string]interface{}{"check": "c18-cold-start"})
	}

	// ---- phase 1: sequential. Pass A defines F; passes B (seeded order, new objects) and C (reverse order, same objects
	// again) must agree with it, otherwise the operation is not a function of its argument even without concurrency and
	// says nothing about C18: it is left out and reported in the notes.
	type fval struct {
		text string
		sum  uint64
	}
	F := make([]fval, K)
	wa := newC18World()
	seqTime := map[string]float64{}
	for i, op := range ops {
		ts := time.Now()
		t := op.run(wa)
		seqTime[op.Kind+"/"+strings.Split(op.Op, "/")[1]] += float64(time.Since(ts).Microseconds()) / 1000
		F[i] = fval{c18Trunc(t, 600), c18Hash(t)}
	}
	usable := make([]bool, K)
	for i := range usable {
		usable[i] = true
	}
	var unstable []string
	wb := newC18World()
	orderB := rand.New(rand.NewSource(*seedv ^ 0x5eed)).Perm(K)
	check := func(i int) {
		if usable[i] && c18Hash(ops[i].run(wb)) != F[i].sum {
			usable[i] = false
			unstable = append(unstable, ops[i].Op+": "+ops[i].Desc)
		}
	}
	for _, i := range orderB {
		check(i)
	}
	for i := K - 1; i >= 0; i-- {
		check(i)
	}
	var live []int
	kinds := map[string]int{}
	seqErrors := map[string]int{}
	for i, op := range ops {
		if usable[i] {
			live = append(live, i)
			kinds[op.Kind]++
			if strings.HasPrefix(F[i].text, "err:") || strings.HasPrefix(F[i].text, "panic:") || strings.HasPrefix(F[i].text, "reopen-") {
				seqErrors[op.Kind]++
			}
		}
	}
	tSeq := time.Since(t0)

	// ---- phase 2: M goroutines, R rounds, one barrier per round
	res := make([][][]uint32, *R) // [round][goroutine][op] -> 30-bit result digest
	var mmMu sync.Mutex
	var mismatches []c18Mismatch
	nMismatch := 0
	var calls64 int64
	if *cpuProf != "" {
		if pf, err := os.Create(*cpuProf); err == nil {
			_ = pprof.StartCPUProfile(pf)
			defer pprof.StopCPUProfile()
		}
	}
	groupOf := make([]int, K) // operation -> index of its "kind/instance" group, for the time accounting
	var groups []string
	concTime := map[string]float64{}
	{
		idx := map[string]int{}
		for i, op := range ops {
			k := op.Kind + "/" + strings.Split(op.Op, "/")[1]
			if _, ok := idx[k]; !ok {
				idx[k] = len(groups)
				groups = append(groups, k)
			}
			groupOf[i] = idx[k]
		}
	}
	var stop atomic.Bool
	monitorDone := make(chan struct{})
	if *raceLog != "" {
		own := fmt.Sprintf("%s.%d", *raceLog, os.Getpid())
		go func() {
			for {
				select {
				case <-monitorDone:
					return
				case <-time.After(200 * time.Millisecond):
				}
				if st, err := os.Stat(own); err == nil && st.Size() > *raceLogLimit {
					stop.Store(true)
					return
				}
			}
		}()
	}
	t1 := time.Now()
	for r := 0; r < *R && !stop.Load(); r++ {
		res[r] = make([][]uint32, *M)
		var ready, done sync.WaitGroup
		start := make(chan struct{})
		for g := 0; g < *M; g++ {
			ready.Add(1)
			done.Add(1)
			go func(r, g int) {
				defer done.Done()
				w := newC18World() // this goroutine's own frames, messages and values
				order := make([]int, 0, len(live))
				for _, i := range live {
					if !ops[i].Heavy || *heavyShare <= 1 || (i+g+r)%*heavyShare == 0 {
						order = append(order, i)
					}
				}
				rnd := rand.New(rand.NewSource(*seedv*1000003 + int64(r)*1009 + int64(g)))
				rnd.Shuffle(len(order), func(a, b int) { order[a], order[b] = order[b], order[a] })
				out := make([]uint32, K)
				for i := range out {
					out[i] = c18NotCalled
				}
				var mine []c18Mismatch
				ready.Done()
				<-start
				spent := make([]time.Duration, len(groups))
				performed := 0
				for _, i := range order {
					if stop.Load() {
						break
					}
					performed++
					ts := time.Now()
					t := ops[i].run(w)
					spent[groupOf[i]] += time.Since(ts)
					h := c18Hash(t)
					out[i] = uint32(h & c18Mask)
					if h != F[i].sum {
						if out[i] == uint32(F[i].sum&c18Mask) { // keep the 30-bit view faithful to the 64-bit verdict
							out[i] = (out[i] + 1) & c18Mask
						}
						mine = append(mine, c18Mismatch{i, r, g, c18Trunc(t, 600), out[i]})
					}
				}
				res[r][g] = out
				mmMu.Lock()
				for k, d := range spent {
					concTime[groups[k]] += d.Seconds() * 1000
				}
				mmMu.Unlock()
				atomic.AddInt64(&calls64, int64(performed))
				if len(mine) > 0 {
					mmMu.Lock()
					nMismatch += len(mine)
					if len(mismatches) < 5000 {
						mismatches = append(mismatches, mine...)
					}
					mmMu.Unlock()
				}
			}(r, g)
		}
		ready.Wait()
		close(start)
		done.Wait()
	}
	tConc := time.Since(t1)
	close(monitorDone)
	if stop.Load() {
		rep.Notes = append(rep.Notes, fmt.Sprintf("the concurrent phase was stopped early: the race detector had already written more than %d KiB of reports", *raceLogLimit>>10))
	}
	calls := int(calls64)
	rep.Evaluations = calls
	rep.Distinct = len(live)

	// ---- violations
	sort.Slice(mismatches, func(a, b int) bool {
		x, y := mismatches[a], mismatches[b]
		if x.op != y.op {
			return x.op < y.op
		}
		if x.round != y.round {
			return x.round < y.round
		}
		return x.thread < y.thread
	})
	perOp := map[int]int{}
	for _, m := range mismatches {
		perOp[m.op]++
		if perOp[m.op] > 1 {
			continue
		}
		op := ops[m.op]
		rep.violate("c18|"+op.Kind+"|result-differs",
			fmt.Sprintf("%s [%s]: called concurrently by goroutine %d of %d in round %d it returned %s ; called sequentially it returned %s",
				op.Desc, op.Op, m.thread, *M, m.round, m.got, F[m.op].text),
			map[string]interface{}{"check": "c18", "op": op.Op, "arg": op.Arg, "desc": op.Desc, "seed": *seedv, "goroutines": *M, "rounds": *R,
				"round": m.round, "goroutine": m.thread, "sequential": F[m.op].text, "concurrent": m.got,
				"rerun": fmt.Sprintf("harness(-race) c18 -events /tmp/c18-events.ndjson -seed %d -goroutines %d -rounds %d -ops '^%s$'   (stress: the schedule is not replayed, only this operation is repeated by all goroutines)",
					*seedv, *M, 50**R, regexp.QuoteMeta(op.Op))})
	}

	// ---- events for TLC: every def, a seeded sample of the rets, and every ret that differs
	f, err := os.Create(*evOut)
	if err != nil {
		fmt.Fprintln(os.Stderr, "c18:", err)
		return 2
	}
	bw := bufio.NewWriterSize(f, 1<<20)
	enc := json.NewEncoder(bw)
	for _, i := range live {
		_ = enc.Encode(c18Event{K: "def", Op: ops[i].Op, Arg: ops[i].Arg, Res: uint32(F[i].sum & c18Mask)})
	}
	p := 1.0
	if calls > *maxEvents {
		p = float64(*maxEvents) / float64(calls)
	}
	srnd := rand.New(rand.NewSource(*seedv ^ 0x7ace))
	written, differing := 0, 0
	for r := 0; r < *R; r++ {
		for g := 0; g < *M && res[r] != nil; g++ {
			g := g
			for _, i := range live {
				if res[r][g] == nil || res[r][g][i] == c18NotCalled {
					continue
				}
				differs := res[r][g][i] != uint32(F[i].sum&c18Mask)
				if differs || srnd.Float64() < p {
					_ = enc.Encode(c18Event{K: "ret", T: &g, Op: ops[i].Op, Arg: ops[i].Arg, Res: res[r][g][i]})
					written++
					if differs {
						differing++
					}
				}
			}
		}
	}
	if err := bw.Flush(); err != nil {
		fmt.Fprintln(os.Stderr, "c18:", err)
		return 2
	}
	if err := f.Close(); err != nil {
		fmt.Fprintln(os.Stderr, "c18:", err)
		return 2
	}

	for _, i := range []int{0, K / 5, 2 * K / 5, 3 * K / 5, 4 * K / 5, K - 1} {
		rep.Samples = append(rep.Samples, map[string]string{"op": ops[i].Op, "desc": ops[i].Desc, "result": c18Trunc(F[i].text, 160)})
	}
	if len(unstable) > 0 {
		sort.Strings(unstable)
		rep.Notes = append(rep.Notes, fmt.Sprintf("%d operations gave different results in two SEQUENTIAL runs and were left out (not a C18 matter): %s",
			len(unstable), c18Trunc(strings.Join(unstable, " | "), 1500)))
	}
	rep.Extra["goroutines"] = *M
	rep.Extra["rounds"] = *R
	rep.Extra["seed"] = *seedv
	nHeavy := 0
	for _, i := range live {
		if ops[i].Heavy {
			nHeavy++
		}
	}
	rep.Extra["operations_heavy_lz4_compress"] = nHeavy
	rep.Extra["heavy_share"] = *heavyShare
	rep.Extra["gomaxprocs"] = runtime.GOMAXPROCS(0)
	rep.Extra["stopped_early"] = stop.Load()
	rep.Extra["operations"] = K
	rep.Extra["operations_by_kind"] = kinds
	rep.Extra["sequential_error_results_by_kind"] = seqErrors
	for k, v := range seqTime {
		seqTime[k] = math.Round(v)
	}
	rep.Extra["sequential_ms_by_kind_and_instance"] = seqTime
	for k, v := range concTime {
		concTime[k] = math.Round(v)
	}
	rep.Extra["concurrent_ms_by_kind_and_instance"] = concTime
	rep.Extra["sequentially_unstable"] = len(unstable)
	rep.Extra["result_mismatches"] = nMismatch
	rep.Extra["events_def"] = len(live)
	rep.Extra["events_ret"] = written
	rep.Extra["events_ret_differing"] = differing
	var ms runtime.MemStats
	runtime.ReadMemStats(&ms)
	rep.Extra["alloc_mb"] = ms.TotalAlloc >> 20
	rep.Extra["heap_sys_mb"] = ms.HeapSys >> 20
	rep.Extra["num_gc"] = ms.NumGC
	rep.Extra["sequential_s"] = math.Round(tSeq.Seconds()*100) / 100
	rep.Extra["concurrent_s"] = math.Round(tConc.Seconds()*100) / 100
	return rep.print()
}


// c18ColdStart: concurrent FIRST use of fresh struct types by the UDT codec.
func c18ColdStart(M, rounds int) (problems []string) {
	udtT, err := datatype.NewUserDefined("ks", "cold", []string{"first", "last"}, []datatype.DataType{datatype.Int, datatype.Varchar})
	if err != nil {
		return []string{"cold start: " + err.Error()}
	}
	codec, err := datacodec.NewUserDefined(udtT)
	if err != nil {
		return []string{"cold start: " + err.Error()}
	}
	encoded := []byte{0, 0, 0, 4, 0, 0, 0, 42, 0, 0, 0, 2, 'o', 'k'}
	var mu sync.Mutex
	for r := 0; r < rounds; r++ {
		// a type no code has seen: 400 fields, the two the UDT needs at the two ends (one found by tag, one by name)
		fields := []reflect.StructField{{Name: "First", Type: reflect.TypeOf(int32(0)), Tag: reflect.StructTag(`cassandra:"first"`)}}
		for i := 0; i < 400; i++ {
			fields = append(fields, reflect.StructField{Name: fmt.Sprintf("Pad%dR%d", i, r), Type: reflect.TypeOf(""), Tag: reflect.StructTag(fmt.Sprintf(`cassandra:"pad_%d_%d"`, i, r))})
		}
		fields = append(fields, reflect.StructField{Name: "Last", Type: reflect.TypeOf("")})
		typ := reflect.StructOf(fields)
		start := make(chan struct{})
		var wg sync.WaitGroup
		for g := 0; g < M; g++ {
			wg.Add(1)
			go func(g int) {
				defer wg.Done()
				defer func() {
					if x := recover(); x != nil {
						mu.Lock()
						problems = append(problems, fmt.Sprintf("round %d goroutine %d: first use of a struct type by the UDT codec from %d goroutines at once: panic: %v", r, g, M, x))
						mu.Unlock()
					}
				}()
				<-start
				dest := reflect.New(typ)
				_, derr := codec.Decode(encoded, dest.Interface(), primitive.ProtocolVersion4)
				src := reflect.New(typ)
				src.Elem().Field(0).SetInt(42)
				src.Elem().Field(len(fields) - 1).SetString("ok")
				out, eerr := codec.Encode(src.Interface(), primitive.ProtocolVersion4)
				var p string
				switch {
				case derr != nil:
					p = fmt.Sprintf("Decode failed: %v", derr)
				case dest.Elem().Field(0).Int() != 42 || dest.Elem().Field(len(fields)-1).String() != "ok":
					p = fmt.Sprintf("Decode gave first=%d last=%q", dest.Elem().Field(0).Int(), dest.Elem().Field(len(fields)-1).String())
				case eerr != nil:
					p = fmt.Sprintf("Encode failed: %v", eerr)
				case !bytes.Equal(out, encoded):
					p = fmt.Sprintf("Encode gave %x", out)
				}
				if p != "" {
					mu.Lock()
					problems = append(problems, fmt.Sprintf("round %d goroutine %d: first use of a struct type by the UDT codec from %d goroutines at once: %s (the same calls succeed when made one after another)", r, g, M, p))
					mu.Unlock()
				}
			}(g)
		}
		close(start)
		wg.Wait()
		// the same calls made alone, afterwards, must succeed: otherwise the case itself is wrong (not a verdict about sharing)
		dest := reflect.New(typ)
		if _, err := codec.Decode(encoded, dest.Interface(), primitive.ProtocolVersion4); err != nil || dest.Elem().Field(0).Int() != 42 {
			return []string{fmt.Sprintf("cold start: the sequential reference call failed: %v", err)}
		}
		if len(problems) > 10 {
			break
		}
	}
	if len(problems) > 10 {
		problems = problems[:10]
	}
	return problems
}

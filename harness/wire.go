package main

import (
	"encoding/binary"
	"encoding/hex"
	"encoding/json"
	"fmt"
	"net"
	"sort"
	"strings"

	"github.com/datastax/go-cassandra-native-protocol/datatype"
	"github.com/datastax/go-cassandra-native-protocol/frame"
	"github.com/datastax/go-cassandra-native-protocol/message"
	"github.com/datastax/go-cassandra-native-protocol/primitive"
)

// The abstract frame (DESIGN.md Appendix A): the only trusted translation between the TLA+ world and Go structs.
//   buildFrame:   abstract record (as emitted by specs/WireShapes.tla through ToJson) -> *frame.Frame
//   projectFrame: *frame.Frame -> abstract record of the same shape
//   normAbs:      canonical form of an abstract record (blobs as strings, sets sorted) for comparison
// An abstract record only has the fields the version can carry; optional values are [] (absent) or [x].

type obj = map[string]interface{}
type arr = []interface{}

// ---------------------------------------------------------------------------------------------- blobs

func blobBytes(x interface{}) []byte {
	m := x.(map[string]interface{})
	if m["t"] == "rep" {
		n := int(m["n"].(float64))
		b := make([]byte, n)
		c := byte(m["c"].(float64))
		for i := range b {
			b[i] = c
		}
		return b
	}
	raw := m["b"].([]interface{})
	b := make([]byte, len(raw))
	for i, v := range raw {
		b[i] = byte(v.(float64))
	}
	return b
}

func blobOf(b []byte) obj {
	if len(b) >= 256 {
		same := true
		for _, x := range b {
			if x != b[0] {
				same = false
				break
			}
		}
		if same {
			return obj{"t": "rep", "c": float64(b[0]), "n": float64(len(b))}
		}
	}
	raw := make(arr, len(b))
	for i, x := range b {
		raw[i] = float64(x)
	}
	return obj{"t": "lit", "b": raw}
}

func strOf(s string) obj           { return blobOf([]byte(s)) }
func blobStr(x interface{}) string { return string(blobBytes(x)) }

func optBlobBytes(x interface{}) []byte {
	a := x.([]interface{})
	if len(a) == 0 {
		return nil
	}
	b := blobBytes(a[0])
	if b == nil {
		b = []byte{}
	}
	return b
}

func optBlobOf(b []byte) arr {
	if b == nil {
		return arr{}
	}
	return arr{blobOf(b)}
}

func has(x interface{}) bool        { return len(x.([]interface{})) > 0 }
func get(x interface{}) interface{} { return x.([]interface{})[0] }
func num(x interface{}) int         { return int(x.(float64)) }
func intsOf(x interface{}) []byte {
	raw := x.([]interface{})
	b := make([]byte, len(raw))
	for i, v := range raw {
		b[i] = byte(v.(float64))
	}
	return b
}
func bytesArr(b []byte) arr {
	raw := make(arr, len(b))
	for i, x := range b {
		raw[i] = float64(x)
	}
	return raw
}
func longOf(x interface{}) int64 { return int64(binary.BigEndian.Uint64(intsOf(x))) }
func longArr(v int64) arr {
	b := make([]byte, 8)
	binary.BigEndian.PutUint64(b, uint64(v))
	return bytesArr(b)
}
func opt(present bool, v interface{}) arr {
	if present {
		return arr{v}
	}
	return arr{}
}

// ---------------------------------------------------------------------------------------------- values, types

func buildValue(x interface{}) *primitive.Value {
	m := x.(map[string]interface{})
	switch m["t"] {
	case "null":
		return primitive.NewNullValue()
	case "unset":
		return primitive.NewUnsetValue()
	}
	b := blobBytes(m["b"])
	if b == nil {
		b = []byte{}
	}
	return primitive.NewValue(b)
}

func projValue(v *primitive.Value) obj {
	if v == nil {
		return obj{"t": "nilptr"}
	}
	switch v.Type {
	case primitive.ValueTypeNull:
		return obj{"t": "null"}
	case primitive.ValueTypeUnset:
		return obj{"t": "unset"}
	}
	if v.Contents == nil {
		return obj{"t": "null"}
	}
	return obj{"t": "bytes", "b": blobOf(v.Contents)}
}

func buildValues(x interface{}) []*primitive.Value {
	raw := x.([]interface{})
	out := make([]*primitive.Value, len(raw))
	for i, v := range raw {
		out[i] = buildValue(v)
	}
	return out
}

func projValues(vs []*primitive.Value) arr {
	out := make(arr, len(vs))
	for i, v := range vs {
		out[i] = projValue(v)
	}
	return out
}

var scalarTypes = map[int]datatype.DataType{1: datatype.Ascii, 2: datatype.Bigint, 3: datatype.Blob, 4: datatype.Boolean, 5: datatype.Counter,
	6: datatype.Decimal, 7: datatype.Double, 8: datatype.Float, 9: datatype.Int, 11: datatype.Timestamp, 12: datatype.Uuid, 13: datatype.Varchar,
	14: datatype.Varint, 15: datatype.Timeuuid, 16: datatype.Inet, 17: datatype.Date, 18: datatype.Time, 19: datatype.Smallint, 20: datatype.Tinyint,
	21: datatype.Duration}

func buildType(x interface{}) datatype.DataType {
	m := x.(map[string]interface{})
	c := num(m["c"])
	switch c {
	case 0:
		return datatype.NewCustom(blobStr(m["cls"]))
	case 32:
		return datatype.NewList(buildType(m["e"]))
	case 34:
		return datatype.NewSet(buildType(m["e"]))
	case 33:
		return datatype.NewMap(buildType(m["key"]), buildType(m["val"]))
	case 48:
		var names []string
		var types []datatype.DataType
		for _, f := range m["fields"].([]interface{}) {
			fm := f.(map[string]interface{})
			names = append(names, blobStr(fm["n"]))
			types = append(types, buildType(fm["t"]))
		}
		if names == nil {
			names, types = []string{}, []datatype.DataType{}
		}
		u, err := datatype.NewUserDefined(blobStr(m["ks"]), blobStr(m["name"]), names, types)
		if err != nil {
			panic(err)
		}
		return u
	case 49:
		types := []datatype.DataType{}
		for _, f := range m["fields"].([]interface{}) {
			types = append(types, buildType(f))
		}
		return datatype.NewTuple(types...)
	}
	if t, ok := scalarTypes[c]; ok {
		return t
	}
	panic(fmt.Sprintf("abstract type code %d has no library representation", c))
}

func projType(t datatype.DataType) obj {
	switch x := t.(type) {
	case nil:
		return obj{"c": float64(-1)}
	case *datatype.Custom:
		return obj{"c": float64(0), "cls": strOf(x.ClassName)}
	case *datatype.List:
		return obj{"c": float64(32), "e": projType(x.ElementType)}
	case *datatype.Set:
		return obj{"c": float64(34), "e": projType(x.ElementType)}
	case *datatype.Map:
		return obj{"c": float64(33), "key": projType(x.KeyType), "val": projType(x.ValueType)}
	case *datatype.UserDefined:
		fields := arr{}
		for i := range x.FieldTypes {
			n := ""
			if i < len(x.FieldNames) {
				n = x.FieldNames[i]
			}
			fields = append(fields, obj{"n": strOf(n), "t": projType(x.FieldTypes[i])})
		}
		return obj{"c": float64(48), "ks": strOf(x.Keyspace), "name": strOf(x.Name), "fields": fields}
	case *datatype.Tuple:
		fields := arr{}
		for _, f := range x.FieldTypes {
			fields = append(fields, projType(f))
		}
		return obj{"c": float64(49), "fields": fields}
	}
	return obj{"c": float64(t.Code())}
}

// ---------------------------------------------------------------------------------------------- query options

func buildOpts(x interface{}) *message.QueryOptions {
	m := x.(map[string]interface{})
	o := &message.QueryOptions{Consistency: primitive.ConsistencyLevel(num(m["cl"])), SkipMetadata: m["skip"].(bool), PageSizeInBytes: m["pageBytes"].(bool)}
	vals := m["vals"].(map[string]interface{})
	switch vals["mode"] {
	case "pos":
		o.PositionalValues = buildValues(vals["items"])
	case "named":
		o.NamedValues = map[string]*primitive.Value{}
		for _, p := range vals["items"].([]interface{}) {
			pp := p.([]interface{})
			o.NamedValues[blobStr(pp[0])] = buildValue(pp[1])
		}
	}
	if has(m["page"]) {
		o.PageSize = int32(num(get(m["page"])))
	}
	o.PagingState = optBlobBytes(m["pstate"])
	if has(m["serial"]) {
		c := primitive.ConsistencyLevel(num(get(m["serial"])))
		o.SerialConsistency = &c
	}
	if has(m["ts"]) {
		t := longOf(get(m["ts"]))
		o.DefaultTimestamp = &t
	}
	if has(m["ks"]) {
		o.Keyspace = blobStr(get(m["ks"]))
	}
	if has(m["now"]) {
		n := int32(num(get(m["now"])))
		o.NowInSeconds = &n
	}
	if has(m["cont"]) {
		c := get(m["cont"]).(map[string]interface{})
		o.ContinuousPagingOptions = &message.ContinuousPagingOptions{MaxPages: int32(num(c["max"])), PagesPerSecond: int32(num(c["pps"])), NextPages: int32(num(c["next"]))}
	}
	return o
}

func projOpts(o *message.QueryOptions, v primitive.ProtocolVersion) obj {
	if o == nil {
		o = &message.QueryOptions{}
	}
	vals := obj{"mode": "none", "items": arr{}}
	if o.PositionalValues != nil {
		vals = obj{"mode": "pos", "items": projValues(o.PositionalValues)}
	} else if o.NamedValues != nil {
		items := arr{}
		names := make([]string, 0, len(o.NamedValues))
		for n := range o.NamedValues {
			names = append(names, n)
		}
		sort.Strings(names)
		for _, n := range names {
			items = append(items, arr{strOf(n), projValue(o.NamedValues[n])})
		}
		vals = obj{"mode": "named", "items": items}
	}
	m := obj{"cl": float64(o.Consistency), "vals": vals, "skip": o.SkipMetadata,
		"page": opt(o.PageSize > 0, float64(o.PageSize)), "pageBytes": o.PageSize > 0 && o.PageSizeInBytes,
		"pstate": optBlobOf(o.PagingState), "serial": arr{}, "ts": arr{}, "ks": opt(o.Keyspace != "", strOf(o.Keyspace)), "now": arr{}, "cont": arr{}}
	if o.SerialConsistency != nil {
		m["serial"] = arr{float64(*o.SerialConsistency)}
	}
	if o.DefaultTimestamp != nil {
		m["ts"] = arr{longArr(*o.DefaultTimestamp)}
	}
	if o.NowInSeconds != nil {
		m["now"] = arr{float64(*o.NowInSeconds)}
	}
	if o.ContinuousPagingOptions != nil {
		c := o.ContinuousPagingOptions
		next := float64(c.NextPages)
		if v != primitive.ProtocolVersionDse2 {
			next = 0 // <next_pages> exists only in DSE v2
		}
		m["cont"] = arr{obj{"max": float64(c.MaxPages), "pps": float64(c.PagesPerSecond), "next": next}}
	}
	return m
}

// ---------------------------------------------------------------------------------------------- metadata

func buildCols(x interface{}) []*message.ColumnMetadata {
	raw := x.([]interface{})
	out := make([]*message.ColumnMetadata, len(raw))
	for i, c := range raw {
		cm := c.(map[string]interface{})
		out[i] = &message.ColumnMetadata{Keyspace: blobStr(cm["ks"]), Table: blobStr(cm["table"]), Name: blobStr(cm["name"]), Index: int32(i), Type: buildType(cm["type"])}
	}
	return out
}

func projCols(cols []*message.ColumnMetadata) arr {
	out := arr{}
	for _, c := range cols {
		if c == nil {
			out = append(out, obj{"nilptr": true})
			continue
		}
		out = append(out, obj{"ks": strOf(c.Keyspace), "table": strOf(c.Table), "name": strOf(c.Name), "type": projType(c.Type)})
	}
	return out
}

func buildRowsMeta(x interface{}) *message.RowsMetadata {
	m := x.(map[string]interface{})
	rm := &message.RowsMetadata{ColumnCount: int32(num(m["count"])), PagingState: optBlobBytes(m["pstate"]), LastContinuousPage: m["last"].(bool)}
	if has(m["newid"]) {
		rm.NewResultMetadataId = blobBytes(get(m["newid"]))
		if rm.NewResultMetadataId == nil {
			rm.NewResultMetadataId = []byte{}
		}
	}
	if has(m["page"]) {
		rm.ContinuousPageNumber = int32(num(get(m["page"])))
	}
	if has(m["cols"]) {
		rm.Columns = buildCols(get(m["cols"]))
	}
	return rm
}

func projRowsMeta(rm *message.RowsMetadata) obj {
	if rm == nil {
		rm = &message.RowsMetadata{}
	}
	m := obj{"count": float64(rm.ColumnCount), "pstate": optBlobOf(rm.PagingState), "newid": arr{},
		"page": opt(rm.ContinuousPageNumber > 0, float64(rm.ContinuousPageNumber)),
		"last": rm.ContinuousPageNumber > 0 && rm.LastContinuousPage, "cols": arr{}}
	if rm.NewResultMetadataId != nil {
		m["newid"] = arr{blobOf(rm.NewResultMetadataId)}
	}
	if len(rm.Columns) > 0 {
		m["cols"] = arr{projCols(rm.Columns)}
	}
	return m
}

// ---------------------------------------------------------------------------------------------- messages

func consistencyPtr(x interface{}) *primitive.ConsistencyLevel {
	if !has(x) {
		return nil
	}
	c := primitive.ConsistencyLevel(num(get(x)))
	return &c
}

func buildStrList(x interface{}) []string {
	raw := x.([]interface{})
	out := make([]string, len(raw))
	for i, s := range raw {
		out[i] = blobStr(s)
	}
	return out
}

func projStrList(ss []string) arr {
	out := arr{}
	for _, s := range ss {
		out = append(out, strOf(s))
	}
	return out
}

func buildReasons(x interface{}) []*primitive.FailureReason {
	out := []*primitive.FailureReason{}
	for _, r := range x.([]interface{}) {
		rm := r.(map[string]interface{})
		out = append(out, &primitive.FailureReason{Endpoint: net.IP(intsOf(rm["addr"])), Code: primitive.FailureCode(num(rm["code"]))})
	}
	return out
}

func ipArr(ip net.IP) arr {
	if v4 := ip.To4(); v4 != nil {
		return bytesArr(v4)
	}
	return bytesArr(ip)
}

func projReasons(rs []*primitive.FailureReason) arr {
	out := arr{}
	for _, r := range rs {
		out = append(out, obj{"addr": ipArr(r.Endpoint), "code": float64(r.Code)})
	}
	return out
}

var errorCtors = map[int]func(msg string) message.Message{
	0:    func(s string) message.Message { return &message.ServerError{ErrorMessage: s} },
	10:   func(s string) message.Message { return &message.ProtocolError{ErrorMessage: s} },
	256:  func(s string) message.Message { return &message.AuthenticationError{ErrorMessage: s} },
	4097: func(s string) message.Message { return &message.Overloaded{ErrorMessage: s} },
	4098: func(s string) message.Message { return &message.IsBootstrapping{ErrorMessage: s} },
	4099: func(s string) message.Message { return &message.TruncateError{ErrorMessage: s} },
	8192: func(s string) message.Message { return &message.SyntaxError{ErrorMessage: s} },
	8448: func(s string) message.Message { return &message.Unauthorized{ErrorMessage: s} },
	8704: func(s string) message.Message { return &message.Invalid{ErrorMessage: s} },
	8960: func(s string) message.Message { return &message.ConfigError{ErrorMessage: s} },
}

func buildMessage(x interface{}, v primitive.ProtocolVersion) message.Message {
	m := x.(map[string]interface{})
	switch m["kind"] {
	case "STARTUP":
		o := map[string]string{}
		for _, p := range m["options"].([]interface{}) {
			pp := p.([]interface{})
			o[blobStr(pp[0])] = blobStr(pp[1])
		}
		return &message.Startup{Options: o}
	case "OPTIONS":
		return &message.Options{}
	case "QUERY":
		return &message.Query{Query: blobStr(m["query"]), Options: buildOpts(m["opts"])}
	case "PREPARE":
		p := &message.Prepare{Query: blobStr(m["query"])}
		if has(m["ks"]) {
			p.Keyspace = blobStr(get(m["ks"]))
		}
		return p
	case "EXECUTE":
		e := &message.Execute{QueryId: blobBytes(m["id"]), Options: buildOpts(m["opts"])}
		if has(m["rmid"]) {
			e.ResultMetadataId = blobBytes(get(m["rmid"]))
		}
		return e
	case "BATCH":
		b := &message.Batch{Type: primitive.BatchType(num(m["type"])), Consistency: primitive.ConsistencyLevel(num(m["cl"])), SerialConsistency: consistencyPtr(m["serial"])}
		for _, c := range m["children"].([]interface{}) {
			cm := c.(map[string]interface{})
			ch := &message.BatchChild{Values: buildValues(cm["vals"])}
			if has(cm["q"]) {
				ch.Query = blobStr(get(cm["q"]))
			} else {
				ch.Id = blobBytes(get(cm["id"]))
			}
			b.Children = append(b.Children, ch)
		}
		if has(m["ts"]) {
			t := longOf(get(m["ts"]))
			b.DefaultTimestamp = &t
		}
		if has(m["ks"]) {
			b.Keyspace = blobStr(get(m["ks"]))
		}
		if has(m["now"]) {
			n := int32(num(get(m["now"])))
			b.NowInSeconds = &n
		}
		return b
	case "REGISTER":
		r := &message.Register{}
		for _, e := range m["events"].([]interface{}) {
			r.EventTypes = append(r.EventTypes, primitive.EventType(blobStr(e)))
		}
		return r
	case "AUTH_RESPONSE":
		return &message.AuthResponse{Token: optBlobBytes(m["token"])}
	case "REVISE":
		r := &message.Revise{RevisionType: primitive.DseRevisionType(num(m["rtype"])), TargetStreamId: int32(num(m["target"]))}
		if has(m["next"]) {
			r.NextPages = int32(num(get(m["next"])))
		}
		return r
	case "READY":
		return &message.Ready{}
	case "AUTHENTICATE":
		return &message.Authenticate{Authenticator: blobStr(m["auth"])}
	case "SUPPORTED":
		o := map[string][]string{}
		for _, p := range m["options"].([]interface{}) {
			pp := p.([]interface{})
			o[blobStr(pp[0])] = buildStrList(pp[1])
		}
		return &message.Supported{Options: o}
	case "AUTH_CHALLENGE":
		return &message.AuthChallenge{Token: optBlobBytes(m["token"])}
	case "AUTH_SUCCESS":
		return &message.AuthSuccess{Token: optBlobBytes(m["token"])}
	case "ERROR":
		code := num(m["code"])
		msg := blobStr(m["msg"])
		if ctor, ok := errorCtors[code]; ok {
			return ctor(msg)
		}
		cl := func() primitive.ConsistencyLevel { return primitive.ConsistencyLevel(num(m["cl"])) }
		i32 := func(k string) int32 { return int32(num(m[k])) }
		switch code {
		case 4096:
			return &message.Unavailable{ErrorMessage: msg, Consistency: cl(), Required: i32("required"), Alive: i32("alive")}
		case 4352:
			w := &message.WriteTimeout{ErrorMessage: msg, Consistency: cl(), Received: i32("received"), BlockFor: i32("blockfor"), WriteType: primitive.WriteType(blobStr(m["wtype"]))}
			if has(m["contentions"]) {
				w.Contentions = uint16(num(get(m["contentions"])))
			}
			return w
		case 4608:
			return &message.ReadTimeout{ErrorMessage: msg, Consistency: cl(), Received: i32("received"), BlockFor: i32("blockfor"), DataPresent: m["data"].(bool)}
		case 4864:
			r := &message.ReadFailure{ErrorMessage: msg, Consistency: cl(), Received: i32("received"), BlockFor: i32("blockfor"), DataPresent: m["data"].(bool)}
			if has(m["numfail"]) {
				r.NumFailures = int32(num(get(m["numfail"])))
			}
			if has(m["reasons"]) {
				r.FailureReasons = buildReasons(get(m["reasons"]))
			}
			return r
		case 5376:
			r := &message.WriteFailure{ErrorMessage: msg, Consistency: cl(), Received: i32("received"), BlockFor: i32("blockfor"), WriteType: primitive.WriteType(blobStr(m["wtype"]))}
			if has(m["numfail"]) {
				r.NumFailures = int32(num(get(m["numfail"])))
			}
			if has(m["reasons"]) {
				r.FailureReasons = buildReasons(get(m["reasons"]))
			}
			return r
		case 5120:
			return &message.FunctionFailure{ErrorMessage: msg, Keyspace: blobStr(m["ks"]), Function: blobStr(m["func"]), Arguments: buildStrList(m["args"])}
		case 9216:
			return &message.AlreadyExists{ErrorMessage: msg, Keyspace: blobStr(m["ks"]), Table: blobStr(m["table"])}
		case 9472:
			return &message.Unprepared{ErrorMessage: msg, Id: blobBytes(m["id"])}
		}
		panic(fmt.Sprintf("abstract error code %d", code))
	case "RESULT":
		switch num(m["rk"]) {
		case 1:
			return &message.VoidResult{}
		case 3:
			return &message.SetKeyspaceResult{Keyspace: blobStr(m["ks"])}
		case 5:
			return &message.SchemaChangeResult{ChangeType: primitive.SchemaChangeType(blobStr(m["ctype"])), Target: primitive.SchemaChangeTarget(blobStr(m["target"])),
				Keyspace: blobStr(m["ks"]), Object: blobStr(m["obj"]), Arguments: buildStrList(m["args"])}
		case 4:
			p := &message.PreparedResult{PreparedQueryId: blobBytes(m["id"]), ResultMetadata: buildRowsMeta(m["rmeta"])}
			if has(m["rmid"]) {
				p.ResultMetadataId = blobBytes(get(m["rmid"]))
			}
			vm := m["vars"].(map[string]interface{})
			p.VariablesMetadata = &message.VariablesMetadata{Columns: buildCols(vm["cols"])}
			for _, i := range vm["pk"].([]interface{}) {
				p.VariablesMetadata.PkIndices = append(p.VariablesMetadata.PkIndices, uint16(num(i)))
			}
			return p
		case 2:
			r := &message.RowsResult{Metadata: buildRowsMeta(m["meta"]), Data: message.RowSet{}}
			for _, row := range m["rows"].([]interface{}) {
				var rr message.Row
				for _, cell := range row.([]interface{}) {
					rr = append(rr, message.Column(optBlobBytes(cell)))
				}
				r.Data = append(r.Data, rr)
			}
			return r
		}
	case "EVENT":
		switch blobStr(m["et"]) {
		case "SCHEMA_CHANGE":
			return &message.SchemaChangeEvent{ChangeType: primitive.SchemaChangeType(blobStr(m["ctype"])), Target: primitive.SchemaChangeTarget(blobStr(m["target"])),
				Keyspace: blobStr(m["ks"]), Object: blobStr(m["obj"]), Arguments: buildStrList(m["args"])}
		case "STATUS_CHANGE":
			return &message.StatusChangeEvent{ChangeType: primitive.StatusChangeType(blobStr(m["change"])), Address: &primitive.Inet{Addr: net.IP(intsOf(m["addr"])), Port: int32(num(m["port"]))}}
		case "TOPOLOGY_CHANGE":
			return &message.TopologyChangeEvent{ChangeType: primitive.TopologyChangeType(blobStr(m["change"])), Address: &primitive.Inet{Addr: net.IP(intsOf(m["addr"])), Port: int32(num(m["port"]))}}
		}
	}
	panic(fmt.Sprintf("cannot build abstract message %v", m["kind"]))
}

func projSchemaChange(m obj, v primitive.ProtocolVersion, ctype, target, ks, object string, args []string) {
	m["ctype"], m["ks"] = strOf(ctype), strOf(ks)
	if v < primitive.ProtocolVersion3 {
		// v2 has no <target>: it is implied by the emptiness of the table name
		if object == "" {
			target = "KEYSPACE"
		} else {
			target = "TABLE"
		}
	}
	m["target"] = strOf(target)
	m["obj"], m["args"] = strOf(""), arr{}
	if target != "KEYSPACE" {
		m["obj"] = strOf(object)
	}
	if target == "FUNCTION" || target == "AGGREGATE" {
		m["args"] = projStrList(args)
	}
}

func projMessage(msg message.Message, v primitive.ProtocolVersion) obj {
	switch x := msg.(type) {
	case *message.Startup:
		keys := make([]string, 0, len(x.Options))
		for k := range x.Options {
			keys = append(keys, k)
		}
		sort.Strings(keys)
		o := arr{}
		for _, k := range keys {
			o = append(o, arr{strOf(k), strOf(x.Options[k])})
		}
		return obj{"kind": "STARTUP", "options": o}
	case *message.Options:
		return obj{"kind": "OPTIONS"}
	case *message.Query:
		return obj{"kind": "QUERY", "query": strOf(x.Query), "opts": projOpts(x.Options, v)}
	case *message.Prepare:
		return obj{"kind": "PREPARE", "query": strOf(x.Query), "ks": opt(x.Keyspace != "" && v.SupportsPrepareFlags(), strOf(x.Keyspace))}
	case *message.Execute:
		return obj{"kind": "EXECUTE", "id": blobOf(x.QueryId), "rmid": opt(v.SupportsResultMetadataId(), blobOf(x.ResultMetadataId)), "opts": projOpts(x.Options, v)}
	case *message.Batch:
		m := obj{"kind": "BATCH", "type": float64(x.Type), "cl": float64(x.Consistency), "serial": arr{}, "ts": arr{}, "ks": arr{}, "now": arr{}}
		ch := arr{}
		for _, c := range x.Children {
			ch = append(ch, obj{"q": opt(c.Query != "", strOf(c.Query)), "id": opt(c.Query == "", blobOf(c.Id)), "vals": projValues(c.Values)})
		}
		m["children"] = ch
		if v.SupportsBatchQueryFlags() {
			if x.SerialConsistency != nil {
				m["serial"] = arr{float64(*x.SerialConsistency)}
			}
			if x.DefaultTimestamp != nil {
				m["ts"] = arr{longArr(*x.DefaultTimestamp)}
			}
			if x.Keyspace != "" && v.SupportsQueryFlag(primitive.QueryFlagWithKeyspace) {
				m["ks"] = arr{strOf(x.Keyspace)}
			}
			if x.NowInSeconds != nil && v.SupportsQueryFlag(primitive.QueryFlagNowInSeconds) {
				m["now"] = arr{float64(*x.NowInSeconds)}
			}
		}
		return m
	case *message.Register:
		ev := arr{}
		for _, e := range x.EventTypes {
			ev = append(ev, strOf(string(e)))
		}
		return obj{"kind": "REGISTER", "events": ev}
	case *message.AuthResponse:
		return obj{"kind": "AUTH_RESPONSE", "token": optBlobOf(x.Token)}
	case *message.Revise:
		return obj{"kind": "REVISE", "rtype": float64(x.RevisionType), "target": float64(x.TargetStreamId),
			"next": opt(x.RevisionType == primitive.DseRevisionTypeMoreContinuousPages, float64(x.NextPages))}
	case *message.Ready:
		return obj{"kind": "READY"}
	case *message.Authenticate:
		return obj{"kind": "AUTHENTICATE", "auth": strOf(x.Authenticator)}
	case *message.Supported:
		keys := make([]string, 0, len(x.Options))
		for k := range x.Options {
			keys = append(keys, k)
		}
		sort.Strings(keys)
		o := arr{}
		for _, k := range keys {
			o = append(o, arr{strOf(k), projStrList(x.Options[k])})
		}
		return obj{"kind": "SUPPORTED", "options": o}
	case *message.AuthChallenge:
		return obj{"kind": "AUTH_CHALLENGE", "token": optBlobOf(x.Token)}
	case *message.AuthSuccess:
		return obj{"kind": "AUTH_SUCCESS", "token": optBlobOf(x.Token)}
	case message.Error:
		m := obj{"kind": "ERROR", "code": float64(x.GetErrorCode()), "msg": strOf(x.GetErrorMessage())}
		reasonMap := v.SupportsReadWriteFailureReasonMap()
		switch e := x.(type) {
		case *message.Unavailable:
			m["cl"], m["required"], m["alive"] = float64(e.Consistency), float64(e.Required), float64(e.Alive)
		case *message.WriteTimeout:
			m["cl"], m["received"], m["blockfor"], m["wtype"] = float64(e.Consistency), float64(e.Received), float64(e.BlockFor), strOf(string(e.WriteType))
			m["contentions"] = opt(v.SupportsWriteTimeoutContentions() && e.WriteType == primitive.WriteTypeCas, float64(e.Contentions))
		case *message.ReadTimeout:
			m["cl"], m["received"], m["blockfor"], m["data"] = float64(e.Consistency), float64(e.Received), float64(e.BlockFor), e.DataPresent
		case *message.ReadFailure:
			m["cl"], m["received"], m["blockfor"], m["data"] = float64(e.Consistency), float64(e.Received), float64(e.BlockFor), e.DataPresent
			m["numfail"], m["reasons"] = opt(!reasonMap, float64(e.NumFailures)), opt(reasonMap, projReasons(e.FailureReasons))
		case *message.WriteFailure:
			m["cl"], m["received"], m["blockfor"], m["wtype"] = float64(e.Consistency), float64(e.Received), float64(e.BlockFor), strOf(string(e.WriteType))
			m["numfail"], m["reasons"] = opt(!reasonMap, float64(e.NumFailures)), opt(reasonMap, projReasons(e.FailureReasons))
		case *message.FunctionFailure:
			m["ks"], m["func"], m["args"] = strOf(e.Keyspace), strOf(e.Function), projStrList(e.Arguments)
		case *message.AlreadyExists:
			m["ks"], m["table"] = strOf(e.Keyspace), strOf(e.Table)
		case *message.Unprepared:
			m["id"] = blobOf(e.Id)
		}
		return m
	case *message.VoidResult:
		return obj{"kind": "RESULT", "rk": float64(1)}
	case *message.SetKeyspaceResult:
		return obj{"kind": "RESULT", "rk": float64(3), "ks": strOf(x.Keyspace)}
	case *message.SchemaChangeResult:
		m := obj{"kind": "RESULT", "rk": float64(5)}
		projSchemaChange(m, v, string(x.ChangeType), string(x.Target), x.Keyspace, x.Object, x.Arguments)
		return m
	case *message.PreparedResult:
		vm := x.VariablesMetadata
		if vm == nil {
			vm = &message.VariablesMetadata{}
		}
		pk := arr{}
		if v >= primitive.ProtocolVersion4 {
			for _, i := range vm.PkIndices {
				pk = append(pk, float64(i))
			}
		}
		return obj{"kind": "RESULT", "rk": float64(4), "id": blobOf(x.PreparedQueryId), "rmid": opt(v.SupportsResultMetadataId(), blobOf(x.ResultMetadataId)),
			"vars": obj{"pk": pk, "cols": projCols(vm.Columns)}, "rmeta": projRowsMeta(x.ResultMetadata)}
	case *message.RowsResult:
		rows := arr{}
		for _, r := range x.Data {
			cells := arr{}
			for _, c := range r {
				cells = append(cells, optBlobOf(c))
			}
			rows = append(rows, cells)
		}
		return obj{"kind": "RESULT", "rk": float64(2), "meta": projRowsMeta(x.Metadata), "rows": rows}
	case *message.SchemaChangeEvent:
		m := obj{"kind": "EVENT", "et": strOf("SCHEMA_CHANGE")}
		projSchemaChange(m, v, string(x.ChangeType), string(x.Target), x.Keyspace, x.Object, x.Arguments)
		return m
	case *message.StatusChangeEvent:
		return obj{"kind": "EVENT", "et": strOf("STATUS_CHANGE"), "change": strOf(string(x.ChangeType)), "addr": ipArr(x.Address.Addr), "port": float64(x.Address.Port)}
	case *message.TopologyChangeEvent:
		return obj{"kind": "EVENT", "et": strOf("TOPOLOGY_CHANGE"), "change": strOf(string(x.ChangeType)), "addr": ipArr(x.Address.Addr), "port": float64(x.Address.Port)}
	}
	return obj{"kind": fmt.Sprintf("?%T", msg)}
}

// ---------------------------------------------------------------------------------------------- frames

var tlaVersions = map[int]primitive.ProtocolVersion{2: primitive.ProtocolVersion2, 3: primitive.ProtocolVersion3, 4: primitive.ProtocolVersion4,
	5: primitive.ProtocolVersion5, 65: primitive.ProtocolVersionDse1, 66: primitive.ProtocolVersionDse2}

func buildFrame(x interface{}) (f *frame.Frame, err error) {
	defer func() {
		if r := recover(); r != nil {
			err = fmt.Errorf("builder: %v", r)
		}
	}()
	m := x.(map[string]interface{})
	v := tlaVersions[num(m["v"])]
	msg := buildMessage(m["msg"], v)
	f = frame.NewFrame(v, int16(num(m["stream"])), msg)
	for _, fl := range m["flags"].([]interface{}) {
		switch fl {
		case "T":
			f.Header.Flags = f.Header.Flags.Add(primitive.HeaderFlagTracing)
		case "P":
			f.Header.Flags = f.Header.Flags.Add(primitive.HeaderFlagCustomPayload)
		case "W":
			f.Header.Flags = f.Header.Flags.Add(primitive.HeaderFlagWarning)
		case "C":
			f.Header.Flags = f.Header.Flags.Add(primitive.HeaderFlagCompressed)
		}
	}
	if has(m["tracing"]) {
		var u primitive.UUID
		copy(u[:], intsOf(get(m["tracing"])))
		f.Body.TracingId = &u
	}
	if has(m["payload"]) {
		f.Body.CustomPayload = map[string][]byte{}
		for _, p := range get(m["payload"]).([]interface{}) {
			pp := p.([]interface{})
			f.Body.CustomPayload[blobStr(pp[0])] = optBlobBytes(pp[1])
		}
	}
	if has(m["warnings"]) {
		f.Body.Warnings = buildStrList(get(m["warnings"]))
	}
	return f, nil
}

// projectFrame maps a frame to its abstract record. Fields the wire does not carry for this direction/version/flags
// are dropped, exactly as DESIGN.md Appendix A lists.
func projectFrame(f *frame.Frame) obj {
	v := f.Header.Version
	dir := "req"
	if f.Header.IsResponse {
		dir = "rsp"
	}
	flags := arr{}
	for _, p := range []struct {
		bit  primitive.HeaderFlag
		name string
	}{{primitive.HeaderFlagCompressed, "C"}, {primitive.HeaderFlagCustomPayload, "P"}, {primitive.HeaderFlagTracing, "T"}, {primitive.HeaderFlagWarning, "W"}, {primitive.HeaderFlagUseBeta, "B"}} {
		if f.Header.Flags.Contains(p.bit) {
			flags = append(flags, p.name)
		}
	}
	m := obj{"v": float64(v), "dir": dir, "stream": float64(f.Header.StreamId), "flags": flags, "tracing": arr{}, "payload": arr{}, "warnings": arr{}}
	if f.Header.Flags.Contains(primitive.HeaderFlagTracing) && f.Header.IsResponse && f.Body.TracingId != nil {
		m["tracing"] = arr{bytesArr(f.Body.TracingId[:])}
	}
	if f.Header.Flags.Contains(primitive.HeaderFlagCustomPayload) {
		keys := make([]string, 0, len(f.Body.CustomPayload))
		for k := range f.Body.CustomPayload {
			keys = append(keys, k)
		}
		sort.Strings(keys)
		pm := arr{}
		for _, k := range keys {
			pm = append(pm, arr{strOf(k), optBlobOf(f.Body.CustomPayload[k])})
		}
		m["payload"] = arr{pm}
	}
	if f.Header.Flags.Contains(primitive.HeaderFlagWarning) && f.Header.IsResponse {
		m["warnings"] = arr{projStrList(f.Body.Warnings)}
	}
	m["msg"] = projMessage(f.Body.Message, v)
	return m
}

// normAbs canonicalises an abstract record: blobs become strings, lists that are sets or maps are sorted.
func normAbs(x interface{}, key string) interface{} {
	switch t := x.(type) {
	case map[string]interface{}:
		if tt, ok := t["t"]; ok && (tt == "lit" || tt == "rep") {
			b := blobBytes(t)
			if len(b) >= 256 {
				same := true
				for _, c := range b {
					same = same && c == b[0]
				}
				if same {
					return fmt.Sprintf("rep:%d*%d", b[0], len(b))
				}
			}
			return "hex:" + hex.EncodeToString(b)
		}
		out := obj{}
		for k, v := range t {
			out[k] = normAbs(v, k)
		}
		if mode, ok := out["mode"]; ok && mode == "named" { // named values: a map
			sortArr(out["items"].([]interface{}))
		}
		return out
	case []interface{}:
		out := make(arr, len(t))
		for i, v := range t {
			out[i] = normAbs(v, "")
		}
		switch key {
		case "flags":
			sortArr(out)
		case "options": // STARTUP / SUPPORTED maps
			sortArr(out)
		case "payload": // optional map: [] or [pairs]
			if len(out) == 1 {
				sortArr(out[0].([]interface{}))
			}
		}
		return out
	}
	return x
}

func sortArr(a []interface{}) {
	sort.Slice(a, func(i, j int) bool {
		x, _ := json.Marshal(a[i])
		y, _ := json.Marshal(a[j])
		return string(x) < string(y)
	})
}

func canonAbs(x interface{}) string {
	b, _ := json.Marshal(normAbs(x, ""))
	return string(b)
}

// ---------------------------------------------------------------------------------------------- chunk matching

type chunk struct {
	K    string          `json:"k"`
	V    json.RawMessage `json:"v"`
	C    int             `json:"c"`
	N    int             `json:"n"`
	Role string          `json:"role"`
	Name string          `json:"name"`
}

// field is one flattened field of a concrete encoding: where it is, what it is.
type field struct {
	Off, Len   int
	Role, Name string
}

// matchChunks checks that data (from offset pos) is one of the encodings the chunk sequence admits; it returns the end
// position and the flattened field list. Backtracks over "unordered" and "alt" groups.
func matchChunks(chunks []chunk, data []byte, pos int) (end int, fields []field, ok bool, why string) {
	if len(chunks) == 0 {
		return pos, nil, true, ""
	}
	c := chunks[0]
	switch c.K {
	case "b":
		var vals []int
		if err := json.Unmarshal(c.V, &vals); err != nil {
			return pos, nil, false, "bad chunk"
		}
		if pos+len(vals) > len(data) {
			return pos, nil, false, fmt.Sprintf("bytes end at %d inside field %q (%d bytes expected at offset %d)", len(data), c.Name, len(vals), pos)
		}
		for i, x := range vals {
			if c.Name == "frame.length" {
				// the declared body length depends on which alternative the encoder chose: it is checked against the
				// number of body bytes actually present (C03), not against one alternative's length
				break
			}
			if data[pos+i] != byte(x) {
				return pos, nil, false, fmt.Sprintf("offset %d (field %q): byte %#02x, specification %#02x", pos+i, c.Name, data[pos+i], x)
			}
		}
		e, fs, ok, why := matchChunks(chunks[1:], data, pos+len(vals))
		return e, append([]field{{pos, len(vals), c.Role, c.Name}}, fs...), ok, why
	case "rep":
		if pos+c.N > len(data) {
			return pos, nil, false, fmt.Sprintf("bytes end inside a run of %d bytes at offset %d", c.N, pos)
		}
		for i := 0; i < c.N; i++ {
			if data[pos+i] != byte(c.C) {
				return pos, nil, false, fmt.Sprintf("offset %d: byte %#02x, specification %#02x (run)", pos+i, data[pos+i], c.C)
			}
		}
		e, fs, ok, why := matchChunks(chunks[1:], data, pos+c.N)
		return e, append([]field{{pos, c.N, "data", "run"}}, fs...), ok, why
	case "alt", "unordered":
		var groups [][]chunk
		if err := json.Unmarshal(c.V, &groups); err != nil {
			return pos, nil, false, "bad group"
		}
		if c.K == "alt" {
			firstWhy := ""
			for _, g := range groups {
				e, fs, ok, why := matchChunks(append(append([]chunk{}, g...), chunks[1:]...), data, pos)
				if ok {
					return e, fs, true, ""
				}
				if firstWhy == "" {
					firstWhy = why
				}
			}
			return pos, nil, false, "no alternative matches: " + firstWhy
		}
		if len(groups) == 0 {
			return matchChunks(chunks[1:], data, pos)
		}
		firstWhy := ""
		for i, g := range groups {
			rest := make([][]chunk, 0, len(groups)-1)
			rest = append(rest, groups[:i]...)
			rest = append(rest, groups[i+1:]...)
			restRaw, _ := json.Marshal(rest)
			next := append(append([]chunk{}, g...), chunk{K: "unordered", V: restRaw})
			e, fs, ok, why := matchChunks(append(next, chunks[1:]...), data, pos)
			if ok {
				return e, fs, true, ""
			}
			if firstWhy == "" {
				firstWhy = why
			}
		}
		return pos, nil, false, "no ordering of the entries matches: " + firstWhy
	}
	return pos, nil, false, "unknown chunk kind " + c.K
}

// flatten produces one concrete byte string admitted by the chunks (first alternative, given order).
func flattenChunks(chunks []chunk) []byte {
	var out []byte
	for _, c := range chunks {
		switch c.K {
		case "b":
			var vals []int
			_ = json.Unmarshal(c.V, &vals)
			for _, x := range vals {
				out = append(out, byte(x))
			}
		case "rep":
			for i := 0; i < c.N; i++ {
				out = append(out, byte(c.C))
			}
		case "alt":
			var groups [][]chunk
			_ = json.Unmarshal(c.V, &groups)
			if len(groups) > 0 {
				out = append(out, flattenChunks(groups[0])...)
			}
		case "unordered":
			var groups [][]chunk
			_ = json.Unmarshal(c.V, &groups)
			for _, g := range groups {
				out = append(out, flattenChunks(g)...)
			}
		}
	}
	return out
}

// allFlattenings enumerates every byte string the chunks admit, up to a limit.
func allFlattenings(chunks []chunk, limit int) [][]byte {
	res := [][]byte{{}}
	for _, c := range chunks {
		var options [][]byte
		switch c.K {
		case "b", "rep":
			options = [][]byte{flattenChunks([]chunk{c})}
		case "alt":
			var groups [][]chunk
			_ = json.Unmarshal(c.V, &groups)
			for _, g := range groups {
				options = append(options, allFlattenings(g, limit)...)
			}
		case "unordered":
			var groups [][]chunk
			_ = json.Unmarshal(c.V, &groups)
			options = permuteGroups(groups, limit)
		}
		var next [][]byte
		for _, r := range res {
			for _, o := range options {
				if len(next) >= limit {
					break
				}
				next = append(next, append(append([]byte{}, r...), o...))
			}
		}
		res = next
	}
	return res
}

func permuteGroups(groups [][]chunk, limit int) [][]byte {
	if len(groups) == 0 {
		return [][]byte{{}}
	}
	var out [][]byte
	for i, g := range groups {
		rest := append(append([][]chunk{}, groups[:i]...), groups[i+1:]...)
		for _, head := range allFlattenings(g, limit) {
			for _, tail := range permuteGroups(rest, limit) {
				if len(out) >= limit {
					return out
				}
				out = append(out, append(append([]byte{}, head...), tail...))
			}
		}
	}
	return out
}

func describeAbs(x interface{}) string {
	s := canonAbs(x)
	if len(s) > 700 {
		s = s[:700] + "..."
	}
	return strings.ReplaceAll(s, "\"", "'")
}

package main

import (
	"bytes"
	"encoding/json"
	"flag"
	"fmt"
	"math/rand"
	"os"
	"reflect"
	"sort"
	"strings"

	"github.com/datastax/go-cassandra-native-protocol/client"
	"github.com/datastax/go-cassandra-native-protocol/frame"
	"github.com/datastax/go-cassandra-native-protocol/message"
	"github.com/datastax/go-cassandra-native-protocol/primitive"
)

func init() {
	subcommands["c20-framemut"] = c20FrameMut
	subcommands["c20-startup"] = c20Startup
}

// ---------------------------------------------------------------------------------------------
// FrameMut: replay of every transition of specs/FrameMut.tla on real frames.

type fmState struct {
	Dir      string   `json:"dir"`
	Opc      string   `json:"opc"`
	Ver      string   `json:"ver"`
	Flags    []string `json:"flags"`
	Payload  string   `json:"payload"`
	Warnings string   `json:"warnings"`
	Tracing  string   `json:"tracing"`
}

var fmSetKeys = map[string]bool{"flags": true}

func opcClass(op primitive.OpCode) string {
	switch op {
	case primitive.OpCodeStartup:
		return "startup"
	case primitive.OpCodeOptions:
		return "options"
	case primitive.OpCodeReady:
		return "ready"
	}
	return "other"
}

func verClass(v primitive.ProtocolVersion) string {
	if v >= primitive.ProtocolVersion4 {
		return "v4plus"
	}
	return "pre4"
}

func classOf3(n int, isNil bool) string {
	if isNil {
		return "nil"
	} else if n == 0 {
		return "empty"
	}
	return "full"
}

func projectFrameMut(f *frame.Frame) string {
	s := fmState{Dir: "req", Opc: opcClass(f.Body.Message.GetOpCode()), Ver: verClass(f.Header.Version)}
	if f.Header.IsResponse {
		s.Dir = "rsp"
	}
	names := []struct {
		bit  primitive.HeaderFlag
		name string
	}{{primitive.HeaderFlagCompressed, "C"}, {primitive.HeaderFlagTracing, "T"}, {primitive.HeaderFlagCustomPayload, "P"},
		{primitive.HeaderFlagWarning, "W"}, {primitive.HeaderFlagUseBeta, "B"}}
	rest := f.Header.Flags
	s.Flags = []string{}
	for _, n := range names {
		if f.Header.Flags.Contains(n.bit) {
			s.Flags = append(s.Flags, n.name)
			rest = rest.Remove(n.bit)
		}
	}
	if rest != 0 {
		s.Flags = append(s.Flags, fmt.Sprintf("?%02x", uint8(rest)))
	}
	s.Payload = classOf3(len(f.Body.CustomPayload), f.Body.CustomPayload == nil)
	s.Warnings = classOf3(len(f.Body.Warnings), f.Body.Warnings == nil)
	s.Tracing = "nil"
	if f.Body.TracingId != nil {
		s.Tracing = "set"
	}
	b, _ := json.Marshal(s)
	return CanonJSON(b, fmSetKeys)
}

var fmTracingId = primitive.UUID{0xde, 0xad, 0xbe, 0xef, 1, 2, 3, 4, 5, 6, 7, 8, 9, 10, 11, 12}

func applyFrameMut(f *frame.Frame, act string, argRaw json.RawMessage, rnd *rand.Rand) {
	var arg string
	_ = json.Unmarshal(argRaw, &arg)
	switch act {
	case "SetCustomPayload":
		switch arg {
		case "nil":
			f.SetCustomPayload(nil)
		case "empty":
			f.SetCustomPayload(map[string][]byte{})
		default:
			p := map[string][]byte{"k1": {1, 2, 3}}
			if rnd.Intn(2) == 0 {
				p["k2"] = nil
			}
			f.SetCustomPayload(p)
		}
	case "SetWarnings":
		switch arg {
		case "nil":
			f.SetWarnings(nil)
		case "empty":
			f.SetWarnings([]string{})
		default:
			f.SetWarnings([]string{"warn1", "warn2"}[:1+rnd.Intn(2)])
		}
	case "SetTracingId":
		if arg == "nil" {
			f.SetTracingId(nil)
		} else {
			id := fmTracingId
			f.SetTracingId(&id)
		}
	case "RequestTracingId":
		f.RequestTracingId(arg == "true")
	case "SetCompress":
		f.SetCompress(arg == "true")
	default:
		panic("unknown FrameMut action " + act)
	}
}

func hasFlag(state string, fl string) bool {
	var s fmState
	_ = json.Unmarshal([]byte(state), &s)
	for _, x := range s.Flags {
		if x == fl {
			return true
		}
	}
	return false
}

// roundTripFrameMut encodes and decodes f (which is in an Encodable state) and compares what the wire carries.
func roundTripFrameMut(f *frame.Frame, m0 message.Message) (problem string) {
	defer func() {
		if r := recover(); r != nil {
			problem = fmt.Sprintf("panic: %v", r)
		}
	}()
	var codec frame.Codec
	if f.Header.Flags.Contains(primitive.HeaderFlagCompressed) {
		codec = frame.NewCodecWithCompression(client.NewBodyCompressor(primitive.CompressionLz4))
	} else {
		codec = frame.NewCodec()
	}
	in := f.DeepCopy()
	buf := &bytes.Buffer{}
	if err := codec.EncodeFrame(in, buf); err != nil {
		return "encode error: " + err.Error()
	}
	total := buf.Len()
	if declared, emitted := int(in.Header.BodyLength), total-f.Header.Version.FrameHeaderLengthInBytes(); declared != emitted {
		return fmt.Sprintf("declared body length %d but %d body bytes emitted", declared, emitted)
	}
	out, err := codec.DecodeFrame(buf)
	if err != nil {
		return "decode error: " + err.Error()
	}
	if buf.Len() != 0 {
		return fmt.Sprintf("decoder left %d of %d bytes unread", buf.Len(), total)
	}
	if out.Header.Flags != f.Header.Flags {
		return fmt.Sprintf("flags %08b became %08b", f.Header.Flags, out.Header.Flags)
	}
	if out.Header.IsResponse != f.Header.IsResponse || out.Header.Version != f.Header.Version ||
		out.Header.StreamId != f.Header.StreamId || out.Header.OpCode != f.Header.OpCode {
		return fmt.Sprintf("header %v became %v", f.Header, out.Header)
	}
	if f.Header.Flags.Contains(primitive.HeaderFlagCustomPayload) {
		if !reflect.DeepEqual(normBytesMap(out.Body.CustomPayload), normBytesMap(f.Body.CustomPayload)) {
			return fmt.Sprintf("custom payload %v became %v", f.Body.CustomPayload, out.Body.CustomPayload)
		}
	} else if len(out.Body.CustomPayload) != 0 {
		return "custom payload appeared"
	}
	if f.Header.Flags.Contains(primitive.HeaderFlagWarning) && f.Header.IsResponse {
		if !reflect.DeepEqual(out.Body.Warnings, f.Body.Warnings) {
			return fmt.Sprintf("warnings %v became %v", f.Body.Warnings, out.Body.Warnings)
		}
	} else if len(out.Body.Warnings) != 0 {
		return "warnings appeared"
	}
	if f.Header.Flags.Contains(primitive.HeaderFlagTracing) && f.Header.IsResponse {
		if out.Body.TracingId == nil || *out.Body.TracingId != *f.Body.TracingId {
			return fmt.Sprintf("tracing id %v became %v", f.Body.TracingId, out.Body.TracingId)
		}
	} else if out.Body.TracingId != nil {
		return "tracing id appeared"
	}
	if !reflect.DeepEqual(out.Body.Message, m0) {
		return fmt.Sprintf("message %v became %v", m0, out.Body.Message)
	}
	return ""
}

func normBytesMap(m map[string][]byte) map[string]string {
	out := map[string]string{}
	for k, v := range m {
		if v == nil {
			out[k] = "<nil>"
		} else {
			out[k] = string(v)
		}
	}
	return out
}

type fmConfig struct {
	v    primitive.ProtocolVersion
	kind string
	msg  message.Message
	m0   message.Message
}

func c20FrameMut(args []string) int {
	fs := flag.NewFlagSet("c20-framemut", flag.ExitOnError)
	edges := fs.String("edges", "", "EDGE ndjson from FrameMut.tla")
	inits := fs.String("inits", "", "INIT ndjson")
	seedv := fs.Int64("seed", 1, "seed")
	allRT := fs.Bool("all-roundtrips", false, "round-trip after every edge instead of once per (config,state)")
	_ = fs.Parse(args)
	g, err := LoadGraph(*edges, *inits, fmSetKeys)
	if err != nil {
		fmt.Fprintln(os.Stderr, err)
		return 2
	}
	rnd := rand.New(rand.NewSource(*seedv))
	rep := &Report{}
	// concrete configurations per abstract class
	byClass := map[string][]fmConfig{}
	plain := frame.NewCodec()
	for _, v := range Versions {
		for _, nm := range Catalogue(v) {
			f := frame.NewFrame(v, 1, nm.Msg.DeepCopyMessage())
			buf := &bytes.Buffer{}
			if err := plain.EncodeFrame(f, buf); err != nil {
				fmt.Fprintf(os.Stderr, "catalogue sample %s/%s does not encode: %v\n", versionName(v), nm.Kind, err)
				return 2
			}
			d, err := plain.DecodeFrame(buf)
			if err != nil {
				fmt.Fprintf(os.Stderr, "catalogue sample %s/%s does not decode: %v\n", versionName(v), nm.Kind, err)
				return 2
			}
			dir := "req"
			if nm.Msg.IsResponse() {
				dir = "rsp"
			}
			key := dir + "/" + opcClass(nm.Msg.GetOpCode()) + "/" + verClass(v)
			byClass[key] = append(byClass[key], fmConfig{v, nm.Kind, nm.Msg, d.Body.Message})
		}
	}
	classOf := func(state string) string {
		var s fmState
		_ = json.Unmarshal([]byte(state), &s)
		return s.Dir + "/" + s.Opc + "/" + s.Ver
	}
	rtDone := map[string]bool{}
	distinct := map[string]bool{}
	for ei := range g.Edges {
		e := g.Edges[ei]
		from, to := g.From[ei], g.To[ei]
		_, path, ok := g.PathTo(from)
		if !ok {
			fmt.Fprintf(os.Stderr, "edge %d: from-state unreachable in emitted graph\n", ei)
			return 2
		}
		cfgs := byClass[classOf(from)]
		if len(cfgs) == 0 {
			fmt.Fprintf(os.Stderr, "no concrete frame for class %s\n", classOf(from))
			return 2
		}
		for _, cfg := range cfgs {
			rep.Evaluations++
			script := []string{}
			f := frame.NewFrame(cfg.v, 1, cfg.msg.DeepCopyMessage())
			bad := ""
			func() {
				defer func() {
					if r := recover(); r != nil {
						bad = fmt.Sprintf("panic: %v", r)
					}
				}()
				for _, pi := range path {
					pe := g.Edges[pi]
					applyFrameMut(f, pe.Act, pe.Arg, rnd)
					script = append(script, pe.Act+"("+strings.Trim(string(pe.Arg), "\"")+")")
					if got := projectFrameMut(f); got != g.To[pi] {
						bad = fmt.Sprintf("prefix diverged after %v: real %s, spec %s", script, got, g.To[pi])
						return
					}
				}
				applyFrameMut(f, e.Act, e.Arg, rnd)
				script = append(script, e.Act+"("+strings.Trim(string(e.Arg), "\"")+")")
			}()
			step := e.Act + "(" + strings.Trim(string(e.Arg), "\"") + ")"
			replay := map[string]interface{}{"check": "framemut", "version": versionName(cfg.v), "kind": cfg.kind, "script": script}
			if bad != "" {
				rep.violate("framemut|"+step+"|"+strings.SplitN(bad, ":", 2)[0], bad, replay)
				continue
			}
			got := projectFrameMut(f)
			if got != to {
				rep.violate("framemut|"+step+"|state", fmt.Sprintf("%s/%s after %v: real %s, spec %s", versionName(cfg.v), cfg.kind, script, got, to), replay)
				continue
			}
			distinct[versionName(cfg.v)+"/"+cfg.kind+"/"+to] = true
			rtKey := versionName(cfg.v) + "/" + cfg.kind + "/" + to
			if *allRT || !rtDone[rtKey] {
				rtDone[rtKey] = true
				if e.Enc {
					if p := roundTripFrameMut(f, cfg.m0); p != "" {
						rep.violate("framemut|roundtrip|"+classOf(to)+"|"+strings.Join(flagsOf(to), "")+"|"+strings.SplitN(p, " ", 2)[0],
							fmt.Sprintf("%s/%s after %v in state %s: %s", versionName(cfg.v), cfg.kind, script, to, p), replay)
					}
				} else {
					// outside the protocol: encoding may fail but must not panic
					func() {
						defer func() {
							if r := recover(); r != nil {
								rep.violate("framemut|encode-panic|"+classOf(to), fmt.Sprintf("%v", r), replay)
							}
						}()
						codec := frame.NewCodecWithCompression(client.NewBodyCompressor(primitive.CompressionLz4))
						_ = codec.EncodeFrame(f.DeepCopy(), &bytes.Buffer{})
					}()
				}
			}
			if len(rep.Samples) < 3 && len(script) >= 3 {
				rep.Samples = append(rep.Samples, map[string]interface{}{"version": versionName(cfg.v), "kind": cfg.kind, "script": script, "state": json.RawMessage(to)})
			}
		}
	}
	rep.Distinct = len(distinct)
	rep.Extra = map[string]interface{}{"edges": len(g.Edges), "configs": func() int {
		n := 0
		for _, c := range byClass {
			n += len(c)
		}
		return n
	}(), "roundtrips": len(rtDone)}
	return rep.print()
}

func flagsOf(state string) []string {
	var s fmState
	_ = json.Unmarshal([]byte(state), &s)
	sort.Strings(s.Flags)
	return s.Flags
}

// ---------------------------------------------------------------------------------------------
// StartupOpts: replay of every transition of specs/StartupOpts.tla on a real message.Startup.

type soState struct {
	Opts map[string]string `json:"opts"`
	Obs  struct {
		Get  map[string]string `json:"get"`
		Comp string            `json:"comp"`
		Thr  bool              `json:"thr"`
	} `json:"obs"`
}

var soKeys = []string{"CLIENT_ID", "APPLICATION_NAME", "APPLICATION_VERSION", "DRIVER_NAME", "DRIVER_VERSION",
	"CQL_VERSION", "COMPRESSION", "THROW_ON_OVERLOAD"}

// soInst maps abstract values ("a","b") to the concrete strings used in this run and back.
type soInst struct {
	fwd map[string]string
	bwd map[string]string
}

func newSoInst(rnd *rand.Rand) *soInst {
	in := &soInst{map[string]string{}, map[string]string{}}
	alphabet := []rune("abcXYZ019 _-é漢")
	for _, a := range []string{"a", "b"} {
		for {
			n := 1 + rnd.Intn(12)
			r := make([]rune, n)
			for i := range r {
				r[i] = alphabet[rnd.Intn(len(alphabet))]
			}
			s := string(r)
			if s == "1" || s == "3.0.0" || s == "absent" || s == "LZ4" || s == "SNAPPY" || s == "NONE" {
				continue
			}
			if _, dup := in.bwd[s]; dup {
				continue
			}
			in.fwd[a] = s
			in.bwd[s] = a
			break
		}
	}
	return in
}

func (in *soInst) abs(s string) string {
	if a, ok := in.bwd[s]; ok {
		return a
	}
	return s
}

func (in *soInst) conc(a string) string {
	if s, ok := in.fwd[a]; ok {
		return s
	}
	return a
}

func projectStartup(m *message.Startup, in *soInst) string {
	var s soState
	s.Opts = map[string]string{}
	for _, k := range soKeys {
		if v, ok := m.Options[k]; ok {
			s.Opts[k] = in.abs(v)
		} else {
			s.Opts[k] = "absent"
		}
	}
	for k, v := range m.Options {
		if _, known := s.Opts[k]; !known {
			s.Opts["EXTRA:"+k] = v
		}
	}
	s.Obs.Get = map[string]string{
		"CLIENT_ID":           in.abs(m.GetClientId()),
		"APPLICATION_NAME":    in.abs(m.GetApplicationName()),
		"APPLICATION_VERSION": in.abs(m.GetApplicationVersion()),
		"DRIVER_NAME":         in.abs(m.GetDriverName()),
		"DRIVER_VERSION":      in.abs(m.GetDriverVersion()),
	}
	s.Obs.Comp = string(m.GetCompression())
	s.Obs.Thr = m.IsThrowOnOverload()
	b, _ := json.Marshal(s)
	return CanonJSON(b, nil)
}

func applyStartup(m *message.Startup, act string, argRaw json.RawMessage, in *soInst) string {
	var arg struct {
		K string `json:"k"`
		V string `json:"v"`
	}
	_ = json.Unmarshal(argRaw, &arg)
	switch act {
	case "SetString":
		v := in.conc(arg.V)
		switch arg.K {
		case "CLIENT_ID":
			m.SetClientId(v)
		case "APPLICATION_NAME":
			m.SetApplicationName(v)
		case "APPLICATION_VERSION":
			m.SetApplicationVersion(v)
		case "DRIVER_NAME":
			m.SetDriverName(v)
		case "DRIVER_VERSION":
			m.SetDriverVersion(v)
		default:
			panic("unknown string key " + arg.K)
		}
		return "Set" + arg.K + "(" + arg.V + ")"
	case "SetCompression":
		m.SetCompression(primitive.Compression(arg.V))
		return "SetCompression(" + arg.V + ")"
	case "SetThrowOnOverload":
		m.SetThrowOnOverload(arg.V == "true")
		return "SetThrowOnOverload(" + arg.V + ")"
	}
	panic("unknown StartupOpts action " + act)
}

func c20Startup(args []string) int {
	fs := flag.NewFlagSet("c20-startup", flag.ExitOnError)
	edges := fs.String("edges", "", "EDGE ndjson from StartupOpts.tla")
	inits := fs.String("inits", "", "INIT ndjson")
	seedv := fs.Int64("seed", 1, "seed")
	_ = fs.Parse(args)
	g, err := LoadGraph(*edges, *inits, nil)
	if err != nil {
		fmt.Fprintln(os.Stderr, err)
		return 2
	}
	rnd := rand.New(rand.NewSource(*seedv))
	rep := &Report{}
	distinct := map[string]bool{}
	for ei := range g.Edges {
		e := g.Edges[ei]
		from, to := g.From[ei], g.To[ei]
		_, path, ok := g.PathTo(from)
		if !ok {
			fmt.Fprintf(os.Stderr, "edge %d: from-state unreachable\n", ei)
			return 2
		}
		rep.Evaluations++
		in := newSoInst(rnd)
		m := message.NewStartup()
		script := []string{}
		bad := ""
		func() {
			defer func() {
				if r := recover(); r != nil {
					bad = fmt.Sprintf("panic: %v", r)
				}
			}()
			for _, pi := range path {
				pe := g.Edges[pi]
				script = append(script, applyStartup(m, pe.Act, pe.Arg, in))
				if got := projectStartup(m, in); got != g.To[pi] {
					bad = fmt.Sprintf("prefix diverged after %v: real %s, spec %s", script, got, g.To[pi])
					return
				}
			}
			script = append(script, applyStartup(m, e.Act, e.Arg, in))
		}()
		step := script[len(script)-1]
		replay := map[string]interface{}{"check": "startup", "script": script, "a": in.fwd["a"], "b": in.fwd["b"]}
		if bad != "" {
			rep.violate("startup|"+step+"|"+strings.SplitN(bad, ":", 2)[0], bad, replay)
			continue
		}
		if got := projectStartup(m, in); got != to {
			rep.violate("startup|"+step+"|state", fmt.Sprintf("after %v: real %s, spec %s", script, got, to), replay)
			continue
		}
		distinct[from+"|"+step] = true
		// the option map must survive the wire: encode / decode and re-project
		if ei%7 == 0 {
			f := frame.NewFrame(primitive.ProtocolVersion4, 1, m)
			buf := &bytes.Buffer{}
			codec := frame.NewCodec()
			if err := codec.EncodeFrame(f, buf); err != nil {
				rep.violate("startup|encode", err.Error(), replay)
			} else if d, err := codec.DecodeFrame(buf); err != nil {
				rep.violate("startup|decode", err.Error(), replay)
			} else if got := projectStartup(d.Body.Message.(*message.Startup), in); got != to {
				rep.violate("startup|roundtrip", fmt.Sprintf("after %v: decoded %s, spec %s", script, got, to), replay)
			}
		}
		if len(rep.Samples) < 3 && len(script) >= 3 {
			rep.Samples = append(rep.Samples, map[string]interface{}{"script": script, "state": json.RawMessage(to)})
		}
	}
	rep.Distinct = len(distinct)
	rep.Extra = map[string]interface{}{"edges": len(g.Edges)}
	return rep.print()
}

package main

import (
	"bufio"
	"encoding/json"
	"fmt"
	"os"
	"sort"
)

// Edge is one transition (from, act, arg, to) of a TLC-explored state graph, emitted by the spec itself
// as an "EDGE" JSON line. States and arguments are kept as raw JSON and canonicalised by CanonJSON.
type Edge struct {
	From json.RawMessage `json:"from"`
	Act  string          `json:"act"`
	Arg  json.RawMessage `json:"arg"`
	To   json.RawMessage `json:"to"`
	Enc  bool            `json:"enc"`
	Res  json.RawMessage `json:"res"`
}

// CanonJSON re-marshals JSON with sorted object keys; arrays listed in setKeys (by key name) are sorted.
func CanonJSON(raw []byte, setKeys map[string]bool) string {
	var v interface{}
	if err := json.Unmarshal(raw, &v); err != nil {
		panic(fmt.Sprintf("bad json %q: %v", raw, err))
	}
	v = canonValue(v, "", setKeys)
	b, _ := json.Marshal(v)
	return string(b)
}

func canonValue(v interface{}, key string, setKeys map[string]bool) interface{} {
	switch x := v.(type) {
	case map[string]interface{}:
		for k, e := range x {
			x[k] = canonValue(e, k, setKeys)
		}
		return x
	case []interface{}:
		for i, e := range x {
			x[i] = canonValue(e, "", setKeys)
		}
		if setKeys[key] {
			sort.Slice(x, func(i, j int) bool {
				a, _ := json.Marshal(x[i])
				b, _ := json.Marshal(x[j])
				return string(a) < string(b)
			})
		}
		return x
	}
	return v
}

// Graph is an explored state graph with BFS shortest paths from the initial states.
type Graph struct {
	Edges   []Edge
	From    []string // canonical from-state per edge
	To      []string
	Inits   []string
	parent  map[string]int // state -> index of the BFS tree edge reaching it (-1 for inits)
	SetKeys map[string]bool
}

func readNDJSON(path string, each func(line []byte) error) error {
	f, err := os.Open(path)
	if err != nil {
		return err
	}
	defer f.Close()
	sc := bufio.NewScanner(f)
	sc.Buffer(make([]byte, 1<<20), 1<<28)
	for sc.Scan() {
		b := sc.Bytes()
		if len(b) == 0 {
			continue
		}
		if err := each(append([]byte(nil), b...)); err != nil {
			return err
		}
	}
	return sc.Err()
}

// LoadGraph reads EDGE lines (ndjson). Initial states are the from-states that are never a to-state of a
// non-self-loop edge, unless an explicit inits file is given.
func LoadGraph(edgesPath string, initsPath string, setKeys map[string]bool) (*Graph, error) {
	g := &Graph{SetKeys: setKeys, parent: map[string]int{}}
	err := readNDJSON(edgesPath, func(line []byte) error {
		var e Edge
		if err := json.Unmarshal(line, &e); err != nil {
			return err
		}
		g.Edges = append(g.Edges, e)
		g.From = append(g.From, CanonJSON(e.From, setKeys))
		g.To = append(g.To, CanonJSON(e.To, setKeys))
		return nil
	})
	if err != nil {
		return nil, err
	}
	if initsPath != "" {
		seen := map[string]bool{}
		err = readNDJSON(initsPath, func(line []byte) error {
			c := CanonJSON(line, setKeys)
			if !seen[c] {
				seen[c] = true
				g.Inits = append(g.Inits, c)
			}
			return nil
		})
		if err != nil {
			return nil, err
		}
	} else {
		isTarget := map[string]bool{}
		for i := range g.Edges {
			if g.From[i] != g.To[i] {
				isTarget[g.To[i]] = true
			}
		}
		seen := map[string]bool{}
		for i := range g.Edges {
			if !isTarget[g.From[i]] && !seen[g.From[i]] {
				seen[g.From[i]] = true
				g.Inits = append(g.Inits, g.From[i])
			}
		}
	}
	// BFS
	out := map[string][]int{}
	for i := range g.Edges {
		out[g.From[i]] = append(out[g.From[i]], i)
	}
	queue := []string{}
	for _, s := range g.Inits {
		g.parent[s] = -1
		queue = append(queue, s)
	}
	for len(queue) > 0 {
		s := queue[0]
		queue = queue[1:]
		for _, ei := range out[s] {
			t := g.To[ei]
			if _, ok := g.parent[t]; !ok {
				g.parent[t] = ei
				queue = append(queue, t)
			}
		}
	}
	return g, nil
}

// PathTo returns the edge indices of a shortest path from an initial state to s, and that initial state.
func (g *Graph) PathTo(s string) (init string, path []int, ok bool) {
	if _, ok := g.parent[s]; !ok {
		return "", nil, false
	}
	cur := s
	for {
		ei := g.parent[cur]
		if ei < 0 {
			break
		}
		path = append(path, ei)
		cur = g.From[ei]
	}
	for i, j := 0, len(path)-1; i < j; i, j = i+1, j-1 {
		path[i], path[j] = path[j], path[i]
	}
	return cur, path, true
}

// Report is the JSON object every harness subcommand prints as its last stdout line.
type Report struct {
	Evaluations int                    `json:"evaluations"`
	Distinct    int                    `json:"distinct"`
	Violations  []Violation            `json:"violations"`
	Samples     []interface{}          `json:"samples"`
	Notes       []string               `json:"notes,omitempty"`
	Extra       map[string]interface{} `json:"extra,omitempty"`
}

type Violation struct {
	Sig    string      `json:"sig"`
	Detail string      `json:"detail"`
	Replay interface{} `json:"replay"`
}

func (r *Report) violate(sig, detail string, replay interface{}) {
	if len(r.Violations) < 200 {
		r.Violations = append(r.Violations, Violation{sig, detail, replay})
	}
}

func (r *Report) print() int {
	if r.Violations == nil {
		r.Violations = []Violation{}
	}
	if r.Samples == nil {
		r.Samples = []interface{}{}
	}
	b, _ := json.Marshal(r)
	fmt.Println(string(b))
	if len(r.Violations) > 0 {
		return 1
	}
	return 0
}

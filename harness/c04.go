package main

import (
	"bytes"
	"encoding/binary"
	"encoding/json"
	"flag"
	"fmt"
	"io"
	"math/big"
	"math/rand"
	"net"
	"os"
	"os/exec"
	"reflect"
	"runtime"
	"runtime/debug"
	"runtime/metrics"
	"runtime/pprof"
	"strings"
	"sync"
	"syscall"
	"time"

	"github.com/datastax/go-cassandra-native-protocol/client"
	"github.com/datastax/go-cassandra-native-protocol/datacodec"
	"github.com/datastax/go-cassandra-native-protocol/datatype"
	"github.com/datastax/go-cassandra-native-protocol/frame"
	"github.com/datastax/go-cassandra-native-protocol/primitive"
	"github.com/datastax/go-cassandra-native-protocol/segment"
)

// C04: decoders never panic, fault or hang.
//
// `c04` is the parent: it starts W worker processes (`c04-worker`), each executing the same deterministic task list
// restricted to its residue class, under an address-space limit. A worker stores the number of the task it is about to
// run in a small shared mmap'ed file, recovers panics itself (reported in its JSON output) and can be killed by a fatal
// runtime error (stack overflow, out of memory) or by the parent when it makes no progress (hang); the parent
// attributes such deaths to the task recorded in the shared file and restarts the worker after it.

func init() {
	subcommands["c04"] = c04Parent
	subcommands["c04-worker"] = c04Worker
}

type c04Task struct {
	entry string // decoding entry point
	label string // where the input comes from
	data  []byte
	ver   primitive.ProtocolVersion
	aux   int
}

type mutTable struct {
	Repl map[string][][]int `json:"repl"`
}

// taskSource enumerates tasks deterministically; yield returns false to stop.
type taskSource struct {
	vecs  []wireVec
	cases []cqlCase
	mut   mutTable
	seed  int64
	deep  bool
}

var allVersions = Versions

func (ts *taskSource) each(yield func(t c04Task) bool) {
	rnd := rand.New(rand.NewSource(ts.seed))
	emit := func(entry, label string, data []byte, v primitive.ProtocolVersion, aux int) bool {
		return yield(c04Task{entry, label, data, v, aux})
	}
	// ---- A/B: frames from the TLC vectors and their structure-aware mutations
	stride := 1
	if !ts.deep {
		stride = 11
	}
	hugeEvery := 1
	if !ts.deep {
		hugeEvery = 4
	}
	// every stride-th vector gets the full treatment; every other vector the negative counts and lengths only (the
	// classic makeslice / index panics), so that no layout goes without them
	for vi := 0; vi < len(ts.vecs); vi++ {
		light := vi%stride != 0
		vec := ts.vecs[vi]
		base := flattenChunks(vec.Chunks)
		_, fields, ok, _ := matchChunks(vec.Chunks, base, 0)
		if !ok {
			continue
		}
		var hdr struct {
			V int `json:"v"`
		}
		_ = json.Unmarshal(vec.Frame, &hdr)
		v := tlaVersions[hdr.V]
		hl := v.FrameHeaderLengthInBytes()
		label := fmt.Sprintf("vector %d", vi)
		frameTasks := func(lbl string, data []byte, fixLength bool) bool {
			d := append([]byte{}, data...)
			if fixLength && len(d) >= hl {
				binary.BigEndian.PutUint32(d[hl-4:], uint32(len(d)-hl))
			}
			if !emit("frame", lbl, d, v, 0) {
				return false
			}
			if len(d) > hl {
				// the body alone through the message codec of the opcode, for the frame's version and two others
				if !emit("body", lbl, d[hl:], v, int(d[hl-5])) {
					return false
				}
				if !emit("body", lbl, d[hl:], allVersions[(vi+1)%len(allVersions)], int(d[hl-5])) {
					return false
				}
			}
			return true
		}
		if !light && !frameTasks(label+" unchanged", base, false) {
			return
		}
		for fi, f := range fields {
			repl := ts.mut.Repl[f.Role]
			if light && !strings.HasPrefix(f.Role, "count") && !strings.HasPrefix(f.Role, "len") {
				continue
			}
			for ri, r := range repl {
				if len(r) != f.Len {
					continue
				}
				if light && !(r[0] == 0xff && r[len(r)-1] >= 0xfe) {
					continue
				}
				// lengths of 2^31-1 make the decoders allocate and zero 2 GiB before they notice the bytes are missing: a
				// few seconds each. They are exercised on a sample of the vectors; 2^24 and 2^16 everywhere.
				if f.Len == 4 && (r[0] == 0x7f || r[0] == 0x80) && r[1] == 0xff && (vi/stride)%hugeEvery != fi%hugeEvery {
					continue
				}
				d := append([]byte{}, base...)
				for i, x := range r {
					d[f.Off+i] = byte(x)
				}
				lbl := fmt.Sprintf("%s field %d (%s %s) := % x", label, fi, f.Role, f.Name, intsToBytes(r))
				// once with the declared body length left as is, once made consistent
				if !frameTasks(lbl, d, false) || (!light && f.Name != "frame.length" && ri%3 == 0 && !frameTasks(lbl+" (length fixed)", d, true)) {
					return
				}
			}
			if light {
				continue
			}
			if f.Role == "code" || f.Role == "flags" {
				for bit := 0; bit < 8*f.Len; bit++ {
					d := append([]byte{}, base...)
					d[f.Off+bit/8] ^= 1 << uint(bit%8)
					if !frameTasks(fmt.Sprintf("%s field %d (%s %s) bit %d flipped", label, fi, f.Role, f.Name, bit), d, false) {
						return
					}
				}
				for _, fill := range []byte{0x00, 0xff} {
					d := append([]byte{}, base...)
					for i := 0; i < f.Len; i++ {
						d[f.Off+i] = fill
					}
					if !frameTasks(fmt.Sprintf("%s field %d (%s %s) := %#02x..", label, fi, f.Role, f.Name, fill), d, false) {
						return
					}
				}
			}
			// truncation at the field boundary (with and without a consistent length)
			if !frameTasks(fmt.Sprintf("%s truncated before field %d (%s)", label, fi, f.Name), base[:f.Off], false) ||
				(f.Off > hl && !frameTasks(fmt.Sprintf("%s truncated before field %d (%s), length fixed", label, fi, f.Name), base[:f.Off], true)) {
				return
			}
		}
		if !light && vi%(stride*5) == 0 {
			for off := 0; off < len(base) && off < 300; off++ {
				if !frameTasks(fmt.Sprintf("%s truncated at offset %d", label, off), base[:off], off > hl && off%2 == 0) {
					return
				}
			}
			other := flattenChunks(ts.vecs[(vi+stride)%len(ts.vecs)].Chunks)
			if len(other) > hl+2 {
				spl := append(append([]byte{}, base[:len(base)/2]...), other[len(other)/2:]...)
				garbage := make([]byte, 40)
				rnd.Read(garbage)
				if !frameTasks(label+" spliced with the tail of another vector", spl, true) || !frameTasks(label+" + garbage", append(append([]byte{}, base...), garbage...), true) {
					return
				}
			}
		}
	}
	// ---- CQL value decoders: the CqlValue.tla bytes and their mutations into typed and untyped destinations
	for ci, c := range ts.cases {
		if len(c.Bytes) == 0 || (c.Fam != "coll" && c.Fam != "int" && c.Fam != "decimal" && c.Fam != "duration" && c.Fam != "simple") {
			continue
		}
		if c.Fam == "int" && ci%23 != 0 {
			continue
		}
		base := intsToBytes(c.Bytes)
		variants := [][]byte{base, base[:len(base)/2], base[:len(base)-1], append(append([]byte{}, base...), 0)}
		width := 4
		if c.V2 {
			width = 2
		}
		for off := 0; off+width <= len(base) && off <= 16; off += width {
			for _, r := range [][]byte{{0xff, 0xff, 0xff, 0xff}, {0xff, 0xff, 0xff, 0xfe}, {0x7f, 0xff, 0xff, 0xff}, {0x80, 0, 0, 0}, {0, 0, 0xff, 0xff}, {0, 1, 0, 0}} {

				d := append([]byte{}, base...)
				copy(d[off:off+width], r[4-width:])
				variants = append(variants, d)
			}
		}
		for k, d := range variants {
			if !emit("cql", fmt.Sprintf("CqlValue case %d (%s %s %s) variant %d", ci, c.Fam, c.Cql, c.Kind, k), d, primitive.ProtocolVersion4, ci) {
				return
			}
		}
	}
	// ---- segments: valid segments with header fields mutated and checksums recomputed (so the decoder goes on)
	for _, format := range []string{"none", "lz4"} {
		for _, n := range []int{0, 1, 7, 300, 5000} {
			for _, class := range []string{"zeros", "rand", "text"} {
				payload := contentOf(class, n, rnd)
				codec := segment.NewCodec()
				if format == "lz4" {
					codec = segment.NewCodecWithCompression(client.NewPayloadCompressor(primitive.CompressionLz4))
				}
				enc, err := encodeSeg(codec, payload, true)
				if err != nil {
					continue
				}
				p, _ := refParse(enc, format == "lz4")
				aux := 0
				if format == "lz4" {
					aux = 1
				}
				lbl := fmt.Sprintf("segment %s/%d/%s", format, n, class)
				if !emit("segment", lbl+" unchanged", enc, 0, aux) {
					return
				}
				lens := []int{0, 1, n / 2, n + 1, 131071, 65536, len(p.Transmitted) + 1, len(p.Transmitted) - 1}
				for _, a := range lens {
					for _, b := range lens {
						if a < 0 || b < 0 {
							continue
						}
						var h []byte
						if format == "lz4" {
							h = refHeaderCompressed(a, b, true)
						} else {
							h = refHeaderUncompressed(a, true)
						}
						d := append(append([]byte{}, h...), le(uint64(refCrc24(h)), 3)...)
						// keep the transmitted bytes, recompute the payload CRC over the number of bytes the header now announces
						body := p.Transmitted
						if a < len(body) {
							body = body[:a]
						}
						d = append(append(d, body...), le(uint64(refCrc32(body)), 4)...)
						if !emit("segment", fmt.Sprintf("%s header lengths := (%d,%d), checksums recomputed", lbl, a, b), d, 0, aux) {
							return
						}
						if format == "none" {
							break
						}
					}
				}
				for off := 0; off < len(enc) && off < 64; off++ {
					if !emit("segment", fmt.Sprintf("%s truncated at %d", lbl, off), enc[:off], 0, aux) {
						return
					}
				}
			}
		}
	}
	// ---- decompressors: valid blocks with the length prefix / tokens mutated, truncations
	for _, algo := range []string{"lz4", "snappy"} {
		for _, n := range []int{0, 1, 20, 400, 70000} {
			for _, class := range []string{"zeros", "text", "rand"} {
				data := contentOf(class, n, rnd)
				comp := primitive.CompressionLz4
				aux := 0
				if algo == "snappy" {
					comp, aux = primitive.CompressionSnappy, 1
				}
				var block bytes.Buffer
				if err := client.NewBodyCompressor(comp).CompressWithLength(bytes.NewBuffer(append([]byte{}, data...)), &block); err != nil {
					continue
				}
				b := block.Bytes()
				lbl := fmt.Sprintf("%s block of %d %s bytes", algo, n, class)
				vars := [][]byte{b, b[:len(b)/2], b[:len(b)-1], append(append([]byte{}, b...), 0xff)}
				for _, r := range [][]byte{{0xff, 0xff, 0xff, 0xff}, {0x7f, 0xff, 0xff, 0xff}, {0, 0, 0, 0}, {0, 0, 0, 1}, {0x80, 0, 0, 0}, {0, 0xff, 0xff, 0xff}} {
					if len(b) >= 4 {
						d := append([]byte{}, b...)
						copy(d, r)
						vars = append(vars, d)
					}
				}
				for i := 0; i < len(b) && i < 24; i++ {
					for _, x := range []byte{0x00, 0xff, 0xf0, 0x0f} {
						d := append([]byte{}, b...)
						d[i] = x
						vars = append(vars, d)
					}
				}
				for k, d := range vars {
					if !emit("decompress", fmt.Sprintf("%s variant %d", lbl, k), d, 0, aux) {
						return
					}
					if algo == "lz4" && len(d) > 4 && !emit("decompress-raw", fmt.Sprintf("%s variant %d (raw)", lbl, k), d[4:], 0, aux) {
						return
					}
				}
			}
		}
	}
	// ---- random bytes (cannot false-alarm: any panic is real), small and up to 1 MiB
	sizes := []int{0, 1, 2, 3, 4, 5, 8, 9, 10, 16, 33, 100, 1000, 70000}
	nrand := 4000
	if ts.deep {
		sizes = append(sizes, 1<<20)
		nrand = 400000
	}
	for i := 0; i < nrand; i++ {
		n := sizes[rnd.Intn(len(sizes))]
		if n > 1000 && i%50 != 0 {
			n = rnd.Intn(64)
		}
		d := make([]byte, n)
		rnd.Read(d)
		if n > 0 && i%2 == 0 { // plausible first bytes so that decoding gets past the header
			d[0] = []byte{2, 3, 4, 5, 65, 66, 0x82, 0x83, 0x84, 0x85, 0xc1, 0xc2}[rnd.Intn(12)]
			if n > 4 {
				d[1] &= 0x0f
				ops := []byte{0, 1, 2, 3, 5, 6, 7, 8, 9, 10, 11, 12, 13, 14, 15, 16, 255}
				if d[0]&0x7f == 2 {
					d[3] = ops[rnd.Intn(len(ops))]
				} else {
					d[4] = ops[rnd.Intn(len(ops))]
				}
			}
		}
		// a random [int] length is ~1 GiB on average: the decoders allocate and zero that much and then fail on the missing
		// bytes, which costs a second and finds nothing new. Nineteen random inputs in twenty are therefore generated
		// field-wise (small counts and lengths, -1, -2, short random runs, an occasional fully random word); one stays raw.
		if i%20 != 0 {
			d = structuredRandom(rnd, n)
			if n > 0 && i%2 == 0 {
				d[0] = []byte{2, 3, 4, 5, 65, 66, 0x82, 0x83, 0x84, 0x85, 0xc1, 0xc2}[rnd.Intn(12)]
			}
		}
		prim := d
		lbl := fmt.Sprintf("random bytes #%d (len %d)", i, n)
		if !emit("frame", lbl, d, 0, 0) || !emit("segment", lbl, d, 0, i%2) || !emit("decompress", lbl, d, 0, i%2) ||
			!emit("primitives", lbl, prim, allVersions[i%len(allVersions)], 0) || !emit("cql-random", lbl, d, allVersions[i%len(allVersions)], i) ||
			!emit("body", lbl, d, allVersions[i%len(allVersions)], []int{0, 1, 2, 3, 5, 6, 7, 8, 9, 10, 11, 12, 13, 14, 15, 16, 255}[i%17]) {
			return
		}
	}
}

// ---------------------------------------------------------------------------------------------- executing one task

var c04Codecs = map[string]frame.RawCodec{}

func c04CodecFor(flags byte) []frame.RawCodec {
	if flags&0x01 != 0 {
		return []frame.RawCodec{frame.NewRawCodecWithCompression(client.NewBodyCompressor(primitive.CompressionLz4)),
			frame.NewRawCodecWithCompression(client.NewBodyCompressor(primitive.CompressionSnappy)), frame.NewRawCodec()}
	}
	return []frame.RawCodec{frame.NewRawCodec()}
}

var cqlTypeTrees []datatype.DataType

func init() {
	udt, _ := datatype.NewUserDefined("ks", "t", []string{"a", "b"}, []datatype.DataType{datatype.Int, datatype.NewList(datatype.Varchar)})
	cqlTypeTrees = []datatype.DataType{datatype.Ascii, datatype.Bigint, datatype.Blob, datatype.Boolean, datatype.Counter, datatype.Date, datatype.Decimal,
		datatype.Double, datatype.Duration, datatype.Float, datatype.Inet, datatype.Int, datatype.Smallint, datatype.Time, datatype.Timestamp, datatype.Timeuuid,
		datatype.Tinyint, datatype.Uuid, datatype.Varchar, datatype.Varint, datatype.NewCustom("x"),
		datatype.NewList(datatype.Int), datatype.NewSet(datatype.Varchar), datatype.NewMap(datatype.Int, datatype.Varchar), datatype.NewMap(datatype.Blob, datatype.Int),
		datatype.NewMap(datatype.Inet, datatype.Int), datatype.NewMap(datatype.NewList(datatype.Int), datatype.Int), datatype.NewMap(datatype.Varint, datatype.Duration),
		datatype.NewList(datatype.NewList(datatype.Blob)), datatype.NewTuple(datatype.Int, datatype.Varchar), datatype.NewTuple(), udt,
		datatype.NewList(udt), datatype.NewMap(datatype.Varchar, datatype.NewTuple(datatype.Int, datatype.NewSet(datatype.Uuid)))}
}

var heapSample = []metrics.Sample{{Name: "/memory/classes/heap/objects:bytes"}}
var heapBaseline uint64 // live heap once the inputs are loaded

// collectIfLarge runs a collection when the previous decode left a large (wire-length-sized) buffer behind, so that the
// address-space limit is only ever reached by a single allocation no 1 MiB input can justify.
func collectIfLarge() {
	metrics.Read(heapSample)
	if heapSample[0].Value.Uint64() > heapBaseline+(512<<20) {
		runtime.GC()
	}
}

func c04Exec(t c04Task, cases []cqlCase) {
	defer collectIfLarge()
	switch t.entry {
	case "frame":
		flags := byte(0)
		if len(t.data) > 1 {
			flags = t.data[1]
		}
		for _, codec := range c04CodecFor(flags) {
			collectIfLarge()
			if f, err := codec.DecodeFrame(bytes.NewReader(t.data)); err == nil && f != nil {
				// C05's re-encode clause on mutated inputs that still decode: must not panic either
				_ = codec.EncodeFrame(f, io.Discard)
			}
			collectIfLarge()
			_, _ = codec.DecodeRawFrame(bytes.NewReader(t.data))
			collectIfLarge()
			r := bytes.NewReader(t.data)
			if h, err := codec.DecodeHeader(r); err == nil {
				pos, _ := r.Seek(0, io.SeekCurrent)
				_, _ = codec.DecodeBody(h, r)
				_, _ = r.Seek(pos, io.SeekStart)
				collectIfLarge()
				_, _ = codec.DecodeRawBody(h, r)
				collectIfLarge()
				_, _ = r.Seek(pos, io.SeekStart)
				_ = codec.DiscardBody(h, r)
				_ = codec.DiscardBody(h, nonSeekReader{bytes.NewReader(t.data[pos:])})
			}
		}
	case "body":
		if mc := msgCodecFor(primitive.OpCode(t.aux)); mc != nil {
			if m, err := mc.Decode(bytes.NewReader(t.data), t.ver); err == nil && m != nil {
				_, _ = mc.EncodedLength(m, t.ver)
				_ = mc.Encode(m, io.Discard, t.ver)
			}
		}
	case "segment":
		codec := segment.NewCodec()
		if t.aux == 1 {
			codec = segment.NewCodecWithCompression(client.NewPayloadCompressor(primitive.CompressionLz4))
		}
		_, _ = codec.DecodeSegment(bytes.NewReader(t.data))
	case "decompress":
		comp := primitive.CompressionLz4
		if t.aux == 1 {
			comp = primitive.CompressionSnappy
		}
		_ = client.NewBodyCompressor(comp).DecompressWithLength(bytes.NewReader(t.data), &bytes.Buffer{})
	case "decompress-raw":
		_ = client.NewPayloadCompressor(primitive.CompressionLz4).Decompress(bytes.NewReader(t.data), &bytes.Buffer{})
	case "primitives":
		rd := func() *bytes.Reader { return bytes.NewReader(t.data) }
		_, _ = primitive.ReadByte(rd())
		_, _ = primitive.ReadShort(rd())
		_, _ = primitive.ReadInt(rd())
		_, _ = primitive.ReadLong(rd())
		_, _ = primitive.ReadString(rd())
		_, _ = primitive.ReadLongString(rd())
		_, _ = primitive.ReadUuid(rd())
		_, _ = primitive.ReadStringList(rd())
		_, _ = primitive.ReadBytes(rd())
		_, _ = primitive.ReadShortBytes(rd())
		_, _ = primitive.ReadValue(rd(), t.ver)
		_, _ = primitive.ReadPositionalValues(rd(), t.ver)
		_, _ = primitive.ReadNamedValues(rd(), t.ver)
		_, _ = primitive.ReadInet(rd())
		_, _ = primitive.ReadInetAddr(rd())
		_, _ = primitive.ReadStringMap(rd())
		_, _ = primitive.ReadStringMultiMap(rd())
		_, _ = primitive.ReadBytesMap(rd())
		_, _ = primitive.ReadReasonMap(rd())
		_, _, _ = primitive.ReadVint(rd())
		_, _, _ = primitive.ReadUnsignedVint(rd())
		_, _ = primitive.ReadStreamId(rd(), t.ver)
		_, _ = datatype.ReadDataType(rd(), t.ver)
	case "cql", "cql-random":
		var types []datatype.DataType
		if t.entry == "cql" {
			c := cases[t.aux]
			types = c04TypesOfCase(c)
		} else {
			types = []datatype.DataType{cqlTypeTrees[t.aux%len(cqlTypeTrees)], cqlTypeTrees[(t.aux*7+3)%len(cqlTypeTrees)]}
		}
		for _, dt := range types {
			codec, err := datacodec.NewCodec(dt)
			if err != nil {
				continue
			}
			for _, v := range []primitive.ProtocolVersion{primitive.ProtocolVersion2, t.ver} {
				var x interface{}
				_, _ = codec.Decode(t.data, &x, v)
				if pt, err := datacodec.PreferredGoType(dt); err == nil {
					_, _ = codec.Decode(t.data, newOfType(pt), v)
				}
				for _, d := range c04TypedDests(dt) {
					_, _ = codec.Decode(t.data, d, v)
				}
			}
		}
	}
}

func c04TypesOfCase(c cqlCase) []datatype.DataType {
	switch c.Fam {
	case "coll":
		udt, _ := datatype.NewUserDefined("ks", "t", []string{"a", "b"}, []datatype.DataType{datatype.Int, datatype.Varchar})
		switch c.Kind {
		case "list":
			return []datatype.DataType{datatype.NewList(datatype.Int), datatype.NewList(datatype.Blob), datatype.NewSet(datatype.Varint)}
		case "set":
			return []datatype.DataType{datatype.NewSet(datatype.Int)}
		case "map":
			return []datatype.DataType{datatype.NewMap(datatype.Int, datatype.Varchar), datatype.NewMap(datatype.Blob, datatype.Blob), datatype.NewMap(datatype.Inet, datatype.NewList(datatype.Int))}
		case "tuple":
			return []datatype.DataType{datatype.NewTuple(datatype.Int, datatype.Varchar)}
		case "udt":
			return []datatype.DataType{udt}
		case "listlist":
			return []datatype.DataType{datatype.NewList(datatype.NewList(datatype.Int))}
		}
	case "decimal":
		return []datatype.DataType{datatype.Decimal}
	case "duration":
		return []datatype.DataType{datatype.Duration}
	}
	if c.Cql != "" {
		for _, dt := range cqlTypeTrees {
			if pt, ok := dt.(*datatype.PrimitiveType); ok && pt.AsCql() == c.Cql {
				return []datatype.DataType{dt}
			}
		}
	}
	return nil
}

func c04TypedDests(dt datatype.DataType) []interface{} {
	switch dt.Code() {
	case primitive.DataTypeCodeList, primitive.DataTypeCodeSet:
		return []interface{}{new([]interface{}), new([]*int32), new([3]int32), new([][]byte), new([]string)}
	case primitive.DataTypeCodeMap:
		return []interface{}{new(map[interface{}]interface{}), new(map[int32]string), new(map[string][]byte)}
	case primitive.DataTypeCodeTuple:
		return []interface{}{new([]interface{}), new([2]interface{}), new(struct {
			A int32
			B string
		})}
	case primitive.DataTypeCodeUdt:
		return []interface{}{new(map[string]interface{}), new([]interface{}), new(struct {
			A int32
			B string
		})}
	case primitive.DataTypeCodeVarint, primitive.DataTypeCodeBigint, primitive.DataTypeCodeInt, primitive.DataTypeCodeSmallint, primitive.DataTypeCodeTinyint, primitive.DataTypeCodeCounter:
		return []interface{}{new(int8), new(uint64), new(big.Int), new(string), new(int)}
	case primitive.DataTypeCodeInet:
		return []interface{}{new(net.IP), new([]byte), new(string)}
	case primitive.DataTypeCodeUuid, primitive.DataTypeCodeTimeuuid:
		return []interface{}{new(primitive.UUID), new([16]byte), new([]byte), new(string)}
	case primitive.DataTypeCodeDate, primitive.DataTypeCodeTimestamp, primitive.DataTypeCodeTime:
		return []interface{}{new(time.Time), new(int64), new(string), new(uint8), new(time.Duration)}
	}
	return nil
}

// ---------------------------------------------------------------------------------------------- worker

func loadC04Inputs(vecPath, casePath, mutPath string) (*taskSource, error) {
	ts := &taskSource{}
	if err := readNDJSON(vecPath, func(line []byte) error {
		var v wireVec
		if err := json.Unmarshal(line, &v); err != nil {
			return err
		}
		if !v.DecodeOnly {
			ts.vecs = append(ts.vecs, v)
		}
		return nil
	}); err != nil {
		return nil, err
	}
	if err := readNDJSON(casePath, func(line []byte) error {
		var c cqlCase
		if err := json.Unmarshal(line, &c); err != nil {
			return err
		}
		ts.cases = append(ts.cases, c)
		return nil
	}); err != nil {
		return nil, err
	}
	raw, err := os.ReadFile(mutPath)
	if err != nil {
		return nil, err
	}
	if err := json.Unmarshal(raw, &ts.mut); err != nil {
		return nil, err
	}
	if len(ts.vecs) == 0 || len(ts.cases) == 0 || len(ts.mut.Repl) == 0 {
		return nil, fmt.Errorf("empty inputs")
	}
	return ts, nil
}

type c04WorkerOut struct {
	Done     int64            `json:"done"`
	Executed int64            `json:"executed"`
	Panics   []Violation      `json:"panics"`
	Slow     []Violation      `json:"slow"`
	Entries  map[string]int64 `json:"entries"`
	Millis   map[string]int64 `json:"millis"`
	EnumMs   int64            `json:"enum_ms"`
}

func c04Worker(args []string) int {
	fs := flag.NewFlagSet("c04-worker", flag.ExitOnError)
	vecPath := fs.String("vec", "", "")
	casePath := fs.String("cases", "", "")
	mutPath := fs.String("mut", "", "")
	seedv := fs.Int64("seed", 1, "")
	deep := fs.Bool("deep", false, "")
	id := fs.Int("id", 0, "")
	n := fs.Int("n", 1, "")
	resume := fs.Int64("resume", 0, "first task number to execute")
	progress := fs.String("progress", "", "shared progress file")
	only := fs.Int64("only", -1, "execute just this task (replay)")
	cpuprofile := fs.String("cpuprofile", "", "write a CPU profile")
	_ = fs.Parse(args)
	if *cpuprofile != "" {
		pf, _ := os.Create(*cpuprofile)
		_ = pprof.StartCPUProfile(pf)
		defer pprof.StopCPUProfile()
	}
	ts, err := loadC04Inputs(*vecPath, *casePath, *mutPath)
	if err != nil {
		fmt.Fprintln(os.Stderr, err)
		return 2
	}
	ts.seed, ts.deep = *seedv, *deep
	// collect eagerly: inputs declaring a 2 GiB [bytes] make the decoders allocate that much before they hit EOF; the
	// address-space limit must only be reached by allocations no 1 MiB input can justify, not by uncollected garbage
	debug.SetGCPercent(300) // the live heap is the (large, pointer-rich) input set: collecting it often costs more than the decoders do
	runtime.GC()
	metrics.Read(heapSample)
	heapBaseline = heapSample[0].Value.Uint64()
	var shared []byte
	if *progress != "" {
		f, err := os.OpenFile(*progress, os.O_RDWR, 0)
		if err != nil {
			fmt.Fprintln(os.Stderr, err)
			return 2
		}
		shared, err = syscall.Mmap(int(f.Fd()), 0, 16, syscall.PROT_READ|syscall.PROT_WRITE, syscall.MAP_SHARED)
		if err != nil {
			fmt.Fprintln(os.Stderr, err)
			return 2
		}
	}
	out := c04WorkerOut{Entries: map[string]int64{}, Millis: map[string]int64{}}
	t0 := time.Now()
	var execTotal time.Duration
	var counter int64
	ts.each(func(t c04Task) bool {
		k := counter
		counter++
		if *only >= 0 {
			if k != *only {
				return k < *only
			}
		} else if k < *resume || int(k%int64(*n)) != *id {
			return true
		}
		if shared != nil {
			binary.LittleEndian.PutUint64(shared, uint64(k))
		}
		start := time.Now()
		func() {
			defer func() {
				if r := recover(); r != nil && len(out.Panics) < 500 {
					msg := fmt.Sprint(r)
					out.Panics = append(out.Panics, Violation{"c04|panic|" + t.entry + "|" + panicClass(msg), fmt.Sprintf("task %d: %s on %s: panic: %s", k, t.entry, t.label, msg),
						map[string]interface{}{"check": "c04", "task": k, "entry": t.entry, "label": t.label, "bytes": fmt.Sprintf("% x", clip(t.data, 200))}})
				}
			}()
			c04Exec(t, ts.cases)
		}()
		if d := time.Since(start); d > 30*time.Second && len(out.Slow) < 50 {
			out.Slow = append(out.Slow, Violation{"c04|slow|" + t.entry, fmt.Sprintf("task %d: %s on %s took %v for %d input bytes", k, t.entry, t.label, d, len(t.data)), map[string]interface{}{"task": k}})
		}
		out.Executed++
		out.Entries[t.entry]++
		out.Millis[t.entry] += time.Since(start).Microseconds()
		execTotal += time.Since(start)
		return *only < 0 || k < *only
	})
	out.Done = counter
	out.EnumMs = (time.Since(t0) - execTotal).Milliseconds()
	if shared != nil {
		binary.LittleEndian.PutUint64(shared, uint64(1)<<62) // finished marker
	}
	b, _ := json.Marshal(out)
	fmt.Println(string(b))
	return 0
}

func clip(b []byte, n int) []byte {
	if len(b) > n {
		return b[:n]
	}
	return b
}

// panicClass reduces a panic message to a stable class.
func panicClass(msg string) string {
	for _, k := range []string{"makeslice", "reflect.MakeSlice", "reflect.MapOf", "nil pointer", "index out of range", "slice bounds out of range", "reflect.MakeMapWithSize",
		"interface conversion", "invalid memory address", "negative", "unhashable", "reflect.Value", "reflect:"} {
		if strings.Contains(msg, k) {
			return strings.ReplaceAll(k, " ", "-")
		}
	}
	if len(msg) > 40 {
		msg = msg[:40]
	}
	return strings.ReplaceAll(msg, " ", "-")
}

// ---------------------------------------------------------------------------------------------- parent

func c04Parent(args []string) int {
	fs := flag.NewFlagSet("c04", flag.ExitOnError)
	vecPath := fs.String("vec", "", "wire vectors (ndjson)")
	casePath := fs.String("cases", "", "CqlValue cases (ndjson)")
	mutPath := fs.String("mut", "", "mutation table from WireMutate.tla (json)")
	seedv := fs.Int64("seed", 1, "seed")
	deep := fs.Bool("deep", false, "thorough tier")
	workers := fs.Int("workers", 14, "worker processes")
	memKB := fs.Int("mem-kb", 0, "address-space limit per worker in KB (0 = none; the Go runtime does not reuse freed 2 GiB spans well enough for a tight limit)")
	hang := fs.Duration("hang", 60*time.Second, "a worker that makes no progress for this long is killed")
	_ = fs.Parse(args)
	self, _ := os.Executable()
	rep := &Report{}
	var mu sync.Mutex
	entries := map[string]int64{}
	var wg sync.WaitGroup
	// once two crashes / hangs have been confirmed the verdict is settled: the remaining workers are stopped instead of
	// paying a stall timeout plus two confirmations for every further input that hits the same defect
	stop := make(chan struct{})
	confirmedFatal := 0
	for w := 0; w < *workers; w++ {
		wg.Add(1)
		go func(id int) {
			defer wg.Done()
			pf, err := os.CreateTemp("", "c04-progress-")
			if err != nil {
				return
			}
			defer os.Remove(pf.Name())
			pf.Write(make([]byte, 16))
			pf.Close()
			resume := int64(0)
			for attempt := 0; attempt < 200; attempt++ {
				limit := ""
				if *memKB > 0 {
					limit = fmt.Sprintf("ulimit -v %d; ", *memKB)
				}
				wargs := fmt.Sprintf("%sGOMAXPROCS=2 exec %q c04-worker -vec %q -cases %q -mut %q -seed %d -id %d -n %d -resume %d -progress %q", limit, self, *vecPath, *casePath, *mutPath, *seedv, id, *workers, resume, pf.Name())
				if *deep {
					wargs += " -deep"
				}
				cmd := exec.Command("bash", "-c", wargs)
				var stdout, stderr bytes.Buffer
				cmd.Stdout, cmd.Stderr = &stdout, &stderr
				if err := cmd.Start(); err != nil {
					return
				}
				done := make(chan error, 1)
				go func() { done <- cmd.Wait() }()
				readProgress := func() uint64 {
					b, _ := os.ReadFile(pf.Name())
					if len(b) < 8 {
						return 0
					}
					return binary.LittleEndian.Uint64(b)
				}
				last, lastChange := readProgress(), time.Now()
				killed := false
				var werr error
			wait:
				for {
					select {
					case werr = <-done:
						break wait
					case <-stop:
						_ = cmd.Process.Kill()
						<-done
						return
					case <-time.After(2 * time.Second):
						if p := readProgress(); p != last {
							last, lastChange = p, time.Now()
						} else if time.Since(lastChange) > *hang {
							killed = true
							_ = cmd.Process.Kill()
							werr = <-done
							break wait
						}
					}
				}
				var out c04WorkerOut
				lines := strings.Split(strings.TrimSpace(stdout.String()), "\n")
				finished := werr == nil && json.Unmarshal([]byte(lines[len(lines)-1]), &out) == nil
				mu.Lock()
				if finished {
					rep.Evaluations += int(out.Executed)
					for k, v := range out.Entries {
						entries[k] += v
					}
					for _, p := range out.Panics {
						rep.violate(p.Sig, p.Detail, p.Replay)
					}
					slow := out.Slow
					mu.Unlock()
					// a task that took more than 30 s while the machine was busy is only a verdict if it is slow on its own
					// too: twice in isolation, more than 10 s each
					for _, p := range slow {
						task := int64(p.Replay.(map[string]interface{})["task"].(float64))
						confirmed := 0
						for try := 0; try < 2; try++ {
							oargs := []string{"c04-worker", "-vec", *vecPath, "-cases", *casePath, "-mut", *mutPath, "-seed", fmt.Sprint(*seedv), "-only", fmt.Sprint(task)}
							if *deep {
								oargs = append(oargs, "-deep")
							}
							ocmd := exec.Command(self, oargs...)
							var obuf bytes.Buffer
							ocmd.Stdout = &obuf
							if ocmd.Run() != nil {
								continue
							}
							var o c04WorkerOut
							ol := strings.Split(strings.TrimSpace(obuf.String()), "\n")
							if json.Unmarshal([]byte(ol[len(ol)-1]), &o) != nil {
								continue
							}
							var us int64
							for _, m := range o.Millis {
								us += m
							}
							if us > 10*1000*1000 {
								confirmed++
							}
						}
						mu.Lock()
						if confirmed == 2 {
							rep.violate(p.Sig, p.Detail+"; slow again twice in isolation (more than 10 s each)", p.Replay)
						} else {
							rep.Notes = append(rep.Notes, fmt.Sprintf("%s - not slow in isolation (%d/2): not a verdict", p.Detail, confirmed))
						}
						mu.Unlock()
					}
					return
				}
				at := readProgress()
				first := ""
				for _, l := range strings.Split(stderr.String(), "\n") {
					if strings.HasPrefix(l, "fatal error:") || strings.HasPrefix(l, "panic:") || strings.HasPrefix(l, "runtime:") {
						first = l
						break
					}
				}
				kind := "fatal"
				if killed {
					kind, first = "hang", fmt.Sprintf("no progress for %v", *hang)
				}
				mu.Unlock()
				// a death or a stall under load is only a verdict if the task does it again on its own, twice
				confirmed := 0
				for try := 0; try < 2; try++ {
					oargs := []string{"c04-worker", "-vec", *vecPath, "-cases", *casePath, "-mut", *mutPath, "-seed", fmt.Sprint(*seedv), "-only", fmt.Sprint(at)}
					if *deep {
						oargs = append(oargs, "-deep")
					}
					ocmd := exec.Command(self, oargs...)
					var oerr bytes.Buffer
					ocmd.Stderr = &oerr
					odone := make(chan error, 1)
					if ocmd.Start() != nil {
						break
					}
					go func() { odone <- ocmd.Wait() }()
					select {
					case e := <-odone:
						if e != nil {
							confirmed++
							if first == "" {
								first = clipStr(oerr.String(), 200)
							}
						}
					case <-time.After(*hang):
						_ = ocmd.Process.Kill()
						<-odone
						confirmed++
					}
				}
				mu.Lock()
				if confirmed == 2 {
					rep.violate("c04|"+kind+"|"+panicClass(first), fmt.Sprintf("task %d: worker %s: %s; reproduced twice in isolation (replay: harness c04-worker ... -only %d)", at, kind, first, at),
						map[string]interface{}{"check": "c04", "task": at, "stderr": clipStr(stderr.String(), 1500)})
					confirmedFatal++
					if confirmedFatal == 2 {
						rep.Notes = append(rep.Notes, "two crashes / hangs confirmed: remaining inputs not explored")
						close(stop)
					}
				} else {
					rep.Notes = append(rep.Notes, fmt.Sprintf("worker %s at task %d (%s) did not reproduce in isolation (%d/2): not a verdict", kind, at, first, confirmed))
				}
				mu.Unlock()
				select {
				case <-stop:
					return
				default:
				}
				resume = int64(at) + 1
			}
		}(w)
	}
	wg.Wait()
	rep.Distinct = len(entries)*1000 + 1 // entry points covered; real count below
	rep.Extra = map[string]interface{}{"tasks_per_entry_point": entries}
	n := 0
	for range entries {
		n++
	}
	rep.Distinct = rep.Evaluations
	rep.Samples = append(rep.Samples, map[string]interface{}{"entry": "frame", "mutation": "field (count32 result.rows.count) := ff ff ff ff"},
		map[string]interface{}{"entry": "cql", "mutation": "list<int> element count := 7f ff ff ff, decoded into *interface{}"})
	return rep.print()
}

func clipStr(s string, n int) string {
	if len(s) > n {
		return s[:n]
	}
	return s
}

func newOfType(t reflect.Type) interface{} { return reflect.New(t).Interface() }

// structuredRandom builds n bytes as a sequence of random protocol-like fields.
func structuredRandom(rnd *rand.Rand, n int) []byte {
	out := make([]byte, 0, n+8)
	small := []int32{-2, -1, 0, 1, 2, 3, 4, 5, 8, 16, 17, 32, 63}
	for len(out) < n {
		switch k := rnd.Intn(10); {
		case k < 3:
			v := small[rnd.Intn(len(small))]
			out = append(out, byte(v>>24), byte(v>>16), byte(v>>8), byte(v))
		case k < 5:
			v := rnd.Intn(20)
			out = append(out, byte(v>>8), byte(v))
		case k < 6:
			// a random word, usually below 2^16 and rarely above 2^24 (see the comment at the call site)
			w := []byte{byte(rnd.Intn(256)), byte(rnd.Intn(256)), byte(rnd.Intn(256)), byte(rnd.Intn(256))}
			if p := rnd.Intn(100); p < 80 {
				w[0], w[1] = 0, 0
			} else if p < 98 {
				w[0] = 0
			}
			out = append(out, w...)
		default:
			for j := 1 + rnd.Intn(6); j > 0; j-- {
				out = append(out, byte(rnd.Intn(256)))
			}
		}
	}
	return out[:n]
}

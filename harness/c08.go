package main

import (
	"bytes"
	"encoding/json"
	"flag"
	"fmt"
	"math/rand"
	"os"
	"strings"
	"sync"

	"github.com/datastax/go-cassandra-native-protocol/client"
	"github.com/datastax/go-cassandra-native-protocol/frame"
	"github.com/datastax/go-cassandra-native-protocol/message"
	"github.com/datastax/go-cassandra-native-protocol/primitive"
	"github.com/datastax/go-cassandra-native-protocol/segment"
	"github.com/golang/snappy"
)

func init() { subcommands["c08"] = c08 }

type genDesc struct {
	Algo    string `json:"algo"`
	Format  string `json:"format"`
	Size    int    `json:"size"`
	Content struct {
		Class string `json:"class"`
		P     int    `json:"p"`
		R     int    `json:"r"`
	} `json:"content"`
}

func (d genDesc) String() string {
	s := fmt.Sprintf("%s/%s/%d/%s", d.Algo, d.Format, d.Size, d.Content.Class)
	if d.Content.P > 0 {
		s += fmt.Sprintf("(p=%d)", d.Content.P)
	}
	if d.Content.R > 0 {
		s += fmt.Sprintf("(r=%d)", d.Content.R)
	}
	return s
}

func materialise(d genDesc, rnd *rand.Rand) []byte {
	switch d.Content.Class {
	case "period":
		b := make([]byte, d.Size)
		pat := make([]byte, d.Content.P)
		rnd.Read(pat)
		for i := range b {
			b[i] = pat[i%len(pat)]
		}
		return b
	case "ratio":
		b := make([]byte, d.Size)
		for i := 0; i < d.Size; i += d.Content.R {
			b[i] = byte(1 + rnd.Intn(255))
		}
		return b
	}
	return contentOf(d.Content.Class, d.Size, rnd)
}

// snappyDependencyRoundTrips is the analogue of lz4DependencyRoundTrips for the Snappy dependency.
func snappyDependencyRoundTrips(payload []byte) bool {
	out, err := snappy.Decode(nil, snappy.Encode(nil, payload))
	return err == nil && bytes.Equal(out, payload)
}

func c08(args []string) int {
	fs := flag.NewFlagSet("c08", flag.ExitOnError)
	genPath := fs.String("gen", "", "generator descriptors from CompressLattice.tla (ndjson)")
	seedv := fs.Int64("seed", 1, "seed")
	_ = fs.Parse(args)
	var descs []genDesc
	if err := readNDJSON(*genPath, func(line []byte) error {
		var d genDesc
		if err := json.Unmarshal(line, &d); err != nil {
			return err
		}
		descs = append(descs, d)
		return nil
	}); err != nil || len(descs) == 0 {
		fmt.Fprintln(os.Stderr, "descriptors:", err)
		return 2
	}
	rep := &Report{}
	var mu sync.Mutex
	distinct := map[string]bool{}
	var wg sync.WaitGroup
	work := make(chan int, 64)
	for w := 0; w < 12; w++ {
		wg.Add(1)
		go func() {
			defer wg.Done()
			for i := range work {
				d := descs[i]
				rnd := rand.New(rand.NewSource(*seedv*1000003 + int64(i)))
				data := materialise(d, rnd)
				sig, problem := c08One(d, data)
				mu.Lock()
				rep.Evaluations++
				rp := map[string]interface{}{"check": "c08", "desc": d, "seed": *seedv*1000003 + int64(i)}
				if problem != "" {
					depOK := true
					if d.Algo == "lz4" {
						depOK = lz4DependencyRoundTrips(data)
					} else {
						depOK = snappyDependencyRoundTrips(data)
					}
					if strings.HasSuffix(sig, "(dependency)") {
						depOK = false
					}
					if !depOK && sig != "panic" {
						rep.violate("c08|"+d.Algo+"-dependency-corrupts-block", d.String()+": "+sig+": "+problem+" (the compression library itself does not reproduce this input)", rp)
					} else {
						rep.violate("c08|"+d.Algo+"|"+d.Format+"|"+sig, d.String()+": "+problem, rp)
					}
				} else {
					distinct[d.String()] = true
				}
				if len(rep.Samples) < 4 && i%997 == 0 {
					rep.Samples = append(rep.Samples, d)
				}
				mu.Unlock()
			}
		}()
	}
	for i := range descs {
		work <- i
	}
	close(work)
	wg.Wait()
	rep.Distinct = len(distinct)
	return rep.print()
}

func c08One(d genDesc, data []byte) (sig, problem string) {
	defer func() {
		if r := recover(); r != nil {
			sig, problem = "panic", fmt.Sprint(r)
		}
	}()
	comp := primitive.CompressionLz4
	if d.Algo == "snappy" {
		comp = primitive.CompressionSnappy
	}
	if d.Format == "body" {
		bc := client.NewBodyCompressor(comp)
		var compressed, out bytes.Buffer
		if err := bc.CompressWithLength(bytes.NewBuffer(append([]byte{}, data...)), &compressed); err != nil {
			return "compress-error", err.Error()
		}
		if err := bc.DecompressWithLength(bytes.NewReader(compressed.Bytes()), &out); err != nil {
			return "decompress-error", fmt.Sprintf("%v (compressed to %d bytes)", err, compressed.Len())
		}
		if !bytes.Equal(out.Bytes(), data) {
			return "not-lossless", fmt.Sprintf("decompressed %d bytes differ from the %d-byte input", out.Len(), len(data))
		}
		// a frame encoded with compression decodes to the same content as one encoded without
		if d.Size <= 1<<20 {
			v := primitive.ProtocolVersion4
			mk := func() *frame.Frame {
				return frame.NewFrame(v, 7, &message.RowsResult{Metadata: &message.RowsMetadata{ColumnCount: 1},
					Data: message.RowSet{message.Row{message.Column(data)}}})
			}
			plainCodec, compCodec := frame.NewCodec(), frame.NewCodecWithCompression(bc)
			var b1, b2 bytes.Buffer
			f2 := mk()
			f2.SetCompress(true)
			if err := plainCodec.EncodeFrame(mk(), &b1); err != nil {
				return "frame-encode-error", err.Error()
			}
			if err := compCodec.EncodeFrame(f2, &b2); err != nil {
				return "frame-encode-error", err.Error()
			}
			d1, err := plainCodec.DecodeFrame(&b1)
			if err != nil {
				return "frame-decode-error", err.Error()
			}
			d2, err := compCodec.DecodeFrame(&b2)
			if err != nil {
				return "frame-decode-error", "compressed frame: " + err.Error()
			}
			r1, r2 := d1.Body.Message.(*message.RowsResult), d2.Body.Message.(*message.RowsResult)
			if len(r1.Data) != 1 || len(r2.Data) != 1 || !bytes.Equal(r1.Data[0][0], r2.Data[0][0]) || !bytes.Equal(r2.Data[0][0], data) {
				// what went into the compressor is the whole uncompressed body, not just the column
				var body bytes.Buffer
				_ = plainCodec.EncodeFrame(mk(), &body)
				raw := body.Bytes()[v.FrameHeaderLengthInBytes():]
				if (d.Algo == "lz4" && !lz4DependencyRoundTrips(raw)) || (d.Algo == "snappy" && !snappyDependencyRoundTrips(raw)) {
					return "frame-content-differs(dependency)", "frame decoded with compression differs from the one decoded without"
				}
				return "frame-content-differs", "frame decoded with compression differs from the one decoded without"
			}
		}
		return "", ""
	}
	pc := client.NewPayloadCompressor(comp)
	var compressed, out bytes.Buffer
	if err := pc.Compress(bytes.NewBuffer(append([]byte{}, data...)), &compressed); err != nil {
		return "compress-error", err.Error()
	}
	if err := pc.Decompress(bytes.NewReader(compressed.Bytes()), &out); err != nil {
		return "decompress-error", fmt.Sprintf("%v (compressed to %d bytes)", err, compressed.Len())
	}
	if !bytes.Equal(out.Bytes(), data) {
		return "not-lossless", fmt.Sprintf("decompressed %d bytes differ from the %d-byte input", out.Len(), len(data))
	}
	// a segment encoded with compression decodes to the same content as one encoded without
	for _, codec := range []segment.Codec{segment.NewCodec(), segment.NewCodecWithCompression(pc)} {
		enc, err := encodeSeg(codec, data, true)
		if err != nil {
			return "segment-encode-error", err.Error()
		}
		dec, err := codec.DecodeSegment(bytes.NewReader(enc))
		if err != nil {
			return "segment-decode-error", err.Error()
		}
		if !bytes.Equal(dec.Payload.UncompressedData, data) {
			return "segment-content-differs", "segment payload differs after decode"
		}
	}
	return "", ""
}

package main

import (
	"fmt"
	"os"
)

type subcommand func(args []string) int

var subcommands = map[string]subcommand{}

func main() {
	if len(os.Args) < 2 {
		fmt.Fprintln(os.Stderr, "usage: harness <subcommand> [args]")
		os.Exit(2)
	}
	cmd, ok := subcommands[os.Args[1]]
	if !ok {
		fmt.Fprintf(os.Stderr, "unknown subcommand %q\n", os.Args[1])
		os.Exit(2)
	}
	os.Exit(cmd(os.Args[2:]))
}
